(* C01Proofs.v -- the transition selection of the interpreter model (Interp.select_transitions,
   the model of sismic Interpreter._select_transitions + utilities.sorted_groupby) computes
   exactly the documented declarative rule: eventless transitions first; inner-first (a
   transition whose source is a strict descendant wins over the transitions of its ancestors);
   highest priority first within one source state.

   STATUS: complete, nothing weakened, no axioms (see the Print Assumptions at the end).

   Declarative rule (definitions below; i = interpreter state, ev = pending event, cfg = ANY
   list of state names, it ranges over itransitions sc):
     guard_val i it exposed   value of the guard of it when `event` is bound to exposed
     active cfg it            the source of it is in cfg
     enabled0 i cfg it        active, eventless, guard_val i it None = Some true
     enabled1 i ev cfg it     active, ev = Some e, t_event = Some (e_name e),
                              guard_val i it (Some e) = Some true
     some_eventless i cfg     some transition of the chart is enabled0
     comp i ev cfg it         (some_eventless /\ enabled0 it) \/ (~ some_eventless /\ enabled1 it)
     inner it' it             source of it is a strict ancestor of the source of it'
     fires i ev cfg it        it is in the chart, comp it, no comp it' with inner it' it, and no
                              comp it' with the same source and a strictly higher priority

   Only hypothesis (Section Hypothesis Hanc, discharged by the checker anc_depth_okb):
     forall a b, In b (ancestors_for sc a) -> depth_for sc b < depth_for sc a.

   Main results:
     C01_selection      select_transitions ... ev cfg s = (s', inl sel) ->
                          (forall it, In it sel <-> fires (m_i s) ev cfg it) /\ NoDup sel
                          /\ (m_i s' = m_i s /\ m_x s' = m_x s)
     C01_guard_view     every observation appended to the trace is the evaluation of the guard
                        of an active transition of the chart, with event = None for eventless
                        transitions and event = ev for the others (and the exact call/result)
     C01_guard_error    an error result is ECode CGuard (OTrans i) 0 for a considered transition
                        whose guard cannot be evaluated; m_i, m_x unchanged  (needs no hypothesis)
     C01_empty          nothing selected -> nothing competes
     C01_consumption    compute_steps (initialized): the steps are built from a permutation of the
                        firing transitions; they carry the pending event iff no eventless
                        transition is enabled (otherwise they carry None)
     C01_selection_checked   C01_selection with Hanc replaced by anc_depth_okb sc = true
   Loop invariants: eval_guards_ok, sel_priorities_ok, sel_sources_ok, sel_depths_ok (via the
   declarative step relation Spec and its composition lemma spec_compose), selE_phases. *)
From Coq Require Import String List Bool ZArith Sorted Permutation Lia.
From Sismic Require Import Base Chart Interp.
From SismicProofs Require Import SortLib.
Import ListNotations.
Open Scope list_scope.

Lemma perm_In_iff : forall {A} (a b : list A), Permutation a b -> forall x, In x a <-> In x b.
Proof.
  intros A a b HP x; split; apply Permutation_in; [exact HP|apply Permutation_sym; exact HP].
Qed.

Lemma In_concat_groups : forall {K A} (gs : list (K * list A)) (x : A),
  In x (concat (map snd gs)) <-> exists k vs, In (k, vs) gs /\ In x vs.
Proof.
  intros K A gs x. rewrite in_concat. split.
  - intros [vs [Hvs Hx]]. apply in_map_iff in Hvs. destruct Hvs as [[k vs'] [Heq Hin]].
    simpl in Heq; subst vs'. exists k, vs. split; assumption.
  - intros [k [vs [Hin Hx]]]. exists vs. split; [|exact Hx].
    change vs with (snd (k, vs)). apply in_map; exact Hin.
Qed.

Section C01.
  Variable ctx : Type.
  Variable X : Type.
  Variable exec_code : call ctx -> ctx -> option (ctx * list event).
  Variable eval_code : call ctx -> ctx -> option bool.
  Variable emit : Z -> meta -> X -> X * option err.
  Variable sc : chart.

  Notation st := (mstate ctx X).
  Notation evalG := (eval_guards ctx X eval_code sc).
  Notation selP := (sel_priorities ctx X eval_code sc).
  Notation selS := (sel_sources ctx X eval_code sc).
  Notation selD := (sel_depths ctx X eval_code sc).
  Notation selE := (sel_eventness ctx X eval_code sc).
  Notation select := (select_transitions ctx X eval_code sc).
  Notation anc := (ancestors_for sc).
  Notation depth := (depth_for sc).

  Definition src (it : itrans) : name := t_source (snd it).
  Definition prio (it : itrans) : Z := t_priority (snd it).

  (* ---------------------------------------------------------------- the monad *)
  Lemma bind_inl : forall {A B} (m : M ctx X A) (f : A -> M ctx X B) s s' b,
    bind ctx X m f s = (s', inl b) ->
    exists s1 a, m s = (s1, inl a) /\ f a s1 = (s', inl b).
  Proof.
    intros A B m f s s' b H. unfold bind in H.
    destruct (m s) as [s1 [a|e]]; [|discriminate]. exists s1, a. split; [reflexivity|exact H].
  Qed.

  Lemma bind_inr : forall {A B} (m : M ctx X A) (f : A -> M ctx X B) s s' e,
    bind ctx X m f s = (s', inr e) ->
    m s = (s', inr e) \/ exists s1 a, m s = (s1, inl a) /\ f a s1 = (s', inr e).
  Proof.
    intros A B m f s s' e H. unfold bind in H.
    destruct (m s) as [s1 [a|e1]].
    - right. exists s1, a. split; [reflexivity|exact H].
    - left. inversion H; subst. reflexivity.
  Qed.

  Lemma ret_inl : forall {A} (a b : A) (s s' : st), ret ctx X a s = (s', inl b) -> s' = s /\ b = a.
  Proof. intros A a b s s' H. unfold ret in H. inversion H. split; reflexivity. Qed.

  (* ---------------------------------------------------------------- guards are pure *)
  (* the value of the guard of a transition in interpreter state i when `event` is bound to
     `exposed`: a function of the interpreter state only *)
  Definition guard_val (i : istate ctx) (it : itrans) (exposed : option event) : option bool :=
    match t_guard (snd it) with
    | None => Some true
    | Some g => eval_code (mk_call ctx sc i CGuard (OTrans (fst it)) 0 (Some g) exposed) (i_ctx i)
    end.

  Definition gtrue (i : istate ctx) (exposed : option event) (it : itrans) : bool :=
    match guard_val i it exposed with Some true => true | _ => false end.

  (* the observation left in the trace by the evaluation of the guard of `it` *)
  Definition guard_obs (i : istate ctx) (exposed : option event) (it : itrans) (o : obs ctx) : Prop :=
    exists g, t_guard (snd it) = Some g
              /\ o = ObEval (mk_call ctx sc i CGuard (OTrans (fst it)) 0 (Some g) exposed)
                            (guard_val i it exposed).

  Definition Qobs (i : istate ctx) (exposed : option event) (ts : list itrans) (o : obs ctx) : Prop :=
    exists it, In it ts /\ guard_obs i exposed it o.

  (* what a selection loop may do to the state: only append observations satisfying Q *)
  Definition post (Q : obs ctx -> Prop) (s s' : st) : Prop :=
    m_i s' = m_i s /\ m_x s' = m_x s /\ exists new, m_tr s' = new ++ m_tr s /\ Forall Q new.

  Lemma post_refl : forall Q s, post Q s s.
  Proof.
    intros Q s. split; [reflexivity|]. split; [reflexivity|]. exists []. split; [reflexivity|constructor].
  Qed.

  Lemma post_trans : forall Q s1 s2 s3, post Q s1 s2 -> post Q s2 s3 -> post Q s1 s3.
  Proof.
    intros Q s1 s2 s3 (Hi1 & Hx1 & n1 & Ht1 & Hf1) (Hi2 & Hx2 & n2 & Ht2 & Hf2).
    split; [congruence|]. split; [congruence|]. exists (n2 ++ n1). split.
    - rewrite Ht2, Ht1, app_assoc. reflexivity.
    - apply Forall_app. split; assumption.
  Qed.

  Lemma post_weaken : forall (Q Q' : obs ctx -> Prop) s s',
    (forall o, Q o -> Q' o) -> post Q s s' -> post Q' s s'.
  Proof.
    intros Q Q' s s' Himp (Hi & Hx & n & Ht & Hf).
    split; [exact Hi|]. split; [exact Hx|]. exists n. split; [exact Ht|].
    eapply Forall_impl; [|exact Hf]. exact Himp.
  Qed.

  Lemma Qobs_incl : forall i exposed ts ts' o,
    (forall it, In it ts -> In it ts') -> Qobs i exposed ts o -> Qobs i exposed ts' o.
  Proof. intros i exposed ts ts' o Hincl [it [Hin Ho]]. exists it. split; [apply Hincl; exact Hin|exact Ho]. Qed.

  (* evaluation of one guard *)
  Definition gstep (exposed : option event) (it : itrans) : M ctx X bool :=
    match t_guard (snd it) with
    | None => ret ctx X true
    | Some g => eval_cond ctx X eval_code sc CGuard (OTrans (fst it)) 0 g exposed
    end.

  Lemma gstep_inl : forall exposed it s s' ok,
    gstep exposed it s = (s', inl ok) ->
    guard_val (m_i s) it exposed = Some ok /\ post (Qobs (m_i s) exposed [it]) s s'.
  Proof.
    intros exposed it s s' ok H. unfold gstep in H. unfold guard_val.
    destruct (t_guard (snd it)) as [g|] eqn:Eg.
    - unfold eval_cond, bind, get in H.
      destruct (eval_code (mk_call ctx sc (m_i s) CGuard (OTrans (fst it)) 0 (Some g) exposed)
                          (i_ctx (m_i s))) as [b|] eqn:Ev; simpl in H; [|discriminate].
      inversion H; subst. split; [reflexivity|].
      split; [reflexivity|]. split; [reflexivity|]. simpl.
      eexists [_]. split; [reflexivity|]. constructor; [|constructor].
      exists it. split; [left; reflexivity|]. exists g. split; [exact Eg|].
      unfold guard_val. rewrite Eg, Ev. reflexivity.
    - apply ret_inl in H. destruct H as [-> ->]. split; [reflexivity|apply post_refl].
  Qed.

  Lemma gstep_inr : forall exposed it s s' e,
    gstep exposed it s = (s', inr e) ->
    guard_val (m_i s) it exposed = None /\ e = ECode CGuard (OTrans (fst it)) 0
    /\ post (Qobs (m_i s) exposed [it]) s s'.
  Proof.
    intros exposed it s s' e H. unfold gstep in H. unfold guard_val.
    destruct (t_guard (snd it)) as [g|] eqn:Eg.
    - unfold eval_cond, bind, get in H.
      destruct (eval_code (mk_call ctx sc (m_i s) CGuard (OTrans (fst it)) 0 (Some g) exposed)
                          (i_ctx (m_i s))) as [b|] eqn:Ev; simpl in H; [discriminate|].
      inversion H; subst. split; [reflexivity|]. split; [reflexivity|].
      split; [reflexivity|]. split; [reflexivity|]. simpl.
      eexists [_]. split; [reflexivity|]. constructor; [|constructor].
      exists it. split; [left; reflexivity|]. exists g. split; [exact Eg|].
      unfold guard_val. rewrite Eg, Ev. reflexivity.
    - unfold ret in H. discriminate.
  Qed.

  (* ---------------------------------------------------------------- loop 1: eval_guards *)
  Lemma eval_guards_ok : forall exposed ts s s' r,
    evalG exposed ts s = (s', inl r) ->
    r = filter (gtrue (m_i s) exposed) ts /\ post (Qobs (m_i s) exposed ts) s s'.
  Proof.
    intros exposed ts; induction ts as [|it ts IH]; intros s s' r H; simpl in H.
    - apply ret_inl in H. destruct H as [-> ->]. split; [reflexivity|apply post_refl].
    - apply bind_inl in H. destruct H as (s1 & ok & H1 & H).
      apply bind_inl in H. destruct H as (s2 & r2 & H2 & H).
      apply ret_inl in H. destruct H as [-> ->].
      apply gstep_inl in H1. destruct H1 as [Hv Hp1].
      apply IH in H2. destruct H2 as [Hr Hp2].
      assert (Hi : m_i s1 = m_i s) by apply Hp1. rewrite Hi in Hr, Hp2.
      split.
      + simpl. unfold gtrue at 1. rewrite Hv. destruct ok; rewrite Hr; reflexivity.
      + eapply post_trans.
        * eapply post_weaken; [|exact Hp1]. intros o. apply Qobs_incl.
          intros x [<-|[]]. left; reflexivity.
        * eapply post_weaken; [|exact Hp2]. intros o. apply Qobs_incl.
          intros x Hx. right; exact Hx.
  Qed.

  (* ---------------------------------------------------------------- loop 2: sel_priorities *)
  (* the enabled members of ts with the highest priority *)
  Definition best (i : istate ctx) (exposed : option event) (ts : list itrans) (it : itrans) : Prop :=
    In it ts /\ gtrue i exposed it = true
    /\ forall it', In it' ts -> gtrue i exposed it' = true -> (prio it' <= prio it)%Z.

  Lemma sel_priorities_ok : forall exposed gs s s' r,
    selP exposed gs s = (s', inl r) ->
    StronglySorted (fun a b => (fst b < fst a)%Z) gs ->
    (forall k vs, In (k, vs) gs -> forall it, In it vs -> prio it = k) ->
    (forall it, In it r <-> best (m_i s) exposed (concat (map snd gs)) it)
    /\ (r = [] -> forall it, In it (concat (map snd gs)) -> gtrue (m_i s) exposed it = false)
    /\ msub r (concat (map snd gs))
    /\ post (Qobs (m_i s) exposed (concat (map snd gs))) s s'.
  Proof.
    intros exposed gs; induction gs as [|[k vs] gs IH]; intros s s' r H Hs Hk; simpl in H.
    - apply ret_inl in H. destruct H as [-> ->]. simpl.
      split; [intros it; split; [intros []|intros [[] _]]|].
      split; [intros _ it []|]. split; [apply msub_nil|apply post_refl].
    - apply bind_inl in H. destruct H as (s1 & r1 & H1 & H).
      apply eval_guards_ok in H1. destruct H1 as [Hr1 Hp1].
      assert (Hi : m_i s1 = m_i s) by apply Hp1.
      inversion Hs as [|g gs' Hs' Hall]; subst g gs'.
      simpl. destruct r1 as [|x r1].
      + (* nothing in this class *)
        apply IH in H; [|exact Hs'|intros k' vs' Hin; apply Hk; right; exact Hin].
        rewrite Hi in H. destruct H as (Hr & Hnil & Hsub & Hp).
        symmetry in Hr1. rewrite filter_nil_iff in Hr1.
        split; [|split; [|split]].
        * intros it. rewrite Hr. unfold best. rewrite in_app_iff. split.
          -- intros (Hin & Hg & Hmax). split; [right; exact Hin|]. split; [exact Hg|].
             intros it' Hin' Hg'. apply in_app_or in Hin'. destruct Hin' as [Hin'|Hin'].
             ++ rewrite (Hr1 it' Hin') in Hg'. discriminate.
             ++ apply Hmax; assumption.
          -- intros ([Hin|Hin] & Hg & Hmax).
             ++ rewrite (Hr1 it Hin) in Hg. discriminate.
             ++ split; [exact Hin|]. split; [exact Hg|]. intros it' Hin' Hg'. apply Hmax; [|exact Hg'].
                apply in_or_app; right; exact Hin'.
        * intros Hr0 it Hin. apply in_app_or in Hin. destruct Hin as [Hin|Hin].
          -- apply Hr1; exact Hin.
          -- apply Hnil; assumption.
        * apply msub_app_r; exact Hsub.
        * eapply post_trans.
          -- eapply post_weaken; [|exact Hp1]. intros o. apply Qobs_incl.
             intros y Hy. apply in_or_app; left; exact Hy.
          -- eapply post_weaken; [|exact Hp]. intros o. apply Qobs_incl.
             intros y Hy. apply in_or_app; right; exact Hy.
      + (* this class yields the result *)
        apply ret_inl in H. destruct H as [-> ->].
        assert (Hx : In x vs /\ gtrue (m_i s) exposed x = true).
        { apply filter_In. rewrite <- Hr1. left; reflexivity. }
        destruct Hx as [Hxin Hxg].
        assert (Hrest : forall it', In it' (concat (map snd gs)) -> (prio it' < k)%Z).
        { intros it' Hin'. apply In_concat_groups in Hin'. destruct Hin' as (k' & vs' & Hg' & Hin').
          rewrite (Hk k' vs' (or_intror Hg') it' Hin').
          rewrite Forall_forall in Hall. apply (Hall (k', vs') Hg'). }
        assert (Hhere : forall it', In it' vs -> prio it' = k).
        { intros it' Hin'. apply (Hk k vs (or_introl eq_refl)); exact Hin'. }
        split; [|split; [|split]].
        * intros it. rewrite Hr1, filter_In. unfold best. rewrite in_app_iff. split.
          -- intros [Hin Hg]. split; [left; exact Hin|]. split; [exact Hg|].
             intros it' Hin' Hg'. rewrite (Hhere it Hin). apply in_app_or in Hin'.
             destruct Hin' as [Hin'|Hin'].
             ++ rewrite (Hhere it' Hin'). lia.
             ++ specialize (Hrest it' Hin'). lia.
          -- intros ([Hin|Hin] & Hg & Hmax).
             ++ split; assumption.
             ++ exfalso. specialize (Hrest it Hin).
                assert (Hle : (prio x <= prio it)%Z).
                { apply Hmax; [apply in_or_app; left; exact Hxin|exact Hxg]. }
                rewrite (Hhere x Hxin) in Hle. lia.
        * discriminate.
        * rewrite Hr1. apply msub_app_l. apply msub_filter.
        * eapply post_weaken; [|exact Hp1]. intros o. apply Qobs_incl.
          intros y Hy. apply in_or_app; left; exact Hy.
  Qed.

  (* the instance used by sel_sources *)
  Lemma sel_priorities_sgb : forall exposed ts s s' r,
    selP exposed (sorted_groupby (fun it => t_priority (snd it)) Z.eqb Z.leb true ts) s = (s', inl r) ->
    (forall it, In it r <-> best (m_i s) exposed ts it)
    /\ (r = [] -> forall it, In it ts -> gtrue (m_i s) exposed it = false)
    /\ msub r ts
    /\ post (Qobs (m_i s) exposed ts) s s'.
  Proof.
    intros exposed ts s s' r H.
    pose proof (sorted_groupby_concat (fun it : itrans => t_priority (snd it)) Z.eqb Z.leb true ts) as HP.
    apply sel_priorities_ok in H.
    - destruct H as (Hr & Hnil & Hsub & Hp).
      pose proof (perm_In_iff _ _ HP) as Hiff.
      split; [|split; [|split]].
      + intros it. rewrite Hr. unfold best. rewrite Hiff. split.
        * intros (H1 & H2 & H3). split; [exact H1|]. split; [exact H2|].
          intros it' Hin'. apply H3. apply Hiff; exact Hin'.
        * intros (H1 & H2 & H3). split; [exact H1|]. split; [exact H2|].
          intros it' Hin'. apply H3. apply Hiff; exact Hin'.
      + intros Hr0 it Hin. apply Hnil; [exact Hr0|]. apply Hiff; exact Hin.
      + eapply msub_perm_r; [exact Hsub|exact HP].
      + eapply post_weaken; [|exact Hp]. intros o. apply Qobs_incl. intros y. apply Hiff.
    - eapply StronglySorted_impl;
        [|apply (sorted_groupby_sorted _ _ Z_eqb_spec Z.leb Z_leb_total Z_leb_trans)].
      intros a b Hlt. apply Z_glab_lt_true in Hlt. exact Hlt.
    - intros k vs Hin it Hit.
      apply (sorted_groupby_group _ _ Z_eqb_spec) in Hin. destruct Hin as [-> _].
      apply (In_grp _ _ Z_eqb_spec) in Hit. destruct Hit as [_ Hit]. exact Hit.
  Qed.

  (* ---------------------------------------------------------------- the state tree *)
  (* The only well-formedness assumption: an ancestor is strictly less deep.  (See
     anc_depth_okb below for a boolean checker.) *)
  Hypothesis Hanc : forall a b, In b (anc a) -> (depth b < depth a)%Z.

  Lemma anc_irrefl : forall a, ~ In a (anc a).
  Proof. intros a H. apply (Hanc a a) in H. lia. Qed.

  Lemma fuel_length : forall f p, length (ancestors_fuel sc f p) <= f.
  Proof.
    induction f as [|f IH]; intros p; simpl; [apply le_n|].
    destruct (truthy p) as [q|]; simpl; [|apply Nat.le_0_l]. apply le_n_S. apply IH.
  Qed.

  Lemma fuel_firstn : forall f' f p,
    f' <= f -> ancestors_fuel sc f' p = firstn f' (ancestors_fuel sc f p).
  Proof.
    induction f' as [|f' IH]; intros f p Hle; simpl; [reflexivity|].
    destruct f as [|f]; [lia|]. simpl.
    destruct (truthy p) as [q|]; [|reflexivity]. simpl. f_equal. apply IH. lia.
  Qed.

  Lemma anc_trans_aux : forall f n,
    f <= length (c_parent sc) -> length (anc n) <= f ->
    forall b c, In b (ancestors_fuel sc f (parent_for sc n)) -> In c (anc b) ->
                In c (ancestors_fuel sc f (parent_for sc n)).
  Proof.
    induction f as [|f IH]; intros n Hf Hlen b c Hb Hc; simpl in Hb; [destruct Hb|].
    simpl. destruct (truthy (parent_for sc n)) as [q|] eqn:Eq; [|destruct Hb].
    assert (Hq : In q (anc n)).
    { unfold ancestors_for. destruct (length (c_parent sc)) as [|N]; [lia|].
      simpl. rewrite Eq. left; reflexivity. }
    assert (Hlenq : length (anc q) <= f).
    { apply Hanc in Hq. unfold depth_for in Hq. lia. }
    assert (Heq : ancestors_fuel sc f (parent_for sc q) = anc q).
    { unfold ancestors_for. rewrite (fuel_firstn f (length (c_parent sc))); [|lia].
      apply firstn_all2. exact Hlenq. }
    destruct Hb as [<-|Hb].
    - right. rewrite Heq. exact Hc.
    - right. apply (IH q) with (b := b); [lia|exact Hlenq|exact Hb|exact Hc].
  Qed.

  (* ancestors_for is transitive in a tree *)
  Lemma anc_trans : forall a b c, In b (anc a) -> In c (anc b) -> In c (anc a).
  Proof.
    intros a b c Hb Hc. unfold ancestors_for at 1.
    apply (anc_trans_aux (length (c_parent sc)) a (le_n _)) with (b := b).
    - apply fuel_length.
    - exact Hb.
    - exact Hc.
  Qed.

  (* ---------------------------------------------------------------- declarative step relation *)
  Section Spec.
    Variable i : istate ctx.
    Variable exposed : option event.

    Definition closed (ign : list name) : Prop :=
      forall n m, In n ign -> In m (anc n) -> In m ign.

    (* `it` wins among the candidates T: its guard holds, its source is not yet ignored, no
       enabled candidate of the same source has a higher priority, and no enabled candidate
       sits on a strict descendant of its source *)
    Definition Win (T : list itrans) (ign : list name) (it : itrans) : Prop :=
      gtrue i exposed it = true
      /\ ~ In (src it) ign
      /\ (forall it', In it' T -> src it' = src it -> gtrue i exposed it' = true ->
                      (prio it' <= prio it)%Z)
      /\ ~ (exists it', In it' T /\ gtrue i exposed it' = true /\ In (src it) (anc (src it'))).

    (* n is an ancestor-or-self of the source of an enabled candidate *)
    Definition Up (T : list itrans) (n : name) : Prop :=
      exists it, In it T /\ gtrue i exposed it = true /\ (n = src it \/ In n (anc (src it))).

    Definition Spec (T : list itrans) (selected : list itrans) (ignored : list name)
               (sel' : list itrans) (ign' : list name) : Prop :=
      exists extra,
        sel' = selected ++ extra
        /\ msub extra T
        /\ (forall it, In it extra <-> In it T /\ Win T ignored it)
        /\ (forall n, In n ign' <-> In n ignored \/ Up T n)
        /\ (extra = [] -> ignored = [] ->
            ign' = [] /\ forall it, In it T -> gtrue i exposed it = false).

    Definition sep (T1 T2 : list itrans) : Prop :=
      forall it1 it2, In it1 T1 -> In it2 T2 ->
                      src it1 <> src it2 /\ ~ In (src it1) (anc (src it2)).

    Lemma spec_closed : forall T a b a' b', Spec T a b a' b' -> closed b -> closed b'.
    Proof.
      intros T a b a' b' (extra & _ & _ & _ & Hign & _) Hcl n m Hn Hm.
      apply Hign in Hn. apply Hign. destruct Hn as [Hn|(it & Hin & Hg & Hn)].
      - left. eapply Hcl; eassumption.
      - right. exists it. split; [exact Hin|]. split; [exact Hg|]. right.
        destruct Hn as [->|Hn]; [exact Hm|]. eapply anc_trans; eassumption.
    Qed.

    Lemma spec_perm : forall T T' a b a' b',
      Permutation T T' -> Spec T a b a' b' -> Spec T' a b a' b'.
    Proof.
      intros T T' a b a' b' HP (extra & Hsel & Hsub & Hex & Hign & Hnil).
      pose proof (perm_In_iff _ _ HP) as Hiff.
      assert (HW : forall ign it, Win T ign it <-> Win T' ign it).
      { intros ign it. unfold Win. split.
        - intros (H1 & H2 & H3 & H4). split; [exact H1|]. split; [exact H2|]. split.
          + intros it' Hin'. apply H3. apply Hiff; exact Hin'.
          + intros (it' & Hin' & Hg' & Ha'). apply H4. exists it'.
            split; [apply Hiff; exact Hin'|]. split; assumption.
        - intros (H1 & H2 & H3 & H4). split; [exact H1|]. split; [exact H2|]. split.
          + intros it' Hin'. apply H3. apply Hiff; exact Hin'.
          + intros (it' & Hin' & Hg' & Ha'). apply H4. exists it'.
            split; [apply Hiff; exact Hin'|]. split; assumption. }
      assert (HU : forall n, Up T n <-> Up T' n).
      { intros n. unfold Up. split; intros (it & Hin & Hrest); exists it;
          (split; [apply Hiff; exact Hin|exact Hrest]). }
      exists extra. split; [exact Hsel|]. split; [eapply msub_perm_r; eassumption|].
      split; [|split].
      - intros it. rewrite Hex, Hiff, HW. reflexivity.
      - intros n. rewrite Hign, HU. reflexivity.
      - intros H1 H2. destruct (Hnil H1 H2) as [H3 H4]. split; [exact H3|].
        intros it Hin. apply H4. apply Hiff; exact Hin.
    Qed.

    (* a group none of whose members is enabled *)
    Lemma spec_skip_none : forall T a b,
      (forall it, In it T -> gtrue i exposed it = false) -> Spec T a b a b.
    Proof.
      intros T a b Hno. exists []. split; [rewrite app_nil_r; reflexivity|].
      split; [apply msub_nil|]. split; [|split].
      - intros it. split; [intros []|]. intros [Hin (Hg & _)]. rewrite (Hno it Hin) in Hg. discriminate.
      - intros n. split; [intros H; left; exact H|]. intros [H|(it & Hin & Hg & _)]; [exact H|].
        rewrite (Hno it Hin) in Hg. discriminate.
      - intros _ Hb. split; [exact Hb|exact Hno].
    Qed.

    (* a group whose source is already ignored *)
    Lemma spec_skip_ignored : forall T k a b,
      (forall it, In it T -> src it = k) -> In k b -> closed b -> Spec T a b a b.
    Proof.
      intros T k a b Hsrc Hk Hcl. exists []. split; [rewrite app_nil_r; reflexivity|].
      split; [apply msub_nil|]. split; [|split].
      - intros it. split; [intros []|]. intros [Hin (_ & Hni & _)]. exfalso. apply Hni.
        rewrite (Hsrc it Hin). exact Hk.
      - intros n. split; [intros H; left; exact H|]. intros [H|(it & Hin & _ & Hn)]; [exact H|].
        rewrite (Hsrc it Hin) in Hn. destruct Hn as [->|Hn]; [exact Hk|].
        eapply Hcl; eassumption.
      - intros _ Hb. rewrite Hb in Hk. destruct Hk.
    Qed.

    (* a group that selects its best members *)
    Lemma spec_select : forall T k a b r,
      (forall it, In it T -> src it = k) -> ~ In k b -> r <> [] ->
      (forall it, In it r <-> best i exposed T it) -> msub r T ->
      Spec T a b (a ++ r) (b ++ anc k ++ [k]).
    Proof.
      intros T k a b r Hsrc Hk Hne Hr Hsub. exists r. split; [reflexivity|].
      split; [exact Hsub|]. split; [|split].
      - intros it. rewrite Hr. unfold best, Win. split.
        + intros (Hin & Hg & Hmax). split; [exact Hin|]. split; [exact Hg|]. split.
          * rewrite (Hsrc it Hin). exact Hk.
          * split.
            -- intros it' Hin' _ Hg'. apply Hmax; assumption.
            -- intros (it' & Hin' & _ & Ha). rewrite (Hsrc it Hin), (Hsrc it' Hin') in Ha.
               apply (anc_irrefl k). exact Ha.
        + intros (Hin & Hg & _ & Hmax & _). split; [exact Hin|]. split; [exact Hg|].
          intros it' Hin' Hg'. apply Hmax; [exact Hin'| |exact Hg'].
          rewrite (Hsrc it Hin), (Hsrc it' Hin'). reflexivity.
      - intros n. rewrite !in_app_iff. simpl. split.
        + intros [H|H]; [left; exact H|]. right.
          destruct r as [|x r']; [exfalso; apply Hne; reflexivity|].
          assert (Hx : best i exposed T x) by (apply Hr; left; reflexivity).
          destruct Hx as (Hxin & Hxg & _). exists x. split; [exact Hxin|]. split; [exact Hxg|].
          rewrite (Hsrc x Hxin). destruct H as [H|[H|[]]]; [right; exact H|left; symmetry; exact H].
        + intros [H|(it & Hin & _ & Hn)]; [left; exact H|]. right.
          rewrite (Hsrc it Hin) in Hn. destruct Hn as [->|Hn]; [right; left; reflexivity|left; exact Hn].
      - intros Hr0. exfalso. apply Hne. exact Hr0.
    Qed.

    (* sequential composition of two phases working on separated candidate sets *)
    Lemma spec_compose : forall T1 T2 a b a1 b1 a2 b2,
      Spec T1 a b a1 b1 -> Spec T2 a1 b1 a2 b2 -> sep T1 T2 ->
      Spec (T1 ++ T2) a b a2 b2.
    Proof.
      intros T1 T2 a b a1 b1 a2 b2 (e1 & Hs1 & Hm1 & Hx1 & Hi1 & Hn1)
             (e2 & Hs2 & Hm2 & Hx2 & Hi2 & Hn2) Hsep.
      exists (e1 ++ e2). split; [rewrite Hs2, Hs1, app_assoc; reflexivity|].
      split; [apply msub_app; assumption|]. split; [|split].
      - intros it. rewrite !in_app_iff, Hx1, Hx2. split.
        + intros [[Hin HW]|[Hin HW]].
          * split; [left; exact Hin|]. destruct HW as (Hg & Hni & Hmax & Hinner).
            split; [exact Hg|]. split; [exact Hni|]. split.
            -- intros it' Hin' Hsame Hg'. apply in_app_or in Hin'. destruct Hin' as [Hin'|Hin'].
               ++ apply Hmax; assumption.
               ++ exfalso. destruct (Hsep it it' Hin Hin') as [Hneq _]. apply Hneq. symmetry; exact Hsame.
            -- intros (it' & Hin' & Hg' & Ha). apply in_app_or in Hin'. destruct Hin' as [Hin'|Hin'].
               ++ apply Hinner. exists it'. split; [exact Hin'|]. split; assumption.
               ++ destruct (Hsep it it' Hin Hin') as [_ Hna]. apply Hna. exact Ha.
          * split; [right; exact Hin|]. destruct HW as (Hg & Hni & Hmax & Hinner).
            split; [exact Hg|]. split; [|split].
            -- intros Hb. apply Hni. apply Hi1. left; exact Hb.
            -- intros it' Hin' Hsame Hg'. apply in_app_or in Hin'. destruct Hin' as [Hin'|Hin'].
               ++ exfalso. destruct (Hsep it' it Hin' Hin) as [Hneq _]. apply Hneq. exact Hsame.
               ++ apply Hmax; assumption.
            -- intros (it' & Hin' & Hg' & Ha). apply in_app_or in Hin'. destruct Hin' as [Hin'|Hin'].
               ++ apply Hni. apply Hi1. right. exists it'. split; [exact Hin'|]. split; [exact Hg'|].
                  right; exact Ha.
               ++ apply Hinner. exists it'. split; [exact Hin'|]. split; assumption.
        + intros [[Hin|Hin] (Hg & Hni & Hmax & Hinner)].
          * left. split; [exact Hin|]. split; [exact Hg|]. split; [exact Hni|]. split.
            -- intros it' Hin'. apply Hmax. apply in_or_app; left; exact Hin'.
            -- intros (it' & Hin' & Hrest). apply Hinner. exists it'.
               split; [apply in_or_app; left; exact Hin'|exact Hrest].
          * right. split; [exact Hin|]. split; [exact Hg|]. split; [|split].
            -- intros Hb1. apply Hi1 in Hb1. destruct Hb1 as [Hb|(it' & Hin' & Hg' & Hn)]; [apply Hni; exact Hb|].
               destruct Hn as [Hn|Hn].
               ++ destruct (Hsep it' it Hin' Hin) as [Hneq _]. apply Hneq. symmetry; exact Hn.
               ++ apply Hinner. exists it'. split; [apply in_or_app; left; exact Hin'|].
                  split; assumption.
            -- intros it' Hin'. apply Hmax. apply in_or_app; right; exact Hin'.
            -- intros (it' & Hin' & Hrest). apply Hinner. exists it'.
               split; [apply in_or_app; right; exact Hin'|exact Hrest].
      - intros n. rewrite Hi2, Hi1. unfold Up. split.
        + intros [[H|(it & Hin & Hrest)]|(it & Hin & Hrest)].
          * left; exact H.
          * right. exists it. split; [apply in_or_app; left; exact Hin|exact Hrest].
          * right. exists it. split; [apply in_or_app; right; exact Hin|exact Hrest].
        + intros [H|(it & Hin & Hrest)]; [left; left; exact H|].
          apply in_app_or in Hin. destruct Hin as [Hin|Hin].
          * left; right. exists it. split; assumption.
          * right. exists it. split; assumption.
      - intros He Hb. apply app_eq_nil in He. destruct He as [He1 He2].
        destruct (Hn1 He1 Hb) as [Hb1 Hno1]. destruct (Hn2 He2 Hb1) as [Hb2 Hno2].
        split; [exact Hb2|]. intros it Hin. apply in_app_or in Hin.
        destruct Hin as [Hin|Hin]; [apply Hno1|apply Hno2]; exact Hin.
    Qed.
  End Spec.

  (* ---------------------------------------------------------------- loop 3: sel_sources *)
  Lemma sel_sources_ok : forall exposed gs selected ignored s s' sel' ign',
    selS exposed gs selected ignored s = (s', inl (sel', ign')) ->
    NoDup (map fst gs) ->
    (forall k vs, In (k, vs) gs -> forall it, In it vs -> src it = k) ->
    (forall a b, In a (map fst gs) -> In b (map fst gs) -> ~ In a (anc b)) ->
    closed ignored ->
    Spec (m_i s) exposed (concat (map snd gs)) selected ignored sel' ign'
    /\ post (Qobs (m_i s) exposed (concat (map snd gs))) s s'.
  Proof.
    intros exposed gs; induction gs as [|[k vs] gs IH];
      intros selected ignored s s' sel' ign' H Hnd Hsrc Hanti Hcl; simpl in H.
    - apply ret_inl in H. destruct H as [-> Heq]. inversion Heq; subst. simpl.
      split; [apply spec_skip_none; intros it []|apply post_refl].
    - simpl in Hnd. inversion Hnd as [|k0 l0 Hnin Hnd']; subst k0 l0.
      assert (Hsep : sep vs (concat (map snd gs))).
      { intros it1 it2 H1 H2. apply In_concat_groups in H2. destruct H2 as (k2 & vs2 & Hg2 & H2).
        rewrite (Hsrc k vs (or_introl eq_refl) it1 H1).
        rewrite (Hsrc k2 vs2 (or_intror Hg2) it2 H2).
        assert (Hk2 : In k2 (map fst gs)).
        { change k2 with (fst (k2, vs2)). apply in_map. exact Hg2. }
        split.
        - intros Heq. apply Hnin. rewrite Heq. exact Hk2.
        - apply Hanti; [left; reflexivity|right; exact Hk2]. }
      assert (Hsrc' : forall k' vs', In (k', vs') gs -> forall it, In it vs' -> src it = k').
      { intros k' vs' Hin. apply Hsrc. right; exact Hin. }
      assert (Hanti' : forall a b, In a (map fst gs) -> In b (map fst gs) -> ~ In a (anc b)).
      { intros a b Ha Hb. apply Hanti; right; assumption. }
      assert (Hhere : forall it, In it vs -> src it = k).
      { apply (Hsrc k vs). left; reflexivity. }
      assert (HQl : forall i o, Qobs i exposed vs o -> Qobs i exposed (vs ++ concat (map snd gs)) o).
      { intros i o. apply Qobs_incl. intros y Hy. apply in_or_app; left; exact Hy. }
      assert (HQr : forall i o, Qobs i exposed (concat (map snd gs)) o
                                -> Qobs i exposed (vs ++ concat (map snd gs)) o).
      { intros i o. apply Qobs_incl. intros y Hy. apply in_or_app; right; exact Hy. }
      simpl (concat _).
      destruct (mem k ignored) eqn:Emem.
      + apply IH in H; [|exact Hnd'|exact Hsrc'|exact Hanti'|exact Hcl].
        destruct H as [Hspec Hp]. split.
        * eapply spec_compose; [|exact Hspec|exact Hsep].
          apply spec_skip_ignored with (k := k); [exact Hhere|apply mem_In; exact Emem|exact Hcl].
        * eapply post_weaken; [apply HQr|exact Hp].
      + apply mem_false_iff in Emem.
        apply bind_inl in H. destruct H as (s1 & r & H1 & H).
        apply sel_priorities_sgb in H1. destruct H1 as (Hr & Hnil & Hsub & Hp1).
        assert (Hi : m_i s1 = m_i s) by apply Hp1.
        destruct r as [|x r].
        * apply IH in H; [|exact Hnd'|exact Hsrc'|exact Hanti'|exact Hcl].
          rewrite Hi in H. destruct H as [Hspec Hp]. split.
          -- eapply spec_compose; [|exact Hspec|exact Hsep].
             apply spec_skip_none. apply Hnil. reflexivity.
          -- eapply post_trans; [eapply post_weaken; [apply HQl|exact Hp1]|].
             eapply post_weaken; [apply HQr|exact Hp].
        * assert (Hsel : Spec (m_i s) exposed vs selected ignored (selected ++ x :: r)
                              (ignored ++ anc k ++ [k])).
          { apply spec_select; [exact Hhere|exact Emem|discriminate|exact Hr|exact Hsub]. }
          apply IH in H; [|exact Hnd'|exact Hsrc'|exact Hanti'|eapply spec_closed; eassumption].
          rewrite Hi in H. destruct H as [Hspec Hp]. split.
          -- eapply spec_compose; [exact Hsel|exact Hspec|exact Hsep].
          -- eapply post_trans; [eapply post_weaken; [apply HQl|exact Hp1]|].
             eapply post_weaken; [apply HQr|exact Hp].
  Qed.

  Lemma sel_sources_sgb : forall exposed ts d selected ignored s s' sel' ign',
    selS exposed (sorted_groupby (fun it => t_source (snd it)) str_eqb str_leb false ts)
         selected ignored s = (s', inl (sel', ign')) ->
    (forall it, In it ts -> depth (src it) = d) ->
    closed ignored ->
    Spec (m_i s) exposed ts selected ignored sel' ign' /\ post (Qobs (m_i s) exposed ts) s s'.
  Proof.
    intros exposed ts d selected ignored s s' sel' ign' H Hd Hcl.
    pose proof (sorted_groupby_concat (fun it : itrans => t_source (snd it)) str_eqb str_leb false ts) as HP.
    apply sel_sources_ok in H.
    - destruct H as [Hspec Hp]. split.
      + eapply spec_perm; [exact HP|exact Hspec].
      + eapply post_weaken; [|exact Hp]. intros o. apply Qobs_incl. intros y.
        apply (perm_In_iff _ _ HP).
    - apply (sorted_groupby_labels_NoDup _ _ str_eqb_spec).
    - intros k vs Hin it Hit.
      apply (sorted_groupby_group _ _ str_eqb_spec) in Hin. destruct Hin as [-> _].
      apply (In_grp _ _ str_eqb_spec) in Hit. destruct Hit as [_ Hit]. exact Hit.
    - intros a b Ha Hb Hab.
      apply (sorted_groupby_label_iff _ _ str_eqb_spec) in Ha. destruct Ha as (xa & Hxa & Hka).
      apply (sorted_groupby_label_iff _ _ str_eqb_spec) in Hb. destruct Hb as (xb & Hxb & Hkb).
      apply Hanc in Hab. rewrite <- Hka, <- Hkb in Hab.
      pose proof (Hd xa Hxa) as H1. pose proof (Hd xb Hxb) as H2. unfold src in H1, H2. lia.
    - exact Hcl.
  Qed.

  (* ---------------------------------------------------------------- loop 4: sel_depths *)
  Lemma sel_depths_ok : forall exposed gs selected ignored s s' sel' ign',
    selD exposed gs selected ignored s = (s', inl (sel', ign')) ->
    StronglySorted (fun a b => (fst b < fst a)%Z) gs ->
    (forall d vs, In (d, vs) gs -> forall it, In it vs -> depth (src it) = d) ->
    closed ignored ->
    Spec (m_i s) exposed (concat (map snd gs)) selected ignored sel' ign'
    /\ post (Qobs (m_i s) exposed (concat (map snd gs))) s s'.
  Proof.
    intros exposed gs; induction gs as [|[d vs] gs IH];
      intros selected ignored s s' sel' ign' H Hs Hd Hcl; simpl in H.
    - apply ret_inl in H. destruct H as [-> Heq]. inversion Heq; subst. simpl.
      split; [apply spec_skip_none; intros it []|apply post_refl].
    - inversion Hs as [|g gs' Hs' Hall]; subst g gs'.
      apply bind_inl in H. destruct H as (s1 & [sel1 ign1] & H1 & H). simpl in H.
      assert (Hhere : forall it, In it vs -> depth (src it) = d).
      { apply (Hd d vs). left; reflexivity. }
      apply (sel_sources_sgb exposed vs d) in H1; [|exact Hhere|exact Hcl].
      destruct H1 as [Hspec1 Hp1].
      assert (Hi : m_i s1 = m_i s) by apply Hp1.
      apply IH in H; [|exact Hs'| |eapply spec_closed; eassumption].
      2:{ intros d' vs' Hin. apply Hd. right; exact Hin. }
      rewrite Hi in H. destruct H as [Hspec Hp].
      simpl (concat _). split.
      + eapply spec_compose; [exact Hspec1|exact Hspec|].
        intros it1 it2 Hin1 Hin2. apply In_concat_groups in Hin2.
        destruct Hin2 as (d2 & vs2 & Hg2 & Hin2).
        pose proof (Hhere it1 Hin1) as Hd1.
        pose proof (Hd d2 vs2 (or_intror Hg2) it2 Hin2) as Hd2.
        rewrite Forall_forall in Hall. pose proof (Hall (d2, vs2) Hg2) as Hlt. simpl in Hlt.
        split.
        * intros Heq. rewrite Heq in Hd1. lia.
        * intros Ha. apply Hanc in Ha. lia.
      + eapply post_trans.
        * eapply post_weaken; [|exact Hp1]. intros o. apply Qobs_incl.
          intros y Hy. apply in_or_app; left; exact Hy.
        * eapply post_weaken; [|exact Hp]. intros o. apply Qobs_incl.
          intros y Hy. apply in_or_app; right; exact Hy.
  Qed.

  (* one eventness class, started with nothing selected and nothing ignored *)
  Lemma sel_depths_sgb : forall exposed ts s s' sel' ign',
    selD exposed (sorted_groupby (fun it => depth_for sc (t_source (snd it))) Z.eqb Z.leb true ts)
         [] [] s = (s', inl (sel', ign')) ->
    (forall it, In it sel' <-> In it ts /\ Win (m_i s) exposed ts [] it)
    /\ (sel' = [] -> forall it, In it ts -> gtrue (m_i s) exposed it = false)
    /\ msub sel' ts
    /\ post (Qobs (m_i s) exposed ts) s s'.
  Proof.
    intros exposed ts s s' sel' ign' H.
    pose proof (sorted_groupby_concat (fun it : itrans => depth_for sc (t_source (snd it)))
                                      Z.eqb Z.leb true ts) as HP.
    apply sel_depths_ok in H.
    - destruct H as [Hspec Hp].
      apply (spec_perm _ _ _ _ _ _ _ _ HP) in Hspec.
      destruct Hspec as (extra & Hsel & Hsub & Hex & _ & Hnil). simpl in Hsel. subst extra.
      split; [exact Hex|]. split; [|split; [exact Hsub|]].
      + intros H0. apply (Hnil H0 eq_refl).
      + eapply post_weaken; [|exact Hp]. intros o. apply Qobs_incl. intros y.
        apply (perm_In_iff _ _ HP).
    - eapply StronglySorted_impl;
        [|apply (sorted_groupby_sorted _ _ Z_eqb_spec Z.leb Z_leb_total Z_leb_trans)].
      intros a b Hlt. apply Z_glab_lt_true in Hlt. exact Hlt.
    - intros d vs Hin it Hit.
      apply (sorted_groupby_group _ _ Z_eqb_spec) in Hin. destruct Hin as [-> _].
      apply (In_grp _ _ Z_eqb_spec) in Hit. destruct Hit as [_ Hit]. exact Hit.
    - intros n m [].
  Qed.

  (* ---------------------------------------------------------------- loop 5: sel_eventness *)
  Lemma bool_groups_shape : forall (gs : list (bool * list itrans)),
    StronglySorted (fun a b => glab_lt bool_leb false (fst a) (fst b)) gs ->
    gs = [] \/ (exists b vs, gs = [(b, vs)]) \/ (exists v0 v1, gs = [(false, v0); (true, v1)]).
  Proof.
    intros gs Hs. destruct gs as [|[b1 v1] [|[b2 v2] [|[b3 v3] gs]]].
    - left; reflexivity.
    - right; left. exists b1, v1; reflexivity.
    - right; right. inversion Hs as [|g1 l1 _ Hall]; subst.
      inversion Hall as [|g2 l2 H12 _]; subst. simpl in H12.
      apply bool_glab_lt_false in H12. destruct H12 as [-> ->]. exists v1, v2; reflexivity.
    - exfalso. inversion Hs as [|g1 l1 Hs' Hall]; subst.
      inversion Hs' as [|g2 l2 _ Hall']; subst.
      inversion Hall as [|g3 l3 H12 _]; subst. inversion Hall' as [|g4 l4 H23 _]; subst.
      simpl in H12, H23. apply bool_glab_lt_false in H12. apply bool_glab_lt_false in H23.
      destruct H12 as [_ H]. destruct H23 as [H' _]. congruence.
  Qed.

  (* the two phases of the selection: eventless candidates first; the candidates triggered by
     the pending event only when the first phase selected nothing *)
  Definition phases (ev : option event) (c0 c1 : list itrans) : M ctx X (list itrans) :=
    bind ctx X
      (selD None (sorted_groupby (fun it => depth_for sc (t_source (snd it))) Z.eqb Z.leb true c0) [] [])
      (fun r1 => match fst r1 with
                 | [] =>
                     bind ctx X
                       (selD ev (sorted_groupby (fun it => depth_for sc (t_source (snd it)))
                                                Z.eqb Z.leb true c1) [] [])
                       (fun r2 => ret ctx X (fst r2))
                 | _ :: _ => ret ctx X (fst r1)
                 end).

  Lemma selE_phases : forall ev C s,
    selE ev (sorted_groupby has_event_key Bool.eqb bool_leb false C) [] s
    = phases ev (grp has_event_key Bool.eqb C false) (grp has_event_key Bool.eqb C true) s.
  Proof.
    intros ev C s.
    pose proof (sorted_groupby_sorted has_event_key Bool.eqb bool_eqb_spec bool_leb
                                      bool_leb_total bool_leb_trans false C) as Hsorted.
    pose proof (sorted_groupby_label_iff has_event_key Bool.eqb bool_eqb_spec bool_leb false C) as Hlab.
    pose proof (sorted_groupby_group has_event_key Bool.eqb bool_eqb_spec bool_leb false C) as Hg.
    remember (sorted_groupby has_event_key Bool.eqb bool_leb false C) as gs eqn:Egs.
    assert (Hempty : forall b, ~ In b (map fst gs) -> grp has_event_key Bool.eqb C b = []).
    { intros b Hn. apply filter_nil_iff. intros x Hx.
      destruct (Bool.eqb (has_event_key x) b) eqn:E; [|reflexivity]. exfalso. apply Hn.
      apply Hlab. exists x. split; [exact Hx|apply bool_eqb_spec; exact E]. }
    clear Egs Hlab.
    destruct (bool_groups_shape gs Hsorted) as [E|[(b & vs & E)|(v0 & v1 & E)]]; subst gs.
    - rewrite (Hempty false), (Hempty true) by (simpl; tauto). reflexivity.
    - destruct (Hg b vs (or_introl eq_refl)) as [Hvs _]. destruct b.
      + rewrite (Hempty false); [|simpl; intros [H|[]]; discriminate]. rewrite <- Hvs.
        unfold phases. cbn [sel_eventness]. unfold bind.
        cbn [sorted_groupby groups_of fold_left sort sel_depths ret fst].
        destruct (selD ev _ [] [] s) as [s1 [[sel1 ign1]|e]]; reflexivity.
      + rewrite (Hempty true); [|simpl; intros [H|[]]; discriminate]. rewrite <- Hvs.
        unfold phases. cbn [sel_eventness]. unfold bind.
        destruct (selD None _ [] [] s) as [s1 [[sel1 ign1]|e]]; [|reflexivity].
        cbn [fst]. destruct sel1; reflexivity.
    - destruct (Hg false v0 (or_introl eq_refl)) as [Hv0 _].
      destruct (Hg true v1 (or_intror (or_introl eq_refl))) as [Hv1 _].
      rewrite <- Hv0, <- Hv1.
      unfold phases. cbn [sel_eventness]. unfold bind.
      destruct (selD None _ [] [] s) as [s1 [[sel1 ign1]|e]]; [|reflexivity].
      cbn [fst]. destruct sel1; [|reflexivity].
      destruct (selD ev _ [] [] s1) as [s2 [[sel2 ign2]|e]]; reflexivity.
  Qed.

  (* ---------------------------------------------------------------- the declarative rule *)
  (* i : interpreter state, ev : pending event, cfg : configuration *)
  Definition active (cfg : list name) (it : itrans) : Prop :=
    mem (t_source (snd it)) cfg = true.

  Definition enabled0 (i : istate ctx) (cfg : list name) (it : itrans) : Prop :=
    active cfg it /\ t_event (snd it) = None /\ guard_val i it None = Some true.

  Definition enabled1 (i : istate ctx) (ev : option event) (cfg : list name) (it : itrans) : Prop :=
    active cfg it
    /\ exists e, ev = Some e /\ t_event (snd it) = Some (e_name e)
                 /\ guard_val i it (Some e) = Some true.

  Definition some_eventless (i : istate ctx) (cfg : list name) : Prop :=
    exists it', In it' (itransitions sc) /\ enabled0 i cfg it'.

  (* competing transitions: the enabled eventless ones when there is one, otherwise the
     enabled ones triggered by the pending event *)
  Definition comp (i : istate ctx) (ev : option event) (cfg : list name) (it : itrans) : Prop :=
    (some_eventless i cfg /\ enabled0 i cfg it)
    \/ (~ some_eventless i cfg /\ enabled1 i ev cfg it).

  (* it' sits on a strict descendant of the source of it *)
  Definition inner (it' it : itrans) : Prop :=
    In (t_source (snd it)) (anc (t_source (snd it'))).

  Definition fires (i : istate ctx) (ev : option event) (cfg : list name) (it : itrans) : Prop :=
    In it (itransitions sc)
    /\ comp i ev cfg it
    /\ ~ (exists it', In it' (itransitions sc) /\ comp i ev cfg it' /\ inner it' it)
    /\ ~ (exists it', In it' (itransitions sc) /\ comp i ev cfg it'
                      /\ t_source (snd it') = t_source (snd it)
                      /\ (t_priority (snd it') > t_priority (snd it))%Z).

  Lemma gtrue_iff : forall i exposed it, gtrue i exposed it = true <-> guard_val i it exposed = Some true.
  Proof.
    intros i exposed it. unfold gtrue. destruct (guard_val i it exposed) as [[|]|]; split; congruence.
  Qed.

  Lemma hek_false_iff : forall it, has_event_key it = false <-> t_event (snd it) = None.
  Proof. intros it. unfold has_event_key. destruct (t_event (snd it)); split; congruence. Qed.

  Lemma In_considered : forall ev cfg it,
    In it (considered sc ev cfg) <->
    In it (itransitions sc) /\ mem (t_source (snd it)) cfg = true
    /\ (t_event (snd it) = None
        \/ exists e, ev = Some e /\ t_event (snd it) = Some (e_name e)).
  Proof.
    intros ev cfg it. unfold considered. rewrite filter_In, andb_true_iff.
    assert (H : match t_event (snd it) with
                | Some n => ostr_eqb (Some n) (option_map e_name ev)
                | None => true
                end = true
                <-> (t_event (snd it) = None
                     \/ exists e, ev = Some e /\ t_event (snd it) = Some (e_name e))).
    { destruct (t_event (snd it)) as [n|].
      - destruct ev as [e|]; simpl.
        + rewrite str_eqb_spec. split.
          * intros ->. right. exists e. split; reflexivity.
          * intros [H|(e' & He & Hn)]; [discriminate|]. inversion He; subst. inversion Hn; reflexivity.
        + split; [discriminate|]. intros [H|(e' & He & _)]; discriminate.
      - split; [intros _; left; reflexivity|reflexivity]. }
    rewrite H. tauto.
  Qed.

  Notation C0 ev cfg := (grp has_event_key Bool.eqb (considered sc ev cfg) false).
  Notation C1 ev cfg := (grp has_event_key Bool.eqb (considered sc ev cfg) true).

  Lemma enabled0_iff : forall i ev cfg it,
    In it (itransitions sc) /\ enabled0 i cfg it
    <-> In it (C0 ev cfg) /\ gtrue i None it = true.
  Proof.
    intros i ev cfg it. rewrite (In_grp _ _ bool_eqb_spec), In_considered, gtrue_iff, hek_false_iff.
    unfold enabled0, active. split.
    - intros (H1 & H2 & H3 & H4). repeat split; try assumption. left; exact H3.
    - intros (((H1 & H2 & _) & H3) & H4). repeat split; assumption.
  Qed.

  Lemma enabled1_iff : forall i ev cfg it,
    In it (itransitions sc) /\ enabled1 i ev cfg it
    <-> In it (C1 ev cfg) /\ gtrue i ev it = true.
  Proof.
    intros i ev cfg it. rewrite (In_grp _ _ bool_eqb_spec), In_considered, gtrue_iff.
    unfold enabled1, active. split.
    - intros (H1 & H2 & e & He & Ht & Hg). subst ev. repeat split; try assumption.
      + right. exists e. split; [reflexivity|exact Ht].
      + unfold has_event_key. rewrite Ht. reflexivity.
    - intros (((H1 & H2 & H3) & H4) & H5). split; [exact H1|]. split; [exact H2|].
      destruct H3 as [H3|(e & He & Ht)].
      + apply hek_false_iff in H3. congruence.
      + exists e. subst ev. repeat split; assumption.
  Qed.

  (* the loop-level characterisation (Win) is the documented rule (fires) *)
  Lemma fires_abstract : forall i ev cfg exposed T,
    (forall x, In x (itransitions sc) /\ comp i ev cfg x <-> In x T /\ gtrue i exposed x = true) ->
    forall it, fires i ev cfg it <-> In it T /\ Win i exposed T [] it.
  Proof.
    intros i ev cfg exposed T HT it. unfold fires, Win, inner. split.
    - intros (Hin & Hc & Hinner & Hprio).
      destruct (proj1 (HT it) (conj Hin Hc)) as [HinT Hg].
      split; [exact HinT|]. split; [exact Hg|]. split; [intros []|]. split.
      + intros it' Hin' Hsame Hg'.
        destruct (proj2 (HT it') (conj Hin' Hg')) as [Hi' Hc'].
        destruct (Z_le_gt_dec (prio it') (prio it)) as [Hle|Hgt]; [exact Hle|].
        exfalso. apply Hprio. exists it'. repeat split; assumption.
      + intros (it' & Hin' & Hg' & Ha).
        destruct (proj2 (HT it') (conj Hin' Hg')) as [Hi' Hc'].
        apply Hinner. exists it'. repeat split; assumption.
    - intros (HinT & Hg & _ & Hmax & Hinner).
      destruct (proj2 (HT it) (conj HinT Hg)) as [Hin Hc].
      split; [exact Hin|]. split; [exact Hc|]. split.
      + intros (it' & Hi' & Hc' & Ha).
        destruct (proj1 (HT it') (conj Hi' Hc')) as [Hin' Hg'].
        apply Hinner. exists it'. repeat split; assumption.
      + intros (it' & Hi' & Hc' & Hsame & Hgt).
        destruct (proj1 (HT it') (conj Hi' Hc')) as [Hin' Hg'].
        specialize (Hmax it' Hin' Hsame Hg'). unfold prio in Hmax. lia.
  Qed.

  (* observations of a whole selection: guards of considered transitions; eventless ones are
     evaluated without the event, the others with the pending event *)
  Definition Qsel (i : istate ctx) (ev : option event) (cfg : list name) (o : obs ctx) : Prop :=
    exists it, In it (considered sc ev cfg)
               /\ guard_obs i (if has_event_key it then ev else None) it o.

  Lemma select_ok : forall ev cfg s s' sel,
    select ev cfg s = (s', inl sel) ->
    (forall it, In it sel <-> fires (m_i s) ev cfg it)
    /\ msub sel (considered sc ev cfg)
    /\ post (Qsel (m_i s) ev cfg) s s'
    /\ (sel = [] -> forall it, In it (itransitions sc) -> ~ comp (m_i s) ev cfg it).
  Proof.
    intros ev cfg s s' sel H. unfold select_transitions in H. rewrite selE_phases in H.
    unfold phases in H.
    assert (HQ0 : forall o, Qobs (m_i s) None (C0 ev cfg) o -> Qsel (m_i s) ev cfg o).
    { intros o (it & Hin & Ho). apply (In_grp _ _ bool_eqb_spec) in Hin. destruct Hin as [Hin Hk].
      exists it. split; [exact Hin|]. rewrite Hk. exact Ho. }
    assert (HQ1 : forall o, Qobs (m_i s) ev (C1 ev cfg) o -> Qsel (m_i s) ev cfg o).
    { intros o (it & Hin & Ho). apply (In_grp _ _ bool_eqb_spec) in Hin. destruct Hin as [Hin Hk].
      exists it. split; [exact Hin|]. rewrite Hk. exact Ho. }
    apply bind_inl in H. destruct H as (s1 & [sel1 ign1] & H1 & H). cbn [fst] in H.
    apply sel_depths_sgb in H1. destruct H1 as (Hsel1 & Hnil1 & Hsub1 & Hp1).
    destruct sel1 as [|x sel1].
    - (* nothing eventless is enabled: second phase *)
      assert (Hno : ~ some_eventless (m_i s) cfg).
      { intros (it' & Hi' & He'). destruct (proj1 (enabled0_iff _ ev _ _) (conj Hi' He')) as [Hin' Hg'].
        rewrite (Hnil1 eq_refl it' Hin') in Hg'. discriminate. }
      apply bind_inl in H. destruct H as (s2 & [sel2 ign2] & H2 & H). cbn [fst] in H.
      apply ret_inl in H. destruct H as [-> ->].
      apply sel_depths_sgb in H2. destruct H2 as (Hsel2 & Hnil2 & Hsub2 & Hp2).
      assert (Hi : m_i s1 = m_i s) by apply Hp1. rewrite Hi in Hsel2, Hp2, Hnil2.
      split; [|split; [|split]].
      + intros it. rewrite Hsel2. symmetry. apply fires_abstract.
        intros y. rewrite <- enabled1_iff. unfold comp. tauto.
      + eapply msub_trans; [exact Hsub2|]. apply msub_filter.
      + eapply post_trans; [eapply post_weaken; [exact HQ0|exact Hp1]|].
        eapply post_weaken; [exact HQ1|exact Hp2].
      + intros H0 it Hin [[Hyes _]|[_ He1]]; [apply Hno; exact Hyes|].
        destruct (proj1 (enabled1_iff _ _ _ _) (conj Hin He1)) as [Hin1 Hg1].
        rewrite (Hnil2 H0 it Hin1) in Hg1. discriminate.
    - (* the eventless phase selected something *)
      apply ret_inl in H. destruct H as [-> ->].
      assert (Hyes : some_eventless (m_i s) cfg).
      { destruct (proj1 (Hsel1 x) (or_introl eq_refl)) as [Hin (Hg & _)].
        destruct (proj2 (enabled0_iff _ ev _ _) (conj Hin Hg)) as [Hi' He'].
        exists x. split; assumption. }
      split; [|split; [|split]].
      + intros it. rewrite Hsel1. symmetry. apply fires_abstract.
        intros y. rewrite <- (enabled0_iff _ ev). unfold comp. tauto.
      + eapply msub_trans; [exact Hsub1|]. apply msub_filter.
      + eapply post_weaken; [exact HQ0|exact Hp1].
      + discriminate.
  Qed.

  Lemma index_from_fst : forall {A} (l : list A) n, map fst (index_from n l) = seq n (length l).
  Proof.
    intros A l; induction l as [|x l IH]; intros n; simpl; [reflexivity|]. rewrite IH. reflexivity.
  Qed.

  Lemma itransitions_NoDup : NoDup (itransitions sc).
  Proof.
    apply (NoDup_map_inv fst). unfold itransitions. rewrite index_from_fst. apply seq_NoDup.
  Qed.

  Lemma itransitions_fst_NoDup : NoDup (map fst (itransitions sc)).
  Proof. unfold itransitions. rewrite index_from_fst. apply seq_NoDup. Qed.

  (* ---------------------------------------------------------------- main theorems *)
  Theorem C01_selection : forall ev cfg s s' sel,
    select ev cfg s = (s', inl sel) ->
    (forall it, In it sel <-> fires (m_i s) ev cfg it)
    /\ NoDup sel
    /\ (m_i s' = m_i s /\ m_x s' = m_x s).
  Proof.
    intros ev cfg s s' sel H. apply select_ok in H. destruct H as (Hsel & Hsub & Hp & _).
    split; [exact Hsel|]. split.
    - eapply msub_NoDup; [exact Hsub|]. unfold considered. apply NoDup_filter.
      apply itransitions_NoDup.
    - split; apply Hp.
  Qed.

  (* what the guards can see *)
  Theorem C01_guard_view : forall ev cfg s s' sel,
    select ev cfg s = (s', inl sel) ->
    exists new,
      m_tr s' = new ++ m_tr s
      /\ Forall (fun o =>
                   exists c r i t,
                     o = ObEval c r
                     /\ cl_kind c = CGuard
                     /\ cl_owner c = OTrans i
                     /\ In (i, t) (itransitions sc)
                     /\ mem (t_source t) cfg = true
                     /\ (t_event t = None -> cl_event c = None)
                     /\ (t_event t <> None -> cl_event c = ev)
                     (* and precisely: *)
                     /\ t_guard t <> None
                     /\ c = mk_call ctx sc (m_i s) CGuard (OTrans i) 0 (t_guard t) (cl_event c)
                     /\ r = guard_val (m_i s) (i, t) (cl_event c)) new.
  Proof.
    intros ev cfg s s' sel H. apply select_ok in H. destruct H as (_ & _ & (_ & _ & new & Hnew & Hall) & _).
    exists new. split; [exact Hnew|]. eapply Forall_impl; [|exact Hall].
    intros o ([i t] & Hin & g & Hg & Ho). apply In_considered in Hin. destruct Hin as (Hin & Hact & _).
    simpl in Hg, Hact.
    eexists _, _, i, t. split; [exact Ho|]. split; [reflexivity|]. split; [reflexivity|].
    split; [exact Hin|]. split; [exact Hact|]. cbn [cl_event mk_call]. unfold has_event_key. simpl.
    split; [|split; [|split; [|split]]].
    - intros Ht. rewrite Ht. reflexivity.
    - intros Ht. destruct (t_event t); [reflexivity|contradiction].
    - congruence.
    - rewrite Hg. reflexivity.
    - reflexivity.
  Qed.

  (* ---------------------------------------------------------------- guard errors *)
  Definition Bad (i : istate ctx) (exposed : option event) (ts : list itrans) (e : err) : Prop :=
    exists it, In it ts /\ guard_val i it exposed = None /\ e = ECode CGuard (OTrans (fst it)) 0.

  (* weak specification valid for both outcomes: the interpreter state is untouched, only guard
     observations are appended, and an error is the evaluation error of one of the guards *)
  Definition wk {A} (i : istate ctx) (exposed : option event) (ts : list itrans)
             (s s' : st) (res : A + err) : Prop :=
    post (Qobs i exposed ts) s s' /\ forall e, res = inr e -> Bad i exposed ts e.

  Lemma wk_incl : forall {A} i exposed ts ts' s s' (res : A + err),
    (forall it, In it ts -> In it ts') -> wk i exposed ts s s' res -> wk i exposed ts' s s' res.
  Proof.
    intros A i exposed ts ts' s s' res Hincl [Hp Hb]. split.
    - eapply post_weaken; [|exact Hp]. intros o. apply Qobs_incl. exact Hincl.
    - intros e He. destruct (Hb e He) as (it & Hin & Hrest). exists it. split; [apply Hincl; exact Hin|exact Hrest].
  Qed.

  Lemma wk_trans : forall {A} i exposed ts s s1 s' (res : A + err),
    post (Qobs i exposed ts) s s1 -> wk i exposed ts s1 s' res -> wk i exposed ts s s' res.
  Proof.
    intros A i exposed ts s s1 s' res Hp [Hp' Hb]. split; [eapply post_trans; eassumption|exact Hb].
  Qed.

  Lemma wk_inl : forall {A} i exposed ts s s' (a : A),
    post (Qobs i exposed ts) s s' -> wk i exposed ts s s' (inl a).
  Proof. intros A i exposed ts s s' a Hp. split; [exact Hp|]. intros e He. discriminate. Qed.

  Lemma wk_retype : forall {A B} i exposed ts s s' (e : err),
    wk i exposed ts s s' (@inr A err e) -> wk i exposed ts s s' (@inr B err e).
  Proof.
    intros A B i exposed ts s s' e [Hp Hb]. split; [exact Hp|]. intros e' He'. inversion He'; subst.
    apply Hb. reflexivity.
  Qed.

  Lemma bind_any : forall {A B} (m : M ctx X A) (f : A -> M ctx X B) s s' res,
    bind ctx X m f s = (s', res) ->
    (exists e, m s = (s', inr e) /\ res = inr e)
    \/ exists s1 a, m s = (s1, inl a) /\ f a s1 = (s', res).
  Proof.
    intros A B m f s s' res H. unfold bind in H. destruct (m s) as [s1 [a|e]].
    - right. exists s1, a. split; [reflexivity|exact H].
    - left. exists e. inversion H; subst. split; reflexivity.
  Qed.

  Lemma gstep_wk : forall exposed it s s' res,
    gstep exposed it s = (s', res) -> wk (m_i s) exposed [it] s s' res.
  Proof.
    intros exposed it s s' [ok|e] H.
    - apply gstep_inl in H. apply wk_inl. apply H.
    - apply gstep_inr in H. destruct H as (Hv & He & Hp). split; [exact Hp|].
      intros e' He'. inversion He'; subst e'. exists it. split; [left; reflexivity|]. split; assumption.
  Qed.

  Lemma evalG_wk : forall exposed ts s s' res,
    evalG exposed ts s = (s', res) -> wk (m_i s) exposed ts s s' res.
  Proof.
    intros exposed ts; induction ts as [|it ts IH]; intros s s' res H; simpl in H.
    - unfold ret in H. inversion H; subst. apply wk_inl. apply post_refl.
    - apply bind_any in H. destruct H as [(e & H & ->)|(s1 & ok & H1 & H)].
      + apply gstep_wk in H. apply (@wk_retype (bool)).
        eapply wk_incl; [|exact H]. intros x [<-|[]]. left; reflexivity.
      + apply gstep_inl in H1. destruct H1 as [_ Hp1].
        assert (Hi : m_i s1 = m_i s) by apply Hp1.
        assert (Hp1' : post (Qobs (m_i s) exposed (it :: ts)) s s1).
        { eapply post_weaken; [|exact Hp1]. intros o. apply Qobs_incl. intros x [<-|[]]. left; reflexivity. }
        apply bind_any in H. destruct H as [(e & H & ->)|(s2 & r2 & H2 & H)].
        * apply IH in H. rewrite Hi in H. eapply wk_trans; [exact Hp1'|].
          apply (@wk_retype (list itrans)).
          eapply wk_incl; [|exact H]. intros x Hx. right; exact Hx.
        * apply IH in H2. rewrite Hi in H2. unfold ret in H. inversion H; subst.
          apply wk_inl. eapply post_trans; [exact Hp1'|].
          destruct H2 as [Hp2 _]. eapply post_weaken; [|exact Hp2]. intros o. apply Qobs_incl.
          intros x Hx. right; exact Hx.
  Qed.

  Lemma selP_wk : forall exposed gs s s' res,
    selP exposed gs s = (s', res) -> wk (m_i s) exposed (concat (map snd gs)) s s' res.
  Proof.
    intros exposed gs; induction gs as [|[k vs] gs IH]; intros s s' res H; simpl in H.
    - unfold ret in H. inversion H; subst. apply wk_inl. apply post_refl.
    - simpl. apply bind_any in H. destruct H as [(e & H & ->)|(s1 & r & H1 & H)].
      + apply evalG_wk in H. eapply wk_incl; [|exact H]. intros x Hx. apply in_or_app; left; exact Hx.
      + apply evalG_wk in H1. destruct H1 as [Hp1 _].
        assert (Hi : m_i s1 = m_i s) by apply Hp1.
        assert (Hp1' : post (Qobs (m_i s) exposed (vs ++ concat (map snd gs))) s s1).
        { eapply post_weaken; [|exact Hp1]. intros o. apply Qobs_incl.
          intros x Hx. apply in_or_app; left; exact Hx. }
        destruct r as [|x r].
        * apply IH in H. rewrite Hi in H. eapply wk_trans; [exact Hp1'|].
          eapply wk_incl; [|exact H]. intros y Hy. apply in_or_app; right; exact Hy.
        * unfold ret in H. inversion H; subst. apply wk_inl. exact Hp1'.
  Qed.

  Lemma selS_wk : forall exposed gs selected ignored s s' res,
    selS exposed gs selected ignored s = (s', res) ->
    wk (m_i s) exposed (concat (map snd gs)) s s' res.
  Proof.
    intros exposed gs; induction gs as [|[k vs] gs IH]; intros selected ignored s s' res H; simpl in H.
    - unfold ret in H. inversion H; subst. apply wk_inl. apply post_refl.
    - simpl.
      assert (Hr : forall y, In y (concat (map snd gs)) -> In y (vs ++ concat (map snd gs))).
      { intros y Hy. apply in_or_app; right; exact Hy. }
      destruct (mem k ignored).
      + apply IH in H. eapply wk_incl; [exact Hr|exact H].
      + apply bind_any in H. destruct H as [(e & H & ->)|(s1 & r & H1 & H)].
        * apply selP_wk in H. apply (@wk_retype (list itrans)).
          revert H; apply wk_incl; intros y Hy. apply in_or_app; left.
          (eapply Permutation_in; [|exact Hy]); apply sorted_groupby_concat.
        * apply selP_wk in H1. destruct H1 as [Hp1 _].
          assert (Hi : m_i s1 = m_i s) by apply Hp1.
          assert (Hp1' : post (Qobs (m_i s) exposed (vs ++ concat (map snd gs))) s s1).
          { eapply post_weaken; [|exact Hp1]. intros o. apply Qobs_incl.
            intros y Hy. apply in_or_app; left.
            (eapply Permutation_in; [|exact Hy]); apply sorted_groupby_concat. }
          destruct r as [|x r]; apply IH in H; rewrite Hi in H;
            (eapply wk_trans; [exact Hp1'|]); (eapply wk_incl; [exact Hr|exact H]).
  Qed.

  Lemma selD_wk : forall exposed gs selected ignored s s' res,
    selD exposed gs selected ignored s = (s', res) ->
    wk (m_i s) exposed (concat (map snd gs)) s s' res.
  Proof.
    intros exposed gs; induction gs as [|[d vs] gs IH]; intros selected ignored s s' res H; simpl in H.
    - unfold ret in H. inversion H; subst. apply wk_inl. apply post_refl.
    - simpl. apply bind_any in H. destruct H as [(e & H & ->)|(s1 & r & H1 & H)].
      + apply selS_wk in H.
        revert H; apply wk_incl; intros y Hy. apply in_or_app; left.
        (eapply Permutation_in; [|exact Hy]); apply sorted_groupby_concat.
      + apply selS_wk in H1. destruct H1 as [Hp1 _].
        assert (Hi : m_i s1 = m_i s) by apply Hp1.
        apply IH in H. rewrite Hi in H. eapply wk_trans.
        * eapply post_weaken; [|exact Hp1]. intros o. apply Qobs_incl.
          intros y Hy. apply in_or_app; left.
          (eapply Permutation_in; [|exact Hy]); apply sorted_groupby_concat.
        * revert H; apply wk_incl; intros y Hy. apply in_or_app; right; exact Hy.
  Qed.

  Lemma selD_sgb_wk : forall exposed ts selected ignored s s' res,
    selD exposed (sorted_groupby (fun it => depth_for sc (t_source (snd it))) Z.eqb Z.leb true ts)
         selected ignored s = (s', res) ->
    wk (m_i s) exposed ts s s' res.
  Proof.
    intros exposed ts selected ignored s s' res H. apply selD_wk in H.
    revert H; apply wk_incl; intros y Hy.
    (eapply Permutation_in; [|exact Hy]); apply sorted_groupby_concat.
  Qed.

  (* When the selection fails it fails with the CodeEvaluationError of the guard of a considered
     transition whose guard cannot be evaluated; the interpreter state is unchanged. *)
  Theorem C01_guard_error : forall ev cfg s s' e,
    select ev cfg s = (s', inr e) ->
    (exists it, In it (considered sc ev cfg)
                /\ guard_val (m_i s) it (if has_event_key it then ev else None) = None
                /\ e = ECode CGuard (OTrans (fst it)) 0)
    /\ m_i s' = m_i s /\ m_x s' = m_x s.
  Proof.
    intros ev cfg s s' e H. unfold select_transitions in H. rewrite selE_phases in H.
    unfold phases in H.
    assert (HB0 : forall e0, Bad (m_i s) None (C0 ev cfg) e0 ->
                  exists it, In it (considered sc ev cfg)
                             /\ guard_val (m_i s) it (if has_event_key it then ev else None) = None
                             /\ e0 = ECode CGuard (OTrans (fst it)) 0).
    { intros e0 (it & Hin & Hv & He). apply (In_grp _ _ bool_eqb_spec) in Hin. destruct Hin as [Hin Hk].
      exists it. rewrite Hk. repeat split; assumption. }
    assert (HB1 : forall e0, Bad (m_i s) ev (C1 ev cfg) e0 ->
                  exists it, In it (considered sc ev cfg)
                             /\ guard_val (m_i s) it (if has_event_key it then ev else None) = None
                             /\ e0 = ECode CGuard (OTrans (fst it)) 0).
    { intros e0 (it & Hin & Hv & He). apply (In_grp _ _ bool_eqb_spec) in Hin. destruct Hin as [Hin Hk].
      exists it. rewrite Hk. repeat split; assumption. }
    apply bind_any in H. destruct H as [(e1 & H & He)|(s1 & [sel1 ign1] & H1 & H)].
    - inversion He; subst e1. apply selD_sgb_wk in H. destruct H as [Hp Hb].
      split; [apply HB0; apply Hb; reflexivity|]. split; apply Hp.
    - apply selD_sgb_wk in H1. destruct H1 as [Hp1 _].
      assert (Hi : m_i s1 = m_i s) by apply Hp1.
      assert (Hx : m_x s1 = m_x s) by apply Hp1.
      cbn [fst] in H. destruct sel1 as [|x sel1]; [|unfold ret in H; discriminate].
      apply bind_any in H. destruct H as [(e1 & H & He)|(s2 & [sel2 ign2] & H2 & H)];
        [|unfold ret in H; discriminate].
      inversion He; subst e1. apply selD_sgb_wk in H. rewrite Hi in H. destruct H as [Hp Hb].
      split; [apply HB1; apply Hb; reflexivity|]. destruct Hp as (Hi2 & Hx2 & _). split; congruence.
  Qed.

  (* nothing is selected only when nothing competes *)
  Theorem C01_empty : forall ev cfg s s',
    select ev cfg s = (s', inl []) ->
    forall it, In it (itransitions sc) -> ~ comp (m_i s) ev cfg it.
  Proof. intros ev cfg s s' H. apply select_ok in H. apply H. reflexivity. Qed.

  (* ---------------------------------------------------------------- event consumption *)
  Notation compute := (compute_steps ctx X eval_code sc).

  Lemma sort_transitions_inl : forall ts (s s' : st) ts',
    sort_transitions ctx X sc ts s = (s', inl ts') -> s' = s /\ Permutation ts' ts.
  Proof.
    intros ts s s' ts' H. unfold sort_transitions in H.
    destruct ts as [|a [|b ts]].
    - apply ret_inl in H. destruct H as [-> ->]. split; [reflexivity|apply Permutation_refl].
    - apply ret_inl in H. destruct H as [-> ->]. split; [reflexivity|apply Permutation_refl].
    - destruct (check_pairs sc (a :: b :: ts)) as [e|]; [unfold fail in H; discriminate|].
      apply ret_inl in H. destruct H as [-> ->]. split; [reflexivity|apply sort_perm].
  Qed.

  Lemma create_step_event : forall cfg e it, ms_event (create_step sc cfg e it) = e.
  Proof. intros cfg e it. unfold create_step. destruct (t_target (snd it)); reflexivity. Qed.

  Lemma create_step_trans : forall cfg e it, ms_trans (create_step sc cfg e it) = Some (fst it).
  Proof. intros cfg e it. unfold create_step. destruct (t_target (snd it)); reflexivity. Qed.

  (* In an initialized interpreter, compute_steps attaches the pending event to the micro steps
     exactly when no eventless transition is enabled (then the event is consumed by
     execute_once); when an eventless transition is enabled no step carries an event, so the
     pending event stays in the queue. *)
  Theorem C01_consumption : forall s s' steps,
    i_initialized (m_i s) = true ->
    compute s = (s', inl steps) ->
    let i := m_i s in
    let ev := select_event i in
    let cfg := i_config i in
    exists sel ts',
      (forall it, In it sel <-> fires i ev cfg it)
      /\ Permutation ts' sel
      /\ (sel = [] ->
          steps = match ev with None => [] | Some e => [mkMicro (Some e) None [] [] []] end)
      /\ (sel <> [] ->
          map ms_trans steps = map (fun it => Some (fst it)) ts'
          /\ (forall it0 rest, ts' = it0 :: rest ->
              forall st0, In st0 steps ->
                          ms_event st0 = match t_event (snd it0) with None => None | Some _ => ev end))
      /\ (some_eventless i cfg -> forall st0, In st0 steps -> ms_event st0 = None)
      /\ (~ some_eventless i cfg -> forall st0, In st0 steps -> ms_event st0 = ev)
      /\ m_i s' = m_i s /\ m_x s' = m_x s.
  Proof.
    intros s s' steps Hinit H i ev cfg. unfold compute_steps in H.
    apply bind_inl in H. destruct H as (s0 & i0 & Hget & H). unfold get in Hget.
    inversion Hget; subst s0 i0. clear Hget. rewrite Hinit in H. cbn [negb] in H.
    apply bind_inl in H. destruct H as (s1 & sel & Hsel & H).
    fold i in Hsel, H. fold ev in Hsel, H. fold cfg in Hsel.
    apply select_ok in Hsel. fold i in Hsel. destruct Hsel as (Hfires & _ & Hp & Hempty).
    destruct Hp as (Hi1 & Hx1 & _).
    apply bind_inl in H. destruct H as (s2 & u & Hobs & H). unfold observe in Hobs.
    inversion Hobs; subst s2 u. clear Hobs.
    destruct sel as [|it1 sel].
    - (* no transition *)
      exists [], []. split; [exact Hfires|]. split; [constructor|].
      assert (Hno : ~ some_eventless i cfg).
      { intros (it' & Hin' & He'). apply (Hempty eq_refl it' Hin'). left.
        split; [exists it'; split; assumption|exact He']. }
      destruct ev as [e|]; apply ret_inl in H; destruct H as [-> ->]; cbn [m_i m_x].
      + split; [reflexivity|]. split; [intros Hne; exfalso; apply Hne; reflexivity|].
        split; [intros Hyes; exfalso; apply Hno; exact Hyes|].
        split; [intros _ st0 [<-|[]]; reflexivity|]. split; assumption.
      + split; [reflexivity|]. split; [intros Hne; exfalso; apply Hne; reflexivity|].
        split; [intros _ st0 []|]. split; [intros _ st0 []|]. split; assumption.
    - apply bind_inl in H. destruct H as (s3 & ts' & Hsort & H).
      apply sort_transitions_inl in Hsort. destruct Hsort as [-> Hperm].
      apply bind_inl in H. destruct H as (s4 & i4 & Hget & H). unfold get in Hget.
      inversion Hget; subst s4 i4. clear Hget. apply ret_inl in H. destruct H as [-> ->].
      cbn [m_i m_x].
      exists (it1 :: sel), ts'. split; [exact Hfires|]. split; [exact Hperm|].
      split; [discriminate|].
      destruct ts' as [|it0 rest].
      { exfalso. apply Permutation_nil in Hperm. discriminate. }
      assert (Hit0 : fires i ev cfg it0).
      { apply Hfires. eapply Permutation_in; [exact Hperm|left; reflexivity]. }
      destruct Hit0 as (_ & Hcomp & _).
      assert (Hev : forall st0, In st0 (create_steps sc (i_config (m_i s1))
                      match t_event (snd it0) with None => None | Some _ => ev end (it0 :: rest)) ->
                    ms_event st0 = match t_event (snd it0) with None => None | Some _ => ev end).
      { intros st0 Hin. unfold create_steps in Hin. apply in_map_iff in Hin.
        destruct Hin as (it & <- & _). apply create_step_event. }
      split; [|split; [|split]].
      + intros _. split.
        * unfold create_steps. rewrite map_map. apply map_ext. intros it. apply create_step_trans.
        * intros it0' rest' Heq. inversion Heq; subst it0' rest'. exact Hev.
      + intros Hyes st0 Hin. rewrite (Hev st0 Hin).
        destruct Hcomp as [[_ (_ & Hnone & _)]|[Hno _]]; [rewrite Hnone; reflexivity|contradiction].
      + intros Hno st0 Hin. rewrite (Hev st0 Hin).
        destruct Hcomp as [[Hyes _]|[_ (_ & e & _ & Hsome & _)]]; [contradiction|rewrite Hsome; reflexivity].
      + split; assumption.
  Qed.
End C01.

(* ------------------------------------------------------------------ a checker for the tree hypothesis *)
(* names that are not keys of _parent have no ancestors, so it is enough to check the keys *)
Definition anc_depth_okb (sc : chart) : bool :=
  forallb (fun a => forallb (fun b => (depth_for sc b <? depth_for sc a)%Z) (ancestors_for sc a))
          (map fst (c_parent sc)).

Lemma lookup_In_keys : forall {V} (k : name) (d : list (name * V)) v,
  lookup k d = Some v -> In k (map fst d).
Proof.
  intros V k d v; induction d as [|[k' v'] d IH]; simpl; intros H; [discriminate|].
  destruct (str_eqb k k') eqn:E.
  - apply str_eqb_spec in E. left; symmetry; exact E.
  - right. apply IH; exact H.
Qed.

Lemma anc_depth_okb_sound : forall sc,
  anc_depth_okb sc = true ->
  forall a b, In b (ancestors_for sc a) -> (depth_for sc b < depth_for sc a)%Z.
Proof.
  intros sc Hok a b Hb. unfold anc_depth_okb in Hok. rewrite forallb_forall in Hok.
  destruct (lookup a (c_parent sc)) as [p|] eqn:El.
  - apply lookup_In_keys in El. specialize (Hok a El). rewrite forallb_forall in Hok.
    apply Z.ltb_lt. apply Hok. exact Hb.
  - exfalso. unfold ancestors_for, parent_for in Hb. rewrite El in Hb.
    destruct (length (c_parent sc)); simpl in Hb; destruct Hb.
Qed.

(* a small concrete chart: root > {A > {A1, A2}, B}; the hypothesis is not vacuous *)
Definition c01_example_chart : chart :=
  let mk n k i := (n, mkState n k i None None None [] [] []) in
  mkChart "example" None None
    [mk "root" KCompound (Some "A"); mk "A" KCompound (Some "A1"); mk "A1" KBasic None;
     mk "A2" KBasic None; mk "B" KBasic None]
    [("root", None); ("A", Some "root"); ("A1", Some "A"); ("A2", Some "A"); ("B", Some "root")]
    [(None, ["root"]); (Some "root", ["A"; "B"]); (Some "A", ["A1"; "A2"])]
    [mkTrans "A1" (Some "A2") (Some "go") None None 0 [] [] [];
     mkTrans "A" (Some "B") (Some "go") None None 0 [] [] [];
     mkTrans "A2" (Some "A1") None (Some "x > 0") None 1 [] [] []].

Example c01_example_ok : anc_depth_okb c01_example_chart = true.
Proof. vm_compute. reflexivity. Qed.

Example c01_example_anc : ancestors_for c01_example_chart "A1" = ["A"; "root"].
Proof. vm_compute. reflexivity. Qed.

(* a cyclic parent map is rejected *)
Example c01_example_cyclic :
  anc_depth_okb (mkChart "bad" None None [] [("a", Some "b"); ("b", Some "a")] [] []) = false.
Proof. vm_compute. reflexivity. Qed.

(* the model run on the example: in {root, A, A1} with event go both A1 -go-> A2 (index 0) and
   A -go-> B (index 1) are enabled, the inner one wins; in {root, A, A2} the eventless
   transition (index 2) wins over the one triggered by go *)
Definition c01_example_state (cfg : list name) : mstate unit unit :=
  mkM (mkIState 0 true 0 [] cfg [] [] [] [] [] false tt []) tt [].

Definition c01_example_select (cfg : list name) : list nat :=
  match select_transitions unit unit (fun _ _ => Some true) c01_example_chart
                           (Some (mkEvent External "go" [])) cfg (c01_example_state cfg) with
  | (_, inl sel) => map fst sel
  | (_, inr _) => []
  end.

Example c01_example_run1 : c01_example_select ["root"; "A"; "A1"] = [0].
Proof. vm_compute. reflexivity. Qed.

Example c01_example_run2 : c01_example_select ["root"; "A"; "A2"] = [2].
Proof. vm_compute. reflexivity. Qed.

(* the main theorem with the hypothesis discharged by the checker *)
Corollary C01_selection_checked :
  forall (ctx X : Type) (eval_code : call ctx -> ctx -> option bool) (sc : chart),
    anc_depth_okb sc = true ->
    forall ev cfg (s s' : mstate ctx X) sel,
      select_transitions ctx X eval_code sc ev cfg s = (s', inl sel) ->
      (forall it, In it sel <-> fires ctx eval_code sc (m_i s) ev cfg it)
      /\ NoDup sel
      /\ (m_i s' = m_i s /\ m_x s' = m_x s).
Proof.
  intros ctx X eval_code sc Hok. apply C01_selection. apply anc_depth_okb_sound. exact Hok.
Qed.

Print Assumptions C01_selection.
Print Assumptions C01_guard_view.
Print Assumptions C01_guard_error.
Print Assumptions C01_empty.
Print Assumptions C01_consumption.
Print Assumptions C01_selection_checked.
Print Assumptions anc_depth_okb_sound.
