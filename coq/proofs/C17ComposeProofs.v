(* C17ComposeProofs.v -- C17, second sentence ("A sub-statechart plugged in with copy_from_statechart behaves inside its host
   exactly as the source sub-statechart does, up to the renaming function"): the three groups of theorems
     CopyProofs.C17_copy_structure  (what copy_from_statechart builds),
     C17Proofs.C17_equivariance_run (the interpreter commutes with an injective order-preserving renaming),
     WrapProofs.C17_wrap_init / wrap_run_gen (a chart under a new compound root behaves as on its own)
   composed for the host of the harness (harness/c17.py, plug()):  hroot (compound, initial = plug) > plug (basic),
   call  host.copy_from_statechart(g, source = root of g, replace = "plug", renaming_func = table).
   The link between the chart actually built and the chart `wrap` of WrapProofs is C07Proofs.C07_decl_order (runs are invariant
   under reordering of the declarations).  No axioms, nothing Admitted; every Print Assumptions at the end is closed.

   DEFINITIONS
     plug_host nm d pre    the host before the call (plug_host_built: it is what Edit.add_state builds; plug_host_einv).
     rs g r "plug" table   (CopyProofs) the renaming actually applied: r |-> "plug", table on the descendants of r, identity elsewhere.
     chart_equiv a b idxs  b is a up to the order of the dictionary entries and of the transitions:
                             state_for, parent_for, children_for (the lists, IN THE SAME ORDER), root  EQUAL for every name;
                             |_states|, |_parent| equal (the fuels of descendants_for / ancestors_for);
                             c_transitions b = the transitions of a listed in the order idxs, idxs a Permutation of all indices.
                           Not compared: name, description, preamble (the interpreter model never reads them).
     pi_of idxs n          index of a transition in a |-> its index in b (position in idxs), identity from n on.
     out_rel pi o1 o2      outcomes of two macro steps: same macro step with the transition indices renamed by pi
                           (C07Proofs.macmap), or errors related by C07Proofs.ERB.
     guest_init / host_init / host_image   the fresh guest interpreter; the host interpreter before its first step; the host
                           state W h now (ft_init ..) (map_mstate rho s) that corresponds to the guest state s afterwards
                           (configuration h :: rho-image, h entered at `now`, listener state fx, trace = wrap_obs/map_obs image
                           with the two observations of the entry of h buried right above `step started`).

   THEOREMS
   A  copy_into_plug_is_wrap   hypotheses = those of C17_copy_structure specialised to the host (einv g, root g = Some r,
        r = "plug" or "plug" not a state of g, table n not in {"hroot","plug",""} for the descendants n of r, NoDup of their
        images, table n = n or table n not a state of g, the kind conditions Hkinds; "every state of g lies under r" and the
        transition-closure hypothesis are DERIVED from soundness: sound_all_under_root).  Conclusion: the call returns (h', EOk),
          chart_equiv (wrap (map_chart rs g) "hroot") h' idxs,   c_name / c_description / c_preamble h' = the host's,
          idxs = collect_transitions g2 ("plug" :: descendants_for g2 "plug") [] for the guest copy g2 (img rs g g2).
        So: EQUAL as far as lookups go: every state object (that of hroot is literally wrap's: initial = Some "plug", no code),
        every parent, every children list with its order, the root, the sizes.  EQUIVALENT only: the order of the dictionary
        entries (breadth-first in h', the guest's own in wrap) and the order of the transition list (idxs).
        DIFFERENT: name / description / preamble (host's vs guest's).
      copy_into_plug_same_transitions_refuted   the planned "c_transitions equal" is false (witness: ComposeExample).
      chart_equiv_perm         chart_equiv a b idxs -> C07Proofs.chart_perm a b (pi_of idxs |transitions a|)
                               (struct_equiv with EQUAL children / descendants lists; pi injective on all of nat).
      decl_order_run           C07_decl_order iterated along a C17Proofs.run_ops history in which no execute_once except
                               possibly the last raises: Forall2 (out_rel pi) on the outcomes, run_equiv pi on the final states.
   B1 C17_wrap_rename_run      rho a GLOBAL injection with rho "" = "", monotone on chart_names g; wrap_ok (map_chart rho g)
        (rho r) h; r <> ""; exec_h (wrap_call h (map_call rho cl)) x = exec_g cl x, same for eval; listeners equivariant
        (emit_equi) and silent on `state entered h`; fresh guest interpreter s0 (any id / clock / context / listener state / old
        trace); the guest's first step (fuel f) returns inl m1; no later execute_once of the history ops except possibly the
        last raises.  Then, EXACTLY:
          execute_once (wrap (map_chart rho g) h) (S f) now (host_init s0) = (host_image s1, inl (add_h h (rho-image of m1)))
          run_ops (wrap (map_chart rho g) h) f' ops (host_image s1) = (host_image s_final, map (map_outcome rho) outcomes of g).
   B2 C17_copy_run             hypotheses of A + of B1 with h = "hroot" and rho agreeing with rs on the names occurring in g
        (all_occ g) + C07's: exec_h / eval_h do not depend on the index of the owning transition, listener errors do not mention
        indices; the fresh interpreter mkM (init_istate ..) x [].  Conclusion: exists h' idxs, the call returns (h', EOk),
        chart_equiv .. h' idxs, and with pi = pi_of idxs |transitions g|: the first macro step of h' (fuel S f) is
        macmap pi (add_h "hroot" (rho-image of the guest's)) -- hroot entered first, then plug, ... --, the outcomes of the rest of
        the history are out_rel pi-related to the rho-images of the guest's, and the states are related by C07Proofs.run_equiv pi
        to host_image (run_equiv_fields: configuration = "hroot" :: rho-image as a set, same listener state, context, queues,
        clock, entry / idle times).
   C  wrap_ok_of_WF / wrap_ok_of_wf / wrap_ok_of_wf_b   wrap_ok c r h from C02Proofs.WF c r (resp. wf_chart_b c = true and
        root c = Some r) + the genuinely additional clauses: K c r; parents and children of registered states registered;
        sources / targets of transitions registered; root not final / history; no final child of the root; h <> "", h fresh.
        wrap_extra_b decides them (wrap_extra_b_sound).  `_needed` examples: each "registered" clause and the final-child clause
        fail on a chart accepted by wf_chart_b.  (No dict_okb / tree_okb / NoDup of the keys is needed.)

   WEAKER THAN PLANNED / MISSING
   * B2 is stated up to C07Proofs.run_equiv and out_rel, not as equalities: the configuration is compared as a set
     (Permutation), history memories up to permutation of the values, traces after deleting guard evaluations and the model-only
     ObSelected entries, transition indices renamed by pi.  The renaming of indices is unavoidable
     (copy_into_plug_same_transitions_refuted); the rest is an artefact of reusing C07's simulation: chart_equiv has EQUAL
     children lists, so equality of configurations / memories should hold, but that needs an extensionality theorem
     "execute_once only depends on the chart through state_for / parent_for / children_for / root / the two sizes / the
     transition list" which exists nowhere ("the wrap theorems go through lookup only" is a fact about their proofs).
   * B2 stops at the first exception (its outcome is still related: ERB): after an error C07 only gives run_equiv_err (history
     memory not compared), from which C07_decl_order cannot be restarted.  B1 has the same restriction from wrap_alive
     (WrapProofs.C17_wrap_run_root_active_needed shows it cannot be dropped there).
   * The first macro step of the host needs fuel S f against f for the guest (as in C17_wrap_init).
   * rho has to be supplied (a global injection extending rs on all_occ g; ComposeExample.rho_ex for the prefix renaming).
     copy_renaming_extends: under the hypotheses of A such a rho always exists (C17Proofs.injection_extends; rs is injective on
     the states of g and every name occurring in a sound chart is a state: sound_all_occ_states); it is monotone on
     chart_names g iff rs is (they agree there: C17Proofs.chart_names_occ).  But the evaluator / listener hypotheses of B1 / B2
     mention rho, so for an existentially given rho they have to hold for every renaming (name-blind evaluator); a listener
     that is silent on `state entered hroot` cannot be equivariant for EVERY rho, hence rho stays a parameter of B1 / B2.
   * wrap_ok is required of the RENAMED guest map_chart rho g (checkable: wrap_okb, or C: wf_chart_b + wrap_extra_b);
     its invariance under renaming (from wrap_ok g r h0) is not proved.
   * A covers the host of the harness only (one childless plug state under a fresh root), not an arbitrary host.

   NON-VACUITY (Module ComposeExample)  guest WrapExample.c1 = r > {a, b > {b1, b2}}, 7 transitions (to / from the root, external
     self-loop and internal transition on the root), table = prefix "g_"; rho_ex = "" |-> "", "r" |-> "plug", x |-> "g_" ++ x;
     evaluator exec0 / eval0 of WrapExample, listeners counting meta events; 15 macro steps.
     ex_hypsA, copy_into_plug_is_wrap_instance, copy_into_plug_by_computation (idxs = [3;5;4;0;6;2;1]),
     C17_copy_run_hypotheses_satisfiable, C17_copy_run_instance (from the theorem), C17_copy_run_by_computation,
     C17_wrap_rename_run_by_computation; WrapOkWfExample.c1_hyps / c2_hyps for C.  (All examples were evaluated with vm_compute
     before the theorems were proved.) *)
From Coq Require Import String Ascii List Bool ZArith Arith Lia Permutation.
From Sismic Require Import Base Chart Interp Edit Copy.
From SismicProofs Require Import SortLib FrameLib EditProofs CopyProofs C07Proofs C17Proofs WrapProofs.
From SismicProofs Require C01Proofs C02Proofs C03Proofs WFProofs.
Import ListNotations.
Open Scope string_scope.
Open Scope list_scope.

(* ================================================================== 0. the host of the harness and a small guest *)
(* harness/c17.py, plug(): Statechart(name, preamble); add_state(CompoundState('hroot', initial='plug'), None);
   add_state(BasicState('plug'), 'hroot') *)
Definition plug_host (nm : string) (d : option string) (pre : option code) : chart :=
  mkChart nm d pre
    [("hroot", stx "hroot" KCompound (Some "plug") None); ("plug", stx "plug" KBasic None None)]
    [("hroot", None); ("plug", Some "hroot")]
    [(None, ["hroot"]); (Some "hroot", ["plug"]); (Some "plug", [])]
    [].

(* it is what the model of add_state builds *)
Example plug_host_built : forall nm d pre,
  (let '(h1, _) := add_state (mkChart nm d pre [] [] [(None, [])] []) (stx "hroot" KCompound (Some "plug") None) None in
   add_state h1 (stx "plug" KBasic None None) (Some "hroot")) = (plug_host nm d pre, EOk).
Proof. intros. vm_compute. reflexivity. Qed.

Lemma plug_host_einv : forall nm d pre, einv (plug_host nm d pre).
Proof. intros. apply einv_b; vm_compute; reflexivity. Qed.

(* the guest of the examples: WrapExample.c1 = r > {a, b > {b1, b2}}, 7 transitions (from / to the root, an external self-loop
   and an internal transition on the root), renamed with the prefix "g_" *)
Definition ex_g : chart := WrapExample.c1.
Definition ex_table : list (name * name) := [("a", "g_a"); ("b", "g_b"); ("b1", "g_b1"); ("b2", "g_b2")].
Definition ex_h : chart := Eval vm_compute in fst (copy_from_statechart (plug_host "host" None None) ex_g "r" "plug" ex_table).

(* ================================================================== 1. generic lemmas *)
Lemma sound_root_lookup : forall c r, sound c -> root c = Some r -> lookup r (c_parent c) = Some None.
Proof.
  intros c r S Hr. apply In_lookup; [apply (sd_nd_parent c S)|]. apply c7_root_of_In. exact Hr.
Qed.

(* in a sound chart every state is the root or lies below it *)
Lemma sound_all_under_root : forall c r, sound c -> root c = Some r ->
  forall x, has_state c x = true -> x = r \/ anc c x r.
Proof.
  intros c r S Hr. pose proof (sound_root_lookup c r S Hr) as Hrl.
  destruct (sd_acyc c S) as [rank Hrk].
  assert (H : forall k x, rank x < k -> has_state c x = true -> x = r \/ anc c x r).
  { induction k as [|k IH]; intros x Hk Hx; [inversion Hk|].
    destruct (sound_state_parent c S x Hx) as [[q|] Hp].
    - right. assert (Hq : has_state c q = true) by (destruct (sd_pc c S _ _ Hp) as [Hq _]; apply Hq; reflexivity).
      destruct (IH q) as [->|Ha]; [specialize (Hrk _ _ Hp); lia|exact Hq| |].
      + apply anc_parent. exact Hp.
      + eapply anc_step; eauto.
    - left. destruct (sd_pc c S _ _ Hp) as [_ [l [Hl Hc]]]. destruct (sd_pc c S _ _ Hrl) as [_ [l' [Hl' Hc']]].
      rewrite Hl in Hl'. inv Hl'. pose proof (sd_top c S _ Hl) as Hlen.
      apply count_occ_one_In in Hc. apply count_occ_one_In in Hc'.
      destruct l' as [|y [|z l']]; simpl in *; [destruct Hc| |lia].
      destruct Hc as [<-|[]], Hc' as [<-|[]]. reflexivity. }
  intros x Hx. apply (H (Datatypes.S (rank x)) x); auto.
Qed.

Lemma bfs_children_ext : forall a b, (forall n, children_for b n = children_for a n) ->
  forall f q, bfs b f q = bfs a f q.
Proof. intros a b H. induction f as [|f IH]; intros q; [reflexivity|]. destruct q as [|n q]; [reflexivity|]. cbn [bfs]. rewrite H, IH. reflexivity. Qed.

Lemma lookup_map_kv_in : forall {V W} (f : name -> name) (F : V -> W) (dd : list (name * V)) n,
  (forall k, In k (map fst dd) -> f k = f n -> k = n) ->
  lookup (f n) (C17Proofs.map_kv f F dd) = option_map F (lookup n dd).
Proof.
  intros V W f F dd n. unfold C17Proofs.map_kv.
  induction dd as [|[k v] dd IH]; intros H; cbn [map lookup fst snd]; [reflexivity|].
  destruct (seqbP n k) as [->|Hnk].
  - rewrite seqb_refl. reflexivity.
  - destruct (seqbP (f n) (f k)) as [E|_].
    + exfalso. apply Hnk. symmetry. apply H; [left; reflexivity|symmetry; exact E].
    + apply IH. intros k' Hk'. apply H. right. exact Hk'.
Qed.

Lemma lookup_map_kv_out : forall {V W} (f : name -> name) (F : V -> W) (dd : list (name * V)) x,
  (forall k, In k (map fst dd) -> f k <> x) -> lookup x (C17Proofs.map_kv f F dd) = None.
Proof.
  intros V W f F dd x. unfold C17Proofs.map_kv.
  induction dd as [|[k v] dd IH]; intros H; cbn [map lookup fst snd]; [reflexivity|].
  destruct (seqbP x (f k)) as [E|_].
  - exfalso. apply (H k); [left; reflexivity|symmetry; exact E].
  - apply IH. intros k' Hk'. apply H. right. exact Hk'.
Qed.

Definition map_ch (f : name -> name) (dd : list (option name * list name)) : list (option name * list name) :=
  map (fun kv => (option_map f (fst kv), map f (snd kv))) dd.

Lemma olookup_map_in : forall (f : name -> name) dd n,
  (forall k, In (Some k) (map fst dd) -> f k = f n -> k = n) ->
  olookup (Some (f n)) (map_ch f dd) = option_map (map f) (olookup (Some n) dd).
Proof.
  intros f dd n. unfold map_ch.
  induction dd as [|[[k|] v] dd IH]; intros H; cbn [map olookup fst snd option_map opt_eqb]; [reflexivity| |].
  - destruct (seqbP n k) as [->|Hnk].
    + rewrite seqb_refl. reflexivity.
    + destruct (seqbP (f n) (f k)) as [E|_].
      * exfalso. apply Hnk. symmetry. apply H; [left; reflexivity|symmetry; exact E].
      * apply IH. intros k' Hk'. apply H. right. exact Hk'.
  - apply IH. intros k' Hk'. apply H. right. exact Hk'.
Qed.

Lemma olookup_map_out : forall (f : name -> name) dd x,
  (forall k, In (Some k) (map fst dd) -> f k <> x) -> olookup (Some x) (map_ch f dd) = None.
Proof.
  intros f dd x. unfold map_ch.
  induction dd as [|[[k|] v] dd IH]; intros H; cbn [map olookup fst snd option_map opt_eqb]; [reflexivity| |].
  - destruct (seqbP x (f k)) as [E|_].
    + exfalso. apply (H k); [left; reflexivity|symmetry; exact E].
    + apply IH. intros k' Hk'. apply H. right. exact Hk'.
  - apply IH. intros k' Hk'. apply H. right. exact Hk'.
Qed.

Lemma olookup_key : forall {V} (k : option name) (dd : list (option name * V)), In k (map fst dd) -> olookup k dd <> None.
Proof.
  intros V k dd. induction dd as [|[k' v] dd IH]; cbn [map In olookup fst]; [tauto|].
  intros [E|H]; [subst k'; rewrite oeqb_refl; discriminate|].
  destruct (opt_eqb str_eqb k k'); [discriminate|auto].
Qed.

Lemma lookup_not_key : forall {V} (k : name) (dd : list (name * V)), ~ In k (map fst dd) -> lookup k dd = None.
Proof.
  intros V k dd H. destruct (lookup k dd) eqn:E; [|reflexivity]. exfalso. apply H. apply lookup_Some_In_keys. congruence.
Qed.

Lemma olookup_not_key : forall {V} (k : option name) (dd : list (option name * V)), ~ In k (map fst dd) -> olookup k dd = None.
Proof.
  intros V k dd. induction dd as [|[k' v] dd IH]; cbn [map In olookup fst]; [reflexivity|]. intros H.
  destruct (oeqbP k k') as [E|_]; [exfalso; apply H; left; congruence|]. apply IH. tauto.
Qed.

Lemma root_of_map : forall (f : name -> name) dd,
  root_of (C17Proofs.map_kv f (option_map f) dd) = option_map f (root_of dd).
Proof.
  intros f dd. unfold C17Proofs.map_kv. induction dd as [|[n [p|]] dd IH]; cbn [map root_of fst snd option_map]; auto.
Qed.

(* ================================================================== 2. "the same chart up to the order of the dictionaries
   and of the transition list" *)
(* b is a with its three dictionaries in another order (same lookups, same sizes) and its transitions listed in the order idxs
   (transition k of b is transition (nth k idxs) of a). *)
Record chart_equiv (a b : chart) (idxs : list nat) : Prop := mkCE {
  ce_states : forall n, state_for b n = state_for a n;
  ce_parent : forall n, parent_for b n = parent_for a n;
  ce_children : forall n, children_for b n = children_for a n;
  ce_root : root b = root a;
  ce_slen : length (c_states b) = length (c_states a);
  ce_plen : length (c_parent b) = length (c_parent a);
  ce_trans : c_transitions b = flat_map (nth_trans (c_transitions a)) idxs;
  ce_idxs : Permutation idxs (seq 0 (length (c_transitions a)))
}.

(* ================================================================== 3. A: the copy into the plug host is a wrap *)
Section PlugA.
  Variables (g : chart) (r : name) (rho : list (name * name)) (nm : string) (d : option string) (pre : option code).
  Notation host := (plug_host nm d pre).
  Let D := descendants_for g r.
  Let rh := rho_apply rho.
  Let R := rs g r "plug" rho.

  Hypothesis HG : einv g.
  Hypothesis Hroot : root g = Some r.
  Hypothesis Hrp : r = "plug" \/ has_state g "plug" = false.
  Hypothesis Hfresh_h : forall n, In n D -> rh n <> "hroot" /\ rh n <> "plug".
  Hypothesis Hnonempty : forall n, In n D -> rh n <> "".
  Hypothesis Hinj : NoDup (map rh D).
  Hypothesis Hfresh_g : forall n, In n D -> rh n = n \/ has_state g (rh n) = false.
  Hypothesis Hkinds : forall n p sp sn, In n D -> lookup n (c_parent g) = Some (Some p) ->
    lookup p (c_states g) = Some sp -> lookup n (c_states g) = Some sn ->
    is_composite (s_kind sp) = true /\ (is_history (s_kind sn) = true -> s_kind sp = KCompound).

  Let GS : sound g := proj1 HG.

  Lemma pa_src : has_state g r = true.
  Proof. apply (sd_pkeys g GS). rewrite (sound_root_lookup g r GS Hroot). discriminate. Qed.

  Lemma pa_all : forall n, has_state g n = true <-> n = r \/ In n D.
  Proof.
    intros n. split.
    - intros H. destruct (sound_all_under_root g r GS Hroot n H) as [E|A]; [left; exact E|right].
      apply (descendants_for_spec g GS). exact A.
    - intros [->|H]; [exact pa_src|]. apply (descendants_for_spec g GS) in H. exact (anc_has_state g GS _ _ H).
  Qed.

  Lemma pa_r_notin : ~ In r D.
  Proof. intros H. apply (descendants_for_spec g GS) in H. exact (sound_anc_irrefl g GS r H). Qed.

  Lemma host_has : forall x, has_state host x = true <-> x = "hroot" \/ x = "plug".
  Proof.
    intros x. unfold has_state. cbn [plug_host c_states lookup].
    destruct (seqbP x "hroot") as [->|H1]; [tauto|]. destruct (seqbP x "plug") as [->|H2]; [tauto|].
    split; [discriminate|intros [E|E]; contradiction].
  Qed.

  Lemma pa_fresh_h : forall n, In n D -> has_state host (rh n) = false.
  Proof.
    intros n Hn. destruct (has_state host (rh n)) eqn:E; [|reflexivity]. apply host_has in E.
    destruct (Hfresh_h n Hn). destruct E; contradiction.
  Qed.

  Lemma R_unfold : forall x, R x = if str_eqb x r then "plug" else if mem x D then rh x else x.
  Proof. reflexivity. Qed.

  Lemma R_r : R r = "plug".
  Proof. rewrite R_unfold, seqb_refl. reflexivity. Qed.

  Lemma R_D : forall n, In n D -> R n = rh n.
  Proof.
    intros n Hn. rewrite R_unfold. destruct (seqbP n r) as [->|_]; [exfalso; exact (pa_r_notin Hn)|].
    apply mem_In in Hn. rewrite Hn. reflexivity.
  Qed.

  Lemma R_inj : forall a b, has_state g a = true -> has_state g b = true -> R a = R b -> a = b.
  Proof.
    intros a b Ha Hb. apply pa_all in Ha. apply pa_all in Hb.
    apply (rs_inj_S host g r "plug" rho HG); [reflexivity|exact pa_fresh_h|exact Hinj|exact Ha|exact Hb].
  Qed.

  (* the image of the states of g *)
  Lemma R_img : forall x, In x ("plug" :: map rh D) <-> exists n, has_state g n = true /\ x = R n.
  Proof.
    intros x. split.
    - intros [<-|H].
      + exists r. split; [exact pa_src|symmetry; exact R_r].
      + apply in_map_iff in H. destruct H as [n [<- Hn]]. exists n. split; [apply pa_all; right; exact Hn|].
        symmetry. apply R_D. exact Hn.
    - intros [n [Hn ->]]. apply pa_all in Hn. destruct Hn as [->|Hn]; [left; symmetry; exact R_r|right].
      rewrite (R_D _ Hn). apply in_map. exact Hn.
  Qed.

  Lemma R_ne_hroot : forall n, has_state g n = true -> R n <> "hroot".
  Proof.
    intros n Hn E. apply pa_all in Hn. destruct Hn as [->|Hn]; [rewrite R_r in E; discriminate|].
    rewrite (R_D _ Hn) in E. destruct (Hfresh_h n Hn). contradiction.
  Qed.

  Lemma R_D_ne_plug : forall n, In n D -> R n <> "plug".
  Proof. intros n Hn. rewrite (R_D _ Hn). apply (Hfresh_h n Hn). Qed.

  (* ---- the queries of c = map_chart R g ---- *)
  Notation c := (C17Proofs.map_chart R g).

  Lemma c_state_in : forall n, has_state g n = true ->
    state_for c (R n) = option_map (C17Proofs.map_state R) (lookup n (c_states g)).
  Proof.
    intros n Hn. unfold state_for. cbn [C17Proofs.map_chart c_states]. apply lookup_map_kv_in.
    intros k Hk E. apply R_inj; [apply has_state_In; exact Hk|exact Hn|exact E].
  Qed.

  Lemma c_state_out : forall x, (forall n, has_state g n = true -> R n <> x) -> state_for c x = None.
  Proof.
    intros x H. unfold state_for. cbn [C17Proofs.map_chart c_states]. apply lookup_map_kv_out.
    intros k Hk. apply H. apply has_state_In. exact Hk.
  Qed.

  Lemma pkey_state : forall k, In k (map fst (c_parent g)) -> has_state g k = true.
  Proof. intros k Hk. apply (sd_pkeys g GS). apply lookup_Some_In_keys. exact Hk. Qed.

  Lemma ckey_state : forall k, In (Some k) (map fst (c_children g)) -> has_state g k = true.
  Proof. intros k Hk. apply (sd_ckeys g GS). apply olookup_key. exact Hk. Qed.

  Lemma c_parent_in : forall n, has_state g n = true -> parent_for c (R n) = option_map R (parent_for g n).
  Proof.
    intros n Hn. unfold parent_for. cbn [C17Proofs.map_chart c_parent]. rewrite lookup_map_kv_in.
    - destruct (lookup n (c_parent g)) as [p|]; reflexivity.
    - intros k Hk E. apply R_inj; [apply pkey_state; exact Hk|exact Hn|exact E].
  Qed.

  Lemma c_parent_out : forall x, (forall n, has_state g n = true -> R n <> x) -> parent_for c x = None.
  Proof.
    intros x H. unfold parent_for. cbn [C17Proofs.map_chart c_parent]. rewrite lookup_map_kv_out; [reflexivity|].
    intros k Hk. apply H. apply pkey_state. exact Hk.
  Qed.

  Lemma c_children_in : forall n, has_state g n = true -> children_for c (R n) = map R (children_for g n).
  Proof.
    intros n Hn. unfold children_for. cbn [C17Proofs.map_chart c_children]. fold (map_ch R (c_children g)).
    rewrite olookup_map_in.
    - destruct (olookup (Some n) (c_children g)) as [l|]; reflexivity.
    - intros k Hk E. apply R_inj; [apply ckey_state; exact Hk|exact Hn|exact E].
  Qed.

  Lemma c_children_out : forall x, (forall n, has_state g n = true -> R n <> x) -> children_for c x = [].
  Proof.
    intros x H. unfold children_for. cbn [C17Proofs.map_chart c_children]. fold (map_ch R (c_children g)).
    rewrite olookup_map_out; [reflexivity|]. intros k Hk. apply H. apply ckey_state. exact Hk.
  Qed.

  Lemma c_root : root c = Some "plug".
  Proof. unfold root. cbn [C17Proofs.map_chart c_parent]. rewrite root_of_map. fold (root g). rewrite Hroot. cbn [option_map]. rewrite R_r. reflexivity. Qed.

  Lemma c_K_plug : K c "plug".
  Proof.
    unfold K. rewrite <- R_r, (c_state_in r pa_src). destruct (proj1 (has_state_Some g r) pa_src) as [s Hs]. rewrite Hs. discriminate.
  Qed.

  Lemma c_hroot_fresh : state_for c "hroot" = None.
  Proof. apply c_state_out. exact R_ne_hroot. Qed.

  Notation Wc := (wrap c "hroot").

  Lemma W_state : forall x, state_for Wc x =
    if str_eqb x "hroot" then Some (hstate "hroot" (Some "plug")) else state_for c x.
  Proof.
    intros x. destruct (seqbP x "hroot") as [->|H]; [apply (state_for_w_h c "plug" "hroot" c_root)|apply state_for_w; exact H].
  Qed.

  Lemma W_parent : forall x, parent_for Wc x =
    if str_eqb x "hroot" then None else if str_eqb x "plug" then Some "hroot" else parent_for c x.
  Proof.
    intros x. destruct (seqbP x "hroot") as [->|H]; [apply parent_for_w_h|].
    destruct (seqbP x "plug") as [->|H2]; [apply (parent_for_w_r c "plug" "hroot" c_root c_K_plug c_hroot_fresh)|].
    apply (parent_for_w c "plug" "hroot" c_root); assumption.
  Qed.

  Lemma W_children : forall x, children_for Wc x = if str_eqb x "hroot" then ["plug"] else children_for c x.
  Proof.
    intros x. destruct (seqbP x "hroot") as [->|H]; [apply (children_for_w_h c "plug" "hroot" c_root)|apply children_for_w; exact H].
  Qed.

  Lemma g_states_len : length (c_states g) = S (length D).
  Proof.
    rewrite <- (map_length fst (c_states g)). change (S (length D)) with (length (r :: D)).
    apply Permutation_length. apply NoDup_Permutation.
    - apply (sd_nd_states g GS).
    - constructor; [exact pa_r_notin|apply descendants_NoDup; exact GS].
    - intros x. rewrite <- has_state_In, pa_all. cbn [In]. split; intros [E|E]; auto.
  Qed.

  Lemma g_parent_len : length (c_parent g) = length (c_states g).
  Proof.
    rewrite <- (map_length fst (c_parent g)), <- (map_length fst (c_states g)).
    apply Permutation_length. apply NoDup_Permutation; [apply (sd_nd_parent g GS)|apply (sd_nd_states g GS)|].
    intros x. rewrite <- has_state_In, <- (sd_pkeys g GS), lookup_Some_In_keys. tauto.
  Qed.

  Lemma g_trans_touch : forall t, In t (c_transitions g) -> t_source t = r \/ In (t_source t) D.
  Proof.
    intros t Ht. destruct (sd_trans g GS t Ht) as [[s [Hs _]] _]. apply pa_all. apply has_state_Some. eauto.
  Qed.

  Lemma g_trans_target : forall t tg, In t (c_transitions g) -> t_target t = Some tg -> tg = r \/ In tg D.
  Proof. intros t tg Ht E. destruct (sd_trans g GS t Ht) as [_ H]. apply pa_all. apply H. exact E. Qed.

  (* A.  The chart built by copy_from_statechart (plug_host ..) g r "plug" rho is wrap (map_chart R g) "hroot" up to the order of
     the dictionary entries and of the transitions: equal lookups (state objects, parents, children lists IN THE SAME ORDER, root),
     equal sizes, the transitions are those of wrap (map_chart R g) "hroot" listed in the order idxs (a permutation of all
     indices: the order in which the copy loop meets them); name, description and preamble are the host's (wrap keeps the
     guest's: they are not used by the interpreter).  In particular the state object of "hroot" is literally wrap's
     (initial = Some "plug" = the image of the guest's root, no code, no contracts). *)
  Theorem copy_into_plug_is_wrap :
    exists h' idxs,
      copy_from_statechart host g r "plug" rho = (h', EOk)
      /\ chart_equiv Wc h' idxs
      /\ c_name h' = nm /\ c_description h' = d /\ c_preamble h' = pre
      /\ (exists g2, einv g2 /\ img R g g2 /\ idxs = collect_transitions g2 ("plug" :: descendants_for g2 "plug") []).
  Proof.
    destruct (C17_copy_structure host g r "plug" rho (plug_host_einv nm d pre) HG eq_refl eq_refl pa_src Hrp pa_fresh_h
                Hnonempty Hinj Hfresh_g Hkinds)
      as (h' & Hrun & KS & PP & CK & B1 & B2 & B3 & B4 & C1 & C2 & C3 & (g2 & idxs & E2 & I2 & Hidx & TT & ND & Hin) & N1 & N2 & N3).
    { intros t Ht tg Etg. split; intros _; [apply (g_trans_target t tg Ht Etg)|apply (g_trans_touch t Ht)]. }
    fold D in KS, PP, CK, B2. fold rh in KS, PP, CK. fold R in PP, B1, B2, B4, I2, TT.
    exists h', idxs. split; [exact Hrun|]. split; [|split; [exact N1|split; [exact N2|split; [exact N3|]]]].
    2:{ exists g2. auto. }
    cbn [plug_host c_states c_parent c_children c_transitions map fst app] in KS, PP, CK, TT.
    assert (Hnk : forall x, x <> "hroot" -> ~ In x ("plug" :: map rh D) -> forall n, has_state g n = true -> R n <> x).
    { intros x _ Hx n Hn E. apply Hx. apply R_img. exists n. split; [exact Hn|symmetry; exact E]. }
    assert (PK : map fst (c_parent h') = "hroot" :: "plug" :: map rh D).
    { rewrite PP. cbn [map fst]. rewrite map_map. cbn [fst]. reflexivity. }
    constructor.
    - (* states *)
      intros x. rewrite W_state. destruct (seqbP x "hroot") as [->|Hx].
      + unfold state_for. rewrite C1; [reflexivity|reflexivity|discriminate].
      + destruct (in_dec string_dec x ("plug" :: map rh D)) as [Hi|Hi].
        * apply R_img in Hi. destruct Hi as [n [Hn ->]]. rewrite (c_state_in n Hn).
          destruct (proj1 (has_state_Some g n) Hn) as [s Hs]. rewrite Hs. unfold state_for.
          rewrite (B1 n s (proj1 (pa_all n) Hn) Hs). reflexivity.
        * rewrite (c_state_out x (Hnk x Hx Hi)). unfold state_for. apply lookup_not_key. rewrite KS.
          intros [E|H]; [apply Hx; symmetry; exact E|exact (Hi H)].
    - (* parents *)
      intros x. rewrite W_parent. destruct (seqbP x "hroot") as [->|Hx].
      + unfold parent_for. rewrite C2; reflexivity.
      + destruct (seqbP x "plug") as [->|Hx2].
        * unfold parent_for. rewrite B3. reflexivity.
        * destruct (in_dec string_dec x ("plug" :: map rh D)) as [Hi|Hi].
          -- apply R_img in Hi. destruct Hi as [n [Hn ->]]. rewrite (c_parent_in n Hn).
             apply pa_all in Hn. destruct Hn as [->|Hn]; [exfalso; apply Hx2; exact R_r|].
             unfold parent_for at 1. rewrite (B2 n Hn). reflexivity.
          -- rewrite (c_parent_out x (Hnk x Hx Hi)). unfold parent_for. rewrite lookup_not_key; [reflexivity|].
             rewrite PK. intros [E|H]; [apply Hx; symmetry; exact E|exact (Hi H)].
    - (* children *)
      intros x. rewrite W_children. destruct (seqbP x "hroot") as [->|Hx].
      + unfold children_for. rewrite C3; [reflexivity|discriminate|discriminate].
      + destruct (in_dec string_dec x ("plug" :: map rh D)) as [Hi|Hi].
        * apply R_img in Hi. destruct Hi as [n [Hn ->]]. rewrite (c_children_in n Hn).
          unfold children_for at 1. rewrite (B4 n (proj1 (pa_all n) Hn)). reflexivity.
        * rewrite (c_children_out x (Hnk x Hx Hi)). unfold children_for. rewrite olookup_not_key; [reflexivity|].
          rewrite CK. intros [E|[E|[E|H]]]; try discriminate.
          -- apply Hx. inv E. reflexivity.
          -- apply Hi. left. inv E. reflexivity.
          -- apply Hi. right. apply in_map_iff in H. destruct H as [n [E Hn]]. inv E. apply in_map. exact Hn.
    - (* root *) unfold root at 1. rewrite PP. reflexivity.
    - (* sizes *)
      rewrite <- (map_length fst (c_states h')), KS. cbn [wrap c_states length C17Proofs.map_chart].
      unfold C17Proofs.map_kv. rewrite !map_length, g_states_len. reflexivity.
    - rewrite <- (map_length fst (c_parent h')), PK. rewrite (parent_len_w c "plug" "hroot" c_root).
      cbn [length C17Proofs.map_chart c_parent]. unfold C17Proofs.map_kv. rewrite !map_length, g_parent_len, g_states_len. reflexivity.
    - (* transitions *)
      rewrite TT. cbn [wrap c_transitions C17Proofs.map_chart]. symmetry. apply (flat_nth_trans_map (C17Proofs.map_trans R)).
    - cbn [wrap c_transitions C17Proofs.map_chart]. rewrite map_length. apply NoDup_Permutation; [exact ND|apply seq_NoDup|].
      intros i. rewrite Hin, in_seq. split.
      + intros [t [Ht _]]. split; [lia|]. apply nth_error_Some. congruence.
      + intros [_ Hi]. destruct (nth_error (c_transitions g) i) as [t|] eqn:E; [|apply nth_error_None in E; cbn in Hi; lia].
        exists t. split; [reflexivity|]. left. apply (g_trans_touch t). eapply nth_error_In; eauto.
  Qed.
End PlugA.

(* ================================================================== 4. B1: renaming + new root, from the fresh interpreter *)
Lemma removelast_map : forall {A B} (f : A -> B) l, removelast (map f l) = map f (removelast l).
Proof.
  intros A B f. induction l as [|x l IH]; [reflexivity|]. destruct l as [|y l]; [reflexivity|].
  change (map f (x :: y :: l)) with (f x :: map f (y :: l)). change (removelast (x :: y :: l)) with (x :: removelast (y :: l)).
  cbn [map]. cbn [map] in IH. rewrite <- IH. reflexivity.
Qed.

Section WrapRename.
  Variable rho : name -> name.
  Hypothesis rho_inj : forall a b, rho a = rho b -> a = b.
  Hypothesis rho_empty : rho "" = "".
  Variable g : chart.
  Hypothesis rho_mono : forall a b, inN g a -> inN g b -> str_leb (rho a) (rho b) = str_leb a b.
  Variables r h : name.
  Notation c := (C17Proofs.map_chart rho g).
  Hypothesis Hok : wrap_ok c (rho r) h.
  Hypothesis Hr_ne : r <> "".
  Variables ctx X X' : Type.
  Variables exec_g exec_h : call ctx -> ctx -> option (ctx * list event).
  Variables eval_g eval_h : call ctx -> ctx -> option bool.
  Variable emit_g : Z -> meta -> X -> X * option err.
  Variable emit_h : Z -> meta -> X' -> X' * option err.
  Variable fx : X -> X'.
  (* the evaluator of the host sees the guest's calls renamed and with h among the active states, and does not care *)
  Hypothesis exec_blind : forall cl x, exec_h (wrap_call h (map_call rho cl)) x = exec_g cl x.
  Hypothesis eval_blind : forall cl x, eval_h (wrap_call h (map_call rho cl)) x = eval_g cl x.
  (* the listeners of the host are the guest's up to the renaming, and do not react to the entry of h *)
  Hypothesis emit_equi : forall t m x,
    emit_h t (map_meta rho m) (fx x) = (fx (fst (emit_g t m x)), option_map (map_err rho) (snd (emit_g t m x))).
  Hypothesis emit_hroot : forall t x, emit_h t (MEntered h) x = (x, None).

  Let exec_m (cl : call ctx) (x : ctx) := exec_h (wrap_call h cl) x.
  Let eval_m (cl : call ctx) (x : ctx) := eval_h (wrap_call h cl) x.

  (* a freshly constructed interpreter (any id, clock, initial context, listener state, and any old trace) *)
  Definition guest_init (s0 : mstate ctx X) : Prop :=
    i_initialized (m_i s0) = false /\ i_config (m_i s0) = [] /\ i_entry (m_i s0) = [] /\ i_idle (m_i s0) = []
    /\ i_memory (m_i s0) = [].

  (* the host interpreter before its first step *)
  Definition host_init (s0 : mstate ctx X) : mstate ctx X' :=
    mkM (map_istate rho (m_i s0)) (fx (m_x s0)) (map (wrap_obs h) (map (map_obs rho) (m_tr s0))).

  (* the host state that corresponds to the guest state s, after the first macro step was performed at time `now` from s0:
     configuration h :: rho-image, h entered at `now`, listener state fx, trace = image of the guest's trace with the two
     observations of the entry of h buried right above `step started` *)
  Definition host_old (now : Z) (s0 : mstate ctx X) : list (obs ctx) :=
    ObMeta (MStepStarted now) :: map (map_obs rho) (m_tr s0).
  Definition host_image (now : Z) (s0 s : mstate ctx X) : mstate ctx X' :=
    W h ctx X' now (ft_init h (init_extra h ctx (i_id (m_i s0)) now) (host_old now s0)) (map_mstate rho ctx X X' fx s).

  Lemma host_image_fields now s0 s :
    m_i (host_image now s0 s) = wrap_state h now (map_istate rho (m_i s)) /\ m_x (host_image now s0 s) = fx (m_x s).
  Proof. split; reflexivity. Qed.

  Lemma is_inl_map_outcome : forall l : list (option macrostep + err),
    Forall is_inl (removelast l) -> Forall is_inl (removelast (map (map_outcome rho) l)).
  Proof.
    intros l0 H. rewrite removelast_map. induction H as [|x l Hx Hl IH]; cbn [map]; constructor; [|exact IH].
    destruct x; [exact I|destruct Hx].
  Qed.

  Theorem C17_wrap_rename_run fuel now (s0 : mstate ctx X) m1 fuel' ops :
    guest_init s0 ->
    snd (execute_once ctx X exec_g eval_g emit_g g fuel now s0) = inl m1 ->
    let s1 := fst (execute_once ctx X exec_g eval_g emit_g g fuel now s0) in
    let rg := run_ops ctx X exec_g eval_g emit_g g fuel' ops s1 in
    Forall is_inl (removelast (snd rg)) ->
    execute_once ctx X' exec_h eval_h emit_h (wrap c h) (S fuel) now (host_init s0)
      = (host_image now s0 s1, inl (add_h h (option_map (map_macro rho) m1)))
    /\ run_ops ctx X' exec_h eval_h emit_h (wrap c h) fuel' ops (host_image now s0 s1)
      = (host_image now s0 (fst rg), map (map_outcome rho) (snd rg)).
  Proof.
    intros (Hi & Hc & He & Hd & Hm) Hs1 s1 rg Hf.
    assert (Hexec : forall cl x, exec_m (map_call rho cl) x = exec_g cl x) by (intros; apply exec_blind).
    assert (Heval : forall cl x, eval_m (map_call rho cl) x = eval_g cl x) by (intros; apply eval_blind).
    assert (Hcl0 : closed g ctx X s0).
    { split; [rewrite Hc; constructor|unfold memN; rewrite Hm; constructor]. }
    destruct (C17_equivariance rho rho_inj rho_empty g rho_mono ctx X X' exec_g exec_m eval_g eval_m emit_g emit_h fx
                Hexec Heval emit_equi fuel now s0 Hcl0) as [E1 Hcl1].
    fold s1 in E1, Hcl1. rewrite Hs1 in E1. cbn [map_outcome] in E1.
    set (s0' := map_mstate rho ctx X X' fx s0) in *.
    assert (Hrr : rho r <> "") by (intros E; apply Hr_ne; apply rho_inj; rewrite rho_empty; exact E).
    destruct (C17_wrap_init c (rho r) h Hok Hrr ctx X' exec_m exec_h eval_m eval_h emit_h
                (fun _ _ => eq_refl) (fun _ _ => eq_refl) emit_hroot fuel now s0' (option_map (map_macro rho) m1))
      as [T [HT [Einit [Hinv Hact]]]].
    { exact Hi. }
    { cbn. rewrite Hc. reflexivity. }
    { cbn. rewrite He. reflexivity. }
    { cbn. rewrite Hd. reflexivity. }
    { cbn. rewrite Hm. constructor. }
    { rewrite E1. reflexivity. }
    rewrite E1 in HT, Einit, Hinv, Hact. cbn [fst] in HT, Einit, Hinv, Hact.
    set (extra := init_extra h ctx (i_id (m_i s0)) now).
    set (old := host_old now s0).
    assert (Himg1 : host_image now s0 s1
                    = mkM (wrap_state h now (m_i (map_mstate rho ctx X X' fx s1))) (m_x (map_mstate rho ctx X X' fx s1))
                          (map (wrap_obs h) T ++ extra ++ ObMeta (MStepStarted now) :: map (wrap_obs h) (m_tr s0'))).
    { unfold host_image, W. fold extra old. rewrite HT. f_equal.
      change (ObMeta (MStepStarted now) :: m_tr s0') with old. rewrite ft_init_app. reflexivity. }
    split.
    - rewrite Himg1. exact Einit.
    - destruct (C17_equivariance_run rho rho_inj rho_empty g rho_mono ctx X X' exec_g exec_m eval_g eval_m emit_g emit_h fx
                  Hexec Heval emit_equi fuel' ops s1 Hcl1) as [E2 _].
      fold rg in E2.
      set (Tdom := fun tr : list (obs ctx) => exists T0, tr = T0 ++ old).
      assert (Hinv' : inv c ctx X' Tdom (map_mstate rho ctx X X' fx s1)).
      { split; [exact Hinv|]. exists T. exact HT. }
      assert (Hf' : Forall is_inl (removelast (snd (run_ops ctx X' exec_m eval_m emit_h c fuel' ops
                                                            (map_mstate rho ctx X X' fx s1))))).
      { rewrite E2. cbn [snd]. apply is_inl_map_outcome. exact Hf. }
      destruct Hok as (H1 & H2 & H3 & H4 & H5 & H6 & H7 & H8 & H9 & H10 & H11 & H12 & H13 & H14 & H15 & H16 & H17 & H18 & H19).
      pose proof (alive_errfree c (rho r) h H1 H2 H3 H4 H5 H6 H7 H8 H9 H10 H11 H12 H13 H14 H15 H16 H17 H18 H19
                    ctx X' exec_m exec_h eval_m eval_h emit_h (fun _ _ => eq_refl) (fun _ _ => eq_refl) now
                    (ft_init h extra old) Tdom
                    (fun o tr Ht => ft_init_cons h extra old o tr Ht)
                    (fun o tr Ht => match Ht with ex_intro _ T0 E => ex_intro _ (o :: T0) (f_equal (cons o) E) end)
                    fuel' ops _ Hinv' Hact Hf') as Halive.
      destruct (wrap_run_gen c (rho r) h H1 H2 H3 H4 H5 H6 H7 H8 H9 H10 H11 H12 H13 H14 H15 H16 H17 H18 H19
                  ctx X' exec_m exec_h eval_m eval_h emit_h (fun _ _ => eq_refl) (fun _ _ => eq_refl) now
                  (ft_init h extra old) Tdom
                  (fun o tr Ht => ft_init_cons h extra old o tr Ht)
                  (fun o tr Ht => match Ht with ex_intro _ T0 E => ex_intro _ (o :: T0) (f_equal (cons o) E) end)
                  fuel' ops _ Hinv' Halive) as [E3 _].
      rewrite E2 in E3. cbn [fst snd] in E3. exact E3.
  Qed.
End WrapRename.

(* ================================================================== 5. chart_equiv is an instance of C07's chart_perm; runs *)
Fixpoint pos (i : nat) (l : list nat) : nat :=
  match l with [] => 0 | j :: l' => if Nat.eqb i j then 0 else S (pos i l') end.

(* index of a transition of a |-> its index in b *)
Definition pi_of (idxs : list nat) (n : nat) (i : nat) : nat := if Nat.ltb i n then pos i idxs else i.

Lemma pos_nth : forall i l, In i l -> nth_error l (pos i l) = Some i.
Proof.
  intros i. induction l as [|j l IH]; intros H; [destruct H|]. cbn [pos].
  destruct (Nat.eqb_spec i j) as [->|Hne]; [reflexivity|]. cbn [nth_error]. apply IH. destruct H; [congruence|assumption].
Qed.

Lemma pos_lt : forall i l, In i l -> pos i l < length l.
Proof. intros i l H. apply nth_error_Some. rewrite (pos_nth i l H). discriminate. Qed.

Lemma nth_error_flat_nth_trans : forall (ta : list transition) idxs k,
  (forall j, In j idxs -> j < length ta) ->
  nth_error (flat_map (nth_trans ta) idxs) k = match nth_error idxs k with Some j => nth_error ta j | None => None end.
Proof.
  intros ta. induction idxs as [|j idxs IH]; intros k H; [destruct k; reflexivity|].
  cbn [flat_map]. rewrite nth_trans_eq.
  destruct (nth_error ta j) as [t|] eqn:E.
  - destruct k as [|k]; cbn [app nth_error]; [symmetry; exact E|]. apply IH. intros j' Hj'. apply H. right. exact Hj'.
  - exfalso. apply nth_error_None in E. specialize (H j (or_introl eq_refl)). lia.
Qed.

Lemma length_flat_nth_trans : forall (ta : list transition) idxs,
  (forall j, In j idxs -> j < length ta) -> length (flat_map (nth_trans ta) idxs) = length idxs.
Proof.
  intros ta. induction idxs as [|j idxs IH]; intros H; [reflexivity|]. cbn [flat_map]. rewrite app_length, nth_trans_eq.
  destruct (nth_error ta j) as [t|] eqn:E.
  - cbn [length]. rewrite IH; [reflexivity|]. intros j' Hj'. apply H. right. exact Hj'.
  - exfalso. apply nth_error_None in E. specialize (H j (or_introl eq_refl)). lia.
Qed.

Theorem chart_equiv_perm : forall a b idxs,
  chart_equiv a b idxs -> chart_perm a b (pi_of idxs (length (c_transitions a))).
Proof.
  intros a b idxs [Hs Hp Hc Hr Hsl Hpl Ht Hi].
  set (n := length (c_transitions a)) in *.
  assert (Hin : forall j, In j idxs <-> j < n).
  { intros j. split; intros H.
    - apply (Permutation_in _ Hi) in H. apply in_seq in H. lia.
    - apply (Permutation_in _ (Permutation_sym Hi)). apply in_seq. lia. }
  assert (Hlen : length idxs = n) by (rewrite (Permutation_length Hi); apply seq_length).
  assert (Hlt : forall j, In j idxs -> j < length (c_transitions a)) by (intros j Hj; apply Hin; exact Hj).
  constructor.
  - constructor.
    + exact Hs.
    + exact Hp.
    + exact Hpl.
    + intros x. rewrite Hc. apply Permutation_refl.
    + intros x. unfold descendants_for. rewrite Hsl, (bfs_children_ext a b Hc). apply Permutation_refl.
    + exact Hr.
    + left. exact Hc.
  - intros i. unfold pi_of. rewrite Ht, nth_error_flat_nth_trans by exact Hlt.
    destruct (Nat.ltb_spec i n) as [Hi1|Hi1].
    + rewrite (pos_nth i idxs (proj2 (Hin i) Hi1)). reflexivity.
    + replace (nth_error idxs i) with (@None nat) by (symmetry; apply nth_error_None; lia).
      symmetry. apply nth_error_None. exact Hi1.
  - intros i j. unfold pi_of.
    destruct (Nat.ltb_spec i n) as [Hi1|Hi1], (Nat.ltb_spec j n) as [Hj1|Hj1]; intros E.
    + pose proof (pos_nth i idxs (proj2 (Hin i) Hi1)) as Ei. pose proof (pos_nth j idxs (proj2 (Hin j) Hj1)) as Ej.
      rewrite E in Ei. congruence.
    + pose proof (pos_lt i idxs (proj2 (Hin i) Hi1)). lia.
    + pose proof (pos_lt j idxs (proj2 (Hin j) Hj1)). lia.
    + exact E.
  - rewrite Ht, length_flat_nth_trans by exact Hlt. exact Hlen.
Qed.

(* outcomes of two runs related by a renaming of the transition indices *)
Definition out_rel (pi : nat -> nat) (o1 o2 : option macrostep + err) : Prop :=
  match o1, o2 with
  | inl m1, inl m2 => m2 = macmap pi m1
  | inr e1, inr e2 => ERB pi e1 e2
  | _, _ => False
  end.

Lemma run_equiv_queue : forall pi ctx X e (s1 s2 : mstate ctx X),
  run_equiv pi s1 s2 -> run_equiv pi (fst (queue ctx X e s1)) (fst (queue ctx X e s2)).
Proof.
  intros pi ctx X e s1 s2 (HI & Hx & Ht). unfold queue, modify. cbn [fst]. split; [|split; assumption].
  cbn [m_i]. apply IR_queue_event. exact HI.
Qed.

Lemma run_ops_steps : forall ctx X exec eval emit sc fuel ops (s : mstate ctx X),
  length (snd (run_ops ctx X exec eval emit sc fuel ops s))
  = length (filter (fun o => match o with OpStep _ => true | _ => false end) ops).
Proof.
  intros ctx X exec eval emit sc fuel. induction ops as [|o ops IH]; intros s; [reflexivity|].
  destruct o as [e|now]; cbn [run_ops filter snd length]; rewrite IH; reflexivity.
Qed.

(* C07_decl_order along a history of queue / execute_once operations in which no step but possibly the last one raises *)
Theorem decl_order_run :
  forall (ctx X : Type) (exec : call ctx -> ctx -> option (ctx * list event))
         (eval : call ctx -> ctx -> option bool) (emit : Z -> meta -> X -> X * option err)
         (sc1 sc2 : chart) (pi : nat -> nat),
    chart_perm sc1 sc2 pi ->
    (forall c x, exec (cmap pi c) x = exec c x) ->
    (forall c x, eval (cmap pi c) x = eval c x) ->
    (forall t m x e, snd (emit t m x) = Some e -> emap pi e = e) ->
    forall fuel ops (s1 s2 : mstate ctx X),
      run_equiv pi s1 s2 ->
      Forall is_inl (removelast (snd (run_ops ctx X exec eval emit sc1 fuel ops s1))) ->
      Forall2 (out_rel pi) (snd (run_ops ctx X exec eval emit sc1 fuel ops s1))
                           (snd (run_ops ctx X exec eval emit sc2 fuel ops s2))
      /\ (Forall is_inl (snd (run_ops ctx X exec eval emit sc1 fuel ops s1)) ->
          run_equiv pi (fst (run_ops ctx X exec eval emit sc1 fuel ops s1))
                       (fst (run_ops ctx X exec eval emit sc2 fuel ops s2))).
Proof.
  intros ctx X exec eval emit sc1 sc2 pi Hcp Hexec Heval Hemit fuel.
  induction ops as [|o ops IH]; intros s1 s2 HS Hf; cbn [run_ops].
  - split; [constructor|intros _; exact HS].
  - destruct o as [e|now].
    + apply IH; [apply run_equiv_queue; exact HS|exact Hf].
    + cbn [run_ops fst snd] in Hf |- *.
      pose proof (C07_decl_order ctx X exec eval emit sc1 sc2 pi Hcp Hexec Heval Hemit fuel now s1 s2 HS) as Hd.
      destruct (execute_once ctx X exec eval emit sc1 fuel now s1) as [s1' [m1|e1]],
               (execute_once ctx X exec eval emit sc2 fuel now s2) as [s2' [m2|e2]];
        cbn [decl_outcome] in Hd; try contradiction; cbn [fst snd] in Hf |- *.
      * destruct Hd as [HS' ->].
        assert (Hf' : Forall is_inl (removelast (snd (run_ops ctx X exec eval emit sc1 fuel ops s1')))).
        { destruct (snd (run_ops ctx X exec eval emit sc1 fuel ops s1')) as [|y l]; [constructor|].
          change (removelast (inl m1 :: y :: l)) with (@inl _ err m1 :: removelast (y :: l)) in Hf. inversion Hf; assumption. }
        destruct (IH s1' s2' HS' Hf') as [F2 Hfin]. split.
        -- constructor; [reflexivity|exact F2].
        -- intros Hall. apply Hfin. inversion Hall; assumption.
      * destruct Hd as [_ He].
        assert (L1 : snd (run_ops ctx X exec eval emit sc1 fuel ops s1') = []).
        { destruct (snd (run_ops ctx X exec eval emit sc1 fuel ops s1')) as [|y l]; [reflexivity|].
          change (removelast (inr e1 :: y :: l)) with (@inr (option macrostep) _ e1 :: removelast (y :: l)) in Hf.
          inversion Hf as [|? ? Hx _]. destruct Hx. }
        assert (L2 : snd (run_ops ctx X exec eval emit sc2 fuel ops s2') = []).
        { apply length_zero_iff_nil. rewrite run_ops_steps, <- (run_ops_steps ctx X exec eval emit sc1 fuel ops s1'), L1.
          reflexivity. }
        rewrite L1, L2. split; [constructor; [exact He|constructor]|].
        intros Hall. inversion Hall as [|? ? Hx _]. destruct Hx.
Qed.

(* what run_equiv says in plain terms (the trace part: equal after renaming the indices, guard evaluations and ObSelected left out) *)
Lemma run_equiv_fields : forall pi ctx X (s1 s2 : mstate ctx X), run_equiv pi s1 s2 ->
  Permutation (i_config (m_i s1)) (i_config (m_i s2)) /\ m_x s2 = m_x s1 /\ i_ctx (m_i s2) = i_ctx (m_i s1)
  /\ i_iq (m_i s2) = i_iq (m_i s1) /\ i_eq (m_i s2) = i_eq (m_i s1) /\ i_time (m_i s2) = i_time (m_i s1)
  /\ i_entry (m_i s2) = i_entry (m_i s1) /\ i_idle (m_i s2) = i_idle (m_i s1) /\ i_sent (m_i s2) = i_sent (m_i s1)
  /\ i_initialized (m_i s2) = i_initialized (m_i s1).
Proof.
  intros pi ctx X s1 s2 ([[H1 H2 H3 H4 H5 H6 H7 H8 H9 H10 H11 H12] HM] & Hx & _). repeat split; assumption.
Qed.

(* ================================================================== 6. B: the run of the host built by copy_from_statechart *)
Section CopyRun.
  Variables (g : chart) (r : name) (table : list (name * name)) (nm : string) (d : option string) (pre : option code).
  (* the hypotheses of CopyProofs.C17_copy_structure for the host hroot > plug *)
  Hypothesis HG : einv g.
  Hypothesis Hroot : root g = Some r.
  Hypothesis Hrp : r = "plug" \/ has_state g "plug" = false.
  Hypothesis Hfresh_h : forall n, In n (descendants_for g r) ->
    rho_apply table n <> "hroot" /\ rho_apply table n <> "plug".
  Hypothesis Hnonempty : forall n, In n (descendants_for g r) -> rho_apply table n <> "".
  Hypothesis Hinj : NoDup (map (rho_apply table) (descendants_for g r)).
  Hypothesis Hfresh_g : forall n, In n (descendants_for g r) ->
    rho_apply table n = n \/ has_state g (rho_apply table n) = false.
  Hypothesis Hkinds : forall n p sp sn, In n (descendants_for g r) -> lookup n (c_parent g) = Some (Some p) ->
    lookup p (c_states g) = Some sp -> lookup n (c_states g) = Some sn ->
    is_composite (s_kind sp) = true /\ (is_history (s_kind sn) = true -> s_kind sp = KCompound).
  (* a global injection that extends the renaming actually applied (rs = table on the descendants, r |-> "plug") and preserves
     the order of the guest's names (C17Proofs.injection_extends: one exists as soon as rs is injective on the names occurring
     in g and maps exactly "" to "") *)
  Variable rho : name -> name.
  Hypothesis rho_inj : forall a b, rho a = rho b -> a = b.
  Hypothesis rho_empty : rho "" = "".
  Hypothesis rho_agree : forall n, In n (all_occ g) -> rho n = rs g r "plug" table n.
  Hypothesis rho_mono : forall a b, inN g a -> inN g b -> str_leb (rho a) (rho b) = str_leb a b.
  (* the hypotheses of the embedding theorems, on the renamed guest (decidable: wrap_okb) *)
  Hypothesis Hok : wrap_ok (C17Proofs.map_chart rho g) (rho r) "hroot".
  Variables ctx X X' : Type.
  Variables exec_g exec_h : call ctx -> ctx -> option (ctx * list event).
  Variables eval_g eval_h : call ctx -> ctx -> option bool.
  Variable emit_g : Z -> meta -> X -> X * option err.
  Variable emit_h : Z -> meta -> X' -> X' * option err.
  Variable fx : X -> X'.
  Hypothesis exec_blind : forall cl x, exec_h (wrap_call "hroot" (map_call rho cl)) x = exec_g cl x.
  Hypothesis eval_blind : forall cl x, eval_h (wrap_call "hroot" (map_call rho cl)) x = eval_g cl x.
  Hypothesis emit_equi : forall t m x,
    emit_h t (map_meta rho m) (fx x) = (fx (fst (emit_g t m x)), option_map (map_err rho) (snd (emit_g t m x))).
  Hypothesis emit_hroot : forall t x, emit_h t (MEntered "hroot") x = (x, None).
  (* C07: the evaluator and the listeners' errors do not depend on the INDEX of a transition (its position in the list) *)
  Hypothesis exec_idx : forall pi cl x, exec_h (cmap pi cl) x = exec_h cl x.
  Hypothesis eval_idx : forall pi cl x, eval_h (cmap pi cl) x = eval_h cl x.
  Hypothesis emit_idx : forall t m x e, snd (emit_h t m x) = Some e -> forall pi, emap pi e = e.

  Lemma cr_r_ne : r <> "".
  Proof.
    intros ->. destruct HG as [S [N _]]. unfold no_empty_name in N.
    assert (H : has_state g "" = true).
    { apply (sd_pkeys g S). rewrite (sound_root_lookup g "" S Hroot). discriminate. }
    congruence.
  Qed.

  Theorem C17_copy_run :
    exists h' idxs,
      copy_from_statechart (plug_host nm d pre) g r "plug" table = (h', EOk)
      /\ Permutation idxs (seq 0 (length (c_transitions g)))
      /\ chart_equiv (wrap (C17Proofs.map_chart rho g) "hroot") h' idxs
      /\ let pi := pi_of idxs (length (c_transitions g)) in
         forall id t0 ign c0 x fuel now m1 fuel' ops,
           let s0 := mkM (init_istate id t0 ign c0) x [] in
           snd (execute_once ctx X exec_g eval_g emit_g g fuel now s0) = inl m1 ->
           let s1 := fst (execute_once ctx X exec_g eval_g emit_g g fuel now s0) in
           let rg := run_ops ctx X exec_g eval_g emit_g g fuel' ops s1 in
           Forall is_inl (removelast (snd rg)) ->
           let oh := execute_once ctx X' exec_h eval_h emit_h h' (S fuel) now (mkM (init_istate id t0 ign c0) (fx x) []) in
           let rh := run_ops ctx X' exec_h eval_h emit_h h' fuel' ops (fst oh) in
           snd oh = inl (macmap pi (add_h "hroot" (option_map (map_macro rho) m1)))
           /\ run_equiv pi (host_image rho "hroot" ctx X X' fx now s0 s1) (fst oh)
           /\ Forall2 (out_rel pi) (map (map_outcome rho) (snd rg)) (snd rh)
           /\ (Forall is_inl (snd rg) -> run_equiv pi (host_image rho "hroot" ctx X X' fx now s0 (fst rg)) (fst rh)).
  Proof.
    destruct (copy_into_plug_is_wrap g r table nm d pre HG Hroot Hrp Hfresh_h Hnonempty Hinj Hfresh_g Hkinds)
      as (h' & idxs & Hrun & Hce & _).
    exists h', idxs. split; [exact Hrun|].
    assert (Hmc : C17Proofs.map_chart (rs g r "plug" table) g = C17Proofs.map_chart rho g).
    { apply map_chart_ext. intros n Hn. symmetry. apply rho_agree. exact Hn. }
    rewrite Hmc in Hce.
    assert (Hlen : length (c_transitions (wrap (C17Proofs.map_chart rho g) "hroot")) = length (c_transitions g)).
    { cbn [wrap c_transitions C17Proofs.map_chart]. apply map_length. }
    pose proof (ce_idxs _ _ _ Hce) as Hperm. rewrite Hlen in Hperm.
    split; [exact Hperm|]. split; [exact Hce|].
    pose proof (chart_equiv_perm _ _ _ Hce) as Hcp. rewrite Hlen in Hcp.
    intros pi id t0 ign c0 x fuel now m1 fuel' ops s0 Hs1 s1 rg Hf oh rh.
    assert (Hinit : guest_init ctx X s0) by (repeat split; reflexivity).
    destruct (C17_wrap_rename_run rho rho_inj rho_empty g rho_mono r "hroot" Hok cr_r_ne ctx X X'
                exec_g exec_h eval_g eval_h emit_g emit_h fx exec_blind eval_blind emit_equi emit_hroot
                fuel now s0 m1 fuel' ops Hinit Hs1 Hf) as [E1 E2].
    fold s1 in E1, E2. fold rg in E2.
    assert (E0 : host_init rho "hroot" ctx X X' fx s0 = mkM (init_istate id t0 ign c0) (fx x) []) by reflexivity.
    rewrite E0 in E1.
    pose proof (C07_decl_order ctx X' exec_h eval_h emit_h _ h' pi Hcp (exec_idx pi) (eval_idx pi)
                  (fun t m x0 e H => emit_idx t m x0 e H pi) (S fuel) now _ _
                  (run_equiv_init pi ctx X' id t0 ign c0 (fx x))) as Hd.
    rewrite E1 in Hd. fold oh in Hd.
    destruct oh as [sh1 [m2|e2]] eqn:Eoh; cbn [decl_outcome] in Hd; [|contradiction].
    destruct Hd as [HS1 ->]. cbn [fst snd] in rh |- *.
    split; [reflexivity|]. split; [exact HS1|].
    assert (Hf' : Forall is_inl (removelast (snd (run_ops ctx X' exec_h eval_h emit_h
                    (wrap (C17Proofs.map_chart rho g) "hroot") fuel' ops (host_image rho "hroot" ctx X X' fx now s0 s1))))).
    { rewrite E2. cbn [snd]. apply is_inl_map_outcome. exact Hf. }
    destruct (decl_order_run ctx X' exec_h eval_h emit_h _ h' pi Hcp (exec_idx pi) (eval_idx pi)
                (fun t m x0 e H => emit_idx t m x0 e H pi) fuel' ops _ sh1 HS1 Hf') as [F2 Hfin].
    rewrite E2 in F2, Hfin. cbn [fst snd] in F2, Hfin. split; [exact F2|].
    intros Hall. apply Hfin. clear - Hall. induction Hall as [|o l Ho Hl IH]; cbn [map]; constructor; [|exact IH].
    destruct o; [exact I|destruct Ho].
  Qed.
End CopyRun.

(* ================================================================== 6b. a suitable rho exists *)
Lemma sound_all_occ_states : forall g, sound g -> forall n, In n (all_occ g) -> has_state g n = true.
Proof.
  intros g S n H. unfold all_occ in H. rewrite !in_app_iff in H. destruct H as [H|[H|[H|H]]].
  - apply in_concat in H. destruct H as [l [Hl Hn]]. apply in_map_iff in Hl. destruct Hl as [[k s] [<- Hks]]. cbn [fst snd] in Hn.
    pose proof (In_lookup _ _ _ (sd_nd_states g S) Hks) as Hlk.
    assert (Hk : has_state g k = true) by (apply has_state_Some; eauto).
    destruct Hn as [<-|[<-|Hn]]; [exact Hk|rewrite (sd_keyname g S _ _ Hlk); exact Hk|].
    destruct (sd_refs g S _ _ Hlk) as [R1 R2]. apply in_app_or in Hn. destruct Hn as [Hn|Hn].
    + destruct (s_initial s) as [i|]; [|destruct Hn]. destruct Hn as [<-|[]]. apply R1. reflexivity.
    + destruct (s_memory s) as [m|]; [|destruct Hn]. destruct Hn as [<-|[]]. apply R2. reflexivity.
  - apply in_concat in H. destruct H as [l [Hl Hn]]. apply in_map_iff in Hl. destruct Hl as [[k q] [<- Hkq]]. cbn [fst snd] in Hn.
    pose proof (In_lookup _ _ _ (sd_nd_parent g S) Hkq) as Hlk.
    destruct Hn as [<-|Hn]; [apply (sd_pkeys g S); congruence|].
    destruct q as [q|]; [|destruct Hn]. destruct Hn as [<-|[]]. destruct (sd_pc g S _ _ Hlk) as [Hq _]. apply Hq. reflexivity.
  - apply in_concat in H. destruct H as [l [Hl Hn]]. apply in_map_iff in Hl. destruct Hl as [[ko kids] [<- Hk]]. cbn [fst snd] in Hn.
    pose proof (proj2 (c7_olookup_In _ ko kids (sd_nd_children g S)) Hk) as Hlk.
    apply in_app_or in Hn. destruct Hn as [Hn|Hn].
    + destruct ko as [k|]; [|destruct Hn]. destruct Hn as [<-|[]]. apply (sd_ckeys g S). congruence.
    + apply (sd_pkeys g S). rewrite (sd_cp g S _ _ _ Hlk Hn). discriminate.
  - apply in_concat in H. destruct H as [l [Hl Hn]]. apply in_map_iff in Hl. destruct Hl as [t [<- Ht]].
    destruct (sd_trans g S t Ht) as [[s [Hs _]] Htg].
    destruct Hn as [<-|Hn]; [apply has_state_Some; eauto|].
    destruct (t_target t) as [tg|]; [|destruct Hn]. destruct Hn as [<-|[]]. apply Htg. reflexivity.
Qed.

(* under the hypotheses of A the renaming rs extends to a global injection fixing "" (the rho asked for by C17_copy_run) *)
Theorem copy_renaming_extends : forall (g : chart) (r : name) (table : list (name * name)) (nm : string) (d : option string)
    (pre : option code),
  einv g -> root g = Some r -> (r = "plug" \/ has_state g "plug" = false) ->
  (forall n, In n (descendants_for g r) -> rho_apply table n <> "hroot" /\ rho_apply table n <> "plug") ->
  (forall n, In n (descendants_for g r) -> rho_apply table n <> "") ->
  NoDup (map (rho_apply table) (descendants_for g r)) ->
  exists rho, (forall a b, rho a = rho b -> a = b) /\ rho "" = ""
              /\ (forall n, In n (all_occ g) -> rho n = rs g r "plug" table n).
Proof.
  intros g r table nm d pre HG Hroot Hrp Hfh Hne Hinj.
  destruct HG as [S [N F]]. pose proof (conj S (conj N F)) as HG.
  apply (injection_extends (rs g r "plug" table) (all_occ g)).
  - intros a b Ha Hb. apply (R_inj g r table nm d pre HG Hroot Hrp Hfh Hinj); apply sound_all_occ_states; assumption.
  - intros a Ha. pose proof (sound_all_occ_states g S a Ha) as Hs.
    assert (A1 : a <> "") by (intros ->; unfold no_empty_name in N; congruence).
    assert (A2 : rs g r "plug" table a <> "").
    { assert (Hi : In (rs g r "plug" table a) ("plug" :: map (rho_apply table) (descendants_for g r))).
      { apply (R_img g r table HG Hroot). exists a. split; [exact Hs|reflexivity]. }
      destruct Hi as [<-|Hi]; [discriminate|]. apply in_map_iff in Hi. destruct Hi as [n [<- Hn]]. apply Hne. exact Hn. }
    split; intros E; contradiction.
Qed.

(* ================================================================== 7. non-vacuity: r > {a, b > {b1, b2}} plugged in with "g_" *)
Module ComposeExample.
  Import WrapExample.

  (* a global injection that extends the renaming applied by the copy: "" |-> "", "r" |-> "plug", x |-> "g_" ++ x *)
  Definition rho_ex (x : name) : name :=
    if String.eqb x "" then "" else if String.eqb x "r" then "plug" else String.append "g_" x.

  Lemma rho_ex_inj : forall a b, rho_ex a = rho_ex b -> a = b.
  Proof.
    intros a b. unfold rho_ex.
    destruct (String.eqb_spec a ""), (String.eqb_spec a "r"), (String.eqb_spec b ""), (String.eqb_spec b "r");
      subst; cbn [String.append]; intros E; try reflexivity; try discriminate E; try congruence.
  Qed.

  (* listeners of the host: count every meta event except the entry of hroot *)
  Definition emit_hx (t : Z) (m : meta) (x : nat) : nat * option err :=
    match m with
    | MEntered n => if String.eqb n "hroot" then (x, None) else (S x, None)
    | _ => (S x, None)
    end.

  Lemma rho_ex_not_hroot : forall s, String.eqb (rho_ex s) "hroot" = false.
  Proof.
    intros s. unfold rho_ex. destruct (String.eqb s ""); [reflexivity|]. destruct (String.eqb s "r"); reflexivity.
  Qed.

  Lemma emit_hx_equi : forall t m x,
    emit_hx t (map_meta rho_ex m) x = (fst (emit0 t m x), option_map (map_err rho_ex) (snd (emit0 t m x))).
  Proof. intros t m x. destruct m; cbn [map_meta emit_hx emit0 fst snd option_map]; rewrite ?rho_ex_not_hroot; reflexivity. Qed.

  Lemma emit_hx_idx : forall t m x e, snd (emit_hx t m x) = Some e -> forall pi, emap pi e = e.
  Proof. intros t m x e H. destruct m; cbn [emit_hx] in H; try discriminate H. destruct (String.eqb s "hroot"); discriminate H. Qed.

  Ltac in_cases H := vm_compute in H; repeat (destruct H as [<-|H]); [..|destruct H].

  (* the hypotheses of A (and of CopyProofs.C17_copy_structure) on the instance *)
  Lemma ex_hypsA :
    einv ex_g /\ root ex_g = Some "r" /\ ("r" = "plug" \/ has_state ex_g "plug" = false)
    /\ (forall n, In n (descendants_for ex_g "r") -> rho_apply ex_table n <> "hroot" /\ rho_apply ex_table n <> "plug")
    /\ (forall n, In n (descendants_for ex_g "r") -> rho_apply ex_table n <> "")
    /\ NoDup (map (rho_apply ex_table) (descendants_for ex_g "r"))
    /\ (forall n, In n (descendants_for ex_g "r") -> rho_apply ex_table n = n \/ has_state ex_g (rho_apply ex_table n) = false)
    /\ (forall n p sp sn, In n (descendants_for ex_g "r") -> lookup n (c_parent ex_g) = Some (Some p) ->
          lookup p (c_states ex_g) = Some sp -> lookup n (c_states ex_g) = Some sn ->
          is_composite (s_kind sp) = true /\ (is_history (s_kind sn) = true -> s_kind sp = KCompound)).
  Proof.
    split; [apply einv_b; vm_compute; reflexivity|]. split; [reflexivity|]. split; [right; reflexivity|].
    split; [intros n H; in_cases H; split; discriminate|].
    split; [intros n H; in_cases H; discriminate|].
    split; [vm_compute; repeat constructor; cbn; intuition discriminate|].
    split; [intros n H; in_cases H; right; reflexivity|].
    intros n p sp sn H Hp Hsp Hsn. in_cases H; vm_compute in Hp; inv Hp; vm_compute in Hsp; inv Hsp;
      vm_compute in Hsn; inv Hsn; (split; [reflexivity|discriminate]).
  Qed.

  Example copy_into_plug_is_wrap_instance :
    exists idxs,
      chart_equiv (wrap (C17Proofs.map_chart (rs ex_g "r" "plug" ex_table) ex_g) "hroot") ex_h idxs /\ c_name ex_h = "host".
  Proof.
    destruct ex_hypsA as (H1 & H2 & H3 & H4 & H5 & H6 & H7 & H8).
    destruct (copy_into_plug_is_wrap ex_g "r" ex_table "host" None None H1 H2 H3 H4 H5 H6 H7 H8)
      as (h' & idxs & Hrun & Hce & Hn & _).
    assert (E : h' = ex_h) by (change ex_h with (fst (copy_from_statechart (plug_host "host" None None) ex_g "r" "plug" ex_table));
                               rewrite Hrun; reflexivity).
    subst h'. exists idxs. split; [exact Hce|exact Hn].
  Qed.

  (* by computation: the dictionaries happen to coincide here (the guest is declared in breadth-first order); the transitions
     do not: the copy lists them in the order [3; 5; 4; 0; 6; 2; 1] of the guest's indices *)
  Example copy_into_plug_by_computation :
    let w := wrap (C17Proofs.map_chart (rs ex_g "r" "plug" ex_table) ex_g) "hroot" in
    c_states ex_h = c_states w /\ c_parent ex_h = c_parent w /\ c_children ex_h = c_children w
    /\ c_transitions ex_h = flat_map (nth_trans (c_transitions w)) [3; 5; 4; 0; 6; 2; 1]
    /\ c_transitions ex_h <> c_transitions w.
  Proof. vm_compute. repeat (split; [reflexivity|]). discriminate. Qed.

  (* ---- B: the hypotheses on the renaming, the evaluators and the listeners ---- *)
  Lemma rho_ex_agree : forall n, In n (all_occ ex_g) -> rho_ex n = rs ex_g "r" "plug" ex_table n.
  Proof. intros n H. in_cases H; vm_compute; reflexivity. Qed.

  Lemma rho_ex_mono : forall a b, inN ex_g a -> inN ex_g b -> str_leb (rho_ex a) (rho_ex b) = str_leb a b.
  Proof. apply mono_check_sound. vm_compute. reflexivity. Qed.

  Lemma ex_ok : wrap_ok (C17Proofs.map_chart rho_ex ex_g) (rho_ex "r") "hroot".
  Proof. apply wrap_okb_sound. vm_compute. reflexivity. Qed.

  Definition s0g : mstate nat nat := mkM (init_istate 0 0 false 0) 0 [].
  Definition og := execute_once nat nat exec0 eval0 emit0 ex_g 20 0 s0g.
  Definition rg := run_ops nat nat exec0 eval0 emit0 ex_g 20 ops1 (fst og).
  Definition oh := execute_once nat nat exec0 eval0 emit_hx ex_h 21 0 s0g.
  Definition rh := run_ops nat nat exec0 eval0 emit_hx ex_h 20 ops1 (fst oh).
  Definition m1g : option macrostep := Some (0%Z, [mkMicro None None ["r"] [] []; mkMicro None None ["a"] [] []]).

  Lemma og_first : snd og = inl m1g.
  Proof. vm_compute. reflexivity. Qed.

  Lemma rg_errfree : Forall is_inl (snd rg).
  Proof. vm_compute. repeat constructor. Qed.

  (* every hypothesis of C17_wrap_rename_run and C17_copy_run holds of the instance (evaluator exec0 / eval0 of WrapExample:
     counts the executed fragments, looks at the code and the kind of call only; 15 macro steps) *)
  Example C17_copy_run_hypotheses_satisfiable :
    (forall a b, rho_ex a = rho_ex b -> a = b) /\ rho_ex "" = ""
    /\ (forall n, In n (all_occ ex_g) -> rho_ex n = rs ex_g "r" "plug" ex_table n)
    /\ (forall a b, inN ex_g a -> inN ex_g b -> str_leb (rho_ex a) (rho_ex b) = str_leb a b)
    /\ wrap_ok (C17Proofs.map_chart rho_ex ex_g) (rho_ex "r") "hroot"
    /\ (forall cl x, exec0 (wrap_call "hroot" (map_call rho_ex cl)) x = exec0 cl x)
    /\ (forall cl x, eval0 (wrap_call "hroot" (map_call rho_ex cl)) x = eval0 cl x)
    /\ (forall t m x, emit_hx t (map_meta rho_ex m) ((fun y : nat => y) x)
                      = ((fun y : nat => y) (fst (emit0 t m x)), option_map (map_err rho_ex) (snd (emit0 t m x))))
    /\ (forall t x, emit_hx t (MEntered "hroot") x = (x, None))
    /\ (forall pi cl x, exec0 (cmap pi cl) x = exec0 cl x) /\ (forall pi cl x, eval0 (cmap pi cl) x = eval0 cl x)
    /\ (forall t m x e, snd (emit_hx t m x) = Some e -> forall pi, emap pi e = e)
    /\ snd og = inl m1g /\ Forall is_inl (removelast (snd rg)) /\ length (snd rg) = 15.
  Proof.
    split; [exact rho_ex_inj|]. split; [reflexivity|]. split; [exact rho_ex_agree|]. split; [exact rho_ex_mono|].
    split; [exact ex_ok|]. split; [reflexivity|]. split; [reflexivity|]. split; [exact emit_hx_equi|].
    split; [reflexivity|]. split; [reflexivity|]. split; [reflexivity|]. split; [exact emit_hx_idx|].
    split; [exact og_first|]. split; [|vm_compute; reflexivity].
    vm_compute. repeat constructor.
  Qed.

  (* the conclusion of C17_copy_run on the instance, obtained from the theorem *)
  Example C17_copy_run_instance :
    exists idxs, Permutation idxs (seq 0 7) /\
      let pi := pi_of idxs 7 in
      snd oh = inl (macmap pi (add_h "hroot" (option_map (map_macro rho_ex) m1g)))
      /\ Forall2 (out_rel pi) (map (map_outcome rho_ex) (snd rg)) (snd rh).
  Proof.
    destruct ex_hypsA as (H1 & H2 & H3 & H4 & H5 & H6 & H7 & H8).
    destruct (C17_copy_run ex_g "r" ex_table "host" None None H1 H2 H3 H4 H5 H6 H7 H8 rho_ex rho_ex_inj eq_refl rho_ex_agree
                rho_ex_mono ex_ok nat nat nat exec0 exec0 eval0 eval0 emit0 emit_hx (fun y => y)
                (fun _ _ => eq_refl) (fun _ _ => eq_refl) emit_hx_equi (fun _ _ => eq_refl)
                (fun _ _ _ => eq_refl) (fun _ _ _ => eq_refl) emit_hx_idx)
      as (h' & idxs & Hrun & Hperm & _ & Hmain).
    assert (E : h' = ex_h) by (change ex_h with (fst (copy_from_statechart (plug_host "host" None None) ex_g "r" "plug" ex_table));
                               rewrite Hrun; reflexivity).
    subst h'. exists idxs. split; [exact Hperm|].
    cbv beta zeta in Hmain. specialize (Hmain 0 0%Z false 0 0 20 0%Z m1g 20 ops1).
    (* the premises are stated in exactly the form the theorem asks for (no conversion of the big terms) *)
    match type of Hmain with ?A -> _ => assert (Hs : A) by (vm_compute; reflexivity); specialize (Hmain Hs) end.
    match type of Hmain with ?A -> _ => assert (Hf : A) by (vm_compute; repeat constructor); specialize (Hmain Hf) end.
    destruct Hmain as (A1 & _ & A3 & _).
    change (Datatypes.length (c_transitions ex_g)) with 7 in *.
    unfold rh, oh, rg, og, s0g. cbv zeta. split; [exact A1|exact A3].
  Qed.

  (* ... and by evaluating both runs: the macro steps of the host are the images of the guest's, transition indices renamed
     by pi (the guest's transition 0 is the host's transition 3, ...), the first one with the extra micro step [enter hroot] *)
  Definition outmap (pi : nat -> nat) (o : option macrostep + err) : option macrostep + err :=
    match o with inl m => inl (macmap pi m) | inr e => inr (emap pi e) end.

  Example C17_copy_run_by_computation :
    let pi := pi_of [3; 5; 4; 0; 6; 2; 1] 7 in
    snd oh = inl (macmap pi (add_h "hroot" (option_map (map_macro rho_ex) m1g)))
    /\ snd rh = map (outmap pi) (map (map_outcome rho_ex) (snd rg))
    /\ map pi [0; 1; 2; 3; 4; 5; 6] = [3; 6; 5; 0; 2; 1; 4]
    /\ i_config (m_i (fst rh)) = "hroot" :: map rho_ex (i_config (m_i (fst rg))).
  Proof. vm_compute. repeat split; reflexivity. Qed.

  (* B1 (C17_wrap_rename_run) on the instance, by evaluation: wrap (map_chart rho_ex ex_g) "hroot" itself, EXACT equalities
     (no renaming of indices).  Its hypotheses are among those of C17_copy_run_hypotheses_satisfiable. *)
  Example C17_wrap_rename_run_by_computation :
    let w := wrap (C17Proofs.map_chart rho_ex ex_g) "hroot" in
    let ow := execute_once nat nat exec0 eval0 emit_hx w 21 0 s0g in
    let rw := run_ops nat nat exec0 eval0 emit_hx w 20 ops1 (fst ow) in
    snd ow = inl (add_h "hroot" (option_map (map_macro rho_ex) m1g))
    /\ snd rw = map (map_outcome rho_ex) (snd rg)
    /\ m_i (fst rw) = wrap_state "hroot" 0 (map_istate rho_ex (m_i (fst rg)))
    /\ m_x (fst rw) = m_x (fst rg).
  Proof. vm_compute. repeat split; reflexivity. Qed.
  (* the planned form of A with EQUAL transition lists is false: the copy loop collects the transitions state by state
     (from / to "plug", then the descendants in breadth-first order), not in the order of the guest's list *)
  Theorem copy_into_plug_same_transitions_refuted :
    exists g r table,
      (einv g /\ root g = Some r /\ (r = "plug" \/ has_state g "plug" = false)
       /\ (forall n, In n (descendants_for g r) -> rho_apply table n <> "hroot" /\ rho_apply table n <> "plug")
       /\ (forall n, In n (descendants_for g r) -> rho_apply table n <> "")
       /\ NoDup (map (rho_apply table) (descendants_for g r))
       /\ (forall n, In n (descendants_for g r) -> rho_apply table n = n \/ has_state g (rho_apply table n) = false)
       /\ (forall n p sp sn, In n (descendants_for g r) -> lookup n (c_parent g) = Some (Some p) ->
             lookup p (c_states g) = Some sp -> lookup n (c_states g) = Some sn ->
             is_composite (s_kind sp) = true /\ (is_history (s_kind sn) = true -> s_kind sp = KCompound)))
      /\ exists h', copy_from_statechart (plug_host "host" None None) g r "plug" table = (h', EOk)
                    /\ c_transitions h' <> c_transitions (wrap (C17Proofs.map_chart (rs g r "plug" table) g) "hroot").
  Proof.
    exists ex_g, "r", ex_table. split; [exact ex_hypsA|]. exists ex_h. split; [vm_compute; reflexivity|vm_compute; discriminate].
  Qed.
End ComposeExample.

(* ================================================================== 8. C: wrap_ok from the well-formedness of DESIGN section 2 *)
(* (proved by a helper agent in a scratch file and merged here)  The hypotheses of the embedding theorems (WrapProofs.wrap_ok,
   19 clauses) follow from C02Proofs.WF / wf_chart_b plus the clauses that well-formedness does not contain:
     (a) every referenced name is registered (WF relates _parent, _children and the transitions to each other, never to the
         keys of _states): the root, parents and children of registered states, sources and targets of transitions;
     (b) the root is neither final nor a history state, and no final state is a child of the root;
     (c) the new root h is fresh and not "".
   NoDup of the keys of _states is NOT needed, "descendants of registered states are registered" is derived. *)
Local Notation K := WrapProofs.K.

(* ------------------------------------------------------------------------------------------ *)
(* 1. tree lemmas about registered names                                                       *)
(* ------------------------------------------------------------------------------------------ *)
Section Reg.
  Variable c : chart.
  Variable r : name.
  Hypothesis Hne : forall n, parent_for c n <> Some "".
  Hypothesis Hanc : forall a b, In b (ancestors_for c a) -> (depth_for c b < depth_for c a)%Z.
  Hypothesis Hpc : forall x p, In x (children_for c p) <-> parent_for c x = Some p.
  Hypothesis Hone : forall n, state_for c n <> None -> parent_for c n = None -> n = r.
  Hypothesis Hpar : forall n p, K c n -> parent_for c n = Some p -> K c p.
  Hypothesis Hkid : forall n x, K c n -> In x (children_for c n) -> K c x.

  (* clause 9: the ancestors of a registered state are registered *)
  Lemma anc_reg : forall n, K c n -> forall a, In a (ancestors_for c n) -> K c a.
  Proof.
    apply (C02Proofs.anc_ind c Hne Hanc (fun n => K c n -> forall a, In a (ancestors_for c n) -> K c a)).
    intros x IH Hk a Ha.
    destruct (parent_for c x) as [p|] eqn:Ep.
    - rewrite (C02Proofs.anc_some c Hne Hanc x p Ep) in Ha.
      pose proof (Hpar x p Hk Ep) as Hkp.
      destruct Ha as [<-|Ha]; [exact Hkp|]. exact (IH p eq_refl Hkp a Ha).
    - rewrite (C02Proofs.anc_none c x Ep) in Ha. destruct Ha.
  Qed.

  (* clause 8: the root is an ancestor of every other registered state *)
  Lemma root_anc : forall n, K c n -> n <> r -> In r (ancestors_for c n).
  Proof.
    apply (C02Proofs.anc_ind c Hne Hanc (fun n => K c n -> n <> r -> In r (ancestors_for c n))).
    intros x IH Hk Hx.
    destruct (parent_for c x) as [p|] eqn:Ep.
    - rewrite (C02Proofs.anc_some c Hne Hanc x p Ep).
      destruct (string_dec p r) as [->|Hp]; [left; reflexivity|].
      right. apply (IH p eq_refl); [exact (Hpar x p Hk Ep)|exact Hp].
    - exfalso. apply Hx. apply Hone; [exact Hk|exact Ep].
  Qed.

  (* everything below a registered state is registered *)
  Lemma below_reg : forall d n, K c n -> In n (ancestors_for c d) -> K c d.
  Proof.
    apply (C02Proofs.anc_ind c Hne Hanc (fun d => forall n, K c n -> In n (ancestors_for c d) -> K c d)).
    intros x IH n Hk Hn.
    destruct (parent_for c x) as [p|] eqn:Ep.
    - rewrite (C02Proofs.anc_some c Hne Hanc x p Ep) in Hn.
      assert (Hkp : K c p).
      { destruct Hn as [->|Hn]; [exact Hk|]. exact (IH p eq_refl n Hk Hn). }
      apply (Hkid p x Hkp). apply Hpc. exact Ep.
    - rewrite (C02Proofs.anc_none c x Ep) in Hn. destruct Hn.
  Qed.
End Reg.

(* ------------------------------------------------------------------------------------------ *)
(* 2. wrap_ok from WF                                                                          *)
(* ------------------------------------------------------------------------------------------ *)
Theorem wrap_ok_of_WF c r h :
  C02Proofs.WF c r ->
  (* every referenced name is registered *)
  K c r ->
  (forall n p, K c n -> parent_for c n = Some p -> K c p) ->
  (forall n x, K c n -> In x (children_for c n) -> K c x) ->
  (forall t, In t (c_transitions c) -> K c (t_source t)) ->
  (forall t tgt, In t (c_transitions c) -> t_target t = Some tgt -> K c tgt) ->
  (* the root is neither final nor a history state; no final state is a child of the root *)
  (forall st, state_for c r = Some st -> s_kind st <> KFinal /\ is_history (s_kind st) = false) ->
  (forall n st, state_for c n = Some st -> s_kind st = KFinal -> parent_for c n <> Some r) ->
  (* the new root is fresh and not the empty name *)
  h <> "" -> state_for c h = None ->
  wrap_ok c r h.
Proof.
  intros (Hroot & Hrp & Hne & Hnames & Hanc & Hpc & Hnd & Hdc & Hone & Hcomp & Hinit & Hreg & Hhist & Hrest)
         Hkr Hpar Hkid Hsrc Htgt Hrk Hfin Hh Hfresh.
  unfold wrap_ok.
  split; [exact Hroot|]. split; [exact Hrp|]. split; [exact Hkr|]. split; [exact Hh|].
  split; [exact Hfresh|]. split; [exact Hne|]. split; [exact Hanc|].
  split; [exact (root_anc c r Hne Hanc Hone Hpar)|].
  split; [intros n a Hk Ha; exact (anc_reg c Hne Hanc Hpar n Hk a Ha)|].
  split; [exact Hkid|].
  split. { intros n Hin. apply Hpc in Hin. congruence. }
  split; [exact Hnames|].
  split.
  { intros n st i E Ek Ei. apply (Hkid n i).
    - unfold WrapProofs.K. congruence.
    - apply Hpc. exact (Hinit n st i E Ek Ei). }
  split.
  { intros n st m E Ek Em. destruct (Hhist n st E Ek) as (p & ps & _ & Eps & _ & Hm).
    apply (Hkid p m).
    - unfold WrapProofs.K. congruence.
    - apply Hpc. exact (Hm m Em). }
  split; [exact Hsrc|]. split; [exact Htgt|].
  split.
  { intros n Hk.
    rewrite <- (map_length fst (c_states c)).
    apply NoDup_incl_length.
    - exact (C03Proofs.desc_nodup c Hne Hanc Hpc Hnd n).
    - intros d Hd. apply WrapProofs.K_key.
      apply (below_reg c Hne Hanc Hpc Hkid d n Hk).
      apply (C02Proofs.desc_iff c Hne Hanc Hpc Hdc). exact Hd. }
  split; [exact Hrk|exact Hfin].
Qed.

Theorem wrap_ok_of_wf c r h :
  C02Proofs.wf_chart_b c = true ->
  root c = Some r ->
  (* every referenced name is registered *)
  K c r ->
  (forall n p, K c n -> parent_for c n = Some p -> K c p) ->
  (forall n x, K c n -> In x (children_for c n) -> K c x) ->
  (forall t, In t (c_transitions c) -> K c (t_source t)) ->
  (forall t tgt, In t (c_transitions c) -> t_target t = Some tgt -> K c tgt) ->
  (* the root is neither final nor a history state; no final state is a child of the root *)
  (forall st, state_for c r = Some st -> s_kind st <> KFinal /\ is_history (s_kind st) = false) ->
  (forall n st, state_for c n = Some st -> s_kind st = KFinal -> parent_for c n <> Some r) ->
  (* the new root is fresh and not the empty name *)
  h <> "" -> state_for c h = None ->
  wrap_ok c r h.
Proof.
  intros Hwf Hroot. destruct (C02Proofs.wf_chart_b_sound c Hwf) as (r' & HWF).
  assert (r' = r) as ->.
  { destruct HWF as (Hr' & _). rewrite Hroot in Hr'. congruence. }
  apply wrap_ok_of_WF. exact HWF.
Qed.

(* ------------------------------------------------------------------------------------------ *)
(* 3. the extra hypotheses are decidable                                                       *)
(* ------------------------------------------------------------------------------------------ *)
Definition wrap_extra_b (c : chart) (r h : name) : bool :=
  isK c r
  && forallb (fun n => match parent_for c n with Some p => isK c p | None => true end
                       && forallb (isK c) (children_for c n)) (map fst (c_states c))
  && forallb (fun t => isK c (t_source t) && match t_target t with Some tgt => isK c tgt | None => true end)
             (c_transitions c)
  && match state_for c r with
     | Some st => negb (kind_eqb (s_kind st) KFinal) && negb (is_history (s_kind st))
     | None => false
     end
  && forallb (fun kv : name * state =>
                negb (kind_eqb (s_kind (snd kv)) KFinal) || negb (ostr_eqb (parent_for c (fst kv)) (Some r)))
             (c_states c)
  && negb (str_eqb h "") && negb (isK c h).

Lemma wrap_extra_b_sound c r h : wrap_extra_b c r h = true ->
  K c r
  /\ (forall n p, K c n -> parent_for c n = Some p -> K c p)
  /\ (forall n x, K c n -> In x (children_for c n) -> K c x)
  /\ (forall t, In t (c_transitions c) -> K c (t_source t))
  /\ (forall t tgt, In t (c_transitions c) -> t_target t = Some tgt -> K c tgt)
  /\ (forall st, state_for c r = Some st -> s_kind st <> KFinal /\ is_history (s_kind st) = false)
  /\ (forall n st, state_for c n = Some st -> s_kind st = KFinal -> parent_for c n <> Some r)
  /\ h <> "" /\ state_for c h = None.
Proof.
  unfold wrap_extra_b. intros H.
  apply andb_true_iff in H; destruct H as [H Hfresh].
  apply andb_true_iff in H; destruct H as [H Hh].
  apply andb_true_iff in H; destruct H as [H Hfin].
  apply andb_true_iff in H; destruct H as [H Hrk].
  apply andb_true_iff in H; destruct H as [H Htr].
  apply andb_true_iff in H; destruct H as [Hr Hkeys].
  rewrite forallb_forall in Hkeys, Htr, Hfin.
  split; [apply isK_iff; exact Hr|].
  split.
  { intros n p Hk Ep. specialize (Hkeys n (WrapProofs.K_key c n Hk)).
    apply andb_true_iff in Hkeys. destruct Hkeys as [Hp _]. rewrite Ep in Hp. apply isK_iff. exact Hp. }
  split.
  { intros n x Hk Hx. specialize (Hkeys n (WrapProofs.K_key c n Hk)).
    apply andb_true_iff in Hkeys. destruct Hkeys as [_ Hc]. rewrite forallb_forall in Hc.
    apply isK_iff. exact (Hc x Hx). }
  split.
  { intros t Ht. specialize (Htr t Ht). apply andb_true_iff in Htr. apply isK_iff. tauto. }
  split.
  { intros t tgt Ht Et. specialize (Htr t Ht). apply andb_true_iff in Htr. rewrite Et in Htr.
    apply isK_iff. tauto. }
  split.
  { intros st E. rewrite E in Hrk. apply andb_true_iff in Hrk. destruct Hrk as [H1 H2]. split.
    - intros Ek. rewrite Ek in H1. discriminate.
    - apply negb_true_iff. exact H2. }
  split.
  { intros n st E Ek Ep. specialize (Hfin (n, st) (C17Proofs.lookup_In _ _ _ E)). cbn [fst snd] in Hfin.
    rewrite Ek, Ep in Hfin. cbn in Hfin. rewrite str_eqb_rfl in Hfin. discriminate. }
  split.
  { intros ->. rewrite str_eqb_rfl in Hh. discriminate. }
  unfold isK in Hfresh. destruct (state_for c h); [discriminate|reflexivity].
Qed.

Theorem wrap_ok_of_wf_b c r h :
  C02Proofs.wf_chart_b c = true -> root c = Some r -> wrap_extra_b c r h = true -> wrap_ok c r h.
Proof.
  intros Hwf Hroot Hx.
  destruct (wrap_extra_b_sound c r h Hx) as (H1 & H2 & H3 & H4 & H5 & H6 & H7 & H8 & H9).
  apply wrap_ok_of_wf; assumption.
Qed.

(* ------------------------------------------------------------------------------------------ *)
(* 4. non-vacuity, and the extra hypotheses are needed                                         *)
(* ------------------------------------------------------------------------------------------ *)
Module WrapOkWfExample.
  Import WrapProofs.WrapExample.

  (* the hypotheses of wrap_ok_of_wf hold for c1 and c2 (r = "r", h = "H") *)
  Example c1_hyps :
    C02Proofs.wf_chart_b c1 = true /\ root c1 = Some "r"
    /\ K c1 "r"
    /\ (forall n p, K c1 n -> parent_for c1 n = Some p -> K c1 p)
    /\ (forall n x, K c1 n -> In x (children_for c1 n) -> K c1 x)
    /\ (forall t, In t (c_transitions c1) -> K c1 (t_source t))
    /\ (forall t tgt, In t (c_transitions c1) -> t_target t = Some tgt -> K c1 tgt)
    /\ (forall st, state_for c1 "r" = Some st -> s_kind st <> KFinal /\ is_history (s_kind st) = false)
    /\ (forall n st, state_for c1 n = Some st -> s_kind st = KFinal -> parent_for c1 n <> Some "r")
    /\ "H" <> "" /\ state_for c1 "H" = None.
  Proof.
    split; [vm_compute; reflexivity|]. split; [vm_compute; reflexivity|].
    apply wrap_extra_b_sound. vm_compute. reflexivity.
  Qed.

  Example c2_hyps :
    C02Proofs.wf_chart_b c2 = true /\ root c2 = Some "r" /\ wrap_extra_b c2 "r" "H" = true.
  Proof. repeat split; vm_compute; reflexivity. Qed.

  Example c1_ok' : wrap_ok c1 "r" "H".
  Proof.
    destruct c1_hyps as (H1 & H2 & H3 & H4 & H5 & H6 & H7 & H8 & H9 & H10 & H11).
    apply wrap_ok_of_wf; assumption.
  Qed.

  Example c2_ok' : wrap_ok c2 "r" "H".
  Proof. destruct c2_hyps as (H1 & H2 & H3). apply wrap_ok_of_wf_b; assumption. Qed.

  (* ---- each "registered" hypothesis is independent of wf_chart_b: charts accepted by wf_chart_b (with root
     "r") for which wrap_ok fails ---- *)
  Definition bst n k i := (n, mkState n k i None None None [] [] []).
  Definition btr s t := mkTrans s t (Some "e") None None 0%Z [] [] [].

  (* the target of a transition is not registered *)
  Definition c_tgt : chart :=
    mkChart "tgt" None None
      [bst "r" KCompound (Some "a"); bst "a" KBasic None]
      [("r", None); ("a", Some "r")]
      [(None, ["r"]); (Some "r", ["a"]); (Some "a", [])]
      [btr "a" (Some "zz")].
  Example target_needed :
    C02Proofs.wf_chart_b c_tgt = true /\ root c_tgt = Some "r" /\ ~ wrap_ok c_tgt "r" "H".
  Proof.
    split; [vm_compute; reflexivity|]. split; [vm_compute; reflexivity|].
    intros (_ & _ & _ & _ & _ & _ & _ & _ & _ & _ & _ & _ & _ & _ & _ & Ht & _).
    apply (Ht (btr "a" (Some "zz")) "zz"); [left; reflexivity|reflexivity|reflexivity].
  Qed.

  (* the source of a transition is not registered *)
  Definition c_src : chart :=
    mkChart "src" None None
      [bst "r" KCompound (Some "a"); bst "a" KBasic None]
      [("r", None); ("a", Some "r")]
      [(None, ["r"]); (Some "r", ["a"]); (Some "a", [])]
      [btr "zz" (Some "a")].
  Example source_needed :
    C02Proofs.wf_chart_b c_src = true /\ root c_src = Some "r" /\ ~ wrap_ok c_src "r" "H".
  Proof.
    split; [vm_compute; reflexivity|]. split; [vm_compute; reflexivity|].
    intros (_ & _ & _ & _ & _ & _ & _ & _ & _ & _ & _ & _ & _ & _ & Hs & _).
    apply (Hs (btr "zz" (Some "a"))); [left; reflexivity|reflexivity].
  Qed.

  (* the parent "b" of the registered state "b1" is not registered *)
  Definition c_par : chart :=
    mkChart "par" None None
      [bst "r" KCompound (Some "a"); bst "a" KBasic None; bst "b1" KBasic None]
      [("r", None); ("a", Some "r"); ("b", Some "r"); ("b1", Some "b")]
      [(None, ["r"]); (Some "r", ["a"; "b"]); (Some "a", []); (Some "b", ["b1"]); (Some "b1", [])]
      [].
  Example parent_needed :
    C02Proofs.wf_chart_b c_par = true /\ root c_par = Some "r"
    /\ K c_par "b1" /\ parent_for c_par "b1" = Some "b" /\ ~ K c_par "b"
    /\ ~ wrap_ok c_par "r" "H".
  Proof.
    split; [vm_compute; reflexivity|]. split; [vm_compute; reflexivity|].
    split; [vm_compute; discriminate|]. split; [vm_compute; reflexivity|].
    split; [intros Hk; apply Hk; reflexivity|].
    intros (_ & _ & _ & _ & _ & _ & _ & _ & Ha & _).
    apply (Ha "b1" "b"); [vm_compute; discriminate|vm_compute; tauto|reflexivity].
  Qed.

  (* the child "b" of the registered state "r" is not registered *)
  Definition c_kid : chart :=
    mkChart "kid" None None
      [bst "r" KCompound (Some "a"); bst "a" KBasic None]
      [("r", None); ("a", Some "r"); ("b", Some "r")]
      [(None, ["r"]); (Some "r", ["a"; "b"]); (Some "a", []); (Some "b", [])]
      [].
  Example child_needed :
    C02Proofs.wf_chart_b c_kid = true /\ root c_kid = Some "r" /\ ~ wrap_ok c_kid "r" "H".
  Proof.
    split; [vm_compute; reflexivity|]. split; [vm_compute; reflexivity|].
    intros (_ & _ & _ & _ & _ & _ & _ & _ & _ & Hc & _).
    apply (Hc "r" "b"); [vm_compute; discriminate|vm_compute; tauto|reflexivity].
  Qed.

  (* the root itself is not registered *)
  Definition c_noroot : chart :=
    mkChart "noroot" None None [] [("r", None)] [(None, ["r"]); (Some "r", [])] [].
  Example root_needed :
    C02Proofs.wf_chart_b c_noroot = true /\ root c_noroot = Some "r" /\ ~ wrap_ok c_noroot "r" "H".
  Proof.
    split; [vm_compute; reflexivity|]. split; [vm_compute; reflexivity|].
    intros (_ & _ & Hk & _). apply Hk. reflexivity.
  Qed.

  (* a final child of the root: accepted by wf_chart_b (WrapRefutations.c_final, where the behaviours of c and of
     wrap c h really differ: WrapRefutations.final_child_difference) *)
  Example final_child_needed :
    C02Proofs.wf_chart_b WrapProofs.WrapRefutations.c_final = true /\ root WrapProofs.WrapRefutations.c_final = Some "r" /\ ~ wrap_ok WrapProofs.WrapRefutations.c_final "r" "H".
  Proof.
    split; [vm_compute; reflexivity|]. split; [vm_compute; reflexivity|].
    intros (_ & _ & _ & _ & _ & _ & _ & _ & _ & _ & _ & _ & _ & _ & _ & _ & _ & _ & Hf).
    destruct (state_for WrapProofs.WrapRefutations.c_final "f") as [st|] eqn:E; [|vm_compute in E; discriminate].
    apply (Hf "f" st E); vm_compute in E; inversion E; subst; reflexivity.
  Qed.
End WrapOkWfExample.

(* ================================================================== 9. assumptions *)
Print Assumptions copy_into_plug_is_wrap.
Print Assumptions chart_equiv_perm.
Print Assumptions decl_order_run.
Print Assumptions C17_wrap_rename_run.
Print Assumptions C17_copy_run.
Print Assumptions copy_renaming_extends.
Print Assumptions wrap_ok_of_WF.
Print Assumptions wrap_ok_of_wf.
Print Assumptions wrap_ok_of_wf_b.
Print Assumptions ComposeExample.copy_into_plug_is_wrap_instance.
Print Assumptions ComposeExample.C17_copy_run_hypotheses_satisfiable.
Print Assumptions ComposeExample.C17_copy_run_instance.
Print Assumptions ComposeExample.C17_copy_run_by_computation.
Print Assumptions ComposeExample.C17_wrap_rename_run_by_computation.
Print Assumptions WrapOkWfExample.c1_hyps.
Print Assumptions ComposeExample.copy_into_plug_same_transitions_refuted.
