(* WFProofs.v -- ONE notion of well-formed statechart (DESIGN.md section 2) for all properties.

   The theorems of C01, C03, C06, C07, C10, C13 were stated under different hypothesis packages.  This file
   shows which of them follow from the single decidable checker C02Proofs.wf_chart_b, restates the headline
   theorems under it, and proves counterexamples where a package demands more than wf_chart_b checks.
   No axioms; Print Assumptions at the end (all closed).

   1. Packages implied by  wf_chart_b sc = true  alone
        wf_WF              the sixteen clauses C02Proofs.WF sc r                    (= wf_chart_b_sound)
        wf_tree            tree_hyps sc: the five hypotheses of C03Proofs.Section Tree
                           (= the conclusion of C03Proofs.tree_okb_sound)
        wf_tree_okb        C03Proofs.tree_okb sc = true   (checker level: tree_okb is a part of wf_chart_b)
        wf_anc_depth       "ancestors have smaller depth", the hypothesis of C01Proofs.C01_selection
        wf_names_ok, wf_names_ok_C06, wf_names_coherent
                           MetaProofs.names_ok, C06Proofs.names_ok, TraceProofs.names_coherent (one statement)
        wf_tree_ok         C06Proofs.tree_ok
        wf_desc_ok         C07Proofs.desc_ok  (reuses C03Proofs.desc_nodup and C02Proofs.desc_iff)

   2. Headline theorems with  wf_chart_b sc = true  as the only hypothesis on the chart (Section Headlines)
        C02_run_wf, C01_selection_wf, C03_exit_order_wf, C03_entry_order_wf, C03_entry_order_stab_wf,
        C03_config_truth_wf, C06_run_wf, C06_run_last_exit_wf, C10_complete_wf, C10_prefix_wf,
        C13_entry_idle_wf.

   3. What wf_chart_b does NOT give (Module Refutations; all witnesses are variants of C02Example.c02_chart)
        wf_decl_wf_refuted   exists sc, wf_chart_b sc = true /\ ~ C07Proofs.decl_wf sc.
             Reason: the model keeps _states/_parent/_children as association lists; wf_chart_b reads them
             through lookup and never sees a shadowed entry.  wf_dw_states_refuted (duplicate key in _states),
             wf_dw_parent_refuted (shadowed ("A", None) in _parent: NoDup and "one parentless entry" both
             fail), ghost_child_wf (a child that is not a registered state: dw_kreg fails) show it clause
             by clause.
        wf_sound_refuted     exists sc, wf_chart_b sc = true /\ dict_okb sc = true /\ ~ EditProofs.sound sc
             (a transition whose source is not a state); sound_wf_refuted: the converse fails too (sound
             knows nothing of WF3, WF5-WF7); c02_chart itself is not sound (c02_chart_not_sound_b: it leaves
             out the empty _children entries of the leaves), c02_full is wf, dict_ok and sound.
        wf_perm_refuted      exists sc1 sc2, perm_chart sc1 sc2 /\ wf_chart_b sc1 = true /\ wf_chart_b sc2 = false
             (a permutation can bring a shadowed entry to the front).
      The missing part is  dict_ok sc  (decidable: dict_okb, dict_okb_sound): the three key lists have no
      duplicates and every key of _parent is a registered state.  It is a representation invariant of every
      chart that comes out of the API or the importer: sound_dict_ok, import_sound_dict_ok.
        wf_decl_wf_partial   wf_chart_b sc = true -> dict_ok sc -> C07Proofs.decl_wf sc
                             (corollaries wf_sound_decl_wf, wf_import_decl_wf)
        wf_sound_partial     wf_chart_b sc = true -> dict_ok sc -> sound_extra sc -> EditProofs.sound sc
        sound_sound_extra, wf_sound_iff   given wf_chart_b:  sound sc <-> dict_ok sc /\ sound_extra sc,
             where sound_extra lists EXACTLY the further facts: (sx_ckeys) _children has a key for exactly
             the registered states, (sx_top) _children[None] = [root], (sx_trans) sources of transitions are
             registered states that may own transitions and targets are registered states, (sx_refs)
             initial/memory name registered states.  Everything else in `sound` (16 clauses) follows.

   4. desc_complete_of_tree: in a chart satisfying the first four tree hypotheses whose children are
      registered states, descendants_for finds every descendant (the fuel S (length _states) suffices), i.e.
      the fifth tree hypothesis (chk_desc) follows.  Reuses C03Proofs.desc_nodup, EditProofs.bfs_closed,
      C02Proofs.anc_ind/anc_cases/desc_reach.

   5. Invariance under declaration order
        wf_perm_partial   perm_chart sc1 sc2 -> dict_ok sc1 -> wf_chart_b sc1 = true -> wf_chart_b sc2 = true
        dict_perm         perm_chart sc1 sc2 -> dict_ok sc1 -> dict_ok sc2
      (the planned wf_perm without dict_ok is refuted, see 3.)

   6. C07_decl_order_perm_wf: for sc1 with wf_chart_b sc1 = true and dict_ok sc1, and ANY sc2 with
      perm_chart sc1 sc2 (nothing assumed about sc2): sc2 is well-formed and dict_ok too, and the conclusion
      of C07Proofs.C07_decl_order_perm holds.  C07_decl_order_perm_sound: the same with
      EditProofs.sound sc1 \/ IOProofs.import_sound sc1 in place of dict_ok sc1.
      (Not the planned statement "wf_chart_b sc1 = true only": that one needs decl_wf, refuted in 3.)

   7. Non-vacuity (Module WFExamples): c02_packages (every package holds of c02_chart through the one
      checker), instances of C03_exit_order_wf / C03_entry_order_wf on concrete transitions of c02_chart with
      the computed lists, of C01_selection_wf, C10_complete_wf, C13_entry_idle_wf on the model run of
      C02Example (c02_first_step_returns: the premise is satisfiable), of C06_run_last_exit_wf for the history
      state h1, and of C07_decl_order_perm_wf for c02_full against its reversal (c02_orders_differ). *)
From Coq Require Import String List Bool ZArith Sorted Permutation Lia.
From Sismic Require Import Base Chart Interp Spec.
From Sismic Require Edit.
From SismicProofs Require Import SortLib.
From SismicProofs Require C01Proofs C02Proofs C03Proofs C05Proofs C06Proofs C07Proofs
                          MetaProofs TraceProofs EditProofs IOProofs.
Import ListNotations.
Open Scope list_scope.

Notation wf_chart_b := C02Proofs.wf_chart_b.

(* ================================================================== 1. wf_chart_b implies the packages *)

(* the sixteen clauses of Section WF of C02Proofs.v *)
Theorem wf_WF sc : wf_chart_b sc = true -> exists r, C02Proofs.WF sc r.
Proof. apply C02Proofs.wf_chart_b_sound. Qed.

(* the five hypotheses of C03Proofs.Section Tree (= the conclusion of C03Proofs.tree_okb_sound) *)
Definition tree_hyps (sc : chart) : Prop :=
  (forall n, parent_for sc n <> Some ""%string)
  /\ (forall a b, In b (ancestors_for sc a) -> (depth_for sc b < depth_for sc a)%Z)
  /\ (forall c p, In c (children_for sc p) <-> parent_for sc c = Some p)
  /\ (forall p, NoDup (children_for sc p))
  /\ (forall a d, In a (ancestors_for sc d) -> In d (descendants_for sc a)).

Theorem wf_tree sc : wf_chart_b sc = true -> tree_hyps sc.
Proof.
  intros Hwf. destruct (wf_WF sc Hwf) as (r & _ & _ & Hne & _ & Hanc & Hpc & Hnd & Hdc & _).
  repeat split; try assumption; apply Hpc.
Qed.

Lemma forallb_map {A B} (f : A -> B) (p : B -> bool) l :
  forallb p (map f l) = forallb (fun x => p (f x)) l.
Proof. induction l as [|x l IH]; simpl; [reflexivity|rewrite IH; reflexivity]. Qed.

(* at the level of the checkers: C03's tree_okb is a part of wf_chart_b *)
Theorem wf_tree_okb sc : wf_chart_b sc = true -> C03Proofs.tree_okb sc = true.
Proof.
  unfold C02Proofs.wf_chart_b. destruct (root sc) as [r|]; [|discriminate]. intros H.
  repeat (apply andb_true_iff in H; destruct H as [H ?]).
  unfold C03Proofs.tree_okb. repeat (apply andb_true_iff; split); try assumption.
  match goal with Hd : C02Proofs.chk_desc sc = true |- _ =>
    unfold C02Proofs.chk_desc in Hd; rewrite forallb_map in Hd; exact Hd end.
Qed.

(* C01's hypothesis (Hanc of C01_selection) *)
Theorem wf_anc_depth sc : wf_chart_b sc = true ->
  forall a b, In b (ancestors_for sc a) -> (depth_for sc b < depth_for sc a)%Z.
Proof. intros Hwf. apply (wf_tree sc Hwf). Qed.

(* MetaProofs.names_ok, C06Proofs.names_ok, TraceProofs.names_coherent: the same statement three times *)
Theorem wf_names sc : wf_chart_b sc = true ->
  forall n st, state_for sc n = Some st -> s_name st = n.
Proof. intros Hwf. destruct (wf_WF sc Hwf) as (r & _ & _ & _ & Hn & _). exact Hn. Qed.

Theorem wf_names_ok sc : wf_chart_b sc = true -> MetaProofs.names_ok sc.
Proof. exact (wf_names sc). Qed.

Theorem wf_names_ok_C06 sc : wf_chart_b sc = true -> C06Proofs.names_ok sc.
Proof. exact (wf_names sc). Qed.

Theorem wf_names_coherent sc : wf_chart_b sc = true -> TraceProofs.names_coherent sc.
Proof. exact (wf_names sc). Qed.

(* C06Proofs.tree_ok *)
Theorem wf_tree_ok sc : wf_chart_b sc = true -> C06Proofs.tree_ok sc.
Proof. intros Hwf p h. apply (wf_tree sc Hwf). Qed.

(* C07Proofs.desc_ok: descendants_for has no duplicates (C03Proofs.desc_nodup) and is the inverse of
   ancestors_for (C02Proofs.desc_iff) *)
Theorem wf_desc_ok sc : wf_chart_b sc = true -> C07Proofs.desc_ok sc.
Proof.
  intros Hwf a. destruct (wf_tree sc Hwf) as (Hne & Hanc & Hpc & Hnd & Hdc). split.
  - apply (C03Proofs.desc_nodup sc Hne Hanc Hpc Hnd).
  - intros d. apply (C02Proofs.desc_iff sc Hne Hanc Hpc Hdc).
Qed.

(* ================================================================== 2. the headline theorems under wf_chart_b *)
Section Headlines.
  Variable ctx : Type.
  Variable X : Type.
  Variable exec_code : call ctx -> ctx -> option (ctx * list event).
  Variable eval_code : call ctx -> ctx -> option bool.
  Variable emit : Z -> meta -> X -> X * option err.
  Variable sc : chart.
  Hypothesis Hwf : wf_chart_b sc = true.

  (* C02 (already stated under wf_chart_b in C02Proofs.v; repeated for completeness of the list) *)
  Theorem C02_run_wf :
    forall ops id now ignore (c0 : ctx) x tr ms (s' : mstate ctx X),
      C05Proofs.runs ctx X exec_code eval_code emit sc ops (mkM (init_istate id now ignore c0) x tr) ms s' ->
      i_config (m_i s') = []
      \/ (i_initialized (m_i s') = true
          /\ legal_b sc (i_config (m_i s')) = true
          /\ create_stabilization_step ctx sc (m_i s') = None).
  Proof. exact (C02Proofs.C02_run_checked ctx X exec_code eval_code emit sc Hwf). Qed.

  (* C01 *)
  Theorem C01_selection_wf :
    forall (ev : option event) (cfg : list name) (s s' : mstate ctx X) (sel : list itrans),
      select_transitions ctx X eval_code sc ev cfg s = (s', inl sel) ->
      (forall it : itrans, In it sel <-> C01Proofs.fires ctx eval_code sc (m_i s) ev cfg it)
      /\ NoDup sel /\ m_i s' = m_i s /\ m_x s' = m_x s.
  Proof. exact (C01Proofs.C01_selection ctx X eval_code sc (wf_anc_depth sc Hwf)). Qed.

  (* C03: exit order of a transition micro step *)
  Theorem C03_exit_order_wf :
    forall (cfg : list name) (ev : option event) (it : nat * transition) (tgt : name),
      t_target (snd it) = Some tgt ->
      let lca := least_common_ancestor sc (t_source (snd it)) tgt in
      let lbl := last_before lca (ancestors_for sc (t_source (snd it))) (t_source (snd it)) in
      let exited := ms_exited (create_step sc cfg ev it) in
      C02Proofs.under sc lbl (t_source (snd it)) /\ parent_for sc lbl = lca
      /\ (forall x, In x exited <-> In x cfg /\ C02Proofs.under sc lbl x)
      /\ NoDup exited
      /\ StronglySorted (fun a b => exit_order_leb sc a b = true) exited
      /\ (forall l1 x l2 y, exited = l1 ++ x :: l2 -> In y exited -> In x (ancestors_for sc y) -> In y l1)
      /\ (forall l1 x l2 y l3, exited = l1 ++ x :: l2 ++ y :: l3 -> depth_for sc x = depth_for sc y ->
                               str_ltb x y = true)
      /\ (In lbl cfg -> exists l, exited = l ++ [lbl]).
  Proof.
    destruct (wf_tree sc Hwf) as (Hne & Hanc & Hpc & Hnd & Hdc).
    exact (C03Proofs.C03_exit_order sc Hne Hanc Hpc Hnd Hdc).
  Qed.

  (* C03: entry order of a transition micro step *)
  Theorem C03_entry_order_wf :
    forall (cfg : list name) (ev : option event) (it : nat * transition) (tgt : name),
      t_target (snd it) = Some tgt ->
      let lca := least_common_ancestor sc (t_source (snd it)) tgt in
      let entered := ms_entered (create_step sc cfg ev it) in
      C03Proofs.is_path sc lca entered
      /\ entered <> [] /\ last entered tgt = tgt
      /\ (forall x, In x entered <-> C02Proofs.under sc x tgt /\ C02Proofs.below sc lca x)
      /\ NoDup entered
      /\ (forall l1 x l2, entered = l1 ++ x :: l2 ->
            (l1 = [] /\ parent_for sc x = lca)
            \/ (exists l1' p, l1 = l1' ++ [p] /\ parent_for sc x = Some p))
      /\ (forall l1 x l2 p, entered = l1 ++ x :: l2 -> parent_for sc x = Some p -> In p entered -> In p l1).
  Proof.
    destruct (wf_tree sc Hwf) as (Hne & Hanc & _).
    exact (C03Proofs.C03_entry_order sc Hne Hanc).
  Qed.

  (* C03: what a stabilisation micro step enters, and in which order *)
  Theorem C03_entry_order_stab_wf :
    forall (i : istate ctx) (step : microstep),
      create_stabilization_step ctx sc i = Some (inl step) ->
      ms_trans step = None /\ ms_event step = None /\
      ( (exists n st i0, C02Proofs.is_leaf sc (i_config i) n /\ state_for sc n = Some st
           /\ s_kind st = KCompound /\ truthy (s_initial st) = Some i0
           /\ ms_entered step = [i0] /\ ms_exited step = [])
        \/
        (exists n st, In n (i_config i) /\ state_for sc n = Some st /\ s_kind st = KOrthogonal
           /\ ms_entered step
              = sort_names (filter (fun ch => negb (mem ch (i_config i))) (children_for sc n))
           /\ ms_exited step = []
           /\ StronglySorted (fun a b => str_leb a b = true) (ms_entered step)
           /\ (forall c, In c (ms_entered step) ->
                 parent_for sc c = Some n /\ depth_for sc c = (depth_for sc n + 1)%Z))
        \/
        (exists h st, C02Proofs.is_leaf sc (i_config i) h /\ state_for sc h = Some st
           /\ is_history (s_kind st) = true /\ ms_exited step = [h]
           /\ ((exists l, lookup h (i_memory i) = Some l
                          /\ ms_entered step = sort (enter_order_leb sc) l)
               \/ (lookup h (i_memory i) = None
                   /\ exists m, s_memory st = Some m /\ ms_entered step = [m]))
           /\ StronglySorted (fun a b => enter_order_leb sc a b = true) (ms_entered step)
           /\ (forall l1 a l2 b, ms_entered step = l1 ++ a :: l2 ->
                 In b (ancestors_for sc a) -> In b (ms_entered step) -> In b l1))
        \/
        (exists f st r, C02Proofs.is_leaf sc (i_config i) f /\ state_for sc f = Some st /\ s_kind st = KFinal
           /\ root sc = Some r /\ parent_for sc f = Some r
           /\ ms_exited step = [f; r] /\ ms_entered step = [])).
  Proof.
    destruct (wf_tree sc Hwf) as (Hne & Hanc & Hpc & _).
    exact (C03Proofs.C03_entry_order_stab ctx sc Hne Hanc Hpc).
  Qed.

  (* C03: the configuration after a micro step is the one the micro step announces *)
  Theorem C03_config_truth_wf :
    forall (step : microstep) (s s' : mstate ctx X) (a : microstep),
      apply_step ctx X exec_code eval_code emit sc step s = (s', inl a) ->
      i_config (m_i s')
      = fold_left (fun c n => set_add n c) (ms_entered step)
          (fold_left (fun c n => remove_first n c) (ms_exited step) (i_config (m_i s)))
      /\ TraceProofs.all_active (ms_exited step) (i_config (m_i s)).
  Proof.
    intros step s s' a.
    exact (TraceProofs.C03_config_truth ctx X exec_code eval_code emit sc step s s' a
             (wf_names_coherent sc Hwf)).
  Qed.

  (* C06: what a history state restores, in terms of the last exit of its parent *)
  Theorem C06_run_wf :
    forall (s : mstate ctx X) (hist : list macrostep) (s' : mstate ctx X),
      C06Proofs.run ctx X exec_code eval_code emit sc s hist s' ->
      forall pre st post h hs,
        C06Proofs.micro_of hist = pre ++ st :: post ->
        ms_exited st = [h] -> ms_trans st = None ->
        state_for sc h = Some hs -> is_history (s_kind hs) = true ->
        match C06Proofs.spec_memory sc h pre (i_config (m_i s)) (lookup h (i_memory (m_i s))) with
        | Some l => ms_entered st = sort (depth_name_leb sc) l
        | None => exists d, s_memory hs = Some d /\ ms_entered st = [d]
        end.
  Proof.
    intros s hist s'.
    exact (C06Proofs.C06_run ctx X exec_code eval_code emit sc s hist s' (wf_names_ok_C06 sc Hwf)).
  Qed.

  Theorem C06_run_last_exit_wf :
    forall (h p : name) (hs : state),
      state_for sc h = Some hs -> is_history (s_kind hs) = true ->
      parent_for sc h = Some p -> kind_of sc p = Some KCompound ->
      forall (s : mstate ctx X) (hist : list macrostep) (s' : mstate ctx X),
        C06Proofs.run ctx X exec_code eval_code emit sc s hist s' ->
        forall pre st post,
          C06Proofs.micro_of hist = pre ++ st :: post ->
          ms_exited st = [h] -> ms_trans st = None ->
          (Forall (C06Proofs.not_exiting p) pre
           /\ match lookup h (i_memory (m_i s)) with
              | Some l => ms_entered st = sort (depth_name_leb sc) l
              | None => exists d, s_memory hs = Some d /\ ms_entered st = [d]
              end)
          \/ (exists pre1 x pre2,
                pre = pre1 ++ x :: pre2 /\ In p (ms_exited x)
                /\ Forall (C06Proofs.not_exiting p) pre2
                /\ ms_entered st
                   = sort (depth_name_leb sc)
                       (C06Proofs.active_scope sc (replay_config (i_config (m_i s)) pre1) p hs)).
  Proof.
    intros h p hs Hh Hk Hp Hc s hist s' Hrun.
    exact (C06Proofs.C06_run_last_exit ctx X exec_code eval_code emit sc h p hs (wf_tree_ok sc Hwf)
             Hh Hk Hp Hc s hist s' (wf_names_ok_C06 sc Hwf) Hrun).
  Qed.

  (* C10: the meta-events of a returning / raising execute_once *)
  Theorem C10_complete_wf :
    forall fuel now (s s' : mstate ctx X) macro,
      execute_once ctx X exec_code eval_code emit sc fuel now s = (s', inl macro) ->
      exists l, m_tr s' = l ++ m_tr s
                /\ MetaProofs.tr_metas ctx l = MetaProofs.spec_meta sc now macro.
  Proof.
    intros fuel now s s' macro.
    exact (MetaProofs.C10_complete ctx X exec_code eval_code emit sc fuel now s s' macro
             (wf_names_ok sc Hwf)).
  Qed.

  Theorem C10_prefix_wf :
    forall fuel now (s s' : mstate ctx X) e,
      execute_once ctx X exec_code eval_code emit sc fuel now s = (s', inr e) ->
      exists l macro', m_tr s' = l ++ m_tr s
                       /\ MetaProofs.prefix (MetaProofs.tr_metas ctx l) (MetaProofs.spec_meta sc now macro').
  Proof.
    intros fuel now s s' e.
    exact (MetaProofs.C10_prefix ctx X exec_code eval_code emit sc fuel now s s' e
             (wf_names_ok sc Hwf)).
  Qed.

  (* C13: entry / idle time stamps after a returning execute_once *)
  Theorem C13_entry_idle_wf :
    forall fuel now (s s' : mstate ctx X) macro,
      execute_once ctx X exec_code eval_code emit sc fuel now s = (s', inl macro) ->
      forall n,
        lookup n (i_entry (m_i s'))
        = (if mem n (MetaProofs.steps_entered (MetaProofs.macro_steps macro))
           then Some now else lookup n (i_entry (m_i s)))
        /\ lookup n (i_idle (m_i s'))
           = (if mem n (MetaProofs.steps_touched sc (MetaProofs.macro_steps macro))
              then Some now else lookup n (i_idle (m_i s))).
  Proof.
    intros fuel now s s' macro.
    exact (MetaProofs.C13_entry_idle ctx X exec_code eval_code emit sc fuel now s s' macro
             (wf_names_ok sc Hwf)).
  Qed.
End Headlines.

(* ================================================================== 3. what wf_chart_b does NOT give *)
(* The model represents the dictionaries _states/_parent/_children as association lists.  Python dictionaries
   have unique keys; wf_chart_b never looks at shadowed entries (it reads the lists through lookup), so it
   does not check that.  C07Proofs.decl_wf and EditProofs.sound / IOProofs.import_sound do demand it, and
   decl_wf moreover demands that every child is a registered state.  Both are representation invariants
   that every chart built through the API or imported from YAML has (C16: EditProofs.sound is an invariant
   of the editing operations; C12: IOProofs.C12_sound).  dict_ok collects exactly this part. *)
Record dict_ok (sc : chart) : Prop := mkDictOk {
  dk_states : NoDup (map fst (c_states sc));
  dk_parent : NoDup (map fst (c_parent sc));
  dk_children : NoDup (map fst (c_children sc));
  dk_pstate : forall n, In n (map fst (c_parent sc)) -> state_for sc n <> None
}.

Fixpoint onodup_b (l : list (option name)) : bool :=
  match l with [] => true | x :: r => negb (existsb (ostr_eqb x) r) && onodup_b r end.

Lemma onodup_b_sound l : onodup_b l = true -> NoDup l.
Proof.
  induction l as [|x l IH]; simpl; [constructor|]. rewrite andb_true_iff, negb_true_iff.
  intros [H1 H2]. constructor; [|apply IH, H2].
  intros Hin. assert (existsb (ostr_eqb x) l = true) as E; [|congruence].
  apply existsb_exists. exists x. split; [exact Hin|apply C02Proofs.ostr_eqb_iff; reflexivity].
Qed.

Definition dict_okb (sc : chart) : bool :=
  nodup_b (map fst (c_states sc)) && nodup_b (map fst (c_parent sc))
  && onodup_b (map fst (c_children sc))
  && forallb (fun n => match state_for sc n with Some _ => true | None => false end)
             (map fst (c_parent sc)).

Theorem dict_okb_sound sc : dict_okb sc = true -> dict_ok sc.
Proof.
  unfold dict_okb. rewrite !andb_true_iff. intros [[[H1 H2] H3] H4]. constructor.
  - apply C02Proofs.nodup_b_iff, H1.
  - apply C02Proofs.nodup_b_iff, H2.
  - apply onodup_b_sound, H3.
  - intros n Hn. rewrite forallb_forall in H4. specialize (H4 n Hn).
    destruct (state_for sc n); [discriminate|discriminate].
Qed.

Lemma lookup_of_In {V} (d : list (name * V)) k v :
  NoDup (map fst d) -> In (k, v) d -> lookup k d = Some v.
Proof. intros Hnd Hin. apply (C07Proofs.c7_lookup_In d k v Hnd), Hin. Qed.

(* wf_chart_b together with dict_ok gives C07's decl_wf *)
Theorem wf_decl_wf_partial sc : wf_chart_b sc = true -> dict_ok sc -> C07Proofs.decl_wf sc.
Proof.
  intros Hwf [Ds Dp Dc Dst].
  destruct (wf_WF sc Hwf) as (r & _ & _ & _ & _ & _ & Hpc & _ & _ & Hone & _).
  assert (forall n, In (n, None) (c_parent sc) -> n = r) as Hr.
  { intros n Hn. apply Hone.
    - apply Dst. change n with (fst (n, @None name)). apply in_map, Hn.
    - unfold parent_for. rewrite (lookup_of_In _ _ _ Dp Hn). reflexivity. }
  constructor; try assumption.
  - intros n m Hn Hm. rewrite (Hr n Hn), (Hr m Hm). reflexivity.
  - intros p c Hc. apply Hpc in Hc. apply Dst. unfold parent_for in Hc.
    destruct (lookup c (c_parent sc)) as [o|] eqn:E; [|discriminate].
    apply (C01Proofs.lookup_In_keys c (c_parent sc) o E).
Qed.

(* the API / import invariants imply dict_ok *)
Theorem sound_dict_ok sc : EditProofs.sound sc -> dict_ok sc.
Proof.
  intros HS. constructor.
  - apply (EditProofs.sd_nd_states sc HS).
  - apply (EditProofs.sd_nd_parent sc HS).
  - apply (EditProofs.sd_nd_children sc HS).
  - intros n Hn. apply EditProofs.lookup_Some_In_keys in Hn. apply (EditProofs.sd_pkeys sc HS) in Hn.
    apply EditProofs.has_state_iff in Hn. exact Hn.
Qed.

Theorem import_sound_dict_ok sc : IOProofs.import_sound sc -> dict_ok sc.
Proof.
  intros HS. constructor.
  - apply (IOProofs.is_nd_states sc HS).
  - apply (IOProofs.is_nd_parent sc HS).
  - apply (IOProofs.is_nd_children sc HS).
  - intros n Hn. apply EditProofs.lookup_Some_In_keys in Hn. apply (IOProofs.is_pkeys sc HS) in Hn.
    apply EditProofs.has_state_iff in Hn. exact Hn.
Qed.

Corollary wf_sound_decl_wf sc : wf_chart_b sc = true -> EditProofs.sound sc -> C07Proofs.decl_wf sc.
Proof. intros Hwf HS. apply wf_decl_wf_partial; [exact Hwf|apply sound_dict_ok, HS]. Qed.

Corollary wf_import_decl_wf sc : wf_chart_b sc = true -> IOProofs.import_sound sc -> C07Proofs.decl_wf sc.
Proof. intros Hwf HS. apply wf_decl_wf_partial; [exact Hwf|apply import_sound_dict_ok, HS]. Qed.

(* ---- the refutations: wf_chart_b alone implies neither decl_wf nor sound ---- *)
Module Refutations.
  Import C02Proofs.C02Example.
  Open Scope string_scope.

  Definition with_states (sc : chart) l : chart :=
    mkChart (c_name sc) (c_description sc) (c_preamble sc) l (c_parent sc) (c_children sc) (c_transitions sc).
  Definition with_parent (sc : chart) l : chart :=
    mkChart (c_name sc) (c_description sc) (c_preamble sc) (c_states sc) l (c_children sc) (c_transitions sc).
  Definition with_children (sc : chart) l : chart :=
    mkChart (c_name sc) (c_description sc) (c_preamble sc) (c_states sc) (c_parent sc) l (c_transitions sc).
  Definition with_trans (sc : chart) l : chart :=
    mkChart (c_name sc) (c_description sc) (c_preamble sc) (c_states sc) (c_parent sc) (c_children sc) l.

  (* (a) a second, shadowed entry for the key "A" in _states *)
  Definition dup_states : chart :=
    with_states c02_chart (c_states c02_chart ++ [("A", mkState "A" KBasic None None None None [] [] [])]).
  (* (b) a shadowed entry ("A", None) in _parent: a second "root" that lookup never sees *)
  Definition dup_parent : chart := with_parent c02_chart (c_parent c02_chart ++ [("A", None)]).
  (* (c) a child "G" of the root, known to _parent and _children, that is not a registered state *)
  Definition ghost_child : chart :=
    with_children (with_parent c02_chart (c_parent c02_chart ++ [("G", Some "root")]))
      [(None, ["root"]); (Some "root", ["A"; "P"; "F"; "G"]); (Some "P", ["R1"; "R2"]);
       (Some "R1", ["r1a"; "r1b"; "h1"]); (Some "R2", ["Q"; "r2z"]); (Some "Q", ["Q1"; "Q2"]);
       (Some "Q1", ["q1a"; "q1b"]); (Some "Q2", ["q2a"; "q2b"; "hd"])].
  (* (d) dictionaries in order, but a transition whose source is not a state *)
  Definition ghost_source : chart :=
    with_trans c02_chart (c_transitions c02_chart ++ [mkTrans "nowhere" None None None None 0 [] [] []]).

  Lemma not_nodup l : nodup_b l = false -> ~ NoDup l.
  Proof. intros H Hn. apply C02Proofs.nodup_b_iff in Hn. congruence. Qed.

  Theorem wf_dw_states_refuted :
    wf_chart_b dup_states = true /\ ~ NoDup (map fst (c_states dup_states)).
  Proof. split; [vm_compute; reflexivity|apply not_nodup; vm_compute; reflexivity]. Qed.

  Theorem wf_dw_parent_refuted :
    wf_chart_b dup_parent = true
    /\ ~ NoDup (map fst (c_parent dup_parent))
    /\ ~ (forall n m, In (n, None) (c_parent dup_parent) -> In (m, None) (c_parent dup_parent) -> n = m).
  Proof.
    split; [vm_compute; reflexivity|]. split; [apply not_nodup; vm_compute; reflexivity|].
    intros H. specialize (H "root" "A"). assert ("root" = "A") as E; [|discriminate].
    apply H; [left; reflexivity|]. apply in_or_app. right. left. reflexivity.
  Qed.

  Theorem ghost_child_not_dict_ok : ~ dict_ok ghost_child.
  Proof.
    intros [_ _ _ H]. apply (H "G"); [|vm_compute; reflexivity].
    apply in_map_iff. exists ("G", Some "root"). split; [reflexivity|].
    apply in_or_app. right. left. reflexivity.
  Qed.

  Theorem ghost_child_wf :
    wf_chart_b ghost_child = true
    /\ ~ (forall p c, In c (children_for ghost_child p) -> state_for ghost_child c <> None).
  Proof.
    split; [vm_compute; reflexivity|]. intros H. apply (H "root" "G"); [|vm_compute; reflexivity].
    vm_compute. right. right. right. left. reflexivity.
  Qed.

  (* the planned statement  wf_chart_b sc = true -> decl_wf sc  is false; every clause of decl_wf that is
     not a NoDup clause of _children fails on some chart accepted by wf_chart_b *)
  Theorem wf_decl_wf_refuted : exists sc, wf_chart_b sc = true /\ ~ C07Proofs.decl_wf sc.
  Proof.
    exists dup_parent. destruct wf_dw_parent_refuted as (H1 & H2 & _).
    split; [exact H1|]. intros [_ Hp _ _ _]. exact (H2 Hp).
  Qed.

  (* the planned statement  wf_chart_b sc = true -> sound sc  is false, even for charts whose dictionaries
     are in order (dict_okb): wf_chart_b says nothing about the sources of transitions *)
  Theorem wf_sound_refuted :
    exists sc, wf_chart_b sc = true /\ dict_okb sc = true /\ ~ EditProofs.sound sc.
  Proof.
    exists ghost_source. split; [vm_compute; reflexivity|]. split; [vm_compute; reflexivity|].
    intros HS.
    destruct (EditProofs.sd_trans _ HS (mkTrans "nowhere" None None None None 0 [] [] [])) as [(s & Hs & _) _].
    - apply in_or_app. right. left. reflexivity.
    - vm_compute in Hs. discriminate.
  Qed.

  (* ... and conversely sound does not imply wf_chart_b (sound knows nothing of WF3, WF5-WF7): an orthogonal
     root with a final child *)
  Definition final_region : chart :=
    mkChart "final region" None None
      [("O", mkState "O" KOrthogonal None None None None [] [] []);
       ("F", mkState "F" KFinal None None None None [] [] [])]
      [("O", None); ("F", Some "O")]
      [(None, ["O"]); (Some "O", ["F"]); (Some "F", [])]
      [].
  Theorem sound_wf_refuted : exists sc, EditProofs.sound sc /\ wf_chart_b sc = false.
  Proof.
    exists final_region. split; [|vm_compute; reflexivity].
    apply EditProofs.sound_b_sound; vm_compute; reflexivity.
  Qed.

  (* c02_chart leaves out the empty _children entries of its leaves (children_for defaults to []), so it is
     not sound; c02_full adds them and satisfies everything at once *)
  Definition c02_full : chart :=
    with_children c02_chart
      (c_children c02_chart
       ++ map (fun n => (Some n, []))
              ["A"; "r1a"; "r1b"; "h1"; "q1a"; "q1b"; "q2a"; "q2b"; "hd"; "r2z"; "F"]).
  Example c02_full_wf : wf_chart_b c02_full = true.
  Proof. vm_compute. reflexivity. Qed.
  Example c02_full_dict : dict_okb c02_full = true.
  Proof. vm_compute. reflexivity. Qed.
  Example c02_full_sound : EditProofs.sound c02_full.
  Proof. apply EditProofs.sound_b_sound; vm_compute; reflexivity. Qed.
  Example c02_chart_dict : dict_okb c02_chart = true.
  Proof. vm_compute. reflexivity. Qed.
  Example c02_chart_not_sound_b : Edit.sound_b c02_chart = false.
  Proof. vm_compute. reflexivity. Qed.
End Refutations.

(* ================================================================== 4. descendants_for is complete in a tree *)
(* In a chart whose _parent/_children form a tree (the first four tree hypotheses) and whose children are
   registered states, the breadth-first search of descendants_for never runs out of its fuel
   S (length _states): the fifth tree hypothesis (chk_desc) follows.  Reuses C03Proofs.desc_nodup (no
   duplicates), EditProofs.bfs_closed (closed under children when fuel is left), C02Proofs.anc_ind. *)
Section DescComplete.
  Variable sc : chart.
  Hypothesis Hne : forall n, parent_for sc n <> Some ""%string.
  Hypothesis Hanc : forall a b, In b (ancestors_for sc a) -> (depth_for sc b < depth_for sc a)%Z.
  Hypothesis Hpc : forall c p, In c (children_for sc p) <-> parent_for sc c = Some p.
  Hypothesis Hnd : forall p, NoDup (children_for sc p).
  Hypothesis Hkreg : forall p c, In c (children_for sc p) -> state_for sc c <> None.

  Lemma reach_state a d : C02Proofs.reach sc a d -> state_for sc d <> None.
  Proof. intros H. destruct H as [c Hc|m c _ Hc]; eapply Hkreg; exact Hc. Qed.

  Lemma desc_length a : length (descendants_for sc a) <= length (c_states sc).
  Proof.
    rewrite <- (map_length fst (c_states sc)). apply NoDup_incl_length.
    - apply (C03Proofs.desc_nodup sc Hne Hanc Hpc Hnd).
    - intros y Hy. apply C02Proofs.desc_reach, reach_state in Hy. unfold state_for in Hy.
      destruct (lookup y (c_states sc)) as [st|] eqn:E; [|congruence].
      apply (C01Proofs.lookup_In_keys y _ st E).
  Qed.

  Theorem desc_complete_of_tree :
    forall a d, In a (ancestors_for sc d) -> In d (descendants_for sc a).
  Proof.
    intros a.
    assert (Hcl : forall x, In x ([a] ++ descendants_for sc a) ->
                            incl (children_for sc x) (descendants_for sc a)).
    { unfold descendants_for. apply EditProofs.bfs_closed. fold (descendants_for sc a).
      pose proof (desc_length a) as HL. simpl. lia. }
    apply (C02Proofs.anc_ind sc Hne Hanc
             (fun d => In a (ancestors_for sc d) -> In d (descendants_for sc a))).
    intros d IH Ha. destruct (C02Proofs.anc_cases sc Hne Hanc d a Ha) as (p & Hp & [->|Hap]).
    - apply (Hcl p); [left; reflexivity|apply Hpc, Hp].
    - apply (Hcl p); [right; apply (IH p Hp Hap)|apply Hpc, Hp].
  Qed.
End DescComplete.

(* ================================================================== 5. wf_chart_b is invariant under perm_chart *)
Lemma wf_chart_b_elim sc : wf_chart_b sc = true ->
  exists r, root sc = Some r
    /\ ostr_eqb (parent_for sc r) None = true /\ C02Proofs.chk_ne sc = true
    /\ C02Proofs.chk_names sc = true /\ C01Proofs.anc_depth_okb sc = true
    /\ C02Proofs.chk_pc1 sc = true /\ C02Proofs.chk_pc2 sc = true /\ C02Proofs.chk_nodup sc = true
    /\ C02Proofs.chk_desc sc = true /\ C02Proofs.chk_one_root sc r = true
    /\ C02Proofs.chk_states sc = true /\ C02Proofs.chk_trans sc = true.
Proof.
  unfold C02Proofs.wf_chart_b. destruct (root sc) as [r|]; [|discriminate]. intros H. exists r.
  repeat (apply andb_true_iff in H; destruct H as [H ?]). repeat split; assumption.
Qed.

Lemma wf_chart_b_intro sc r :
  root sc = Some r ->
  ostr_eqb (parent_for sc r) None = true -> C02Proofs.chk_ne sc = true ->
  C02Proofs.chk_names sc = true -> C01Proofs.anc_depth_okb sc = true ->
  C02Proofs.chk_pc1 sc = true -> C02Proofs.chk_pc2 sc = true -> C02Proofs.chk_nodup sc = true ->
  C02Proofs.chk_desc sc = true -> C02Proofs.chk_one_root sc r = true ->
  C02Proofs.chk_states sc = true -> C02Proofs.chk_trans sc = true ->
  wf_chart_b sc = true.
Proof.
  intros Hr. unfold C02Proofs.wf_chart_b. rewrite Hr. intros.
  repeat (apply andb_true_iff; split); assumption.
Qed.

Lemma forallb_perm_imp {A} (f g : A -> bool) l l' :
  Permutation l l' -> (forall x, In x l -> f x = true -> g x = true) ->
  forallb f l = true -> forallb g l' = true.
Proof.
  intros HPm Himp Hf. rewrite forallb_forall in Hf. rewrite forallb_forall. intros x Hx.
  apply (Permutation_in _ (Permutation_sym HPm)) in Hx. apply Himp; [exact Hx|apply Hf, Hx].
Qed.

Lemma forallb_ext_eq {A} (f g : A -> bool) l : (forall x, f x = g x) -> forallb f l = forallb g l.
Proof. intros H. induction l as [|x l IH]; simpl; [reflexivity|rewrite H, IH; reflexivity]. Qed.

Lemma Forall2_In_r {A B} (R : A -> B -> Prop) l l' b :
  Forall2 R l l' -> In b l' -> exists a, In a l /\ R a b.
Proof.
  intros H. induction H as [|x y l l' Hxy H IH]; intros Hin; [destruct Hin|].
  destruct Hin as [<-|Hin].
  - exists x. split; [left; reflexivity|exact Hxy].
  - destruct (IH Hin) as (a & Ha & Hab). exists a. split; [right; exact Ha|exact Hab].
Qed.

Lemma Forall2_fst_eq {A B C} (R : B -> C -> Prop) (l : list (A * B)) (l' : list (A * C)) :
  Forall2 (fun a b => fst a = fst b /\ R (snd a) (snd b)) l l' -> map fst l = map fst l'.
Proof.
  intros H. induction H as [|x y l l' [Hxy _] H IH]; simpl; [reflexivity|rewrite Hxy, IH; reflexivity].
Qed.

Section Perm.
  Variable sc1 sc2 : chart.
  Hypothesis HP : C07Proofs.perm_chart sc1 sc2.
  Hypothesis HD : dict_ok sc1.
  Hypothesis Hwf : wf_chart_b sc1 = true.

  Lemma pm_state n : state_for sc2 n = state_for sc1 n.
  Proof.
    unfold state_for. apply C07Proofs.c7_lookup_perm; [apply (dk_states sc1 HD)|apply (C07Proofs.pc_states _ _ HP)].
  Qed.

  Lemma pm_parent n : parent_for sc2 n = parent_for sc1 n.
  Proof.
    unfold parent_for.
    rewrite (C07Proofs.c7_lookup_perm _ _ n (dk_parent sc1 HD) (C07Proofs.pc_parent _ _ HP)). reflexivity.
  Qed.

  Lemma pm_plen : length (c_parent sc2) = length (c_parent sc1).
  Proof. symmetry. apply Permutation_length, (C07Proofs.pc_parent _ _ HP). Qed.

  Lemma pm_kids n : Permutation (children_for sc1 n) (children_for sc2 n).
  Proof.
    destruct (C07Proofs.pc_children _ _ HP) as (mid & Pc1 & Pc2).
    unfold children_for. rewrite <- (C07Proofs.c7_olookup_perm _ _ (Some n) (dk_children sc1 HD) Pc1).
    pose proof (C07Proofs.c7_olookup_F2 mid (c_children sc2) (Some n) Pc2) as H.
    destruct (olookup (Some n) mid), (olookup (Some n) (c_children sc2)); try contradiction;
      [exact H|apply Permutation_refl].
  Qed.

  Lemma pm_entry k l' : In (k, l') (c_children sc2) ->
    exists l, In (k, l) (c_children sc1) /\ Permutation l l'.
  Proof.
    destruct (C07Proofs.pc_children _ _ HP) as (mid & Pc1 & Pc2). intros Hin.
    destruct (Forall2_In_r _ _ _ _ Pc2 Hin) as ([k0 l] & Hm & Hk & Hl). cbn [fst snd] in Hk, Hl. subst k0.
    exists l. split; [|exact Hl]. apply (Permutation_in _ (Permutation_sym Pc1)), Hm.
  Qed.

  Lemma pm_anc n : ancestors_for sc2 n = ancestors_for sc1 n.
  Proof. apply (C07Proofs.c7_anc sc1 sc2 pm_parent pm_plen). Qed.

  Lemma pm_depth n : depth_for sc2 n = depth_for sc1 n.
  Proof. apply (C07Proofs.c7_depth sc1 sc2 pm_parent pm_plen). Qed.

  Lemma pm_kind n : kind_of sc2 n = kind_of sc1 n.
  Proof. apply (C07Proofs.c7_kind_of sc1 sc2 pm_state). Qed.

  Lemma pm_root : root sc2 = root sc1.
  Proof.
    unfold root. apply C07Proofs.c7_root_perm; [|apply (C07Proofs.pc_parent _ _ HP)].
    apply (C07Proofs.dw_root sc1 (wf_decl_wf_partial sc1 Hwf HD)).
  Qed.

  (* the tree hypotheses of sc2 *)
  Lemma pm_tree :
    (forall n, parent_for sc2 n <> Some ""%string)
    /\ (forall a b, In b (ancestors_for sc2 a) -> (depth_for sc2 b < depth_for sc2 a)%Z)
    /\ (forall c p, In c (children_for sc2 p) <-> parent_for sc2 c = Some p)
    /\ (forall p, NoDup (children_for sc2 p))
    /\ (forall p c, In c (children_for sc2 p) -> state_for sc2 c <> None).
  Proof.
    destruct (wf_tree sc1 Hwf) as (Hne & Hanc & Hpc & Hnd & _).
    split; [|split; [|split; [|split]]].
    - intros n. rewrite pm_parent. apply Hne.
    - intros a b. rewrite pm_anc, !pm_depth. apply Hanc.
    - intros c p. rewrite pm_parent, <- Hpc. split; intros H.
      + apply (Permutation_in _ (Permutation_sym (pm_kids p))), H.
      + apply (Permutation_in _ (pm_kids p)), H.
    - intros p. apply (Permutation_NoDup (pm_kids p)), Hnd.
    - intros p c Hc. rewrite pm_state.
      apply (C07Proofs.dw_kreg sc1 (wf_decl_wf_partial sc1 Hwf HD) p c).
      apply (Permutation_in _ (Permutation_sym (pm_kids p))), Hc.
  Qed.

  Lemma pm_desc_complete : forall a d, In a (ancestors_for sc2 d) -> In d (descendants_for sc2 a).
  Proof.
    destruct pm_tree as (Hne & Hanc & Hpc & Hnd & Hkreg).
    exact (desc_complete_of_tree sc2 Hne Hanc Hpc Hnd Hkreg).
  Qed.

  Lemma pm_tr_cross t : C02Proofs.tr_cross_b sc2 t = C02Proofs.tr_cross_b sc1 t.
  Proof.
    unfold C02Proofs.tr_cross_b. destruct (t_target t) as [tgt|]; [|reflexivity]. rewrite !pm_anc.
    apply forallb_ext_eq. intros R1. apply forallb_ext_eq. intros R2. rewrite !pm_parent.
    destruct (parent_for sc1 R1) as [o|]; [|reflexivity]. rewrite pm_kind. reflexivity.
  Qed.

  Lemma pm_st ns :
    C02Proofs.st_composite_b sc1 ns && C02Proofs.st_initial_b sc1 ns
    && C02Proofs.st_region_b sc1 ns && C02Proofs.st_history_b sc1 ns = true ->
    C02Proofs.st_composite_b sc2 ns && C02Proofs.st_initial_b sc2 ns
    && C02Proofs.st_region_b sc2 ns && C02Proofs.st_history_b sc2 ns = true.
  Proof.
    destruct ns as [n st]. rewrite !andb_true_iff. intros [[[A B] C] D]. repeat split.
    - unfold C02Proofs.st_composite_b in *. cbn [fst snd] in *. pose proof (pm_kids n) as Hk.
      destruct (children_for sc1 n) as [|c l].
      + apply Permutation_nil in Hk. rewrite Hk. reflexivity.
      + destruct (children_for sc2 n); [reflexivity|exact A].
    - unfold C02Proofs.st_initial_b in *. cbn [fst snd] in *.
      destruct (s_kind st); try reflexivity.
      destruct (truthy (s_initial st)) as [i|]; [rewrite pm_parent; exact B|reflexivity].
    - unfold C02Proofs.st_region_b in *. cbn [fst snd] in *. rewrite pm_parent.
      destruct (parent_for sc1 n) as [p|]; [rewrite pm_kind; exact C|reflexivity].
    - unfold C02Proofs.st_history_b in *. cbn [fst snd] in *. rewrite pm_parent.
      destruct (is_history (s_kind st)); [|reflexivity].
      destruct (parent_for sc1 n) as [p|]; [|exact D]. rewrite pm_state.
      destruct (state_for sc1 p) as [ps|]; [|exact D].
      destruct (s_memory st) as [m|]; [rewrite pm_parent, pm_state|]; exact D.
  Qed.

  Theorem wf_perm_sec : wf_chart_b sc2 = true.
  Proof.
    destruct (wf_chart_b_elim sc1 Hwf) as (r & Hr & H1 & H2 & H3 & H4 & H5 & H6 & H7 & H8 & H9 & H10 & H11).
    destruct HP as [Ps Pp _ Pt].
    apply (wf_chart_b_intro sc2 r).
    - rewrite pm_root. exact Hr.
    - rewrite pm_parent. exact H1.
    - unfold C02Proofs.chk_ne in *. eapply forallb_perm_imp; [exact Pp| |exact H2]. intros x _ H; exact H.
    - unfold C02Proofs.chk_names in *. eapply forallb_perm_imp; [exact Ps| |exact H3]. intros x _ H; exact H.
    - unfold C01Proofs.anc_depth_okb in *.
      eapply forallb_perm_imp; [apply Permutation_map; exact Pp| |exact H4].
      intros a _ H. rewrite pm_anc. rewrite forallb_forall in H. rewrite forallb_forall.
      intros b Hb. rewrite !pm_depth. apply H, Hb.
    - unfold C02Proofs.chk_pc1 in *. rewrite forallb_forall. intros [k l'] Hin. cbn [fst snd].
      destruct k as [p|]; [|reflexivity]. rewrite forallb_forall. intros c Hc.
      destruct (pm_entry _ _ Hin) as (l & Hl & Hperm). rewrite pm_parent.
      rewrite forallb_forall in H5. specialize (H5 _ Hl). cbn [fst snd] in H5.
      rewrite forallb_forall in H5. apply H5. apply (Permutation_in _ (Permutation_sym Hperm)), Hc.
    - unfold C02Proofs.chk_pc2 in *. eapply forallb_perm_imp; [exact Pp| |exact H6].
      intros [n o] _ H. cbn [fst snd] in *. destruct o as [p|]; [|reflexivity].
      rewrite <- (C07Proofs.c7_mem_perm n _ _ (pm_kids p)). exact H.
    - unfold C02Proofs.chk_nodup in *. rewrite forallb_forall. intros [k l'] Hin. cbn [snd].
      destruct (pm_entry _ _ Hin) as (l & Hl & Hperm).
      rewrite forallb_forall in H7. specialize (H7 _ Hl). cbn [snd] in H7.
      apply C02Proofs.nodup_b_iff. apply (Permutation_NoDup Hperm). apply C02Proofs.nodup_b_iff, H7.
    - unfold C02Proofs.chk_desc. rewrite forallb_forall. intros d _. rewrite forallb_forall.
      intros a Ha. apply mem_In. apply pm_desc_complete, Ha.
    - unfold C02Proofs.chk_one_root in *. eapply forallb_perm_imp; [exact Ps| |exact H9].
      intros [n st] _ H. cbn [fst snd] in *. rewrite pm_parent. exact H.
    - unfold C02Proofs.chk_states in *. eapply forallb_perm_imp; [exact Ps| |exact H10].
      intros ns _ H. apply pm_st, H.
    - unfold C02Proofs.chk_trans in *. eapply forallb_perm_imp; [exact Pt| |exact H11].
      intros t _ H. rewrite pm_tr_cross. exact H.
  Qed.

  Theorem dict_perm_sec : dict_ok sc2.
  Proof.
    destruct HD as [Ds Dp Dc Dst]. destruct HP as [Ps Pp (mid & Pc1 & Pc2) _]. constructor.
    - apply (Permutation_NoDup (Permutation_map fst Ps)), Ds.
    - apply (Permutation_NoDup (Permutation_map fst Pp)), Dp.
    - rewrite <- (Forall2_fst_eq _ _ _ Pc2). apply (Permutation_NoDup (Permutation_map fst Pc1)), Dc.
    - intros n Hn. rewrite pm_state. apply Dst.
      apply (Permutation_in _ (Permutation_sym (Permutation_map fst Pp))), Hn.
  Qed.
End Perm.

(* declaration order does not matter for well-formedness *)
Theorem wf_perm_partial sc1 sc2 :
  C07Proofs.perm_chart sc1 sc2 -> dict_ok sc1 -> wf_chart_b sc1 = true -> wf_chart_b sc2 = true.
Proof. intros HP HD Hwf. exact (wf_perm_sec sc1 sc2 HP HD Hwf). Qed.

Theorem dict_perm sc1 sc2 : C07Proofs.perm_chart sc1 sc2 -> dict_ok sc1 -> dict_ok sc2.
Proof. intros HP HD. exact (dict_perm_sec sc1 sc2 HP HD). Qed.

(* without dict_ok the invariance fails: moving the shadowed entry ("A", None) of Refutations.dup_parent to
   the front (C07Proofs.rev_chart reverses every declaration order) makes "A" the root *)
Theorem wf_perm_refuted :
  exists sc1 sc2, C07Proofs.perm_chart sc1 sc2 /\ wf_chart_b sc1 = true /\ wf_chart_b sc2 = false.
Proof.
  exists Refutations.dup_parent, (C07Proofs.rev_chart Refutations.dup_parent).
  split; [apply C07Proofs.perm_chart_rev|]. split; vm_compute; reflexivity.
Qed.

(* ================================================================== 6. C07 under the single notion *)
(* Hypotheses on the chart: wf_chart_b sc1 = true and dict_ok sc1 (the dictionaries are dictionaries), on sc1
   ONLY; sc2 is any redeclaration (perm_chart) of sc1, it is then well-formed too. *)
Theorem C07_decl_order_perm_wf :
  forall (ctx X : Type) (exec : call ctx -> ctx -> option (ctx * list event))
         (eval : call ctx -> ctx -> option bool) (emit : Z -> meta -> X -> X * option err)
         (sc1 sc2 : chart),
    wf_chart_b sc1 = true -> dict_ok sc1 ->
    C07Proofs.perm_chart sc1 sc2 ->
    (forall pi c x, exec (C07Proofs.cmap pi c) x = exec c x) ->
    (forall pi c x, eval (C07Proofs.cmap pi c) x = eval c x) ->
    (forall pi t m x e, snd (emit t m x) = Some e -> C07Proofs.emap pi e = e) ->
    wf_chart_b sc2 = true /\ dict_ok sc2 /\
    exists pi,
      C07Proofs.chart_perm sc1 sc2 pi /\
      forall fuel now (s1 s2 : mstate ctx X),
        C07Proofs.run_equiv pi s1 s2 ->
        C07Proofs.decl_outcome pi (execute_once ctx X exec eval emit sc1 fuel now s1)
                                  (execute_once ctx X exec eval emit sc2 fuel now s2).
Proof.
  intros ctx X exec eval emit sc1 sc2 Hwf HD HP Hexec Heval Hemit.
  pose proof (wf_perm_partial sc1 sc2 HP HD Hwf) as Hwf2.
  split; [exact Hwf2|]. split; [exact (dict_perm sc1 sc2 HP HD)|].
  apply (C07Proofs.C07_decl_order_perm ctx X exec eval emit sc1 sc2 HP
           (wf_decl_wf_partial sc1 Hwf HD) (wf_desc_ok sc1 Hwf) (wf_desc_ok sc2 Hwf2) Hexec Heval Hemit).
Qed.

(* the same for charts that come out of the API (C16) or the importer (C12) *)
Corollary C07_decl_order_perm_sound :
  forall (ctx X : Type) (exec : call ctx -> ctx -> option (ctx * list event))
         (eval : call ctx -> ctx -> option bool) (emit : Z -> meta -> X -> X * option err)
         (sc1 sc2 : chart),
    wf_chart_b sc1 = true -> EditProofs.sound sc1 \/ IOProofs.import_sound sc1 ->
    C07Proofs.perm_chart sc1 sc2 ->
    (forall pi c x, exec (C07Proofs.cmap pi c) x = exec c x) ->
    (forall pi c x, eval (C07Proofs.cmap pi c) x = eval c x) ->
    (forall pi t m x e, snd (emit t m x) = Some e -> C07Proofs.emap pi e = e) ->
    wf_chart_b sc2 = true /\ dict_ok sc2 /\
    exists pi,
      C07Proofs.chart_perm sc1 sc2 pi /\
      forall fuel now (s1 s2 : mstate ctx X),
        C07Proofs.run_equiv pi s1 s2 ->
        C07Proofs.decl_outcome pi (execute_once ctx X exec eval emit sc1 fuel now s1)
                                  (execute_once ctx X exec eval emit sc2 fuel now s2).
Proof.
  intros ctx X exec eval emit sc1 sc2 Hwf HS. apply C07_decl_order_perm_wf; [exact Hwf|].
  destruct HS as [HS|HS]; [apply sound_dict_ok, HS|apply import_sound_dict_ok, HS].
Qed.

(* ================================================================== 7. wf_chart_b and EditProofs.sound, exactly *)
(* What `sound` demands beyond wf_chart_b and dict_ok (all four are representation/API guarantees that
   section 2 mentions under WF2 and WF7 but wf_chart_b does not check):
     sx_ckeys  _children has a key for exactly the registered states (add_state creates the empty list);
     sx_top    the top-level entry _children[None] is the list consisting of the root;
     sx_trans  the source of a transition is a registered state that may own transitions, its target,
               when present, is a registered state;
     sx_refs   `initial` and `memory`, when set, name registered states. *)
Record sound_extra (sc : chart) : Prop := mkSoundExtra {
  sx_ckeys : forall n, olookup (Some n) (c_children sc) <> None <-> Edit.has_state sc n = true;
  sx_top : forall r, root sc = Some r -> olookup None (c_children sc) = Some [r];
  sx_trans : forall t, In t (c_transitions sc) ->
      (exists s, lookup (t_source t) (c_states sc) = Some s /\ owns_transitions (s_kind s) = true) /\
      (forall tg, t_target t = Some tg -> Edit.has_state sc tg = true);
  sx_refs : forall k s, lookup k (c_states sc) = Some s ->
      (forall i, s_initial s = Some i -> Edit.has_state sc i = true) /\
      (forall m, s_memory s = Some m -> Edit.has_state sc m = true)
}.

Lemma parent_some_lookup sc n p : parent_for sc n = Some p -> lookup n (c_parent sc) = Some (Some p).
Proof.
  unfold parent_for. destruct (lookup n (c_parent sc)) as [o|]; [|discriminate]. intros ->. reflexivity.
Qed.

Theorem wf_sound_partial sc :
  wf_chart_b sc = true -> dict_ok sc -> sound_extra sc -> EditProofs.sound sc.
Proof.
  intros Hwf [Ds Dp Dc Dst] [Xc Xt Xtr Xr].
  destruct (wf_WF sc Hwf) as (r & Hroot & Hrp & Hne & Hnames & Hanc & Hpc & Hnd & Hdc & Hone & Hcomp
                              & Hinit & Hreg & Hhist & Hcross & Htgt & Hmem).
  assert (Hkeys : forall n, lookup n (c_parent sc) <> None -> Edit.has_state sc n = true).
  { intros n Hn. apply EditProofs.has_state_iff. apply Dst. apply EditProofs.lookup_Some_In_keys, Hn. }
  assert (Hrl : lookup r (c_parent sc) = Some None).
  { apply (lookup_of_In _ _ _ Dp). apply C07Proofs.c7_root_of_In. exact Hroot. }
  assert (Hpk : forall n p, parent_for sc n = Some p -> Edit.has_state sc n = true).
  { intros n p Hp. apply Hkeys. rewrite (parent_some_lookup sc n p Hp). discriminate. }
  assert (Htop : forall n, lookup n (c_parent sc) = Some None -> n = r).
  { intros n Hl. apply Hone.
    - apply EditProofs.has_state_iff. apply Hkeys. rewrite Hl. discriminate.
    - apply (EditProofs.parent_for_lookup sc n None Hl). }
  constructor.
  - exact Ds.
  - exact Dp.
  - exact Dc.
  - exact Hnames.
  - intros n. split; [apply Hkeys|]. intros Hs Hl. apply EditProofs.has_state_iff in Hs.
    assert (n = r) as ->.
    { apply Hone; [exact Hs|]. unfold parent_for. rewrite Hl. reflexivity. }
    rewrite Hrl in Hl. discriminate.
  - exact Xc.
  - rewrite (Xt r Hroot). discriminate.
  - intros n p Hl. pose proof (EditProofs.parent_for_lookup sc n p Hl) as Hp. split.
    + intros q ->. apply Xc. apply Hpc in Hp. unfold children_for in Hp.
      destruct (olookup (Some q) (c_children sc)); [discriminate|destruct Hp].
    + destruct p as [q|].
      * pose proof Hp as Hin. apply Hpc in Hin. pose proof (Hnd q) as Hq. unfold children_for in Hin, Hq.
        destruct (olookup (Some q) (c_children sc)) as [l|]; [|destruct Hin].
        exists l. split; [reflexivity|]. apply EditProofs.NoDup_count_one; assumption.
      * exists [r]. split; [apply Xt, Hroot|]. rewrite (Htop n Hl). simpl.
        destruct (string_dec r r); [reflexivity|congruence].
  - intros k l ch Hol Hin. destruct k as [p|].
    + apply parent_some_lookup. apply Hpc. unfold children_for. rewrite Hol. exact Hin.
    + rewrite (Xt r Hroot) in Hol. inversion Hol; subst l. destruct Hin as [<-|[]]. exact Hrl.
  - intros l Hol. rewrite (Xt r Hroot) in Hol. inversion Hol; subst l. simpl. lia.
  - exists (fun n => length (ancestors_for sc n)). intros n q Hl.
    pose proof (EditProofs.parent_for_lookup sc n (Some q) Hl) as Hp.
    apply (C02Proofs.anc_par sc Hne Hanc) in Hp. apply Hanc in Hp. unfold depth_for in Hp. lia.
  - exact Xtr.
  - exact Xr.
  - intros k s i Hl Hk Hi. pose proof (Hinit k s i Hl Hk Hi) as Hp.
    split; [apply (Hpk i k Hp)|apply Hpc, Hp].
  - intros k s m Hl Hh Hm. destruct (Hhist k s Hl Hh) as (p & ps & Hp & _ & _ & Hmp).
    specialize (Hmp m Hm). split; [|split].
    + intros ->. pose proof (Hmem k s k s Hl Hh Hm Hl) as Hf. congruence.
    + apply (Hpk m p Hmp).
    + exists p. split; [exact Hp|apply Hpc, Hmp].
Qed.

(* ... and every sound chart has them: given wf_chart_b,  sound  <->  dict_ok /\ sound_extra *)
Theorem sound_sound_extra sc : EditProofs.sound sc -> sound_extra sc.
Proof.
  intros HS. constructor.
  - apply (EditProofs.sd_ckeys sc HS).
  - intros r Hr. apply C07Proofs.c7_root_of_In in Hr.
    apply (lookup_of_In _ _ _ (EditProofs.sd_nd_parent sc HS)) in Hr.
    destruct (EditProofs.sd_pc sc HS r None Hr) as [_ (l & Hl & Hc)].
    pose proof (EditProofs.sd_top sc HS l Hl) as Hlen. rewrite Hl. f_equal.
    destruct l as [|a [|b l]]; simpl in Hc, Hlen; [discriminate| |lia].
    destruct (string_dec a r) as [->|]; [reflexivity|discriminate].
  - apply (EditProofs.sd_trans sc HS).
  - apply (EditProofs.sd_refs sc HS).
Qed.

Corollary wf_sound_iff sc : wf_chart_b sc = true ->
  (EditProofs.sound sc <-> dict_ok sc /\ sound_extra sc).
Proof.
  intros Hwf. split.
  - intros HS. split; [apply sound_dict_ok, HS|apply sound_sound_extra, HS].
  - intros [HD HX]. apply wf_sound_partial; assumption.
Qed.

(* ================================================================== 8. non-vacuity: the corollaries on c02_chart *)
Module WFExamples.
  Import C02Proofs.C02Example.
  Open Scope string_scope.
  Open Scope list_scope.

  (* every package holds of the example chart, through the single checker *)
  Example c02_packages :
    tree_hyps c02_chart /\ MetaProofs.names_ok c02_chart /\ C06Proofs.names_ok c02_chart
    /\ TraceProofs.names_coherent c02_chart /\ C06Proofs.tree_ok c02_chart /\ C07Proofs.desc_ok c02_chart
    /\ C07Proofs.decl_wf c02_chart /\ C03Proofs.tree_okb c02_chart = true.
  Proof.
    pose proof c02_chart_wf as H.
    split; [apply (wf_tree _ H)|]. split; [apply (wf_names_ok _ H)|].
    split; [apply (wf_names_ok_C06 _ H)|]. split; [apply (wf_names_coherent _ H)|].
    split; [apply (wf_tree_ok _ H)|]. split; [apply (wf_desc_ok _ H)|].
    split; [|apply (wf_tree_okb _ H)].
    apply (wf_decl_wf_partial _ H), dict_okb_sound, Refutations.c02_chart_dict.
  Qed.

  (* C03_exit_order_wf: the transition P -> A (index 7) taken with both regions of P and of Q active *)
  Definition cfg_P : list name := ["root"; "P"; "R1"; "R2"; "Q"; "r1b"; "Q1"; "Q2"; "q1b"; "q2a"].
  Definition t_up : itrans := (7, mkTrans "P" (Some "A") (Some "up") None None 0 [] [] []).

  Example c02_exit_order_value :
    ms_exited (create_step c02_chart cfg_P None t_up)
    = ["q1b"; "q2a"; "Q1"; "Q2"; "Q"; "r1b"; "R1"; "R2"; "P"].
  Proof. vm_compute. reflexivity. Qed.

  Example c02_exit_order_instance :
    let exited := ms_exited (create_step c02_chart cfg_P None t_up) in
    (forall x, In x exited <-> In x cfg_P /\ C02Proofs.under c02_chart "P" x)
    /\ NoDup exited
    /\ StronglySorted (fun a b => exit_order_leb c02_chart a b = true) exited
    /\ (forall l1 x l2 y, exited = l1 ++ x :: l2 -> In y exited ->
          In x (ancestors_for c02_chart y) -> In y l1).
  Proof.
    destruct (C03_exit_order_wf c02_chart c02_chart_wf cfg_P None t_up "A" eq_refl)
      as (_ & _ & H3 & H4 & H5 & H6 & _).
    cbv zeta. split; [exact H3|]. split; [exact H4|]. split; [exact H5|exact H6].
  Qed.

  (* C03_entry_order_wf: the transition A -> q1b (index 0) enters P, R2, Q, Q1, q1b, parents first *)
  Definition t_deep : itrans := (0, mkTrans "A" (Some "q1b") (Some "deep") None None 0 [] [] []).
  Example c02_entry_order_value :
    ms_entered (create_step c02_chart ["root"; "A"] None t_deep) = ["P"; "R2"; "Q"; "Q1"; "q1b"].
  Proof. vm_compute. reflexivity. Qed.

  Example c02_entry_order_instance :
    let entered := ms_entered (create_step c02_chart ["root"; "A"] None t_deep) in
    NoDup entered
    /\ (forall l1 x l2 p, entered = l1 ++ x :: l2 -> parent_for c02_chart x = Some p ->
          In p entered -> In p l1).
  Proof.
    destruct (C03_entry_order_wf c02_chart c02_chart_wf ["root"; "A"] None t_deep "q1b" eq_refl)
      as (_ & _ & _ & _ & H5 & _ & H7).
    cbv zeta. split; [exact H5|exact H7].
  Qed.

  (* C01 / C10 / C13 on the model run of C02Example: the hypothesis "execute_once returns" is satisfiable *)
  Example c02_first_step_returns :
    exists s' macro, execute_once unit unit ex_exec ex_eval ex_emit c02_chart 30 0 ex_s0 = (s', inl (Some macro)).
  Proof.
    remember (execute_once unit unit ex_exec ex_eval ex_emit c02_chart 30 0 ex_s0) as r eqn:E.
    vm_compute in E. rewrite E. eexists. eexists. reflexivity.
  Qed.

  Example c02_selection_instance :
    forall ev cfg (s s' : mstate unit unit) sel,
      select_transitions unit unit ex_eval c02_chart ev cfg s = (s', inl sel) ->
      (forall it, In it sel <-> C01Proofs.fires unit ex_eval c02_chart (m_i s) ev cfg it) /\ NoDup sel.
  Proof.
    intros ev cfg s s' sel H.
    destruct (C01_selection_wf unit unit ex_eval c02_chart c02_chart_wf ev cfg s s' sel H) as (H1 & H2 & _).
    split; assumption.
  Qed.

  Example c02_meta_instance :
    forall fuel now (s s' : mstate unit unit) macro,
      execute_once unit unit ex_exec ex_eval ex_emit c02_chart fuel now s = (s', inl macro) ->
      exists l, m_tr s' = l ++ m_tr s
                /\ MetaProofs.tr_metas unit l = MetaProofs.spec_meta c02_chart now macro.
  Proof. exact (C10_complete_wf unit unit ex_exec ex_eval ex_emit c02_chart c02_chart_wf). Qed.

  Example c02_entry_idle_instance :
    forall fuel now (s s' : mstate unit unit) macro,
      execute_once unit unit ex_exec ex_eval ex_emit c02_chart fuel now s = (s', inl macro) ->
      forall n,
        lookup n (i_entry (m_i s'))
        = (if mem n (MetaProofs.steps_entered (MetaProofs.macro_steps macro))
           then Some now else lookup n (i_entry (m_i s))).
  Proof.
    intros fuel now s s' macro H n.
    apply (C13_entry_idle_wf unit unit ex_exec ex_eval ex_emit c02_chart c02_chart_wf fuel now s s' macro H n).
  Qed.

  (* C06_run_last_exit_wf for the shallow history state h1 of the compound state R1 *)
  Example c02_history_instance :
    forall (s : mstate unit unit) hist s',
      C06Proofs.run unit unit ex_exec ex_eval ex_emit c02_chart s hist s' ->
      forall pre st post,
        C06Proofs.micro_of hist = pre ++ st :: post ->
        ms_exited st = ["h1"] -> ms_trans st = None ->
        (Forall (C06Proofs.not_exiting "R1") pre
         /\ match lookup "h1" (i_memory (m_i s)) with
            | Some l => ms_entered st = sort (depth_name_leb c02_chart) l
            | None => exists d, Some "r1a" = Some d /\ ms_entered st = [d]
            end)
        \/ (exists pre1 x pre2,
              pre = pre1 ++ x :: pre2 /\ In "R1" (ms_exited x)
              /\ Forall (C06Proofs.not_exiting "R1") pre2
              /\ ms_entered st
                 = sort (depth_name_leb c02_chart)
                     (C06Proofs.active_scope c02_chart (replay_config (i_config (m_i s)) pre1) "R1"
                        (mkState "h1" KShallow None (Some "r1a") None None [] [] []))).
  Proof.
    exact (C06_run_last_exit_wf unit unit ex_exec ex_eval ex_emit c02_chart c02_chart_wf
             "h1" "R1" (mkState "h1" KShallow None (Some "r1a") None None [] [] [])
             eq_refl eq_refl eq_refl eq_refl).
  Qed.

  (* C07_decl_order_perm_wf: c02_full against the chart with every declaration order reversed *)
  Example c02_decl_order_instance :
    wf_chart_b (C07Proofs.rev_chart Refutations.c02_full) = true /\
    exists pi,
      C07Proofs.chart_perm Refutations.c02_full (C07Proofs.rev_chart Refutations.c02_full) pi /\
      forall fuel now (s1 s2 : mstate unit unit),
        C07Proofs.run_equiv pi s1 s2 ->
        C07Proofs.decl_outcome pi
          (execute_once unit unit ex_exec ex_eval ex_emit Refutations.c02_full fuel now s1)
          (execute_once unit unit ex_exec ex_eval ex_emit (C07Proofs.rev_chart Refutations.c02_full)
             fuel now s2).
  Proof.
    destruct (C07_decl_order_perm_wf unit unit ex_exec ex_eval ex_emit
                Refutations.c02_full (C07Proofs.rev_chart Refutations.c02_full)
                Refutations.c02_full_wf (dict_okb_sound _ Refutations.c02_full_dict)
                (C07Proofs.perm_chart_rev _)) as (H1 & _ & H3).
    - intros pi c x. reflexivity.
    - intros pi c x. reflexivity.
    - intros pi t m x e H. discriminate.
    - split; [exact H1|exact H3].
  Qed.

  (* the declaration orders do differ *)
  Example c02_orders_differ :
    chart_eqb Refutations.c02_full (C07Proofs.rev_chart Refutations.c02_full) = false.
  Proof. vm_compute. reflexivity. Qed.

  (* wf_sound_iff on c02_full: all three parts hold *)
  Example c02_full_extra : sound_extra Refutations.c02_full.
  Proof. apply sound_sound_extra, Refutations.c02_full_sound. Qed.
End WFExamples.

Print Assumptions wf_tree.
Print Assumptions wf_tree_okb.
Print Assumptions wf_anc_depth.
Print Assumptions wf_names_ok.
Print Assumptions wf_names_ok_C06.
Print Assumptions wf_names_coherent.
Print Assumptions wf_tree_ok.
Print Assumptions wf_desc_ok.
Print Assumptions C02_run_wf.
Print Assumptions C01_selection_wf.
Print Assumptions C03_exit_order_wf.
Print Assumptions C03_entry_order_wf.
Print Assumptions C03_entry_order_stab_wf.
Print Assumptions C03_config_truth_wf.
Print Assumptions C06_run_wf.
Print Assumptions C06_run_last_exit_wf.
Print Assumptions C10_complete_wf.
Print Assumptions C10_prefix_wf.
Print Assumptions C13_entry_idle_wf.
Print Assumptions dict_okb_sound.
Print Assumptions wf_decl_wf_partial.
Print Assumptions sound_dict_ok.
Print Assumptions import_sound_dict_ok.
Print Assumptions Refutations.wf_decl_wf_refuted.
Print Assumptions Refutations.wf_dw_states_refuted.
Print Assumptions Refutations.wf_dw_parent_refuted.
Print Assumptions Refutations.ghost_child_wf.
Print Assumptions Refutations.wf_sound_refuted.
Print Assumptions Refutations.sound_wf_refuted.
Print Assumptions desc_complete_of_tree.
Print Assumptions wf_perm_partial.
Print Assumptions dict_perm.
Print Assumptions wf_perm_refuted.
Print Assumptions C07_decl_order_perm_wf.
Print Assumptions C07_decl_order_perm_sound.
Print Assumptions wf_sound_partial.
Print Assumptions wf_sound_iff.
Print Assumptions WFExamples.c02_packages.
Print Assumptions WFExamples.c02_exit_order_instance.
Print Assumptions WFExamples.c02_history_instance.
Print Assumptions WFExamples.c02_decl_order_instance.
