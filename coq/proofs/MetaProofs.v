(* MetaProofs.v -- meta-event emission (C10), time frozen per step (C13), sent events (C15, model
   level) for the interpreter model of theories/Interp.v.  No axioms; every main theorem is
   followed by Print Assumptions at the end of the file.

   Method.  A relation between the state before and after a monadic computation, indexed by its
   outcome, that is reflexive and chains (presK) is preserved by bind/mapM/iterM, so it only has
   to be established on the leaves (Sections Pres, PresQuiet, PresAll: every function of Interp.v
   below execute_once is covered once, generically in the relation).  Instances:
     Rq  quiet functions: listeners, clock, time stamps, queues untouched, no meta-event;
     Rt / Rt2 (= RK ..)  clock untouched, every evaluator call sees it, listeners' state = feed,
         fail fast (emits_ok);
     Re  entry/idle stamps as a function of the emitted meta-events;
     Rs  internal queue as a function of the emitted 'event sent'.
   Outcome-dependent facts (which meta-events) use mspec/grows.

   Main statements (Section MetaProofs: ctx X exec_code eval_code emit sc):
     C13_frozen              execute_once, any outcome: i_time = now afterwards; all new trace
                             entries satisfy time_obs now; m_x s' = feed now (new metas) (m_x s)
                             (every emit call got now); emits_ok (fail fast); macro time = now.
     queue_time, queue_event_time   queue / _queue_event do not touch i_time.
     C10_apply_step_meta     (needs names_ok) metas of one apply_step = spec_meta_micro / prefix.
     apply_step_metas_gen    the same without names_ok, in terms of the .name of the state objects.
     C10_complete            (names_ok) metas of a returning execute_once = spec_meta now macro.
     C10_prefix              (names_ok) raising execute_once: a prefix of spec_meta now macro'.
     C10_sync_execute        every execute_once inside execute fuel now runs at now.
     C15_sent_truth, C15_self_raise_event, C15_self_run_steps, C15_self, C15_self_In.
     C13_entry_idle          (names_ok) entry/idle time stamps after a returning execute_once.
     C13_after_idle_base     what mk_call exposes as bases of after()/idle().
   Section NonIntrusive (two listener functions):
     C10_nonintrusive, C10_nonintrusive_never, C10_nonintrusive_or_raised, C10_nonintrusive_ok.
   Module NamesOkNeeded: C10_complete_without_names_ok_refuted (the hypothesis names_ok --
     Statechart._states[n].name = n -- cannot be dropped; names_okb decides it).

   Weaker than / different from the informal wish list:
   - everything about WHICH meta-events needs names_ok (refuted otherwise);
   - "every emit call receives now" is stated as m_x s' = feed now metas (m_x s);
   - C10_nonintrusive compares a run A (any listeners) with a run B whose listeners never raise,
     under the hypothesis that A's listener calls returned normally IN THIS RUN (feed_ok); the
     symmetric "neither ever raises" version is C10_nonintrusive_never. *)
From Coq Require Import String List Bool ZArith Lia.
From Sismic Require Import Base Chart Interp.
Import ListNotations.
Open Scope list_scope.

(* ------------------------------------------------------------------ pure list facts *)
Definition prefix {A} (p l : list A) : Prop := exists q, l = p ++ q.

Lemma prefix_refl {A} (l : list A) : prefix l l.
Proof. exists []. now rewrite app_nil_r. Qed.
Lemma prefix_nil {A} (l : list A) : prefix [] l.
Proof. now exists l. Qed.
Lemma prefix_app_l {A} (a p l : list A) : prefix p l -> prefix (a ++ p) (a ++ l).
Proof. intros [q Hq]. exists q. now rewrite Hq, app_assoc. Qed.
Lemma prefix_app_r {A} (p l r : list A) : prefix p l -> prefix p (l ++ r).
Proof. intros [q Hq]. exists (q ++ r). now rewrite Hq, app_assoc. Qed.
Lemma prefix_trans {A} (a b c : list A) : prefix a b -> prefix b c -> prefix a c.
Proof. intros [q Hq] [q' Hq']. exists (q ++ q'). now rewrite Hq', Hq, app_assoc. Qed.

Section MetaProofs.
  Variable ctx : Type.
  Variable X : Type.
  Variable exec_code : call ctx -> ctx -> option (ctx * list event).
  Variable eval_code : call ctx -> ctx -> option bool.
  Variable emit : Z -> meta -> X -> X * option err.
  Variable sc : chart.

  Notation ist := (istate ctx).
  Notation mstate := (Interp.mstate ctx X).
  Notation M := (Interp.M ctx X).
  Notation ret := (Interp.ret ctx X).
  Notation fail := (Interp.fail ctx X).
  Notation bind := (Interp.bind ctx X).
  Notation get := (Interp.get ctx X).
  Notation put := (Interp.put ctx X).
  Notation modify := (Interp.modify ctx X).
  Notation observe := (Interp.observe ctx X).
  Notation mapM := (Interp.mapM ctx X).
  Notation iterM := (Interp.iterM ctx X).
  Notation raise_meta := (Interp.raise_meta ctx X emit).
  Notation raise_event := (Interp.raise_event ctx X emit).
  Notation mk_call := (Interp.mk_call ctx sc).
  Notation run_code := (Interp.run_code ctx X exec_code sc).
  Notation eval_cond := (Interp.eval_cond ctx X eval_code sc).
  Notation eval_conds := (Interp.eval_conds ctx X eval_code sc).
  Notation contract := (Interp.contract ctx X eval_code sc).
  Notation state_contract := (Interp.state_contract ctx X eval_code sc).
  Notation trans_contract := (Interp.trans_contract ctx X eval_code sc).
  Notation eval_guards := (Interp.eval_guards ctx X eval_code sc).
  Notation sel_priorities := (Interp.sel_priorities ctx X eval_code sc).
  Notation sel_sources := (Interp.sel_sources ctx X eval_code sc).
  Notation sel_depths := (Interp.sel_depths ctx X eval_code sc).
  Notation sel_eventness := (Interp.sel_eventness ctx X eval_code sc).
  Notation select_transitions := (Interp.select_transitions ctx X eval_code sc).
  Notation sort_transitions := (Interp.sort_transitions ctx X sc).
  Notation compute_steps := (Interp.compute_steps ctx X eval_code sc).
  Notation create_stabilization_step := (Interp.create_stabilization_step ctx sc).
  Notation record_history := (Interp.record_history ctx X sc).
  Notation exit_state := (Interp.exit_state ctx X exec_code eval_code emit sc).
  Notation enter_state := (Interp.enter_state ctx X exec_code eval_code emit sc).
  Notation process_transition := (Interp.process_transition ctx X exec_code eval_code emit sc).
  Notation apply_step := (Interp.apply_step ctx X exec_code eval_code emit sc).
  Notation stabilize := (Interp.stabilize ctx X exec_code eval_code emit sc).
  Notation consume_event := (Interp.consume_event ctx X).
  Notation run_steps := (Interp.run_steps ctx X exec_code eval_code emit sc).
  Notation check_invariants := (Interp.check_invariants ctx X eval_code sc).
  Notation execute_once := (Interp.execute_once ctx X exec_code eval_code emit sc).
  Notation execute := (Interp.execute ctx X exec_code eval_code emit sc).
  Notation queue := (Interp.queue ctx X).

  (* ---------------------------------------------------------------- monad basics *)
  Lemma bind_inv {A B} (m : M A) (f : A -> M B) s s' r :
    bind m f s = (s', r) ->
    (exists s1 a, m s = (s1, inl a) /\ f a s1 = (s', r)) \/
    (exists e, m s = (s', inr e) /\ r = inr e).
  Proof.
    unfold Interp.bind. destruct (m s) as [s1 [a|e]] eqn:E; intros H.
    - left. eauto.
    - right. inversion H; subst. eauto.
  Qed.

  Lemma bind_get {A} (f : ist -> M A) s : bind get f s = f (m_i s) s.
  Proof. reflexivity. Qed.
  Lemma bind_ret {A B} (a : A) (f : A -> M B) s : bind (ret a) f s = f a s.
  Proof. reflexivity. Qed.
  Lemma bind_put {A} (i : ist) (f : unit -> M A) s :
    bind (put i) f s = f tt (mkM i (m_x s) (m_tr s)).
  Proof. reflexivity. Qed.
  Lemma bind_modify {A} (g : ist -> ist) (f : unit -> M A) s :
    bind (modify g) f s = f tt (mkM (g (m_i s)) (m_x s) (m_tr s)).
  Proof. reflexivity. Qed.
  Lemma bind_observe {A} (o : obs ctx) (f : unit -> M A) s :
    bind (observe o) f s = f tt (mkM (m_i s) (m_x s) (o :: m_tr s)).
  Proof. reflexivity. Qed.
  Lemma bind_fail {A B} (e : err) (f : A -> M B) s : bind (fail e) f s = (s, inr e).
  Proof. reflexivity. Qed.

  (* ---------------------------------------------------------------- preorders preserved *)
  (* Relations between the state before and after a computation, indexed by the outcome
     (None = normal return, Some e = raised e).  A relation that can be chained is preserved by
     bind, mapM, iterM; so it is enough to establish it on the leaves. *)
  Definition err_of {A} (r : A + err) : option err :=
    match r with inl _ => None | inr e => Some e end.

  Section Pres.
    Variable R : mstate -> mstate -> option err -> Prop.
    Hypothesis R_refl : forall s k, R s s k.
    Hypothesis R_trans : forall a b c k, R a b None -> R b c k -> R a c k.

    Definition presK {A} (m : M A) : Prop := forall s s' r, m s = (s', r) -> R s s' (err_of r).

    Lemma pres_ret {A} (a : A) : presK (ret a).
    Proof. intros s s' r H. inversion H; subst. apply R_refl. Qed.
    Lemma pres_fail {A} (e : err) : presK (@Interp.fail ctx X A e).
    Proof. intros s s' r H. inversion H; subst. apply R_refl. Qed.
    Lemma pres_get : presK get.
    Proof. intros s s' r H. inversion H; subst. apply R_refl. Qed.
    Lemma pres_bind {A B} (m : M A) (f : A -> M B) :
      presK m -> (forall a, presK (f a)) -> presK (bind m f).
    Proof.
      intros Hm Hf s s' r H. apply bind_inv in H.
      destruct H as [(s1 & a & H1 & H2) | (e & H1 & ->)].
      - eapply R_trans; [exact (Hm _ _ _ H1) | exact (Hf _ _ _ _ H2)].
      - exact (Hm _ _ _ H1).
    Qed.
    (* bind after get, keeping the link between the value read and the state *)
    Lemma pres_get_bind {A} (f : ist -> M A) :
      (forall st s' r, f (m_i st) st = (s', r) -> R st s' (err_of r)) -> presK (bind get f).
    Proof. intros H s s' r E. rewrite bind_get in E. eauto. Qed.
    Lemma pres_mapM {A B} (f : A -> M B) l : (forall a, presK (f a)) -> presK (mapM f l).
    Proof.
      intros Hf. induction l as [|x l IH]; cbn [Interp.mapM].
      - apply pres_ret.
      - apply pres_bind; [apply Hf|]. intros y. apply pres_bind; [apply IH|]. intros ys. apply pres_ret.
    Qed.
    Lemma pres_iterM {A} (f : A -> M unit) l : (forall a, presK (f a)) -> presK (iterM f l).
    Proof.
      intros Hf. induction l as [|x l IH]; cbn [Interp.iterM].
      - apply pres_ret.
      - apply pres_bind; [apply Hf|]. intros _. apply IH.
    Qed.
    Lemma pres_modify g :
      (forall st, R st (mkM (g (m_i st)) (m_x st) (m_tr st)) None) -> presK (modify g).
    Proof. intros H s s' r E. inversion E; subst. apply H. Qed.
    Lemma pres_put_at i st s' r :
      R st (mkM i (m_x st) (m_tr st)) None -> put i st = (s', r) -> R st s' (err_of r).
    Proof. intros H E. inversion E; subst. exact H. Qed.
    Lemma pres_observe o :
      (forall st, R st (mkM (m_i st) (m_x st) (o :: m_tr st)) None) -> presK (observe o).
    Proof. intros H s s' r E. inversion E; subst. apply H. Qed.
  End Pres.

  (* outcome-independent relations *)
  Definition pres (R2 : mstate -> mstate -> Prop) {A} (m : M A) : Prop :=
    presK (fun s s' _ => R2 s s') m.

  Ltac pstep Rr Rt :=
    lazymatch goal with
    | |- presK _ (Interp.ret _ _ _) => apply pres_ret; exact Rr
    | |- presK _ (Interp.fail _ _ _) => apply pres_fail; exact Rr
    | |- presK _ (Interp.get _ _) => apply pres_get; exact Rr
    | |- presK _ (Interp.bind _ _ _ _) => apply pres_bind; [exact Rt | | intros ?]
    | |- presK _ (Interp.mapM _ _ _ _) => apply pres_mapM; [exact Rr | exact Rt | intros ?]
    | |- presK _ (Interp.iterM _ _ _ _) => apply pres_iterM; [exact Rr | exact Rt | intros ?]
    | |- presK _ (Interp.modify _ _ _) => apply pres_modify; intros ?
    | |- presK _ (Interp.observe _ _ _) => apply pres_observe; intros ?
    | |- presK _ (match ?x with _ => _ end) => destruct x
    | |- presK _ (let _ := _ in _) => cbv zeta
    end.

  (* ---------------------------------------------------------------- the quiet functions *)
  (* Everything that never calls the listeners: code execution, conditions, selection, history
     recording, invariants, compute_steps.  Generic in the preorder; the leaves are hypotheses. *)
  Section PresQuiet.
    Variable R : mstate -> mstate -> option err -> Prop.
    Hypothesis R_refl : forall s k, R s s k.
    Hypothesis R_trans : forall a b c k, R a b None -> R b c k -> R a c k.
    Hypothesis L_run_code : forall k o cd ev, presK R (run_code k o cd ev).
    Hypothesis L_eval_cond : forall k o i cd ev, presK R (eval_cond k o i cd ev).
    Hypothesis L_old : forall st o, R st (mkM (set_old ctx o (m_i st)) (m_x st) (m_tr st)) None.
    Hypothesis L_mem : forall st v, R st (mkM (set_memory ctx v (m_i st)) (m_x st) (m_tr st)) None.
    Hypothesis L_sel : forall st l, R st (mkM (m_i st) (m_x st) (ObSelected l :: m_tr st)) None.
    Hypothesis L_init : forall st, R st (mkM (set_initialized ctx true (m_i st)) (m_x st) (m_tr st)) None.

    Ltac pq := repeat (pstep R_refl R_trans); auto.

    Lemma q_eval_conds k o cds : forall idx ev, presK R (eval_conds k o idx cds ev).
    Proof.
      induction cds as [|cd rest IH]; intros idx ev; cbn [Interp.eval_conds]; pq.
    Qed.

    Lemma q_contract k o pre post inv ev : presK R (contract k o pre post inv ev).
    Proof.
      unfold Interp.contract. pq; auto using q_eval_conds.
    Qed.

    Lemma q_state_contract k st ev : presK R (state_contract k st ev).
    Proof. apply q_contract. Qed.
    Lemma q_trans_contract k it ev : presK R (trans_contract k it ev).
    Proof. apply q_contract. Qed.

    Lemma q_eval_guards ex ts : presK R (eval_guards ex ts).
    Proof. induction ts as [|it rest IH]; cbn [Interp.eval_guards]; pq. Qed.

    Lemma q_sel_priorities ex gs : presK R (sel_priorities ex gs).
    Proof.
      induction gs as [|[p ts] rest IH]; cbn [Interp.sel_priorities]; pq; apply q_eval_guards.
    Qed.

    Lemma q_sel_sources ex gs : forall sel ign, presK R (sel_sources ex gs sel ign).
    Proof.
      induction gs as [|[src ts] rest IH]; intros sel ign; cbn [Interp.sel_sources]; pq;
        apply q_sel_priorities.
    Qed.

    Lemma q_sel_depths ex gs : forall sel ign, presK R (sel_depths ex gs sel ign).
    Proof.
      induction gs as [|[d ts] rest IH]; intros sel ign; cbn [Interp.sel_depths]; pq;
        apply q_sel_sources.
    Qed.

    Lemma q_sel_eventness ev gs : forall sel, presK R (sel_eventness ev gs sel).
    Proof.
      induction gs as [|[h ts] rest IH]; intros sel; cbn [Interp.sel_eventness]; pq;
        apply q_sel_depths.
    Qed.

    Lemma q_select_transitions ev states : presK R (select_transitions ev states).
    Proof. apply q_sel_eventness. Qed.

    Lemma q_sort_transitions ts : presK R (sort_transitions ts).
    Proof. unfold Interp.sort_transitions. pq. Qed.

    Lemma q_record_history active st : presK R (record_history active st).
    Proof. unfold Interp.record_history. pq. Qed.

    Lemma q_check_invariants ev : presK R (check_invariants ev).
    Proof. unfold Interp.check_invariants. pq. apply q_state_contract. Qed.

    Lemma q_compute_steps : presK R compute_steps.
    Proof.
      unfold Interp.compute_steps. apply pres_get_bind. intros st s' r.
      destruct (negb (i_initialized (m_i st))).
      - rewrite bind_put. intros H. eapply R_trans; [apply L_init|].
        revert H. generalize (mkM (set_initialized ctx true (m_i st)) (m_x st) (m_tr st)).
        intros s1 H. destruct (root sc); inversion H; subst; apply R_refl.
      - intros H. refine ((_ : presK R _) _ _ _ H). pq.
        + apply q_select_transitions.
        + apply q_sort_transitions.
    Qed.

    (* ---- everything below execute_once, listeners included ---- *)
    Definition inner_meta (m : meta) : Prop :=
      match m with MStepStarted _ | MStepEnded | MConsumed _ => False | _ => True end.

    Section PresAll.
      Hypothesis L_meta_exited : forall n, presK R (raise_meta (MExited n)).
      Hypothesis L_meta_entered : forall n, presK R (raise_meta (MEntered n)).
      Hypothesis L_meta_processed : forall a b c, presK R (raise_meta (MProcessed a b c)).
      Hypothesis L_meta_sent : forall e, presK R (raise_meta (MSent e)).
      Hypothesis L_meta_delayed : forall e, presK R (raise_meta (MDelayedSent e)).
      Hypothesis L_meta_user : forall n d, presK R (raise_meta (MUser n d)).
      (* used by apply_step instead of the two lemmas below, so that a relation for which the
         modification and the emission only make sense together can supply its own proofs *)
      Hypothesis H_enter : forall ev st, presK R (enter_state ev st).
      Hypothesis H_process : forall ev i, presK R (process_transition ev i).
      Hypothesis H_raise_event : forall e, presK R (raise_event e).
      Hypothesis L_queue : forall st e, R st (mkM (queue_event (m_i st) e) (m_x st) (m_tr st)) None.
      Hypothesis L_cfg : forall st c, R st (mkM (set_config ctx c (m_i st)) (m_x st) (m_tr st)) None.
      Hypothesis L_enter : forall st n c,
          R st (mkM (set_idle ctx (dset n (i_time (m_i st)) (i_idle (m_i st)))
                       (set_entry ctx (dset n (i_time (m_i st)) (i_entry (m_i st)))
                          (set_config ctx c (m_i st)))) (m_x st) (m_tr st)) None.
      Hypothesis L_idle : forall st n,
          R st (mkM (set_idle ctx (dset n (i_time (m_i st)) (i_idle (m_i st))) (m_i st)) (m_x st) (m_tr st)) None.
      Hypothesis L_sent : forall st l, R st (mkM (set_sent ctx l (m_i st)) (m_x st) (m_tr st)) None.
      Hypothesis L_iq : forall st q, R st (mkM (set_iq ctx q (m_i st)) (m_x st) (m_tr st)) None.
      Hypothesis L_eq : forall st q, R st (mkM (set_eq ctx q (m_i st)) (m_x st) (m_tr st)) None.

      Lemma a_raise_event e : presK R (raise_event e).
      Proof.
        unfold Interp.raise_event. pq.
      Qed.

      Ltac pb := apply pres_bind; [exact R_trans | | intros ?].

      Lemma a_exit_state active ev st : presK R (exit_state active ev st).
      Proof.
        unfold Interp.exit_state. pb; [apply L_run_code|]. pb; [apply q_record_history|].
        apply pres_get_bind. intros st0 s' r H.
        apply bind_inv in H. destruct H as [(s1 & u & H1 & H2)|(e & H1 & ->)].
        - apply R_trans with s1.
          + destruct (mem (s_name st) (i_config (m_i st0))).
            * inversion H1; subst. apply L_cfg.
            * inversion H1.
          + refine ((_ : presK R _) _ _ _ H2). pq. apply q_state_contract.
        - destruct (mem (s_name st) (i_config (m_i st0))).
          + inversion H1.
          + inversion H1; subst; apply R_refl.
      Qed.

      Lemma a_enter_state ev st : presK R (enter_state ev st).
      Proof.
        unfold Interp.enter_state.
        pq; first [apply q_state_contract | apply L_enter].
      Qed.

      Lemma a_process_transition ev i : presK R (process_transition ev i).
      Proof.
        unfold Interp.process_transition.
        pq; first [apply q_trans_contract | apply L_idle].
      Qed.

      Lemma a_apply_step step : presK R (apply_step step).
      Proof.
        unfold Interp.apply_step.
        pq; first [apply a_exit_state | apply H_process | apply H_enter
                  | apply H_raise_event | apply L_sent].
      Qed.

      Lemma a_stabilize fuel : presK R (stabilize fuel).
      Proof.
        induction fuel as [|f IH]; cbn [Interp.stabilize]; pq; apply a_apply_step.
      Qed.

      Lemma a_run_steps fuel steps : presK R (run_steps fuel steps).
      Proof.
        induction steps as [|st rest IH]; cbn [Interp.run_steps];
          pq; first [apply a_apply_step | apply a_stabilize].
      Qed.

      Lemma a_consume_event : presK R consume_event.
      Proof.
        unfold Interp.consume_event. apply pres_get_bind. intros st s' r H.
        destruct (i_iq (m_i st)) as [|[t e] q'].
        - destruct (i_eq (m_i st)) as [|[t2 e2] q2].
          + inversion H; subst; apply R_refl.
          + destruct (t2 <=? i_time (m_i st))%Z.
            * rewrite bind_put in H. inversion H; subst. apply L_eq.
            * inversion H; subst; apply R_refl.
        - destruct (t <=? i_time (m_i st))%Z.
          + rewrite bind_put in H. inversion H; subst. apply L_iq.
          + destruct (i_eq (m_i st)) as [|[t2 e2] q2].
            * inversion H; subst; apply R_refl.
            * destruct (t2 <=? i_time (m_i st))%Z.
              -- rewrite bind_put in H. inversion H; subst. apply L_eq.
              -- inversion H; subst; apply R_refl.
      Qed.
    End PresAll.
  End PresQuiet.

  (* ---------------------------------------------------------------- traces *)
  (* the meta-events of a piece of trace (newest first), oldest first *)
  Fixpoint metas_rev (tr : list (obs ctx)) : list meta :=
    match tr with
    | [] => []
    | ObMeta m :: r => m :: metas_rev r
    | _ :: r => metas_rev r
    end.
  Definition tr_metas (tr : list (obs ctx)) : list meta := rev (metas_rev tr).

  Lemma metas_rev_app a b : metas_rev (a ++ b) = metas_rev a ++ metas_rev b.
  Proof.
    induction a as [|o a IH]; [reflexivity|]. destruct o; cbn; rewrite IH; reflexivity.
  Qed.
  Lemma tr_metas_app a b : tr_metas (a ++ b) = tr_metas b ++ tr_metas a.
  Proof. unfold tr_metas. now rewrite metas_rev_app, rev_app_distr. Qed.
  Lemma tr_metas_nil : tr_metas [] = [].
  Proof. reflexivity. Qed.

  (* the listeners' state after the meta-events ms were handed to them at time t *)
  Definition feed (t : Z) (ms : list meta) (x : X) : X :=
    fold_left (fun x m => fst (emit t m x)) ms x.
  Lemma feed_app t a b x : feed t (a ++ b) x = feed t b (feed t a x).
  Proof. apply fold_left_app. Qed.

  (* what a quiet function may add to the trace / what anything below execute_once may add *)
  Definition quiet_obs (t : Z) (o : obs ctx) : Prop :=
    match o with
    | ObExec c _ | ObEval c _ => cl_time c = t
    | ObMeta _ => False
    | ObSelected _ => True
    end.
  Definition time_obs (t : Z) (o : obs ctx) : Prop :=
    match o with
    | ObExec c _ | ObEval c _ => cl_time c = t
    | ObMeta (MStepStarted t') => t' = t
    | _ => True
    end.
  Definition inner_obs (t : Z) (o : obs ctx) : Prop :=
    match o with
    | ObExec c _ | ObEval c _ => cl_time c = t
    | ObMeta m => inner_meta m
    | ObSelected _ => True
    end.

  Lemma quiet_inner t o : quiet_obs t o -> inner_obs t o.
  Proof. destruct o; cbn; tauto. Qed.
  Lemma inner_time t o : inner_obs t o -> time_obs t o.
  Proof. destruct o as [| |m|]; cbn; auto. destruct m; cbn; tauto. Qed.

  Lemma quiet_no_metas t l : Forall (quiet_obs t) l -> tr_metas l = [].
  Proof.
    unfold tr_metas. induction 1 as [|o l Ho Hl IH]; [reflexivity|].
    destruct o; cbn in *; try exact IH. contradiction.
  Qed.

  (* Rq: a quiet function leaves the listeners, the clock, the time stamps and the queues alone *)
  Definition Rq (s s' : mstate) : Prop :=
    m_x s' = m_x s /\ i_time (m_i s') = i_time (m_i s) /\
    i_entry (m_i s') = i_entry (m_i s) /\ i_idle (m_i s') = i_idle (m_i s) /\
    i_iq (m_i s') = i_iq (m_i s) /\ i_eq (m_i s') = i_eq (m_i s) /\
    exists l, m_tr s' = l ++ m_tr s /\ Forall (quiet_obs (i_time (m_i s))) l.

  Lemma Rq_refl s : Rq s s.
  Proof. unfold Rq. repeat split; auto. exists []. split; auto. Qed.
  Lemma Rq_trans a b c : Rq a b -> Rq b c -> Rq a c.
  Proof.
    intros (X1 & T1 & E1 & I1 & Q1 & Q1' & l1 & L1 & F1) (X2 & T2 & E2 & I2 & Q2 & Q2' & l2 & L2 & F2).
    unfold Rq. repeat split; try congruence.
    exists (l2 ++ l1). split.
    - rewrite L2, L1. now rewrite app_assoc.
    - apply Forall_app. split; auto. now rewrite <- T1.
  Qed.

  (* every listener call for the meta-events ms, made in order at time t from x, returned normally *)
  Fixpoint feed_ok (t : Z) (ms : list meta) (x : X) : Prop :=
    match ms with
    | [] => True
    | m :: r => snd (emit t m x) = None /\ feed_ok t r (fst (emit t m x))
    end.
  Lemma feed_ok_app t a b x : feed_ok t (a ++ b) x <-> feed_ok t a x /\ feed_ok t b (feed t a x).
  Proof.
    revert x. induction a as [|m a IH]; intros x; cbn [app feed_ok].
    - unfold feed; cbn. tauto.
    - rewrite IH. unfold feed; cbn. tauto.
  Qed.

  (* How the listeners fared during a computation with outcome k that appended l to the trace
     (listeners in state x before, time t): either all their calls returned normally, or the
     computation raised e, the NEWEST trace entry is the meta-event on which they raised exactly
     e, and all earlier calls returned normally (a listener error aborts at once). *)
  Definition emits_ok (t : Z) (l : list (obs ctx)) (x : X) (k : option err) : Prop :=
    feed_ok t (tr_metas l) x \/
    exists m l' e, l = ObMeta m :: l' /\ k = Some e /\ feed_ok t (tr_metas l') x /\
                   snd (emit t m (feed t (tr_metas l') x)) = Some e.

  Lemma emits_ok_None t l x : emits_ok t l x None -> feed_ok t (tr_metas l) x.
  Proof. intros [H|(m & l' & e & _ & K & _)]; [exact H | discriminate]. Qed.

  (* RK P: the clock is not touched, every new trace entry satisfies P (time seen by evaluator
     calls, kind of meta-event), the listeners' state is the result of feeding them the emitted
     meta-events in order at that time, and emits_ok. *)
  Definition RK (P : Z -> obs ctx -> Prop) (s s' : mstate) (k : option err) : Prop :=
    i_time (m_i s') = i_time (m_i s) /\
    exists l, m_tr s' = l ++ m_tr s /\ Forall (P (i_time (m_i s))) l /\
              m_x s' = feed (i_time (m_i s)) (tr_metas l) (m_x s) /\
              emits_ok (i_time (m_i s)) l (m_x s) k.

  Lemma RK_refl P s k : RK P s s k.
  Proof. split; auto. exists []. repeat split; auto. left. exact I. Qed.
  Lemma RK_trans P a b c k : RK P a b None -> RK P b c k -> RK P a c k.
  Proof.
    intros (T1 & l1 & L1 & F1 & X1 & O1) (T2 & l2 & L2 & F2 & X2 & O2).
    apply emits_ok_None in O1.
    split; [congruence|].
    exists (l2 ++ l1). repeat split.
    - rewrite L2, L1. now rewrite app_assoc.
    - apply Forall_app. split; auto. now rewrite <- T1.
    - rewrite tr_metas_app, feed_app, <- X1, <- T1. exact X2.
    - rewrite T1, X1 in O2. destruct O2 as [O2|(m & l' & e & -> & K & O2 & E2)].
      + left. rewrite tr_metas_app. apply feed_ok_app. auto.
      + right. exists m, (l' ++ l1), e. repeat split; auto.
        * rewrite tr_metas_app. apply feed_ok_app. auto.
        * rewrite tr_metas_app, feed_app. exact E2.
  Qed.
  Lemma RK_mono (P Q : Z -> obs ctx -> Prop) s s' k :
    (forall t o, P t o -> Q t o) -> RK P s s' k -> RK Q s s' k.
  Proof.
    intros PQ (T & l & L & F & Hx & O). split; auto. exists l. repeat split; auto.
    eapply Forall_impl; [|exact F]. apply PQ.
  Qed.

  (* Rt: what holds below execute_once (no step started/ended/consumed meta is emitted there) *)
  Definition Rt := RK inner_obs.
  Definition Rt_refl := RK_refl inner_obs.
  Definition Rt_trans := RK_trans inner_obs.

  Lemma Rq_Rt s s' k : Rq s s' -> Rt s s' k.
  Proof.
    intros (X1 & T1 & _ & _ & _ & _ & l & L & F). split; auto.
    exists l. repeat split; auto.
    - eapply Forall_impl; [|exact F]. intros o. apply quiet_inner.
    - rewrite (quiet_no_metas _ _ F). exact X1.
    - left. rewrite (quiet_no_metas _ _ F). exact I.
  Qed.

  (* -- leaves for Rq -- *)
  Lemma mk_call_time s k o idx cd ev : cl_time (mk_call s k o idx cd ev) = i_time s.
  Proof. reflexivity. Qed.

  Lemma Rq_obs st o :
    quiet_obs (i_time (m_i st)) o -> Rq st (mkM (m_i st) (m_x st) (o :: m_tr st)).
  Proof.
    intros H. unfold Rq; cbn. repeat split; auto. exists [o]. split; auto.
  Qed.
  Lemma Rq_mi st i :
    i_time i = i_time (m_i st) -> i_entry i = i_entry (m_i st) -> i_idle i = i_idle (m_i st) ->
    i_iq i = i_iq (m_i st) -> i_eq i = i_eq (m_i st) -> Rq st (mkM i (m_x st) (m_tr st)).
  Proof.
    intros. unfold Rq; cbn. repeat split; auto. exists []. split; auto.
  Qed.

  Ltac rq1 := unfold Rq; cbn; repeat split; auto;
              eexists [_]; split; [reflexivity|]; constructor; [reflexivity || exact I | constructor].

  Lemma Rq_run_code k o cd ev : pres Rq (run_code k o cd ev).
  Proof.
    intros s s' r H. unfold Interp.run_code in H. rewrite bind_get in H. cbv zeta in H.
    destruct cd as [c|].
    - destruct (exec_code _ _) as [[ctx' sent]|].
      + rewrite bind_observe, bind_put in H. inversion H; subst. rq1.
      + rewrite bind_observe in H. inversion H; subst. rq1.
    - rewrite bind_observe in H. inversion H; subst. rq1.
  Qed.

  Lemma Rq_eval_cond k o i cd ev : pres Rq (eval_cond k o i cd ev).
  Proof.
    intros s s' r H. unfold Interp.eval_cond in H. rewrite bind_get in H. cbv zeta in H.
    destruct (eval_code _ _) as [b|]; rewrite bind_observe in H; inversion H; subst; rq1.
  Qed.

  Lemma Rq_old st o : Rq st (mkM (set_old ctx o (m_i st)) (m_x st) (m_tr st)).
  Proof. apply Rq_mi; reflexivity. Qed.
  Lemma Rq_mem st v : Rq st (mkM (set_memory ctx v (m_i st)) (m_x st) (m_tr st)).
  Proof. apply Rq_mi; reflexivity. Qed.
  Lemma Rq_sel st l : Rq st (mkM (m_i st) (m_x st) (ObSelected l :: m_tr st)).
  Proof. apply Rq_obs. exact I. Qed.
  Lemma Rq_init st : Rq st (mkM (set_initialized ctx true (m_i st)) (m_x st) (m_tr st)).
  Proof. apply Rq_mi; reflexivity. Qed.

  Lemma Rq_reflK s (k : option err) : Rq s s.
  Proof. apply Rq_refl. Qed.
  Lemma Rq_transK a b c (k : option err) : Rq a b -> Rq b c -> Rq a c.
  Proof. apply Rq_trans. Qed.
  Ltac rqi := first [exact Rq_reflK | exact Rq_transK | exact Rq_run_code | exact Rq_eval_cond
                    | exact Rq_old | exact Rq_mem | exact Rq_sel | exact Rq_init].

  Lemma Rq_eval_conds k o cds idx ev : pres Rq (eval_conds k o idx cds ev).
  Proof. apply q_eval_conds; rqi. Qed.
  Lemma Rq_contract k o pre post inv ev : pres Rq (contract k o pre post inv ev).
  Proof. apply q_contract; rqi. Qed.
  Lemma Rq_state_contract k st ev : pres Rq (state_contract k st ev).
  Proof. apply q_state_contract; rqi. Qed.
  Lemma Rq_trans_contract k it ev : pres Rq (trans_contract k it ev).
  Proof. apply q_trans_contract; rqi. Qed.
  Lemma Rq_select_transitions ev states : pres Rq (select_transitions ev states).
  Proof. apply q_select_transitions; rqi. Qed.
  Lemma Rq_sort_transitions ts : pres Rq (sort_transitions ts).
  Proof. apply q_sort_transitions; rqi. Qed.
  Lemma Rq_record_history active st : pres Rq (record_history active st).
  Proof. apply q_record_history; rqi. Qed.
  Lemma Rq_check_invariants ev : pres Rq (check_invariants ev).
  Proof. apply q_check_invariants; rqi. Qed.
  Lemma Rq_compute_steps : pres Rq compute_steps.
  Proof. apply q_compute_steps; rqi. Qed.

  (* -- leaves for Rt -- *)
  Lemma Rt_mi st i : i_time i = i_time (m_i st) -> Rt st (mkM i (m_x st) (m_tr st)) None.
  Proof. intros H. split; auto. exists []. repeat split; auto. left. exact I. Qed.

  Lemma Rt_run_code k o cd ev : presK Rt (run_code k o cd ev).
  Proof. intros s s' r H. eapply Rq_Rt, Rq_run_code, H. Qed.
  Lemma Rt_eval_cond k o i cd ev : presK Rt (eval_cond k o i cd ev).
  Proof. intros s s' r H. eapply Rq_Rt, Rq_eval_cond, H. Qed.
  Lemma Rt_old st o : Rt st (mkM (set_old ctx o (m_i st)) (m_x st) (m_tr st)) None.
  Proof. apply Rq_Rt, Rq_old. Qed.
  Lemma Rt_mem st v : Rt st (mkM (set_memory ctx v (m_i st)) (m_x st) (m_tr st)) None.
  Proof. apply Rq_Rt, Rq_mem. Qed.
  Lemma Rt_sel st l : Rt st (mkM (m_i st) (m_x st) (ObSelected l :: m_tr st)) None.
  Proof. apply Rq_Rt, Rq_sel. Qed.
  Lemma Rt_init st : Rt st (mkM (set_initialized ctx true (m_i st)) (m_x st) (m_tr st)) None.
  Proof. apply Rq_Rt, Rq_init. Qed.

  (* raise_meta, fully characterised: the listeners are called with the current step time, the
     interpreter state is not touched, the meta-event is recorded whether or not a listener fails *)
  Lemma raise_meta_spec m s s' r :
    raise_meta m s = (s', r) ->
    s' = mkM (m_i s) (fst (emit (i_time (m_i s)) m (m_x s))) (ObMeta m :: m_tr s) /\
    r = match snd (emit (i_time (m_i s)) m (m_x s)) with None => inl tt | Some e => inr e end.
  Proof.
    unfold Interp.raise_meta. destruct (emit _ _ _) as [x' [e|]]; intros H; inversion H; subst; auto.
  Qed.

  Lemma RK_meta (P : Z -> obs ctx -> Prop) m :
    (forall t, P t (ObMeta m)) -> presK (RK P) (raise_meta m).
  Proof.
    intros Hm s s' r H. apply raise_meta_spec in H. destruct H as [-> ->].
    split; [reflexivity|]. exists [ObMeta m]. repeat split; auto.
    cbn [m_i m_x]. destruct (snd (emit (i_time (m_i s)) m (m_x s))) as [e|] eqn:E.
    - right. exists m, [], e. repeat split; auto.
    - left. cbn. auto.
  Qed.
  Lemma Rt_meta m : inner_meta m -> presK Rt (raise_meta m).
  Proof. intros Hm. apply RK_meta. intros t. exact Hm. Qed.

  Lemma queue_event_time (i : ist) e : i_time (queue_event i e) = i_time i.
  Proof. unfold queue_event. destruct (e_kind e); reflexivity. Qed.

  Lemma Rt_queue st e : Rt st (mkM (queue_event (m_i st) e) (m_x st) (m_tr st)) None.
  Proof. apply Rt_mi, queue_event_time. Qed.
  Lemma Rt_cfg st c : Rt st (mkM (set_config ctx c (m_i st)) (m_x st) (m_tr st)) None.
  Proof. apply Rt_mi; reflexivity. Qed.
  Lemma Rt_enter st n c :
    Rt st (mkM (set_idle ctx (dset n (i_time (m_i st)) (i_idle (m_i st)))
                 (set_entry ctx (dset n (i_time (m_i st)) (i_entry (m_i st)))
                    (set_config ctx c (m_i st)))) (m_x st) (m_tr st)) None.
  Proof. apply Rt_mi; reflexivity. Qed.
  Lemma Rt_idle st n :
    Rt st (mkM (set_idle ctx (dset n (i_time (m_i st)) (i_idle (m_i st))) (m_i st)) (m_x st) (m_tr st)) None.
  Proof. apply Rt_mi; reflexivity. Qed.
  Lemma Rt_sent st l : Rt st (mkM (set_sent ctx l (m_i st)) (m_x st) (m_tr st)) None.
  Proof. apply Rt_mi; reflexivity. Qed.
  Lemma Rt_iq st q : Rt st (mkM (set_iq ctx q (m_i st)) (m_x st) (m_tr st)) None.
  Proof. apply Rt_mi; reflexivity. Qed.
  Lemma Rt_eq st q : Rt st (mkM (set_eq ctx q (m_i st)) (m_x st) (m_tr st)) None.
  Proof. apply Rt_mi; reflexivity. Qed.

  Ltac rti := first [exact Rt_refl | exact Rt_trans | exact Rt_run_code | exact Rt_eval_cond
                    | exact Rt_old | exact Rt_mem | exact Rt_sel | exact Rt_init
                    | intros; apply Rt_meta; exact I | exact Rt_queue | exact Rt_cfg | exact Rt_enter | exact Rt_idle
                    | exact Rt_sent | exact Rt_iq | exact Rt_eq].

  Lemma Rt_compute_steps : presK Rt compute_steps.
  Proof. apply q_compute_steps; rti. Qed.
  Lemma Rt_check_invariants ev : presK Rt (check_invariants ev).
  Proof. apply q_check_invariants; rti. Qed.
  Lemma Rt_raise_event e : presK Rt (raise_event e).
  Proof. apply a_raise_event; rti. Qed.
  Lemma Rt_enter_state ev st : presK Rt (enter_state ev st).
  Proof. apply a_enter_state; rti. Qed.
  Lemma Rt_process_transition ev i : presK Rt (process_transition ev i).
  Proof. apply a_process_transition; rti. Qed.
  Lemma Rt_apply_step step : presK Rt (apply_step step).
  Proof.
    apply a_apply_step; first [exact Rt_enter_state | exact Rt_process_transition | exact Rt_raise_event | rti].
  Qed.
  Lemma Rt_stabilize fuel : presK Rt (stabilize fuel).
  Proof.
    apply a_stabilize; first [exact Rt_enter_state | exact Rt_process_transition | exact Rt_raise_event | rti].
  Qed.
  Lemma Rt_run_steps fuel steps : presK Rt (run_steps fuel steps).
  Proof.
    apply a_run_steps; first [exact Rt_enter_state | exact Rt_process_transition | exact Rt_raise_event | rti].
  Qed.
  Lemma Rt_consume_event : presK Rt consume_event.
  Proof. apply a_consume_event; rti. Qed.

  (* ---------------------------------------------------------------- execute_once, in pieces *)
  Definition consume_part (first : microstep) : M unit :=
    match ms_event first with
    | Some _ =>
        bind consume_event (fun e => match e with
                                     | Some ev => raise_meta (MConsumed ev)
                                     | None => fail EStatechart
                                     end)
    | None => ret tt
    end.

  Definition macro_part (fuel : nat) (steps : list microstep) : M (option macrostep) :=
    match steps with
    | [] => ret None
    | first :: _ =>
        bind (consume_part first) (fun _ =>
        bind (run_steps fuel steps) (fun executed =>
        bind get (fun s => ret (Some (i_time s, executed)))))
    end.

  Definition inv_event (macro : option macrostep) : option event :=
    match macro with Some (_, ex) => macro_event ex | None => None end.

  Lemma execute_once_eq fuel now :
    execute_once fuel now =
    bind (modify (fun s => set_sent ctx [] (set_time ctx now s))) (fun _ =>
    bind (raise_meta (MStepStarted now)) (fun _ =>
    bind compute_steps (fun steps =>
    bind (macro_part fuel steps) (fun macro =>
    bind (check_invariants (inv_event macro)) (fun _ =>
    bind (raise_meta MStepEnded) (fun _ => ret macro)))))).
  Proof. reflexivity. Qed.

  (* ---------------------------------------------------------------- C13_frozen *)
  Definition Rt2 := RK time_obs.
  Definition Rt2_refl := RK_refl time_obs.
  Definition Rt2_trans := RK_trans time_obs.
  Lemma pres_Rt_Rt2 {A} (m : M A) : presK Rt m -> presK Rt2 m.
  Proof. intros H s s' r E. eapply RK_mono; [|eapply H; eauto]. apply inner_time. Qed.

  Lemma Rt2_meta m :
    (forall t, m <> MStepStarted t) -> presK Rt2 (raise_meta m).
  Proof.
    intros Hm. apply RK_meta. intros t. destruct m; cbn; auto. exfalso. eapply Hm; reflexivity.
  Qed.

  Lemma Rt2_started s s' r :
    raise_meta (MStepStarted (i_time (m_i s))) s = (s', r) -> Rt2 s s' (err_of r).
  Proof.
    intros H. apply raise_meta_spec in H. destruct H as [-> ->].
    split; [reflexivity|]. exists [ObMeta (MStepStarted (i_time (m_i s)))]. repeat split; auto.
    - constructor; [reflexivity|constructor].
    - cbn [m_i m_x]. destruct (snd (emit _ _ _)) as [e|] eqn:E.
      + right. eexists _, [], e. repeat split; auto.
      + left. cbn. auto.
  Qed.

  Lemma Rt2_macro_part fuel steps : presK Rt2 (macro_part fuel steps).
  Proof.
    unfold macro_part, consume_part.
    repeat (pstep Rt2_refl Rt2_trans);
      first [ apply pres_Rt_Rt2, Rt_consume_event
            | apply Rt2_meta; discriminate
            | apply pres_Rt_Rt2, Rt_run_steps ].
  Qed.

  Lemma macro_part_time fuel steps s s' t ex :
    macro_part fuel steps s = (s', inl (Some (t, ex))) -> t = i_time (m_i s').
  Proof.
    unfold macro_part. destruct steps as [|first rest]; [intros H; inversion H|].
    intros H. apply bind_inv in H. destruct H as [(s1 & u & _ & H)|(e & _ & H)]; [|discriminate].
    apply bind_inv in H. destruct H as [(s2 & exd & _ & H)|(e & _ & H)]; [|discriminate].
    rewrite bind_get in H. inversion H; subst. reflexivity.
  Qed.

  (* C13_frozen.  In one execute_once called with the clock value now, whatever its outcome:
     - the interpreter's time is now afterwards;
     - every evaluator call recorded (exec or eval) exposes time = now, a step started meta-event
       carries now;
     - the listeners' state is the result of feeding them the emitted meta-events, in order, with
       emit now: every call of emit made by raise_meta got now as its time argument;
     - (fail fast) either every listener call returned normally, or the call raised exactly the
       error of the listeners on the newest meta-event of the trace, all earlier calls having
       returned normally;
     - a returned macro step is stamped now. *)
  Theorem C13_frozen fuel now s s' r :
    execute_once fuel now s = (s', r) ->
    i_time (m_i s') = now /\
    (exists l, m_tr s' = l ++ m_tr s /\ Forall (time_obs now) l /\
               m_x s' = feed now (tr_metas l) (m_x s) /\
               emits_ok now l (m_x s) (err_of r)) /\
    (forall t steps, r = inl (Some (t, steps)) -> t = now).
  Proof.
    rewrite execute_once_eq, bind_modify. intros H.
    assert (HR : Rt2 (mkM (set_sent ctx [] (set_time ctx now (m_i s))) (m_x s) (m_tr s)) s' (err_of r)).
    { apply bind_inv in H. destruct H as [(s1 & u & H1 & H)|(e & H1 & ->)].
      - apply Rt2_trans with s1.
        + exact (Rt2_started _ _ _ H1).
        + refine ((_ : presK Rt2 _) _ _ _ H).
          repeat (pstep Rt2_refl Rt2_trans);
            first [ apply pres_Rt_Rt2, Rt_compute_steps | apply Rt2_macro_part
                  | apply pres_Rt_Rt2, Rt_check_invariants | apply Rt2_meta; discriminate ].
      - exact (Rt2_started _ _ _ H1). }
    destruct HR as (T & l & L & F & Hx & O). cbn in T, L, F, Hx, O.
    split; [exact T|]. split; [exists l; repeat split; assumption|].
    intros t steps ->.
    apply bind_inv in H. destruct H as [(s1 & u & H1 & H)|(e & _ & H)]; [|discriminate].
    apply bind_inv in H. destruct H as [(s2 & cs & H2 & H)|(e & _ & H)]; [|discriminate].
    apply bind_inv in H. destruct H as [(s3 & macro & H3 & H)|(e & _ & H)]; [|discriminate].
    apply bind_inv in H. destruct H as [(s4 & u4 & H4 & H)|(e & _ & H)]; [|discriminate].
    apply bind_inv in H. destruct H as [(s5 & u5 & H5 & H)|(e & _ & H)]; [|discriminate].
    inversion H; subst.
    rewrite (macro_part_time _ _ _ _ _ _ H3).
    apply Rt2_macro_part in H3. destruct H3 as [-> _].
    apply Rt_compute_steps in H2. destruct H2 as [-> _].
    apply raise_meta_spec in H1. destruct H1 as [-> _]. reflexivity.
  Qed.

  Lemma queue_time e s s' r : queue e s = (s', r) -> i_time (m_i s') = i_time (m_i s).
  Proof. intros H. inversion H; subst. apply queue_event_time. Qed.

  (* ---------------------------------------------------------------- meta-events of a run *)
  (* grows s s' ms: the trace of s' is the trace of s plus new entries whose meta-events, oldest
     first, are ms *)
  Definition grows (s s' : mstate) (ms : list meta) : Prop :=
    exists l, m_tr s' = l ++ m_tr s /\ tr_metas l = ms.

  Lemma grows_refl s : grows s s [].
  Proof. exists []. auto. Qed.
  Lemma grows_trans a b c p q : grows a b p -> grows b c q -> grows a c (p ++ q).
  Proof.
    intros (l1 & L1 & M1) (l2 & L2 & M2). exists (l2 ++ l1). split.
    - rewrite L2, L1. now rewrite app_assoc.
    - rewrite tr_metas_app. congruence.
  Qed.
  Lemma Rq_grows s s' : Rq s s' -> grows s s' [].
  Proof.
    intros (_ & _ & _ & _ & _ & _ & l & L & F). exists l. split; auto.
    eapply quiet_no_metas; eauto.
  Qed.
  Lemma grows_same_tr s s' : m_tr s' = m_tr s -> grows s s' [].
  Proof. intros H. exists []. auto. Qed.

  (* outcome-independent part: what was emitted is a prefix of full, all of it on success *)
  Definition mpost {A} (full : list meta) (s s' : mstate) (r : A + err) : Prop :=
    exists p, grows s s' p /\ prefix p full /\ (forall a, r = inl a -> p = full).
  Definition mspec {A} (m : M A) (full : list meta) : Prop :=
    forall s s' r, m s = (s', r) -> mpost full s s' r.

  Lemma mpost_chain {A} f1 f2 s s1 s' (r : A + err) :
    grows s s1 f1 -> mpost f2 s1 s' r -> mpost (f1 ++ f2) s s' r.
  Proof.
    intros G (p & Gp & Pp & Fp). exists (f1 ++ p). repeat split.
    - eapply grows_trans; eauto.
    - now apply prefix_app_l.
    - intros a Ha. now rewrite (Fp a Ha).
  Qed.
  Lemma mpost_err_weaken {A B} f g s s' e :
    @mpost A f s s' (inr e) -> @mpost B (f ++ g) s s' (inr e).
  Proof.
    intros (p & Gp & Pp & _). exists p. repeat split; auto.
    - now apply prefix_app_r.
    - intros a Ha; discriminate.
  Qed.
  Lemma mpost_ok {A} f s s' (a : A) : mpost f s s' (inl a) -> grows s s' f.
  Proof. intros (p & Gp & _ & Fp). now rewrite <- (Fp a eq_refl). Qed.

  Lemma mspec_eq {A} (m : M A) f f' : mspec m f -> f = f' -> mspec m f'.
  Proof. now intros H <-. Qed.
  Lemma mspec_ret {A} (a : A) : mspec (ret a) [].
  Proof.
    intros s s' r H. inversion H; subst. exists []. repeat split; auto using grows_refl, prefix_refl.
  Qed.
  Lemma mspec_fail {A} e : mspec (@Interp.fail ctx X A e) [].
  Proof.
    intros s s' r H. inversion H; subst. exists []. repeat split; auto using grows_refl, prefix_refl.
  Qed.
  Lemma mspec_quiet {A} (m : M A) : pres Rq m -> mspec m [].
  Proof.
    intros Hm s s' r H. exists []. repeat split; auto using prefix_refl.
    apply Rq_grows. eapply Hm; eauto.
  Qed.
  Lemma mspec_silent {A} (m : M A) :
    (forall s s' r, m s = (s', r) -> m_tr s' = m_tr s) -> mspec m [].
  Proof.
    intros Hm s s' r H. exists []. repeat split; auto using prefix_refl.
    apply grows_same_tr. eapply Hm; eauto.
  Qed.
  Lemma mspec_get : mspec get [].
  Proof. apply mspec_silent. intros s s' r H. now inversion H. Qed.
  Lemma mspec_put i : mspec (put i) [].
  Proof. apply mspec_silent. intros s s' r H. now inversion H. Qed.
  Lemma mspec_modify g : mspec (modify g) [].
  Proof. apply mspec_silent. intros s s' r H. now inversion H. Qed.
  Lemma mspec_raise_meta m : mspec (raise_meta m) [m].
  Proof.
    intros s s' r H. apply raise_meta_spec in H. destruct H as [-> _].
    exists [m]. repeat split; auto using prefix_refl. exists [ObMeta m]. auto.
  Qed.
  Lemma mspec_bind {A B} (m : M A) (f : A -> M B) f1 f2 :
    mspec m f1 -> (forall a, mspec (f a) f2) -> mspec (bind m f) (f1 ++ f2).
  Proof.
    intros Hm Hf s s' r H. apply bind_inv in H.
    destruct H as [(s1 & a & H1 & H2) | (e & H1 & ->)].
    - eapply mpost_chain; [eapply mpost_ok, Hm, H1 | eapply Hf, H2].
    - eapply mpost_err_weaken, Hm, H1.
  Qed.
  Lemma mspec_mapM {A B} (f : A -> M B) (g : A -> list meta) l :
    (forall a, mspec (f a) (g a)) -> mspec (mapM f l) (flat_map g l).
  Proof.
    intros Hf. induction l as [|x l IH]; cbn [Interp.mapM flat_map].
    - apply mspec_ret.
    - apply mspec_bind; [apply Hf|]. intros y.
      eapply mspec_eq; [apply mspec_bind; [apply IH | intros ys; apply mspec_ret]|].
      apply app_nil_r.
  Qed.
  Lemma mspec_iterM {A} (f : A -> M unit) (g : A -> list meta) l :
    (forall a, mspec (f a) (g a)) -> mspec (iterM f l) (flat_map g l).
  Proof.
    intros Hf. induction l as [|x l IH]; cbn [Interp.iterM flat_map].
    - apply mspec_ret.
    - apply mspec_bind; [apply Hf|]. intros _. apply IH.
  Qed.

  (* ---- the emitting functions ---- *)
  Definition sent_meta (e : event) : list meta :=
    match e_kind e with
    | Internal => MSent e :: (if has_delay e then [MDelayedSent e] else [])
    | Meta => [MUser (e_name e) (e_data e)]
    | External => []
    end.

  Lemma mspec_raise_event e : mspec (raise_event e) (sent_meta e).
  Proof.
    unfold Interp.raise_event, sent_meta. destruct (e_kind e).
    - apply mspec_ret.
    - eapply mspec_eq.
      + apply mspec_bind; [apply mspec_modify|]. intros _.
        apply mspec_bind; [apply mspec_raise_meta|]. intros _.
        instantiate (1 := if has_delay e then [MDelayedSent e] else []).
        destruct (has_delay e); [apply mspec_raise_meta | apply mspec_ret].
      + reflexivity.
    - apply mspec_raise_meta.
  Qed.

  Lemma mspec_exit_state active ev st : mspec (exit_state active ev st) [MExited (s_name st)].
  Proof.
    unfold Interp.exit_state. eapply mspec_eq.
    - apply mspec_bind; [apply mspec_quiet, Rq_run_code|]. intros sent.
      apply mspec_bind; [apply mspec_quiet, Rq_record_history|]. intros _.
      apply mspec_bind; [apply mspec_get|]. intros s0.
      apply mspec_bind.
      { instantiate (1 := []). destruct (mem _ _); [apply mspec_put | apply mspec_fail]. }
      intros _. apply mspec_bind; [apply mspec_quiet, Rq_state_contract|]. intros _.
      apply mspec_bind; [apply mspec_raise_meta|]. intros _. apply mspec_ret.
    - reflexivity.
  Qed.

  Lemma mspec_enter_state ev st : mspec (enter_state ev st) [MEntered (s_name st)].
  Proof.
    unfold Interp.enter_state. eapply mspec_eq.
    - apply mspec_bind; [apply mspec_quiet, Rq_state_contract|]. intros _.
      apply mspec_bind; [apply mspec_quiet, Rq_run_code|]. intros sent.
      apply mspec_bind; [apply mspec_modify|]. intros _.
      apply mspec_bind; [apply mspec_raise_meta|]. intros _. apply mspec_ret.
    - reflexivity.
  Qed.

  Definition processed_meta (step : microstep) : list meta :=
    match ms_trans step with
    | Some i =>
        match nth_error (c_transitions sc) i with
        | Some t => [MProcessed (t_source t) (t_target t) (ms_event step)]
        | None => []
        end
    | None => []
    end.

  Lemma mspec_process step :
    mspec (match ms_trans step with
           | Some i => process_transition (ms_event step) i
           | None => ret []
           end) (processed_meta step).
  Proof.
    unfold processed_meta. destruct (ms_trans step) as [i|]; [|apply mspec_ret].
    unfold Interp.process_transition. destruct (nth_error _ i) as [t|]; [|apply mspec_fail].
    eapply mspec_eq.
    - apply mspec_bind; [apply mspec_quiet, Rq_trans_contract|]. intros _.
      apply mspec_bind; [apply mspec_quiet, Rq_trans_contract|]. intros _.
      apply mspec_bind; [apply mspec_quiet, Rq_run_code|]. intros sent.
      apply mspec_bind; [apply mspec_quiet, Rq_trans_contract|]. intros _.
      apply mspec_bind; [apply mspec_quiet, Rq_trans_contract|]. intros _.
      apply mspec_bind; [apply mspec_modify|]. intros _.
      apply mspec_bind; [apply mspec_raise_meta|]. intros _. apply mspec_ret.
    - reflexivity.
  Qed.

  (* ---------------------------------------------------------------- C10: one micro step *)
  Definition spec_meta_micro (step : microstep) : list meta :=
    map MExited (ms_exited step) ++ processed_meta step ++ map MEntered (ms_entered step)
    ++ flat_map sent_meta (ms_sent step).

  Definition agrees (a step : microstep) : Prop :=
    ms_event a = ms_event step /\ ms_trans a = ms_trans step /\
    ms_entered a = ms_entered step /\ ms_exited a = ms_exited step.

  (* Statechart._states[name].name = name (WF: the state registered under a name has that name) *)
  Definition names_ok : Prop := forall n st, state_for sc n = Some st -> s_name st = n.

  Lemma states_for_names l : names_ok -> forall sts, states_for sc l = Some sts -> map s_name sts = l.
  Proof.
    intros Hn. induction l as [|n l IH]; cbn [states_for]; intros sts H.
    - inversion H. reflexivity.
    - destruct (state_for sc n) as [st|] eqn:E; [|discriminate].
      destruct (states_for sc l) as [r|]; [|discriminate].
      inversion H; subst. cbn. rewrite (Hn _ _ E), (IH r); auto.
  Qed.

  Definition micro_metas (exited entered : list name) (step : microstep) (sent : list event) : list meta :=
    map MExited exited ++ processed_meta step ++ map MEntered entered ++ flat_map sent_meta sent.

  Definition sent_loop (e : event) : M unit :=
    bind (raise_event e) (fun _ => modify (fun s => set_sent ctx (i_sent s ++ [e]) s)).

  Lemma mspec_sent_loop e : mspec (sent_loop e) (sent_meta e).
  Proof.
    eapply mspec_eq; [apply mspec_bind; [apply mspec_raise_event | intros _; apply mspec_modify]|].
    apply app_nil_r.
  Qed.

  Lemma flat_map_singleton {A B C} (f : B -> C) (g : A -> B) (l : list A) :
    flat_map (fun x => [f (g x)]) l = map f (map g l).
  Proof. induction l as [|x l IH]; cbn; congruence. Qed.

  Lemma apply_step_metas_gen step s s' r :
    apply_step step s = (s', r) ->
    match states_for sc (ms_entered step), states_for sc (ms_exited step) with
    | Some en, Some ex =>
        exists p, grows s s' p /\
          match r with
          | inl a => agrees a step /\ p = micro_metas (map s_name ex) (map s_name en) step (ms_sent a)
          | inr _ => exists sent, prefix p (micro_metas (map s_name ex) (map s_name en) step sent)
          end
    | _, _ => s' = s /\ r = inr EStatechart
    end.
  Proof.
    unfold Interp.apply_step.
    destruct (states_for sc (ms_entered step)) as [en|]; [|intros H; inversion H; auto].
    destruct (states_for sc (ms_exited step)) as [ex|]; [|intros H; inversion H; auto].
    rewrite bind_get. intros H.
    pose proof (mspec_mapM (exit_state (i_config (m_i s)) (ms_event step))
                  (fun st => [MExited (s_name st)]) ex
                  (fun st => mspec_exit_state _ _ st)) as S1.
    rewrite flat_map_singleton in S1.
    pose proof (mspec_process step) as S2.
    pose proof (mspec_mapM (enter_state (ms_event step))
                  (fun st => [MEntered (s_name st)]) en
                  (fun st => mspec_enter_state _ st)) as S3.
    rewrite flat_map_singleton in S3.
    unfold micro_metas.
    set (f1 := map MExited (map s_name ex)) in *.
    set (f2 := processed_meta step) in *.
    set (f3 := map MEntered (map s_name en)) in *.
    apply bind_inv in H. destruct H as [(s1 & sent1 & H1 & H)|(e & H1 & ->)].
    2:{ apply S1 in H1. destruct H1 as (p & G & P & _). exists p. split; auto.
        exists []. now apply prefix_app_r. }
    apply S1, mpost_ok in H1.
    apply bind_inv in H. destruct H as [(s2 & sent2 & H2 & H)|(e & H2 & ->)].
    2:{ apply S2 in H2. pose proof (mpost_chain _ _ _ _ _ _ H1 H2) as (p & G & P & _).
        exists p. split; auto. exists []. rewrite !app_assoc. now do 2 apply prefix_app_r. }
    apply S2, mpost_ok in H2. pose proof (grows_trans _ _ _ _ _ H1 H2) as G2.
    apply bind_inv in H. destruct H as [(s3 & sent3 & H3 & H)|(e & H3 & ->)].
    2:{ apply S3 in H3. pose proof (mpost_chain _ _ _ _ _ _ G2 H3) as (p & G & P & _).
        exists p. split; auto. exists []. rewrite !app_assoc. now apply prefix_app_r. }
    apply S3, mpost_ok in H3. pose proof (grows_trans _ _ _ _ _ G2 H3) as G3.
    cbv zeta in H.
    set (sent := concat sent1 ++ sent2 ++ concat sent3) in *.
    pose proof (mspec_iterM sent_loop sent_meta sent mspec_sent_loop) as S4.
    apply bind_inv in H. destruct H as [(s4 & u & H4 & H)|(e & H4 & ->)].
    2:{ apply S4 in H4. pose proof (mpost_chain _ _ _ _ _ _ G3 H4) as (p & G & P & _).
        exists p. split; auto. exists sent. now rewrite !app_assoc. }
    apply S4, mpost_ok in H4. pose proof (grows_trans _ _ _ _ _ G3 H4) as G4.
    inversion H; subst. eexists. split; [exact G4|]. split.
    - repeat split.
    - cbn [ms_sent]. now rewrite !app_assoc.
  Qed.

  Lemma agrees_processed a step : agrees a step -> processed_meta a = processed_meta step.
  Proof. intros (E & T & _ & _). unfold processed_meta. now rewrite E, T. Qed.

  (* C10_apply_step_meta.  A micro step that completes emits exactly spec_meta_micro of the
     returned micro step; one that raises emits a prefix of spec_meta_micro a' for some a' that
     agrees with the computed step on event, transition, entered and exited states. *)
  Theorem C10_apply_step_meta step s s' r :
    names_ok -> apply_step step s = (s', r) ->
    exists p, grows s s' p /\
      match r with
      | inl a => agrees a step /\ p = spec_meta_micro a
      | inr _ => exists a', agrees a' step /\ prefix p (spec_meta_micro a')
      end.
  Proof.
    intros Hn H. pose proof (apply_step_metas_gen _ _ _ _ H) as G.
    destruct (states_for sc (ms_entered step)) as [en|] eqn:E1.
    2:{ destruct G as [-> ->]. exists []. split; [apply grows_refl|].
        exists step. split; [repeat split | apply prefix_nil]. }
    destruct (states_for sc (ms_exited step)) as [ex|] eqn:E2.
    2:{ destruct G as [-> ->]. exists []. split; [apply grows_refl|].
        exists step. split; [repeat split | apply prefix_nil]. }
    rewrite (states_for_names _ Hn _ E1), (states_for_names _ Hn _ E2) in G.
    destruct G as (p & G & Hr). exists p. split; auto.
    destruct r as [a|e].
    - destruct Hr as [Ha ->]. split; auto. unfold spec_meta_micro, micro_metas.
      rewrite (agrees_processed _ _ Ha). destruct Ha as (_ & _ & -> & ->). reflexivity.
    - destruct Hr as [sent P].
      exists (mkMicro (ms_event step) (ms_trans step) (ms_entered step) (ms_exited step) sent).
      split; [repeat split|]. exact P.
  Qed.

  (* ---------------------------------------------------------------- C10: stabilisation, run_steps *)
  Lemma first_some_In {A B} (f : A -> option B) l y :
    first_some f l = Some y -> exists x, In x l /\ f x = Some y.
  Proof.
    induction l as [|x l IH]; cbn; [discriminate|].
    destruct (f x) as [y'|] eqn:E.
    - intros H; inversion H; subst. exists x; auto.
    - intros H. destruct (IH H) as (x' & Hin & Hx). exists x'; auto.
  Qed.

  Lemma stab_for_leaf_event mem_ leaf step :
    stab_for_leaf sc mem_ leaf = Some (inl step) -> ms_event step = None /\ ms_trans step = None.
  Proof.
    unfold stab_for_leaf. destruct (state_for sc leaf) as [st|]; [|discriminate].
    destruct (s_kind st).
    - discriminate.
    - destruct (truthy (s_initial st)); [|discriminate]. intros H; inversion H; auto.
    - destruct (children_for sc leaf); [discriminate|]. intros H; inversion H; auto.
    - destruct (ostr_eqb _ _); [|discriminate]. destruct (root sc); intros H; inversion H; auto.
    - destruct (lookup leaf mem_); [intros H; inversion H; auto|].
      destruct (s_memory st); intros H; inversion H; auto.
    - destruct (lookup leaf mem_); [intros H; inversion H; auto|].
      destruct (s_memory st); intros H; inversion H; auto.
  Qed.

  Lemma stab_for_orthogonal_event cfg n step :
    stab_for_orthogonal sc cfg n = Some (inl step) -> ms_event step = None /\ ms_trans step = None.
  Proof.
    unfold stab_for_orthogonal. destruct (state_for sc n) as [st|]; [|discriminate].
    destruct (s_kind st); try discriminate.
    destruct (filter _ _); [discriminate|]. intros H; inversion H; auto.
  Qed.

  Lemma stabilization_step_event (i : ist) step :
    create_stabilization_step i = Some (inl step) -> ms_event step = None /\ ms_trans step = None.
  Proof.
    unfold Interp.create_stabilization_step. cbv zeta.
    destruct (first_some (stab_for_leaf sc (i_memory i)) _) as [r|] eqn:E.
    - intros H; inversion H; subst. apply first_some_In in E. destruct E as (x & _ & Hx).
      eapply stab_for_leaf_event; eauto.
    - intros H. apply first_some_In in H. destruct H as (x & _ & Hx).
      eapply stab_for_orthogonal_event; eauto.
  Qed.

  Definition no_event (a : microstep) : Prop := ms_event a = None.

  Lemma stabilize_metas (Hn : names_ok) fuel : forall s s' r,
    stabilize fuel s = (s', r) ->
    exists p, grows s s' p /\
      match r with
      | inl steps => p = flat_map spec_meta_micro steps /\ Forall no_event steps
      | inr _ => exists steps, prefix p (flat_map spec_meta_micro steps) /\ Forall no_event steps
      end.
  Proof.
    induction fuel as [|f IH]; intros s s' r H; cbn [Interp.stabilize] in H.
    - inversion H; subst. exists []. split; [apply grows_refl|]. exists []. split; [apply prefix_nil|constructor].
    - rewrite bind_get in H.
      destruct (create_stabilization_step (m_i s)) as [[step|e]|] eqn:E.
      + apply stabilization_step_event in E. destruct E as [Ev _].
        apply bind_inv in H. destruct H as [(s1 & a & H1 & H)|(e & H1 & ->)].
        2:{ apply (C10_apply_step_meta _ _ _ _ Hn) in H1. destruct H1 as (p & G & a' & Ha & P).
            exists p. split; auto. exists [a']. split.
            - cbn. now rewrite app_nil_r.
            - constructor; [|constructor]. unfold no_event. destruct Ha as (-> & _). exact Ev. }
        apply (C10_apply_step_meta _ _ _ _ Hn) in H1. destruct H1 as (p1 & G1 & Ha & ->).
        assert (Na : no_event a). { unfold no_event. destruct Ha as (-> & _). exact Ev. }
        apply bind_inv in H. destruct H as [(s2 & ss & H2 & H)|(e & H2 & ->)].
        2:{ apply IH in H2. destruct H2 as (p2 & G2 & steps & P & F).
            exists (spec_meta_micro a ++ p2). split; [eapply grows_trans; eauto|].
            exists (a :: steps). split; [cbn; now apply prefix_app_l | constructor; auto]. }
        apply IH in H2. destruct H2 as (p2 & G2 & -> & F).
        inversion H; subst. exists (spec_meta_micro a ++ flat_map spec_meta_micro ss).
        split; [eapply grows_trans; eauto|]. split; [reflexivity | constructor; auto].
      + inversion H; subst. exists []. split; [apply grows_refl|]. exists []. split; [apply prefix_nil|constructor].
      + inversion H; subst. exists []. split; [apply grows_refl|]. split; [reflexivity|constructor].
  Qed.

  Definition hd_event (l : list microstep) : option event :=
    match l with [] => None | x :: _ => ms_event x end.
  (* every step carries the triggering event ev' or none *)
  Definition evs_ok (ev' : option event) (l : list microstep) : Prop :=
    Forall (fun a => ms_event a = None \/ ms_event a = ev') l.

  Lemma macro_event_evs_ok ev' l : evs_ok ev' l -> hd_event l = ev' -> macro_event l = ev'.
  Proof.
    destruct l as [|a l]; cbn; [auto|]. intros F Ha. destruct (ms_event a) as [e|] eqn:E; [exact Ha|].
    subst ev'. inversion F as [|? ? _ F']; subst. clear F E.
    induction l as [|b l IH]; cbn; [reflexivity|].
    inversion F' as [|? ? Hb F'']; subst. destruct Hb as [-> | ->]; auto.
  Qed.

  Lemma no_event_evs_ok ev' l : Forall no_event l -> evs_ok ev' l.
  Proof. intros F. eapply Forall_impl; [|exact F]. intros a Ha. left. exact Ha. Qed.

  Lemma run_steps_metas (Hn : names_ok) fuel ev' steps : forall s s' r,
    Forall (fun st => ms_event st = ev') steps ->
    run_steps fuel steps s = (s', r) ->
    exists p, grows s s' p /\
      match r with
      | inl ex => p = flat_map spec_meta_micro ex /\ evs_ok ev' ex /\ hd_event ex = hd_event steps
      | inr _ => exists ex, prefix p (flat_map spec_meta_micro ex) /\ evs_ok ev' ex /\
                            hd_event ex = hd_event steps
      end.
  Proof.
    induction steps as [|st rest IH]; intros s s' r F H; cbn [Interp.run_steps] in H.
    - inversion H; subst. exists []. split; [apply grows_refl|]. repeat split. constructor.
    - inversion F as [|? ? Est F']; subst.
      apply bind_inv in H. destruct H as [(s1 & a & H1 & H)|(e & H1 & ->)].
      2:{ apply (C10_apply_step_meta _ _ _ _ Hn) in H1. destruct H1 as (p & G & a' & Ha & P).
          exists p. split; auto. exists [a']. destruct Ha as (Ea & _). repeat split.
          - cbn. now rewrite app_nil_r.
          - constructor; [right; exact Ea | constructor].
          - exact Ea. }
      apply (C10_apply_step_meta _ _ _ _ Hn) in H1. destruct H1 as (p1 & G1 & Ha & ->).
      destruct Ha as (Ea & _).
      apply bind_inv in H. destruct H as [(s2 & ss & H2 & H)|(e & H2 & ->)].
      2:{ apply (stabilize_metas Hn) in H2. destruct H2 as (p2 & G2 & ss & P & Fs).
          exists (spec_meta_micro a ++ p2). split; [eapply grows_trans; eauto|].
          exists (a :: ss). repeat split.
          - cbn. now apply prefix_app_l.
          - constructor; [right; exact Ea | now apply no_event_evs_ok].
          - exact Ea. }
      apply (stabilize_metas Hn) in H2. destruct H2 as (p2 & G2 & -> & Fs).
      pose proof (grows_trans _ _ _ _ _ G1 G2) as G12.
      apply bind_inv in H. destruct H as [(s3 & r3 & H3 & H)|(e & H3 & ->)].
      2:{ apply (IH _ _ _ F') in H3. destruct H3 as (p3 & G3 & ex & P & Fe & _).
          exists ((spec_meta_micro a ++ flat_map spec_meta_micro ss) ++ p3).
          split; [eapply grows_trans; eauto|].
          exists (a :: ss ++ ex). repeat split.
          - cbn. rewrite flat_map_app, app_assoc. now apply prefix_app_l.
          - constructor; [right; exact Ea|]. apply Forall_app. split; auto. now apply no_event_evs_ok.
          - exact Ea. }
      apply (IH _ _ _ F') in H3. destruct H3 as (p3 & G3 & -> & Fe & _).
      inversion H; subst.
      exists ((spec_meta_micro a ++ flat_map spec_meta_micro ss) ++ flat_map spec_meta_micro r3).
      split; [eapply grows_trans; eauto|]. repeat split.
      + cbn. now rewrite flat_map_app, app_assoc.
      + constructor; [right; exact Ea|]. apply Forall_app. split; auto. now apply no_event_evs_ok.
      + exact Ea.
  Qed.

  (* ---------------------------------------------------------------- C10: the event of a macro step *)
  Lemma create_step_event cfg ev it : ms_event (create_step sc cfg ev it) = ev.
  Proof. unfold create_step. cbv zeta. destruct (t_target (snd it)); reflexivity. Qed.

  Lemma Rq_select_event s s' : Rq s s' -> select_event (m_i s') = select_event (m_i s).
  Proof.
    intros (_ & T & _ & _ & Q1 & Q2 & _). unfold select_event. now rewrite T, Q1, Q2.
  Qed.

  (* all computed steps carry the same event, and it is the one _select_event peeked at *)
  Lemma compute_steps_events s s1 steps :
    compute_steps s = (s1, inl steps) ->
    exists ev', Forall (fun st => ms_event st = ev') steps /\
                (forall e, ev' = Some e -> select_event (m_i s1) = Some e).
  Proof.
    intros H. pose proof (Rq_select_event _ _ (Rq_compute_steps _ _ _ H)) as Hs. rewrite Hs. clear Hs.
    unfold Interp.compute_steps in H. rewrite bind_get in H.
    destruct (negb (i_initialized (m_i s))).
    - rewrite bind_put in H. destruct (root sc); inversion H; subst.
      exists None. split; [repeat constructor | discriminate].
    - cbv zeta in H.
      apply bind_inv in H. destruct H as [(s2 & ts & _ & H)|(e & _ & H)]; [|discriminate].
      rewrite bind_observe in H. destruct ts as [|t0 ts0].
      + destruct (select_event (m_i s)) as [e|]; inversion H; subst.
        * exists (Some e). split; [repeat constructor | auto].
        * exists None. split; [constructor | discriminate].
      + apply bind_inv in H. destruct H as [(s3 & ts' & _ & H)|(e & _ & H)]; [|discriminate].
        rewrite bind_get in H. inversion H; subst.
        eexists. split.
        * unfold create_steps. apply Forall_map. apply Forall_forall. intros it _.
          apply create_step_event.
        * intros e He. destruct ts' as [|it ?]; [exact He|].
          destruct (t_event (snd it)); [exact He | discriminate].
  Qed.

  (* _select_event(consume=True) returns what the peek returned; nothing else is observable *)
  Lemma consume_event_spec s s' r :
    consume_event s = (s', r) ->
    r = inl (select_event (m_i s)) /\ m_tr s' = m_tr s /\ m_x s' = m_x s.
  Proof.
    unfold Interp.consume_event, select_event, due_head. rewrite bind_get.
    destruct (i_iq (m_i s)) as [|[t e] q'].
    - destruct (i_eq (m_i s)) as [|[t2 e2] q2].
      + intros H; inversion H; auto.
      + destruct (t2 <=? i_time (m_i s))%Z; [rewrite bind_put|]; intros H; inversion H; auto.
    - destruct (t <=? i_time (m_i s))%Z; [rewrite bind_put; intros H; inversion H; auto|].
      destruct (i_eq (m_i s)) as [|[t2 e2] q2].
      + intros H; inversion H; auto.
      + destruct (t2 <=? i_time (m_i s))%Z; [rewrite bind_put|]; intros H; inversion H; auto.
  Qed.

  (* ---------------------------------------------------------------- C10_complete / C10_prefix *)
  Definition macro_metas (macro : option macrostep) : list meta :=
    match macro with
    | Some (_, steps) =>
        (match macro_event steps with Some e => [MConsumed e] | None => [] end)
        ++ flat_map spec_meta_micro steps
    | None => []
    end.
  Definition spec_meta (now : Z) (macro : option macrostep) : list meta :=
    [MStepStarted now] ++ macro_metas macro ++ [MStepEnded].

  Lemma grows_raise_meta m s s' r : raise_meta m s = (s', r) -> grows s s' [m].
  Proof.
    intros H. apply raise_meta_spec in H. destruct H as [-> _]. exists [ObMeta m]. auto.
  Qed.

  Definition consumed_meta (ev' : option event) : list meta :=
    match ev' with Some e => [MConsumed e] | None => [] end.

  Lemma consume_part_metas first ev' s s' r :
    ms_event first = ev' ->
    (forall e, ev' = Some e -> select_event (m_i s) = Some e) ->
    consume_part first s = (s', r) -> grows s s' (consumed_meta ev').
  Proof.
    intros Ef Hsel. unfold consume_part. rewrite Ef. destruct ev' as [e|]; cbn [consumed_meta].
    - intros H. apply bind_inv in H. destruct H as [(s1 & oe & H1 & H)|(e0 & H1 & _)].
      + apply consume_event_spec in H1. destruct H1 as (Hr & Tr & _).
        rewrite (Hsel e eq_refl) in Hr. inversion Hr; subst oe.
        apply grows_raise_meta in H. destruct H as (l & L & Ml). exists l. now rewrite L, Tr.
      + apply consume_event_spec in H1. destruct H1 as (Hr & _). discriminate.
    - intros H; inversion H; subst. apply grows_refl.
  Qed.

  Lemma macro_part_metas (Hn : names_ok) fuel ev' steps s s' r :
    Forall (fun st => ms_event st = ev') steps ->
    (forall e, ev' = Some e -> select_event (m_i s) = Some e) ->
    macro_part fuel steps s = (s', r) ->
    exists p, grows s s' p /\
      match r with
      | inl macro => p = macro_metas macro
      | inr _ => exists macro', prefix p (macro_metas macro')
      end.
  Proof.
    intros F Hsel H. unfold macro_part in H. destruct steps as [|first rest].
    { inversion H; subst. exists []. split; [apply grows_refl | reflexivity]. }
    assert (Ef : ms_event first = ev') by (inversion F; auto).
    apply bind_inv in H. destruct H as [(s1 & u & H1 & H)|(e & H1 & ->)].
    2:{ apply (consume_part_metas _ _ _ _ _ Ef Hsel) in H1. eexists. split; [exact H1|].
        exists (Some (0%Z, [mkMicro ev' None [] [] []])). cbn. destruct ev'; cbn; apply prefix_refl. }
    apply (consume_part_metas _ _ _ _ _ Ef Hsel) in H1.
    apply bind_inv in H. destruct H as [(s2 & ex & H2 & H)|(e & H2 & ->)].
    2:{ apply (run_steps_metas Hn _ _ _ _ _ _ F) in H2. destruct H2 as (p2 & G2 & ex & P & Fe & Hd).
        exists (consumed_meta ev' ++ p2). split; [eapply grows_trans; eauto|].
        exists (Some (0%Z, ex)). cbn [macro_metas].
        rewrite (macro_event_evs_ok _ _ Fe) by (rewrite Hd; exact Ef).
        now apply prefix_app_l. }
    apply (run_steps_metas Hn _ _ _ _ _ _ F) in H2. destruct H2 as (p2 & G2 & -> & Fe & Hd).
    rewrite bind_get in H. inversion H; subst.
    exists (consumed_meta (ms_event first) ++ flat_map spec_meta_micro ex).
    split; [eapply grows_trans; eauto|]. cbn [macro_metas].
    rewrite (macro_event_evs_ok _ _ Fe) by (rewrite Hd; reflexivity). reflexivity.
  Qed.

  Lemma execute_once_metas (Hn : names_ok) fuel now s s' r :
    execute_once fuel now s = (s', r) ->
    exists p, grows s s' p /\
      match r with
      | inl macro => p = spec_meta now macro
      | inr _ => exists macro', prefix p (spec_meta now macro')
      end.
  Proof.
    rewrite execute_once_eq, bind_modify. intros H.
    apply bind_inv in H. destruct H as [(s1 & u1 & H1 & H)|(e & H1 & ->)].
    2:{ apply grows_raise_meta in H1. eexists. split; [exact H1|]. exists None.
        unfold spec_meta. apply prefix_app_r; auto using prefix_refl. }
    apply grows_raise_meta in H1. change (grows s s1 [MStepStarted now]) in H1.
    apply bind_inv in H. destruct H as [(s2 & steps & H2 & H)|(e & H2 & ->)].
    2:{ apply Rq_compute_steps, Rq_grows in H2. pose proof (grows_trans _ _ _ _ _ H1 H2) as G.
        eexists. split; [exact G|]. exists None. unfold spec_meta. rewrite app_nil_r.
        apply prefix_app_r; auto using prefix_refl. }
    pose proof (compute_steps_events _ _ _ H2) as (ev' & F & Hsel).
    apply Rq_compute_steps, Rq_grows in H2. pose proof (grows_trans _ _ _ _ _ H1 H2) as G2.
    rewrite app_nil_r in G2.
    apply bind_inv in H. destruct H as [(s3 & macro & H3 & H)|(e & H3 & ->)].
    2:{ apply (macro_part_metas Hn _ _ _ _ _ _ F Hsel) in H3. destruct H3 as (p3 & G3 & macro' & P).
        exists ([MStepStarted now] ++ p3). split; [eapply grows_trans; eauto|].
        exists macro'. unfold spec_meta. apply prefix_app_l. apply prefix_app_r; auto using prefix_refl. }
    apply (macro_part_metas Hn _ _ _ _ _ _ F Hsel) in H3. destruct H3 as (p3 & G3 & ->).
    pose proof (grows_trans _ _ _ _ _ G2 G3) as G23.
    apply bind_inv in H. destruct H as [(s4 & u4 & H4 & H)|(e & H4 & ->)].
    2:{ apply Rq_check_invariants, Rq_grows in H4. pose proof (grows_trans _ _ _ _ _ G23 H4) as G.
        eexists. split; [exact G|]. exists macro. unfold spec_meta. rewrite app_nil_r.
        apply prefix_app_l. apply prefix_app_r; auto using prefix_refl. }
    apply Rq_check_invariants, Rq_grows in H4. pose proof (grows_trans _ _ _ _ _ G23 H4) as G4.
    rewrite app_nil_r in G4.
    apply bind_inv in H. destruct H as [(s5 & u5 & H5 & H)|(e & H5 & ->)].
    2:{ apply grows_raise_meta in H5. pose proof (grows_trans _ _ _ _ _ G4 H5) as G.
        eexists. split; [exact G|]. exists macro. unfold spec_meta. rewrite <- app_assoc.
        apply prefix_refl. }
    apply grows_raise_meta in H5. pose proof (grows_trans _ _ _ _ _ G4 H5) as G.
    inversion H; subst. eexists. split; [exact G|]. unfold spec_meta. now rewrite <- app_assoc.
  Qed.

  (* C10_complete.  An execute_once that returns macro hands the listeners exactly
     spec_meta now macro: every documented meta-event once, in the order things happened, with the
     documented attributes. *)
  Theorem C10_complete fuel now s s' macro :
    names_ok -> execute_once fuel now s = (s', inl macro) ->
    exists l, m_tr s' = l ++ m_tr s /\ tr_metas l = spec_meta now macro.
  Proof.
    intros Hn H. apply (execute_once_metas Hn) in H. destruct H as (p & G & ->). exact G.
  Qed.

  (* C10_prefix.  An execute_once that raises has handed the listeners a prefix of the
     meta-events of some macro step. *)
  Theorem C10_prefix fuel now s s' e :
    names_ok -> execute_once fuel now s = (s', inr e) ->
    exists l macro', m_tr s' = l ++ m_tr s /\ prefix (tr_metas l) (spec_meta now macro').
  Proof.
    intros Hn H. apply (execute_once_metas Hn) in H. destruct H as (p & (l & L & Ml) & macro' & P).
    exists l, macro'. split; auto. now rewrite Ml.
  Qed.

  (* ---------------------------------------------------------------- C10_sync: execute *)
  (* execute() calls execute_once with the same clock value every time (by construction:
     execute (S f) now = execute_once (S f) now ;; ... execute f now), so everything that
     happens inside is stamped now. *)
  Lemma execute_unfold f now :
    execute (S f) now =
    bind (execute_once (S f) now) (fun m =>
      match m with
      | None => ret []
      | Some ms => bind (execute f now) (fun r => ret (ms :: r))
      end).
  Proof. reflexivity. Qed.

  Theorem C10_sync_execute fuel now : forall s s' r,
    execute fuel now s = (s', r) ->
    (fuel = O \/ i_time (m_i s') = now) /\
    (exists l, m_tr s' = l ++ m_tr s /\ Forall (time_obs now) l /\
               m_x s' = feed now (tr_metas l) (m_x s)) /\
    (forall macros, r = inl macros -> Forall (fun ms => fst ms = now) macros).
  Proof.
    induction fuel as [|f IH]; intros s s' r H.
    - inversion H; subst. split; [now left|]. split; [|discriminate].
      exists []. repeat split; auto.
    - rewrite execute_unfold in H. apply bind_inv in H.
      destruct H as [(s1 & m & H1 & H)|(e & H1 & ->)].
      + apply C13_frozen in H1. destruct H1 as (T1 & (l1 & L1 & F1 & X1 & _) & M1).
        destruct m as [[t steps]|].
        * apply bind_inv in H. destruct H as [(s2 & rr & H2 & H)|(e & H2 & ->)].
          -- pose proof H2 as H2'. apply IH in H2. destruct H2 as (T2 & (l2 & L2 & F2 & X2) & M2).
             inversion H; subst. split; [|split].
             ++ right. destruct T2 as [->|T2]; [|exact T2]. inversion H2'.
             ++ exists (l2 ++ l1). repeat split.
                ** now rewrite L2, L1, app_assoc.
                ** apply Forall_app; auto.
                ** now rewrite tr_metas_app, feed_app, <- X1.
             ++ intros macros Hm. inversion Hm; subst. constructor; [|apply M2; reflexivity].
                cbn. eapply M1; reflexivity.
          -- pose proof H2 as H2'. apply IH in H2. destruct H2 as (T2 & (l2 & L2 & F2 & X2) & _).
             split; [|split; [|discriminate]].
             ++ right. destruct T2 as [->|T2]; [|exact T2]. inversion H2'; subst. reflexivity.
             ++ exists (l2 ++ l1). repeat split.
                ** now rewrite L2, L1, app_assoc.
                ** apply Forall_app; auto.
                ** now rewrite tr_metas_app, feed_app, <- X1.
        * inversion H; subst. split; [now right|]. split.
          -- exists l1. auto.
          -- intros macros Hm. inversion Hm. constructor.
      + apply C13_frozen in H1. destruct H1 as (T1 & (l1 & L1 & F1 & X1 & _) & _).
        split; [now right|]. split; [exists l1; auto | discriminate].
  Qed.

  (* ---------------------------------------------------------------- C15_sent_truth *)
  Definition sent_events_of (ms : list meta) : list event :=
    flat_map (fun m => match m with MSent e => [e] | _ => [] end) ms.
  Definition is_internal (e : event) : bool := ekind_eqb (e_kind e) Internal.
  Definition internal_sent (steps : list microstep) : list event :=
    filter is_internal (flat_map ms_sent steps).
  Definition macro_internal_sent (macro : option macrostep) : list event :=
    match macro with Some (_, steps) => internal_sent steps | None => [] end.

  Lemma sent_events_of_app a b : sent_events_of (a ++ b) = sent_events_of a ++ sent_events_of b.
  Proof. apply flat_map_app. Qed.

  Lemma sent_events_of_none (f : name -> meta) l :
    (forall n, match f n with MSent _ => False | _ => True end) -> sent_events_of (map f l) = [].
  Proof.
    intros Hf. induction l as [|n l IH]; cbn; [reflexivity|].
    specialize (Hf n). destruct (f n); cbn; auto. contradiction.
  Qed.

  Lemma sent_events_sent l : sent_events_of (flat_map sent_meta l) = filter is_internal l.
  Proof.
    induction l as [|e l IH]; cbn [flat_map filter]; [reflexivity|].
    rewrite sent_events_of_app, IH. unfold sent_meta, is_internal.
    destruct (e_kind e); cbn; try reflexivity. destruct (has_delay e); reflexivity.
  Qed.

  Lemma sent_events_micro a : sent_events_of (spec_meta_micro a) = filter is_internal (ms_sent a).
  Proof.
    unfold spec_meta_micro. rewrite !sent_events_of_app, sent_events_sent.
    rewrite (sent_events_of_none MExited) by (intros; exact I).
    rewrite (sent_events_of_none MEntered) by (intros; exact I).
    unfold processed_meta. destruct (ms_trans a) as [i|]; [|reflexivity].
    destruct (nth_error _ i); reflexivity.
  Qed.

  Lemma sent_events_steps steps :
    sent_events_of (flat_map spec_meta_micro steps) = internal_sent steps.
  Proof.
    unfold internal_sent. induction steps as [|a r IH]; cbn [flat_map]; [reflexivity|].
    now rewrite sent_events_of_app, filter_app, sent_events_micro, IH.
  Qed.

  Lemma sent_events_spec_meta now macro :
    sent_events_of (spec_meta now macro) = macro_internal_sent macro.
  Proof.
    unfold spec_meta. rewrite !sent_events_of_app. cbn [sent_events_of flat_map app].
    rewrite app_nil_r. destruct macro as [[t steps]|]; [|reflexivity]. cbn [macro_metas].
    rewrite sent_events_of_app, sent_events_steps.
    destruct (macro_event steps); reflexivity.
  Qed.

  (* C15_sent_truth.  In a normally returning execute_once the 'event sent' meta-events, oldest
     first, carry exactly the internal events of the sent_events of the returned macro step, event
     for event. *)
  Theorem C15_sent_truth fuel now s s' macro :
    names_ok -> execute_once fuel now s = (s', inl macro) ->
    exists l, m_tr s' = l ++ m_tr s /\ sent_events_of (tr_metas l) = macro_internal_sent macro.
  Proof.
    intros Hn H. destruct (C10_complete _ _ _ _ _ Hn H) as (l & L & Ml).
    exists l. split; auto. rewrite Ml. apply sent_events_spec_meta.
  Qed.

  (* ... and each of them is put in the sender's own internal queue by _queue_event before the
     listeners hear of it (C15_self): _raise_event(InternalEvent) = _queue_event then the
     meta-event(s); the interpreter state is not touched by the listeners. *)
  Lemma raise_meta_mi m s s' r : raise_meta m s = (s', r) -> m_i s' = m_i s.
  Proof. intros H. apply raise_meta_spec in H. destruct H as [-> _]. reflexivity. Qed.

  Theorem C15_self_raise_event e s s' r :
    e_kind e = Internal -> raise_event e s = (s', r) ->
    m_i s' = queue_event (m_i s) e /\
    i_iq (m_i s') = queue_insert (i_iq (m_i s)) (i_time (m_i s) + delay_of e)%Z e /\
    i_eq (m_i s') = i_eq (m_i s) /\
    exists l, m_tr s' = l ++ [ObMeta (MSent e)] ++ m_tr s.
  Proof.
    intros K H. unfold Interp.raise_event in H. rewrite K, bind_modify in H.
    assert (Q : forall i : ist, i_iq (queue_event i e) = queue_insert (i_iq i) (i_time i + delay_of e)%Z e
                                /\ i_eq (queue_event i e) = i_eq i).
    { intros i. unfold queue_event. rewrite K. cbn. auto. }
    apply bind_inv in H. destruct H as [(s1 & u & H1 & H)|(e0 & H1 & ->)].
    - pose proof (raise_meta_spec _ _ _ _ H1) as [-> _]. cbn [m_i m_x m_tr] in *.
      destruct (has_delay e).
      + pose proof (raise_meta_spec _ _ _ _ H) as [-> _]. cbn [m_i m_x m_tr].
        split; [reflexivity|]. split; [apply Q|]. split; [apply Q|].
        exists [ObMeta (MDelayedSent e)]. reflexivity.
      + inversion H; subst. cbn [m_i m_x m_tr].
        split; [reflexivity|]. split; [apply Q|]. split; [apply Q|]. exists []. reflexivity.
    - pose proof (raise_meta_spec _ _ _ _ H1) as [-> _]. cbn [m_i m_x m_tr].
      split; [reflexivity|]. split; [apply Q|]. split; [apply Q|]. exists []. reflexivity.
  Qed.

  (* names_ok is decidable *)
  Definition names_okb : bool :=
    forallb (fun kv : name * state => str_eqb (s_name (snd kv)) (fst kv)) (c_states sc).
  Lemma names_okb_sound : names_okb = true -> names_ok.
  Proof.
    unfold names_okb, names_ok, state_for. induction (c_states sc) as [|[k v] d IH]; cbn; intros H n st L.
    - discriminate.
    - apply andb_prop in H. destruct H as [H1 H2]. unfold str_eqb in *.
      destruct (String.eqb n k) eqn:E.
      + inversion L; subst. apply String.eqb_eq in E, H1. congruence.
      + now apply IH.
  Qed.

  (* ---------------------------------------------------------------- C13_entry_idle *)
  (* _entry_time / _idle_time as a function of the meta-events emitted: 'state entered n' stamps
     both, 'transition processed' stamps the idle time of the source.  The stamp and the
     meta-event always come together (the modification cannot fail, raise_meta records the
     meta-event even when a listener raises), so the relation holds whatever the outcome. *)
  Definition entered_of (ms : list meta) : list name :=
    flat_map (fun m => match m with MEntered n => [n] | _ => [] end) ms.
  Definition touched_of (ms : list meta) : list name :=
    flat_map (fun m => match m with MEntered n => [n] | MProcessed src _ _ => [src] | _ => [] end) ms.
  Definition upd (t : Z) (names : list name) (d : list (name * Z)) : list (name * Z) :=
    fold_left (fun d n => dset n t d) names d.

  Lemma upd_app t a b d : upd t (a ++ b) d = upd t b (upd t a d).
  Proof. apply fold_left_app. Qed.

  Definition Re (s s' : mstate) (k : option err) : Prop :=
    i_time (m_i s') = i_time (m_i s) /\
    exists l, m_tr s' = l ++ m_tr s /\
      i_entry (m_i s') = upd (i_time (m_i s)) (entered_of (tr_metas l)) (i_entry (m_i s)) /\
      i_idle (m_i s') = upd (i_time (m_i s)) (touched_of (tr_metas l)) (i_idle (m_i s)).

  Lemma Re_refl s k : Re s s k.
  Proof. split; auto. exists []. repeat split; auto. Qed.
  Lemma Re_trans a b c k : Re a b None -> Re b c k -> Re a c k.
  Proof.
    intros (T1 & l1 & L1 & E1 & I1) (T2 & l2 & L2 & E2 & I2).
    split; [congruence|]. exists (l2 ++ l1). repeat split.
    - now rewrite L2, L1, app_assoc.
    - rewrite tr_metas_app. unfold entered_of. rewrite flat_map_app, upd_app.
      fold (entered_of (tr_metas l1)). rewrite <- E1, <- T1. exact E2.
    - rewrite tr_metas_app. unfold touched_of. rewrite flat_map_app, upd_app.
      fold (touched_of (tr_metas l1)). rewrite <- I1, <- T1. exact I2.
  Qed.
  Lemma Rq_Re s s' k : Rq s s' -> Re s s' k.
  Proof.
    intros (_ & T1 & E1 & I1 & _ & _ & l & L & F). split; auto.
    exists l. rewrite (quiet_no_metas _ _ F). repeat split; auto.
  Qed.
  Lemma Re_mi st i :
    i_time i = i_time (m_i st) -> i_entry i = i_entry (m_i st) -> i_idle i = i_idle (m_i st) ->
    Re st (mkM i (m_x st) (m_tr st)) None.
  Proof. intros H1 H2 H3. split; auto. exists []. repeat split; auto. Qed.
  Lemma Re_meta m :
    entered_of [m] = [] -> touched_of [m] = [] -> presK Re (raise_meta m).
  Proof.
    intros H1 H2 s s' r H. apply raise_meta_spec in H. destruct H as [-> _].
    split; [reflexivity|]. exists [ObMeta m]. change (tr_metas [ObMeta m]) with [m].
    rewrite H1, H2. repeat split; auto.
  Qed.

  Lemma Re_enter_state ev st : presK Re (enter_state ev st).
  Proof.
    unfold Interp.enter_state.
    apply pres_bind; [exact Re_trans | intros s s' r H; eapply Rq_Re, Rq_state_contract, H | intros _].
    apply pres_bind; [exact Re_trans | intros s s' r H; eapply Rq_Re, Rq_run_code, H | intros sent].
    intros s s' r H. rewrite bind_modify in H.
    assert (E : m_tr s' = [ObMeta (MEntered (s_name st))] ++ m_tr s /\
                m_i s' = set_idle ctx (dset (s_name st) (i_time (m_i s)) (i_idle (m_i s)))
                           (set_entry ctx (dset (s_name st) (i_time (m_i s)) (i_entry (m_i s)))
                              (set_config ctx (set_add (s_name st) (i_config (m_i s))) (m_i s)))).
    { apply bind_inv in H. destruct H as [(s1 & u & H1 & H)|(e & H1 & _)].
      - apply raise_meta_spec in H1. destruct H1 as [-> _]. inversion H; subst. auto.
      - apply raise_meta_spec in H1. destruct H1 as [-> _]. auto. }
    destruct E as [E1 E2]. split; [rewrite E2; reflexivity|].
    exists [ObMeta (MEntered (s_name st))]. rewrite E2. repeat split; auto.
  Qed.

  Lemma Re_process_transition ev i : presK Re (process_transition ev i).
  Proof.
    unfold Interp.process_transition. destruct (nth_error (c_transitions sc) i) as [t|];
      [|apply pres_fail; exact Re_refl].
    assert (Q : forall k it e, presK Re (trans_contract k it e)).
    { intros k it e s s' r H. eapply Rq_Re, Rq_trans_contract, H. }
    apply pres_bind; [exact Re_trans | apply Q | intros _].
    apply pres_bind; [exact Re_trans | apply Q | intros _].
    apply pres_bind; [exact Re_trans | intros s s' r H; eapply Rq_Re, Rq_run_code, H | intros sent].
    apply pres_bind; [exact Re_trans | apply Q | intros _].
    apply pres_bind; [exact Re_trans | apply Q | intros _].
    intros s s' r H. rewrite bind_modify in H.
    assert (E : m_tr s' = [ObMeta (MProcessed (t_source t) (t_target t) ev)] ++ m_tr s /\
                m_i s' = set_idle ctx (dset (t_source t) (i_time (m_i s)) (i_idle (m_i s))) (m_i s)).
    { apply bind_inv in H. destruct H as [(s1 & u & H1 & H)|(e & H1 & _)].
      - apply raise_meta_spec in H1. destruct H1 as [-> _]. inversion H; subst. auto.
      - apply raise_meta_spec in H1. destruct H1 as [-> _]. auto. }
    destruct E as [E1 E2]. split; [rewrite E2; reflexivity|].
    exists [ObMeta (MProcessed (t_source t) (t_target t) ev)]. rewrite E2. repeat split; auto.
  Qed.

  Lemma queue_event_entry_idle (i : ist) e :
    i_entry (queue_event i e) = i_entry i /\ i_idle (queue_event i e) = i_idle i.
  Proof. unfold queue_event. destruct (e_kind e); auto. Qed.

  Ltac rei := first [ exact Re_refl | exact Re_trans
                    | (intros; intros ? ? ? HH; eapply Rq_Re, Rq_run_code, HH)
                    | (intros; intros ? ? ? HH; eapply Rq_Re, Rq_eval_cond, HH)
                    | (intros; apply Rq_Re, Rq_old) | (intros; apply Rq_Re, Rq_mem)
                    | (intros; apply Rq_Re, Rq_sel) | (intros; apply Rq_Re, Rq_init)
                    | (intros; apply Re_meta; reflexivity)
                    | exact Re_enter_state | exact Re_process_transition
                    | (intros; apply Re_mi; first [reflexivity | apply queue_event_time
                                                   | apply queue_event_entry_idle]) ].

  Lemma Re_raise_event e : presK Re (raise_event e).
  Proof. apply a_raise_event; rei. Qed.
  Lemma Re_run_steps fuel steps : presK Re (run_steps fuel steps).
  Proof. apply a_run_steps; first [exact Re_raise_event | rei]. Qed.
  Lemma Re_consume_event : presK Re consume_event.
  Proof. apply a_consume_event; rei. Qed.
  Lemma Re_compute_steps : presK Re compute_steps.
  Proof. intros s s' r H. eapply Rq_Re, Rq_compute_steps, H. Qed.
  Lemma Re_check_invariants ev : presK Re (check_invariants ev).
  Proof. intros s s' r H. eapply Rq_Re, Rq_check_invariants, H. Qed.

  Lemma Re_macro_part fuel steps : presK Re (macro_part fuel steps).
  Proof.
    unfold macro_part, consume_part.
    repeat (pstep Re_refl Re_trans);
      first [ apply Re_consume_event | apply Re_meta; reflexivity | apply Re_run_steps ].
  Qed.

  (* whatever the outcome of execute_once, the time stamps are those of before, overwritten with
     now for the states named by the emitted 'state entered' / 'transition processed' *)
  Lemma execute_once_stamps fuel now s s' r :
    execute_once fuel now s = (s', r) ->
    exists l, m_tr s' = l ++ m_tr s /\
      i_entry (m_i s') = upd now (entered_of (tr_metas l)) (i_entry (m_i s)) /\
      i_idle (m_i s') = upd now (touched_of (tr_metas l)) (i_idle (m_i s)).
  Proof.
    rewrite execute_once_eq, bind_modify. intros H.
    assert (HR : Re (mkM (set_sent ctx [] (set_time ctx now (m_i s))) (m_x s) (m_tr s)) s' (err_of r)).
    { refine ((_ : presK Re _) _ _ _ H).
      repeat (pstep Re_refl Re_trans);
        first [ apply Re_meta; reflexivity | apply Re_compute_steps | apply Re_macro_part
              | apply Re_check_invariants ]. }
    destruct HR as (_ & l & L & E & I). exists l. auto.
  Qed.

  Lemma lookup_dset {V} n k (v : V) d : lookup n (dset k v d) = if str_eqb n k then Some v else lookup n d.
  Proof.
    unfold str_eqb. induction d as [|[k' v'] d IH]; cbn.
    - reflexivity.
    - unfold str_eqb. destruct (String.eqb k k') eqn:E; cbn; unfold str_eqb.
      + apply String.eqb_eq in E; subst k'. destruct (String.eqb n k); reflexivity.
      + destruct (String.eqb n k') eqn:E'.
        * apply String.eqb_eq in E'; subst k'.
          destruct (String.eqb n k) eqn:E2; [|reflexivity].
          apply String.eqb_eq in E2; subst. rewrite String.eqb_refl in E. discriminate.
        * exact IH.
  Qed.

  Lemma lookup_upd t names n : forall d,
    lookup n (upd t names d) = if mem n names then Some t else lookup n d.
  Proof.
    induction names as [|k names IH]; intros d; cbn [upd fold_left mem]; [reflexivity|].
    change (fold_left _ names ?x) with (upd t names x). rewrite IH, lookup_dset.
    destruct (mem n names); [now rewrite orb_true_r|]. now rewrite orb_false_r.
  Qed.

  (* the entered / touched states of a macro step *)
  Definition processed_source (a : microstep) : list name :=
    match ms_trans a with
    | Some i => match nth_error (c_transitions sc) i with Some t => [t_source t] | None => [] end
    | None => []
    end.
  Definition steps_entered (steps : list microstep) : list name := flat_map ms_entered steps.
  Definition steps_touched (steps : list microstep) : list name :=
    flat_map (fun a => processed_source a ++ ms_entered a) steps.
  Definition macro_steps (macro : option macrostep) : list microstep :=
    match macro with Some (_, steps) => steps | None => [] end.

  Lemma entered_of_app a b : entered_of (a ++ b) = entered_of a ++ entered_of b.
  Proof. apply flat_map_app. Qed.
  Lemma touched_of_app a b : touched_of (a ++ b) = touched_of a ++ touched_of b.
  Proof. apply flat_map_app. Qed.

  Lemma entered_of_sent l : entered_of (flat_map sent_meta l) = [] /\ touched_of (flat_map sent_meta l) = [].
  Proof.
    induction l as [|e l [IH1 IH2]]; cbn [flat_map]; [auto|].
    rewrite entered_of_app, touched_of_app, IH1, IH2. unfold sent_meta.
    destruct (e_kind e); cbn; auto. destruct (has_delay e); auto.
  Qed.
  Lemma entered_of_exited l : entered_of (map MExited l) = [] /\ touched_of (map MExited l) = [].
  Proof. induction l as [|n l [IH1 IH2]]; cbn; auto. Qed.
  Lemma entered_of_entered l : entered_of (map MEntered l) = l /\ touched_of (map MEntered l) = l.
  Proof.
    induction l as [|n l [IH1 IH2]]; [auto|]. unfold entered_of, touched_of in *. cbn. now rewrite IH1, IH2.
  Qed.

  Lemma entered_of_micro a :
    entered_of (spec_meta_micro a) = ms_entered a /\
    touched_of (spec_meta_micro a) = processed_source a ++ ms_entered a.
  Proof.
    unfold spec_meta_micro. rewrite !entered_of_app, !touched_of_app.
    destruct (entered_of_sent (ms_sent a)) as [-> ->].
    destruct (entered_of_exited (ms_exited a)) as [-> ->].
    destruct (entered_of_entered (ms_entered a)) as [-> ->].
    rewrite !app_nil_r. cbn [app].
    unfold processed_meta, processed_source. destruct (ms_trans a) as [i|]; [|auto].
    destruct (nth_error _ i); auto.
  Qed.

  Lemma entered_of_steps steps :
    entered_of (flat_map spec_meta_micro steps) = steps_entered steps /\
    touched_of (flat_map spec_meta_micro steps) = steps_touched steps.
  Proof.
    unfold steps_entered, steps_touched. induction steps as [|a r [IH1 IH2]]; cbn [flat_map]; [auto|].
    rewrite entered_of_app, touched_of_app, IH1, IH2. destruct (entered_of_micro a) as [-> ->]. auto.
  Qed.

  Lemma entered_of_spec_meta now macro :
    entered_of (spec_meta now macro) = steps_entered (macro_steps macro) /\
    touched_of (spec_meta now macro) = steps_touched (macro_steps macro).
  Proof.
    unfold spec_meta. rewrite !entered_of_app, !touched_of_app. cbn [entered_of touched_of flat_map app].
    rewrite !app_nil_r. destruct macro as [[t steps]|]; cbn [macro_metas macro_steps]; [|auto].
    rewrite entered_of_app, touched_of_app. destruct (entered_of_steps steps) as [-> ->].
    destruct (macro_event steps); auto.
  Qed.

  (* C13_entry_idle.  After an execute_once at time now that returns macro: the entry time of a
     state is now if it is in the entered list of some executed micro step, otherwise unchanged;
     its idle time is now if it was entered or was the source of a transition processed in one
     of the micro steps, otherwise unchanged. *)
  Theorem C13_entry_idle fuel now s s' macro :
    names_ok -> execute_once fuel now s = (s', inl macro) ->
    forall n,
      lookup n (i_entry (m_i s')) =
        (if mem n (steps_entered (macro_steps macro)) then Some now else lookup n (i_entry (m_i s))) /\
      lookup n (i_idle (m_i s')) =
        (if mem n (steps_touched (macro_steps macro)) then Some now else lookup n (i_idle (m_i s))).
  Proof.
    intros Hn H n. destruct (execute_once_stamps _ _ _ _ _ H) as (l & L & E & I).
    destruct (C10_complete _ _ _ _ _ Hn H) as (l' & L' & Ml).
    assert (l' = l) by (apply (app_inv_tail (m_tr s)); congruence). subst l'.
    rewrite Ml in E, I. destruct (entered_of_spec_meta now macro) as [E1 E2].
    rewrite E1 in E. rewrite E2 in I. rewrite E, I, !lookup_upd. auto.
  Qed.

  (* ... and these are the bases handed to after() / idle(): guards of a transition t see the
     stamps of t's source, invariants and postconditions those of their owner state (by
     definition of mk_call); time is the step time (C13_frozen). *)
  Theorem C13_after_idle_base (i : ist) k o idx cd ev :
    (k = CGuard \/ k = CInv \/ k = CPost) ->
    cl_time (mk_call i k o idx cd ev) = i_time i /\
    cl_entry (mk_call i k o idx cd ev) =
      match owner_state sc o with Some n => lookup n (i_entry i) | None => None end /\
    cl_idle (mk_call i k o idx cd ev) =
      match owner_state sc o with Some n => lookup n (i_idle i) | None => None end.
  Proof. intros [-> | [-> | ->]]; repeat split. Qed.

  (* ---------------------------------------------------------------- C15_self, whole step *)
  (* the internal queue as a function of the 'event sent' meta-events emitted *)
  Definition ins (t : Z) (evs : list event) (q : list (Z * event)) : list (Z * event) :=
    fold_left (fun q e => queue_insert q (t + delay_of e)%Z e) evs q.
  Lemma ins_app t a b q : ins t (a ++ b) q = ins t b (ins t a q).
  Proof. apply fold_left_app. Qed.

  Definition Rs (s s' : mstate) (k : option err) : Prop :=
    i_time (m_i s') = i_time (m_i s) /\
    exists l, m_tr s' = l ++ m_tr s /\
      i_iq (m_i s') = ins (i_time (m_i s)) (sent_events_of (tr_metas l)) (i_iq (m_i s)) /\
      i_eq (m_i s') = i_eq (m_i s).

  Lemma Rs_refl s k : Rs s s k.
  Proof. split; auto. exists []. repeat split; auto. Qed.
  Lemma Rs_trans a b c k : Rs a b None -> Rs b c k -> Rs a c k.
  Proof.
    intros (T1 & l1 & L1 & Q1 & E1) (T2 & l2 & L2 & Q2 & E2).
    split; [congruence|]. exists (l2 ++ l1). repeat split.
    - now rewrite L2, L1, app_assoc.
    - rewrite tr_metas_app, sent_events_of_app, ins_app, <- Q1, <- T1. exact Q2.
    - congruence.
  Qed.
  Lemma Rq_Rs s s' k : Rq s s' -> Rs s s' k.
  Proof.
    intros (_ & T1 & _ & _ & Q1 & Q2 & l & L & F). split; auto.
    exists l. rewrite (quiet_no_metas _ _ F). repeat split; auto.
  Qed.
  Lemma Rs_mi st i :
    i_time i = i_time (m_i st) -> i_iq i = i_iq (m_i st) -> i_eq i = i_eq (m_i st) ->
    Rs st (mkM i (m_x st) (m_tr st)) None.
  Proof. intros H1 H2 H3. split; auto. exists []. repeat split; auto. Qed.
  Lemma Rs_meta m : sent_events_of [m] = [] -> presK Rs (raise_meta m).
  Proof.
    intros H1 s s' r H. apply raise_meta_spec in H. destruct H as [-> _].
    split; [reflexivity|]. exists [ObMeta m]. change (tr_metas [ObMeta m]) with [m].
    rewrite H1. repeat split; auto.
  Qed.

  Lemma Rs_raise_event e : presK Rs (raise_event e).
  Proof.
    destruct (e_kind e) eqn:K.
    - unfold Interp.raise_event. rewrite K. apply pres_ret. exact Rs_refl.
    - intros s s' r H. destruct (C15_self_raise_event _ _ _ _ K H) as (Hi & Q & E & l & L).
      split; [rewrite Hi; apply queue_event_time|].
      exists (l ++ [ObMeta (MSent e)]). rewrite <- app_assoc. split; [exact L|].
      split; [|exact E]. rewrite Q. rewrite tr_metas_app. change (tr_metas [ObMeta (MSent e)]) with [MSent e].
      assert (Hl : sent_events_of (tr_metas l) = []).
      { (* l is empty or the delayed event sent *)
        unfold Interp.raise_event in H. rewrite K, bind_modify in H.
        apply bind_inv in H. destruct H as [(s1 & u & H1 & H)|(e0 & H1 & _)].
        - apply raise_meta_spec in H1. destruct H1 as [-> _].
          destruct (has_delay e).
          + apply raise_meta_spec in H. destruct H as [-> _]. cbn [m_tr] in L.
            change (ObMeta (MDelayedSent e) :: ObMeta (MSent e) :: m_tr s)
              with ([ObMeta (MDelayedSent e)] ++ [ObMeta (MSent e)] ++ m_tr s) in L.
            apply app_inv_tail in L. subst l. reflexivity.
          + inversion H; subst. cbn [m_tr] in L.
            change (ObMeta (MSent e) :: m_tr s) with ([] ++ [ObMeta (MSent e)] ++ m_tr s) in L.
            apply app_inv_tail in L. subst l. reflexivity.
        - apply raise_meta_spec in H1. destruct H1 as [-> _]. cbn [m_tr] in L.
          change (ObMeta (MSent e) :: m_tr s) with ([] ++ [ObMeta (MSent e)] ++ m_tr s) in L.
          apply app_inv_tail in L. subst l. reflexivity. }
      rewrite sent_events_of_app, Hl, app_nil_r. reflexivity.
    - unfold Interp.raise_event. rewrite K. apply Rs_meta. reflexivity.
  Qed.

  Ltac rsi := first [ exact Rs_refl | exact Rs_trans
                    | (intros; intros ? ? ? HH; eapply Rq_Rs, Rq_run_code, HH)
                    | (intros; intros ? ? ? HH; eapply Rq_Rs, Rq_eval_cond, HH)
                    | (intros; apply Rq_Rs, Rq_old) | (intros; apply Rq_Rs, Rq_mem)
                    | (intros; apply Rq_Rs, Rq_sel) | (intros; apply Rq_Rs, Rq_init)
                    | (intros; apply Rs_meta; reflexivity)
                    | exact Rs_raise_event
                    | (intros; apply Rs_mi; reflexivity) ].

  Lemma Rs_enter_state ev st : presK Rs (enter_state ev st).
  Proof. apply a_enter_state; rsi. Qed.
  Lemma Rs_process_transition ev i : presK Rs (process_transition ev i).
  Proof. apply a_process_transition; rsi. Qed.

  (* C15_self for a whole run of micro steps, whatever its outcome: the sender's internal queue
     is the one of before with every event announced by 'event sent' inserted by _queue_event at
     step time + delay, in order; the external queue is untouched. *)
  Theorem C15_self_run_steps fuel steps : presK Rs (run_steps fuel steps).
  Proof.
    apply a_run_steps; first [exact Rs_enter_state | exact Rs_process_transition | rsi].
  Qed.

  Lemma consume_event_iq s s' r :
    consume_event s = (s', r) ->
    i_time (m_i s') = i_time (m_i s) /\
    (i_iq (m_i s') = i_iq (m_i s) \/ exists te, i_iq (m_i s) = te :: i_iq (m_i s')).
  Proof.
    unfold Interp.consume_event. rewrite bind_get.
    destruct (i_iq (m_i s)) as [|[t e] q'] eqn:Q.
    - destruct (i_eq (m_i s)) as [|[t2 e2] q2].
      + intros H; inversion H; subst; auto.
      + destruct (t2 <=? i_time (m_i s))%Z; [rewrite bind_put|]; intros H; inversion H; subst; cbn; auto.
    - destruct (t <=? i_time (m_i s))%Z.
      + rewrite bind_put; intros H; inversion H; subst; cbn. split; auto. right. eauto.
      + destruct (i_eq (m_i s)) as [|[t2 e2] q2].
        * intros H; inversion H; subst; auto.
        * destruct (t2 <=? i_time (m_i s))%Z; [rewrite bind_put|]; intros H; inversion H; subst; cbn; auto.
  Qed.

  Lemma consume_part_iq first s s' r :
    consume_part first s = (s', r) ->
    i_time (m_i s') = i_time (m_i s) /\
    (i_iq (m_i s') = i_iq (m_i s) \/ exists te, i_iq (m_i s) = te :: i_iq (m_i s')).
  Proof.
    unfold consume_part. destruct (ms_event first).
    - intros H. apply bind_inv in H. destruct H as [(s1 & oe & H1 & H)|(e0 & H1 & _)].
      + apply consume_event_iq in H1. destruct oe as [ev|].
        * apply raise_meta_mi in H. now rewrite H.
        * inversion H; subst. exact H1.
      + apply consume_event_iq in H1. exact H1.
    - intros H; inversion H; subst. auto.
  Qed.

  (* C15_self.  After an execute_once at time now that returns a macro step, the sender's own
     internal queue is: the queue of before, minus the consumed event if it was an internal one
     (q0), plus every internal event of the macro step's sent events, inserted by _queue_event at
     now + delay, in sending order. *)
  Theorem C15_self fuel now s s' t steps :
    names_ok -> execute_once fuel now s = (s', inl (Some (t, steps))) ->
    exists q0, (q0 = i_iq (m_i s) \/ exists te, i_iq (m_i s) = te :: q0) /\
               i_iq (m_i s') = ins now (internal_sent steps) q0.
  Proof.
    intros Hn. rewrite execute_once_eq, bind_modify. intros H.
    apply bind_inv in H. destruct H as [(s1 & u1 & H1 & H)|(e & _ & H)]; [|discriminate].
    apply bind_inv in H. destruct H as [(s2 & cs & H2 & H)|(e & _ & H)]; [|discriminate].
    apply bind_inv in H. destruct H as [(s3 & macro & H3 & H)|(e & _ & H)]; [|discriminate].
    apply bind_inv in H. destruct H as [(s4 & u4 & H4 & H)|(e & _ & H)]; [|discriminate].
    apply bind_inv in H. destruct H as [(s5 & u5 & H5 & H)|(e & _ & H)]; [|discriminate].
    inversion H; subst. clear H.
    apply raise_meta_mi in H5. rewrite H5.
    apply Rq_check_invariants in H4. destruct H4 as (_ & _ & _ & _ & Q4 & _). rewrite Q4.
    pose proof (compute_steps_events _ _ _ H2) as (ev' & F & _).
    apply Rq_compute_steps in H2. destruct H2 as (_ & T2 & _ & _ & Q2 & _).
    apply raise_meta_mi in H1. rewrite H1 in T2, Q2. cbn in T2, Q2.
    unfold macro_part in H3. destruct cs as [|first rest]; [inversion H3|].
    apply bind_inv in H3. destruct H3 as [(sa & ua & Ha & H3)|(e & _ & H3)]; [|discriminate].
    apply bind_inv in H3. destruct H3 as [(sb & ex & Hb & H3)|(e & _ & H3)]; [|discriminate].
    rewrite bind_get in H3. inversion H3; subst. clear H3.
    apply consume_part_iq in Ha. destruct Ha as [Ta Qa].
    pose proof (C15_self_run_steps _ _ _ _ _ Hb) as (Tb & l & L & Qb & _).
    apply (run_steps_metas Hn _ _ _ _ _ _ F) in Hb. destruct Hb as (p & (l' & L' & Ml) & -> & _).
    assert (l' = l) by (apply (app_inv_tail (m_tr sa)); congruence). subst l'.
    rewrite Ml, sent_events_steps, Ta in Qb. try rewrite T2 in Qb.
    exists (i_iq (m_i sa)). split; [|exact Qb].
    rewrite Q2 in Qa. exact Qa.
  Qed.

  Lemma In_insert_at {A} (x y : A) l : forall n, In y (insert_at n x l) <-> y = x \/ In y l.
  Proof.
    induction l as [|z l IH]; intros n; destruct n; cbn [insert_at In].
    - intuition congruence.
    - intuition congruence.
    - intuition congruence.
    - specialize (IH n). intuition congruence.
  Qed.
  Lemma In_ins t evs : forall q x,
    In x (ins t evs q) <-> In x q \/ exists e, In e evs /\ x = ((t + delay_of e)%Z, e).
  Proof.
    induction evs as [|e evs IH]; intros q x; cbn [ins fold_left].
    - split; [auto|]. intros [H|(e & [] & _)]; exact H.
    - change (fold_left _ evs ?q0) with (ins t evs q0). rewrite IH. unfold queue_insert.
      rewrite In_insert_at. split.
      + intros [[->|H]|(e' & H & ->)]; eauto.
        * right. exists e. split; [now left | reflexivity].
        * right. exists e'. split; [now right | reflexivity].
      + intros [H|(e' & [->|H] & ->)]; eauto.
  Qed.

  Corollary C15_self_In fuel now s s' t steps e :
    names_ok -> execute_once fuel now s = (s', inl (Some (t, steps))) ->
    In e (internal_sent steps) -> In ((now + delay_of e)%Z, e) (i_iq (m_i s')).
  Proof.
    intros Hn H Hin. destruct (C15_self _ _ _ _ _ _ Hn H) as (q0 & _ & ->).
    apply In_ins. right. eauto.
  Qed.
End MetaProofs.

(* ====================================================================== C10_nonintrusive *)
(* Two runs of the same interpreter on the same chart with different listeners: A (listener state
   Xa, emit_a) and B (Xb, emit_b, never raises -- e.g. no listener at all, World.emit0).  As long
   as A's listeners return normally the two runs are in lock step: same interpreter state, same
   trace, same outcomes.  The listeners only ever see meta-events and only write their own
   component m_x. *)
Section NonIntrusive.
  Variable ctx : Type.
  Variable exec_code : call ctx -> ctx -> option (ctx * list event).
  Variable eval_code : call ctx -> ctx -> option bool.
  Variable sc : chart.
  Variables Xa Xb : Type.
  Variable emit_a : Z -> meta -> Xa -> Xa * option err.
  Variable emit_b : Z -> meta -> Xb -> Xb * option err.
  Hypothesis emit_b_ok : forall t m x, snd (emit_b t m x) = None.

  Notation Sa := (mstate ctx Xa).
  Notation Sb := (mstate ctx Xb).
  Notation Ma := (M ctx Xa).
  Notation Mb := (M ctx Xb).
  Notation ist := (istate ctx).

  Definition sim (sa : Sa) (sb : Sb) : Prop := m_i sa = m_i sb /\ m_tr sa = m_tr sb.

  (* all listener calls of A between sa and sa' returned normally *)
  Definition okA (sa sa' : Sa) : Prop :=
    forall l, m_tr sa' = l ++ m_tr sa ->
              feed_ok Xa emit_a (i_time (m_i sa)) (tr_metas ctx l) (m_x sa).

  Definition anyobs (t : Z) (o : obs ctx) : Prop := True.
  Notation Ra := (RK ctx Xa emit_a anyobs).
  Definition Ra_refl := RK_refl ctx Xa emit_a anyobs.
  Definition Ra_trans := RK_trans ctx Xa emit_a anyobs.

  Definition relM {A} (ma : Ma A) (mb : Mb A) : Prop :=
    presK ctx Xa Ra ma /\
    forall sa sb sa' ra sb' rb,
      sim sa sb -> ma sa = (sa', ra) -> mb sb = (sb', rb) -> okA sa sa' ->
      sim sa' sb' /\ ra = rb.

  Lemma Rt_Ra {A} (m : Ma A) : presK ctx Xa (Rt ctx Xa emit_a) m -> presK ctx Xa Ra m.
  Proof. intros H s s' r E. eapply RK_mono; [|eapply H; eauto]. intros; exact I. Qed.

  Lemma rel_ret {A} (a : A) : relM (ret ctx Xa a) (ret ctx Xb a).
  Proof.
    split; [apply pres_ret; exact Ra_refl|].
    intros sa sb sa' ra sb' rb S Ha Hb _. inversion Ha; inversion Hb; subst. auto.
  Qed.
  Lemma rel_fail {A} e : relM (@fail ctx Xa A e) (@fail ctx Xb A e).
  Proof.
    split; [apply pres_fail; exact Ra_refl|].
    intros sa sb sa' ra sb' rb S Ha Hb _. inversion Ha; inversion Hb; subst. auto.
  Qed.

  Lemma rel_bind {A B} (ma : Ma A) (mb : Mb A) (fa : A -> Ma B) (fb : A -> Mb B) :
    relM ma mb -> (forall a, relM (fa a) (fb a)) -> relM (bind ctx Xa ma fa) (bind ctx Xb mb fb).
  Proof.
    intros [Pm Sm] Hf. split.
    { apply pres_bind; [exact Ra_trans | exact Pm | intros a; apply Hf]. }
    intros sa sb sa' ra sb' rb S Ha Hb Ok.
    apply bind_inv in Ha. destruct Ha as [(sa1 & a & Ha1 & Ha2)|(e & Ha1 & ->)].
    - pose proof (Pm _ _ _ Ha1) as (T1 & l1 & L1 & _ & X1 & _).
      destruct (Hf a) as [Pf Sf]. pose proof (Pf _ _ _ Ha2) as (T2 & l2 & L2 & _).
      assert (Ok' : feed_ok Xa emit_a (i_time (m_i sa)) (tr_metas ctx (l2 ++ l1)) (m_x sa)).
      { apply Ok. now rewrite L2, L1, app_assoc. }
      rewrite tr_metas_app in Ok'. apply feed_ok_app in Ok'. destruct Ok' as [Ok1 Ok2].
      assert (OkA1 : okA sa sa1).
      { intros l Hl. assert (l = l1) by (apply (app_inv_tail (m_tr sa)); congruence). now subst. }
      unfold bind in Hb. destruct (mb sb) as [sb1 rb1] eqn:Eb.
      destruct (Sm _ _ _ _ _ _ S Ha1 Eb OkA1) as [S1 <-].
      eapply Sf; eauto.
      intros l Hl. assert (l = l2) by (apply (app_inv_tail (m_tr sa1)); congruence). subst.
      now rewrite T1, X1.
    - unfold bind in Hb. destruct (mb sb) as [sb1 rb1] eqn:Eb.
      destruct (Sm _ _ _ _ _ _ S Ha1 Eb Ok) as [S1 <-]. inversion Hb; subst. auto.
  Qed.

  Lemma rel_get_bind {A} (fa : ist -> Ma A) (fb : ist -> Mb A) :
    (forall i, relM (fa i) (fb i)) -> relM (bind ctx Xa (get ctx Xa) fa) (bind ctx Xb (get ctx Xb) fb).
  Proof.
    intros Hf. split.
    { apply pres_bind; [exact Ra_trans | apply pres_get; exact Ra_refl | intros a; apply Hf]. }
    intros sa sb sa' ra sb' rb S Ha Hb Ok. rewrite bind_get in Ha, Hb.
    destruct S as [Si St]. rewrite <- Si in Hb. eapply (Hf (m_i sa)); eauto. split; auto.
  Qed.

  Lemma rel_get : relM (get ctx Xa) (get ctx Xb).
  Proof.
    split; [apply pres_get; exact Ra_refl|].
    intros sa sb sa' ra sb' rb [Si St] Ha Hb _. inversion Ha; inversion Hb; subst.
    split; [split; auto|]. now rewrite Si.
  Qed.

  Lemma rel_ext {A} (ma ma' : Ma A) (mb mb' : Mb A) :
    (forall s, ma s = ma' s) -> (forall s, mb s = mb' s) -> relM ma' mb' -> relM ma mb.
  Proof.
    intros Ea Eb [P S]. split.
    - intros s s' r H. rewrite Ea in H. eapply P; eauto.
    - intros sa sb sa' ra sb' rb Si Ha Hb Ok. rewrite Ea in Ha. rewrite Eb in Hb. eapply S; eauto.
  Qed.

  Lemma rel_mapM {A B} (fa : A -> Ma B) (fb : A -> Mb B) l :
    (forall a, relM (fa a) (fb a)) -> relM (mapM ctx Xa fa l) (mapM ctx Xb fb l).
  Proof.
    intros Hf. induction l as [|x l IH]; cbn [mapM].
    - apply rel_ret.
    - apply rel_bind; [apply Hf|]. intros y. apply rel_bind; [apply IH|]. intros ys. apply rel_ret.
  Qed.
  Lemma rel_iterM {A} (fa : A -> Ma unit) (fb : A -> Mb unit) l :
    (forall a, relM (fa a) (fb a)) -> relM (iterM ctx Xa fa l) (iterM ctx Xb fb l).
  Proof.
    intros Hf. induction l as [|x l IH]; cbn [iterM].
    - apply rel_ret.
    - apply rel_bind; [apply Hf|]. intros _. apply IH.
  Qed.

  Lemma Ra_mi (st : Sa) i : i_time i = i_time (m_i st) -> Ra st (mkM i (m_x st) (m_tr st)) None.
  Proof. intros H. split; auto. exists []. repeat split; auto. left. exact I. Qed.

  Lemma rel_modify g : (forall i : ist, i_time (g i) = i_time i) -> relM (modify ctx Xa g) (modify ctx Xb g).
  Proof.
    intros Hg. split.
    { apply pres_modify. intros st. apply Ra_mi, Hg. }
    intros sa sb sa' ra sb' rb [Si St] Ha Hb _. inversion Ha; inversion Hb; subst.
    split; [split; cbn; congruence | reflexivity].
  Qed.

  Lemma rel_observe o :
    tr_metas ctx [o] = [] -> relM (observe ctx Xa o) (observe ctx Xb o).
  Proof.
    intros Ho. split.
    { apply pres_observe. intros st. split; [reflexivity|]. exists [o]. split; [reflexivity|].
      split; [repeat constructor|]. split; [now rewrite Ho|]. left. rewrite Ho. exact I. }
    intros sa sb sa' ra sb' rb [Si St] Ha Hb _. inversion Ha; inversion Hb; subst.
    split; [split; cbn; congruence | reflexivity].
  Qed.

  Lemma rel_raise_meta m : relM (raise_meta ctx Xa emit_a m) (raise_meta ctx Xb emit_b m).
  Proof.
    split; [apply RK_meta; intros; exact I|].
    intros sa sb sa' ra sb' rb [Si St] Ha Hb Ok.
    apply raise_meta_spec in Ha. destruct Ha as [-> ->].
    apply raise_meta_spec in Hb. destruct Hb as [-> ->].
    specialize (Ok [ObMeta m] eq_refl). cbn in Ok. destruct Ok as [Ok _]. rewrite Ok, emit_b_ok.
    split; [split; cbn; congruence | reflexivity].
  Qed.

  Ltac rstep :=
    lazymatch goal with
    | |- relM (Interp.ret _ _ _) _ => apply rel_ret
    | |- relM (Interp.fail _ _ _) _ => apply rel_fail
    | |- relM (Interp.bind _ _ (Interp.get _ _) _) _ => apply rel_get_bind; intros ?
    | |- relM (Interp.bind _ _ _ _) _ => apply rel_bind; [ | intros ?]
    | |- relM (Interp.mapM _ _ _ _) _ => apply rel_mapM; intros ?
    | |- relM (Interp.iterM _ _ _ _) _ => apply rel_iterM; intros ?
    | |- relM (Interp.modify _ _ _) _ => apply rel_modify; intros ?
    | |- relM (Interp.observe _ _ _) _ => apply rel_observe; reflexivity
    | |- relM (Interp.raise_meta _ _ _ _) _ => apply rel_raise_meta
    | |- relM (Interp.get _ _) _ => apply rel_get
    | |- relM (match ?x with _ => _ end) _ => destruct x
    | |- relM (let _ := _ in _) _ => cbv zeta
    end.
  Ltac rq := repeat rstep; auto.

  (* ---- leaves that read and write the interpreter state ---- *)
  Lemma rel_run_code k o cd ev :
    relM (run_code ctx Xa exec_code sc k o cd ev) (run_code ctx Xb exec_code sc k o cd ev).
  Proof.
    split; [apply Rt_Ra, (Rt_run_code ctx Xa exec_code eval_code emit_a sc)|].
    intros sa sb sa' ra sb' rb [Si St] Ha Hb _. unfold run_code in Ha, Hb.
    rewrite bind_get in Ha, Hb. rewrite <- Si in Hb. cbv zeta in Ha, Hb.
    destruct cd as [c|].
    - destruct (exec_code _ _) as [[ctx' sent]|].
      + rewrite bind_observe, bind_put in Ha, Hb. inversion Ha; inversion Hb; subst.
        split; [split; cbn; congruence | reflexivity].
      + rewrite bind_observe in Ha, Hb. inversion Ha; inversion Hb; subst.
        split; [split; cbn; congruence | reflexivity].
    - rewrite bind_observe in Ha, Hb. inversion Ha; inversion Hb; subst.
      split; [split; cbn; congruence | reflexivity].
  Qed.

  Lemma rel_eval_cond k o i cd ev :
    relM (eval_cond ctx Xa eval_code sc k o i cd ev) (eval_cond ctx Xb eval_code sc k o i cd ev).
  Proof.
    split; [apply Rt_Ra, (Rt_eval_cond ctx Xa exec_code eval_code emit_a sc)|].
    intros sa sb sa' ra sb' rb [Si St] Ha Hb _. unfold eval_cond in Ha, Hb.
    rewrite bind_get in Ha, Hb. rewrite <- Si in Hb. cbv zeta in Ha, Hb.
    destruct (eval_code _ _) as [b|]; rewrite bind_observe in Ha, Hb;
      inversion Ha; inversion Hb; subst; (split; [split; cbn; congruence | reflexivity]).
  Qed.

  Lemma rel_consume_event : relM (consume_event ctx Xa) (consume_event ctx Xb).
  Proof.
    split; [apply Rt_Ra, Rt_consume_event|].
    intros sa sb sa' ra sb' rb [Si St] Ha Hb _. unfold consume_event in Ha, Hb.
    rewrite bind_get in Ha, Hb. rewrite <- Si in Hb.
    destruct (i_iq (m_i sa)) as [|[t e] q'].
    - destruct (i_eq (m_i sa)) as [|[t2 e2] q2].
      + inversion Ha; inversion Hb; subst. split; [split; cbn; congruence | reflexivity].
      + destruct (t2 <=? i_time (m_i sa))%Z; [rewrite bind_put in Ha, Hb|];
          inversion Ha; inversion Hb; subst; (split; [split; cbn; congruence | reflexivity]).
    - destruct (t <=? i_time (m_i sa))%Z.
      + rewrite bind_put in Ha, Hb. inversion Ha; inversion Hb; subst.
        split; [split; cbn; congruence | reflexivity].
      + destruct (i_eq (m_i sa)) as [|[t2 e2] q2].
        * inversion Ha; inversion Hb; subst. split; [split; cbn; congruence | reflexivity].
        * destruct (t2 <=? i_time (m_i sa))%Z; [rewrite bind_put in Ha, Hb|];
            inversion Ha; inversion Hb; subst; (split; [split; cbn; congruence | reflexivity]).
  Qed.

  (* ---- the quiet functions ---- *)
  Lemma rel_eval_conds k o cds : forall idx ev,
    relM (eval_conds ctx Xa eval_code sc k o idx cds ev) (eval_conds ctx Xb eval_code sc k o idx cds ev).
  Proof.
    induction cds as [|cd rest IH]; intros idx ev; cbn [eval_conds]; rq. apply rel_eval_cond.
  Qed.

  Lemma rel_contract k o pre post inv ev :
    relM (contract ctx Xa eval_code sc k o pre post inv ev) (contract ctx Xb eval_code sc k o pre post inv ev).
  Proof. unfold contract. rq; apply rel_eval_conds. Qed.

  Lemma rel_state_contract k st ev :
    relM (state_contract ctx Xa eval_code sc k st ev) (state_contract ctx Xb eval_code sc k st ev).
  Proof. apply rel_contract. Qed.
  Lemma rel_trans_contract k it ev :
    relM (trans_contract ctx Xa eval_code sc k it ev) (trans_contract ctx Xb eval_code sc k it ev).
  Proof. apply rel_contract. Qed.

  Lemma rel_eval_guards ex ts :
    relM (eval_guards ctx Xa eval_code sc ex ts) (eval_guards ctx Xb eval_code sc ex ts).
  Proof. induction ts as [|it rest IH]; cbn [eval_guards]; rq. apply rel_eval_cond. Qed.

  Lemma rel_sel_priorities ex gs :
    relM (sel_priorities ctx Xa eval_code sc ex gs) (sel_priorities ctx Xb eval_code sc ex gs).
  Proof. induction gs as [|[p ts] rest IH]; cbn [sel_priorities]; rq. apply rel_eval_guards. Qed.

  Lemma rel_sel_sources ex gs : forall sel ign,
    relM (sel_sources ctx Xa eval_code sc ex gs sel ign) (sel_sources ctx Xb eval_code sc ex gs sel ign).
  Proof.
    induction gs as [|[src ts] rest IH]; intros sel ign; cbn [sel_sources]; rq. apply rel_sel_priorities.
  Qed.

  Lemma rel_sel_depths ex gs : forall sel ign,
    relM (sel_depths ctx Xa eval_code sc ex gs sel ign) (sel_depths ctx Xb eval_code sc ex gs sel ign).
  Proof.
    induction gs as [|[d ts] rest IH]; intros sel ign; cbn [sel_depths]; rq. apply rel_sel_sources.
  Qed.

  Lemma rel_sel_eventness ev gs : forall sel,
    relM (sel_eventness ctx Xa eval_code sc ev gs sel) (sel_eventness ctx Xb eval_code sc ev gs sel).
  Proof.
    induction gs as [|[h ts] rest IH]; intros sel; cbn [sel_eventness]; rq. apply rel_sel_depths.
  Qed.

  Lemma rel_select_transitions ev states :
    relM (select_transitions ctx Xa eval_code sc ev states) (select_transitions ctx Xb eval_code sc ev states).
  Proof. apply rel_sel_eventness. Qed.

  Lemma rel_sort_transitions ts : relM (sort_transitions ctx Xa sc ts) (sort_transitions ctx Xb sc ts).
  Proof. unfold sort_transitions. rq. Qed.

  Lemma rel_record_history active st :
    relM (record_history ctx Xa sc active st) (record_history ctx Xb sc active st).
  Proof. unfold record_history. rq. Qed.

  Lemma rel_check_invariants ev :
    relM (check_invariants ctx Xa eval_code sc ev) (check_invariants ctx Xb eval_code sc ev).
  Proof. unfold check_invariants. rq. apply rel_state_contract. Qed.

  Lemma rel_compute_steps : relM (compute_steps ctx Xa eval_code sc) (compute_steps ctx Xb eval_code sc).
  Proof.
    split; [apply Rt_Ra, (Rt_compute_steps ctx Xa exec_code eval_code emit_a sc)|].
    intros sa sb sa' ra sb' rb [Si St] Ha Hb Ok. unfold compute_steps in Ha, Hb.
    rewrite bind_get in Ha, Hb. rewrite <- Si in Hb.
    destruct (negb (i_initialized (m_i sa))).
    - rewrite bind_put in Ha, Hb. destruct (root sc); inversion Ha; inversion Hb; subst;
        (split; [split; cbn; congruence | reflexivity]).
    - refine (proj2 (_ : relM _ _) _ _ _ _ _ _ (conj Si St) Ha Hb Ok).
      rq; first [apply rel_select_transitions | apply rel_sort_transitions].
  Qed.

  (* the one place where the configuration is written back after a read *)
  Definition frag_cfg (X : Type) (n : name) : M ctx X unit :=
    bind ctx X (get ctx X) (fun s =>
      if mem n (i_config s)
      then put ctx X (set_config ctx (remove_first n (i_config s)) s)
      else fail ctx X EKey).

  Lemma rel_frag_cfg n : relM (frag_cfg Xa n) (frag_cfg Xb n).
  Proof.
    split.
    - apply pres_get_bind. intros st s' r H. destruct (mem n (i_config (m_i st))).
      + inversion H; subst. apply Ra_mi. reflexivity.
      + inversion H; subst. apply Ra_refl.
    - intros sa sb sa' ra sb' rb [Si St] Ha Hb _. unfold frag_cfg in Ha, Hb.
      rewrite bind_get in Ha, Hb. rewrite <- Si in Hb.
      destruct (mem n (i_config (m_i sa))); inversion Ha; inversion Hb; subst;
        (split; [split; cbn; congruence | reflexivity]).
  Qed.

  Lemma rel_exit_state active ev st :
    relM (exit_state ctx Xa exec_code eval_code emit_a sc active ev st)
         (exit_state ctx Xb exec_code eval_code emit_b sc active ev st).
  Proof.
    unfold exit_state.
    apply rel_bind; [apply rel_run_code | intros sent].
    apply rel_bind; [apply rel_record_history | intros _].
    eapply rel_ext with
      (ma' := bind ctx Xa (frag_cfg Xa (s_name st)) _) (mb' := bind ctx Xb (frag_cfg Xb (s_name st)) _);
      [reflexivity | reflexivity |].
    apply rel_bind; [apply rel_frag_cfg | intros _].
    rq. apply rel_state_contract.
  Qed.

  Lemma rel_enter_state ev st :
    relM (enter_state ctx Xa exec_code eval_code emit_a sc ev st)
         (enter_state ctx Xb exec_code eval_code emit_b sc ev st).
  Proof. unfold enter_state. rq; first [apply rel_state_contract | apply rel_run_code]. Qed.

  Lemma rel_process_transition ev i :
    relM (process_transition ctx Xa exec_code eval_code emit_a sc ev i)
         (process_transition ctx Xb exec_code eval_code emit_b sc ev i).
  Proof. unfold process_transition. rq; first [apply rel_trans_contract | apply rel_run_code]. Qed.

  Lemma rel_raise_event e : relM (raise_event ctx Xa emit_a e) (raise_event ctx Xb emit_b e).
  Proof. unfold raise_event. rq. apply queue_event_time. Qed.

  Lemma rel_apply_step step :
    relM (apply_step ctx Xa exec_code eval_code emit_a sc step)
         (apply_step ctx Xb exec_code eval_code emit_b sc step).
  Proof.
    unfold apply_step.
    rq; first [apply rel_exit_state | apply rel_process_transition | apply rel_enter_state
              | apply rel_raise_event].
  Qed.

  Lemma rel_stabilize fuel :
    relM (stabilize ctx Xa exec_code eval_code emit_a sc fuel)
         (stabilize ctx Xb exec_code eval_code emit_b sc fuel).
  Proof. induction fuel as [|f IH]; cbn [stabilize]; rq. apply rel_apply_step. Qed.

  Lemma rel_run_steps fuel steps :
    relM (run_steps ctx Xa exec_code eval_code emit_a sc fuel steps)
         (run_steps ctx Xb exec_code eval_code emit_b sc fuel steps).
  Proof.
    induction steps as [|st rest IH]; cbn [run_steps];
      rq; first [apply rel_apply_step | apply rel_stabilize].
  Qed.

  Lemma rel_macro_part fuel steps :
    relM (macro_part ctx Xa exec_code eval_code emit_a sc fuel steps)
         (macro_part ctx Xb exec_code eval_code emit_b sc fuel steps).
  Proof.
    unfold macro_part, consume_part.
    rq; first [apply rel_consume_event | apply rel_run_steps].
  Qed.

  (* C10_nonintrusive.  Run A (with listeners) and run B (listeners that never raise, e.g. none)
     of one execute_once from the same interpreter state and trace: if every listener call of A
     returned normally, both runs end in the same interpreter state, with the same trace
     (evaluator calls, their results, meta-events) and the same outcome (macro step or error). *)
  Theorem C10_nonintrusive fuel now sa sb sa' ra sb' rb :
    sim sa sb ->
    execute_once ctx Xa exec_code eval_code emit_a sc fuel now sa = (sa', ra) ->
    execute_once ctx Xb exec_code eval_code emit_b sc fuel now sb = (sb', rb) ->
    (forall l, m_tr sa' = l ++ m_tr sa -> feed_ok Xa emit_a now (tr_metas ctx l) (m_x sa)) ->
    m_i sa' = m_i sb' /\ m_tr sa' = m_tr sb' /\ ra = rb.
  Proof.
    intros [Si St] Ha Hb Ok. rewrite execute_once_eq, bind_modify in Ha, Hb.
    assert (R : sim sa' sb' /\ ra = rb).
    { refine (proj2 (_ : relM _ _) _ _ _ _ _ _ _ Ha Hb _).
      - rq; first [apply rel_compute_steps | apply rel_macro_part | apply rel_check_invariants].
      - split; cbn; congruence.
      - intros l Hl. cbn in Hl |- *. apply Ok, Hl. }
    destruct R as [[R1 R2] R3]. auto.
  Qed.

  Lemma feed_ok_never t ms : (forall t m x, snd (emit_a t m x) = None) -> forall x, feed_ok Xa emit_a t ms x.
  Proof. intros Hn. induction ms as [|m ms IH]; intros x; cbn; auto. Qed.

  (* (a) listeners that never raise are invisible *)
  Corollary C10_nonintrusive_never fuel now sa sb sa' ra sb' rb :
    (forall t m x, snd (emit_a t m x) = None) ->
    sim sa sb ->
    execute_once ctx Xa exec_code eval_code emit_a sc fuel now sa = (sa', ra) ->
    execute_once ctx Xb exec_code eval_code emit_b sc fuel now sb = (sb', rb) ->
    m_i sa' = m_i sb' /\ m_tr sa' = m_tr sb' /\ ra = rb.
  Proof.
    intros Hn S Ha Hb. eapply C10_nonintrusive; eauto. intros l _. now apply feed_ok_never.
  Qed.

  (* (c) in general: either the listeners raised -- then A stopped right there, with their error,
     the newest trace entry being the meta-event they raised on -- or the run is that of B *)
  Corollary C10_nonintrusive_or_raised fuel now sa sb sa' ra sb' rb :
    sim sa sb ->
    execute_once ctx Xa exec_code eval_code emit_a sc fuel now sa = (sa', ra) ->
    execute_once ctx Xb exec_code eval_code emit_b sc fuel now sb = (sb', rb) ->
    (m_i sa' = m_i sb' /\ m_tr sa' = m_tr sb' /\ ra = rb) \/
    (exists m l' e, m_tr sa' = ObMeta m :: l' ++ m_tr sa /\ ra = inr e /\
                    feed_ok Xa emit_a now (tr_metas ctx l') (m_x sa) /\
                    snd (emit_a now m (feed Xa emit_a now (tr_metas ctx l') (m_x sa))) = Some e).
  Proof.
    intros S Ha Hb. pose proof (C13_frozen _ _ _ _ _ _ _ _ _ _ _ Ha) as (_ & (l & L & _ & _ & O) & _).
    destruct O as [O|(m & l' & e & -> & K & O & E)].
    - left. eapply C10_nonintrusive; eauto. intros l0 Hl0.
      assert (l0 = l) by (apply (app_inv_tail (m_tr sa)); congruence). now subst.
    - right. exists m, l', e. repeat split; auto. destruct ra; [discriminate | now inversion K].
  Qed.

  (* (b) in particular a run that returns normally is the run without listeners *)
  Corollary C10_nonintrusive_ok fuel now sa sb sa' macro sb' rb :
    sim sa sb ->
    execute_once ctx Xa exec_code eval_code emit_a sc fuel now sa = (sa', inl macro) ->
    execute_once ctx Xb exec_code eval_code emit_b sc fuel now sb = (sb', rb) ->
    m_i sa' = m_i sb' /\ m_tr sa' = m_tr sb' /\ rb = inl macro.
  Proof.
    intros S Ha Hb. destruct (C10_nonintrusive_or_raised _ _ _ _ _ _ _ _ S Ha Hb) as [(H1 & H2 & H3)|H].
    - auto.
    - destruct H as (m & l' & e & _ & K & _). discriminate.
  Qed.
End NonIntrusive.

(* ====================================================================== names_ok is needed *)
(* Without names_ok (the state registered under a name has that name) C10_complete is false for
   the model: enter_state emits the .name of the state object, spec_meta the key it was looked up
   with.  (Statechart.add_state registers a state under state.name, so every chart built through
   the API satisfies names_ok; it is part of well-formedness.) *)
Module NamesOkNeeded.
  Open Scope string_scope.
  Open Scope list_scope.
  Definition bad_chart : chart :=
    mkChart "bad" None None
      [("r", mkState "q" KBasic None None None None [] [] []);
       ("q", mkState "q" KBasic None None None None [] [] [])]
      [("r", None); ("q", None)] [(None, ["r"; "q"])] [].
  Definition ex (c : call unit) (x : unit) : option (unit * list event) := Some (tt, []).
  Definition ev (c : call unit) (x : unit) : option bool := Some true.
  Definition rec_emit (t : Z) (m : meta) (x : list meta) : list meta * option err := (x ++ [m], None).
  Definition run :=
    execute_once unit (list meta) ex ev rec_emit bad_chart 5 0%Z (mkM (init_istate 0 0%Z false tt) [] []).

  Theorem C10_complete_without_names_ok_refuted :
    exists macro, snd run = inl macro /\
                  tr_metas unit (m_tr (fst run)) <> spec_meta bad_chart 0%Z macro /\
                  m_x (fst run) <> spec_meta bad_chart 0%Z macro.
  Proof. eexists. split; [vm_compute; reflexivity|]. split; vm_compute; discriminate. Qed.
End NamesOkNeeded.

Print Assumptions C13_frozen.
Print Assumptions C10_apply_step_meta.
Print Assumptions C10_complete.
Print Assumptions C10_prefix.
Print Assumptions C13_entry_idle.
Print Assumptions C13_after_idle_base.
Print Assumptions C15_sent_truth.
Print Assumptions C15_self_raise_event.
Print Assumptions C15_self_run_steps.
Print Assumptions C15_self.
Print Assumptions C10_sync_execute.
Print Assumptions C10_nonintrusive.
Print Assumptions C10_nonintrusive_never.
Print Assumptions C10_nonintrusive_or_raised.
Print Assumptions C10_nonintrusive_ok.
Print Assumptions NamesOkNeeded.C10_complete_without_names_ok_refuted.
