(* FrameLib.v -- "what does each monadic function of Interp.v change" (frame lemmas).

   HOW TO USE
   ----------
   Pick a relation  R : mstate -> mstate -> Prop  between the state before and the state after
   (reflexive and transitive).  `pres R m` says that EVERY run of m -- normal result or error, an
   error keeps the state reached so far -- relates its initial and final state by R:

       pres R m  :=  forall s s' r, m s = (s', r) -> R s s'.

   Generic rules: pres_ret, pres_fail, pres_get, pres_bind, pres_mapM, pres_iterM, pres_modify,
   pres_at_get_bind / pres_at_put (for the `s <- get ;; ... put (f s)` idiom), bind_inv.

   For every function f of the interpreter model there is a lemma `pres_f` whose premises are exactly
   the elementary state changes f can perform (the "footprint" of f); after the section is closed
   each lemma quantifies only over the premises it needs:

       R_obs       pushing a non-meta observation on the trace        (observe)
       R_meta      raising an inner meta event (listeners + trace)    (raise_meta; inner_meta m = true)
       R_ctx       replacing i_ctx                                    (run_code)
       R_old       replacing i_old                                    (contract, CPre only)
       R_init      replacing i_initialized                            (compute_steps)
       R_memory, R_config, R_entry, R_idle, R_sent                    (record_history, exit_state, ...)
       R_queue     queue_event i e  with e_kind e = Internal          (raise_event)
       R_pop_i / R_pop_e   removing the due head of a queue           (consume_event)
       R_meta_started / R_meta_consumed / R_meta_ended                (execute_once itself)
       R_start     fun i => set_sent [] (set_time now i)              (first modify of execute_once)

     function                              premises besides R_refl, R_trans
     raise_meta (inner)                    R_meta
     run_code                              R_obs R_ctx
     eval_cond eval_conds eval_guards sel_* select_transitions     R_obs
     contract (CPost/CInv: pres_contract_nopre)                    R_obs
     contract state_contract trans_contract                        R_obs R_old
     sort_transitions                      (none)
     compute_steps                         R_obs R_init
     record_history                        R_memory
     exit_state                            R_obs R_meta R_ctx R_memory R_config
     enter_state                           R_obs R_meta R_ctx R_old R_config R_entry R_idle
     process_transition                    R_obs R_meta R_ctx R_old R_idle
     check_invariants                      R_obs
     raise_event                           R_meta R_queue
     apply_step stabilize run_steps        all of the above + R_sent
     consume_event                         R_pop_i R_pop_e
     execute_once_tail                     all of the above + R_meta_started/consumed/ended
     execute_once                          + R_start

   Bundles: `mframe R` (everything up to R_sent), `msend_frame R` (R_queue), `mpop_frame R`,
   `mouter_frame R`, with lemmas mf_f; conjunction `rconj` (mframe_conj); relations on the trace
   alone `liftT` (mframe_trace); relations on the interpreter state alone `lift` with
   `code_frame Ri`, `send_frame Ri`, `pop_frame Ri` and lemmas cf_f.

   Ready-made instances:
       same_queues   i_iq, i_eq, i_time unchanged       -- a code_frame: everything below raise_event
       same_time     i_time unchanged                   -- code/send/pop frame: everything except the
                                                           first modify of execute_once
                                                           (execute_once_tail_time, execute_once_time)
       qins l        internal queue := ins_all time (internals l) (internal queue), rest as
                     same_queues; indexed by the list of events sent (raise_event_qins,
                     raise_all_qins, apply_step_qins, stabilize_qins, run_steps_qins: the index
                     is ms_sent of the returned micro steps; on error: qevol)
       qevol         exists l, qins l                   -- reflexive transitive "queue evolution"
   Explicit footprints (…_footprint): only_trace, upd_by set_ctx / set_old / set_initialized.
*)
From Coq Require Import List ZArith Lia Bool.
From Sismic Require Import Base Chart Interp.
Import ListNotations.
Open Scope list_scope.

Definition is_meta_obs {ctx} (o : obs ctx) : bool :=
  match o with ObMeta _ => true | _ => false end.

(* meta events raised below execute_once (everything but step started / step ended / consumed) *)
Definition inner_meta (m : meta) : bool :=
  match m with MStepStarted _ | MStepEnded | MConsumed _ => false | _ => true end.

Definition is_internal (e : event) : bool := ekind_eqb (e_kind e) Internal.
Definition internals (l : list event) : list event := filter is_internal l.

(* a sequence of _queue_event insertions at a fixed current time *)
Definition ins_all (now : Z) (l : list event) (q : list (Z * event)) : list (Z * event) :=
  fold_left (fun q e => queue_insert q (now + delay_of e)%Z e) l q.

Lemma is_internal_true e : is_internal e = true <-> e_kind e = Internal.
Proof. unfold is_internal. destruct (e_kind e); simpl; split; congruence. Qed.

Lemma internals_app l1 l2 : internals (l1 ++ l2) = internals l1 ++ internals l2.
Proof. apply filter_app. Qed.

Lemma internals_Forall l : Forall (fun e => e_kind e = Internal) (internals l).
Proof.
  unfold internals. apply Forall_forall. intros e He.
  apply filter_In in He. apply is_internal_true. tauto.
Qed.

Lemma internals_id l : Forall (fun e => e_kind e = Internal) l -> internals l = l.
Proof.
  induction 1 as [|e l He Hl IH]; simpl; auto.
  apply is_internal_true in He. rewrite He. f_equal; auto.
Qed.

Lemma ins_all_app now l1 l2 q : ins_all now (l1 ++ l2) q = ins_all now l2 (ins_all now l1 q).
Proof. apply fold_left_app. Qed.

Section Frame.
  Variable ctx : Type.
  Variable X : Type.
  Variable exec_code : call ctx -> ctx -> option (ctx * list event).
  Variable eval_code : call ctx -> ctx -> option bool.
  Variable emit : Z -> meta -> X -> X * option err.
  Variable sc : chart.

  Notation ist := (istate ctx).
  Notation mst := (mstate ctx X).
  Notation M := (Interp.M ctx X).
  Local Notation bind := (Interp.bind ctx X).
  Local Notation ret := (Interp.ret ctx X).
  Local Notation fail := (Interp.fail ctx X).
  Local Notation get := (Interp.get ctx X).
  Local Notation put := (Interp.put ctx X).
  Local Notation modify := (Interp.modify ctx X).
  Local Notation observe := (Interp.observe ctx X).
  Local Notation mapM := (Interp.mapM ctx X).
  Local Notation iterM := (Interp.iterM ctx X).
  Local Notation raise_meta := (Interp.raise_meta ctx X emit).
  Local Notation raise_event := (Interp.raise_event ctx X emit).
  Local Notation run_code := (Interp.run_code ctx X exec_code sc).
  Local Notation eval_cond := (Interp.eval_cond ctx X eval_code sc).
  Local Notation eval_conds := (Interp.eval_conds ctx X eval_code sc).
  Local Notation contract := (Interp.contract ctx X eval_code sc).
  Local Notation state_contract := (Interp.state_contract ctx X eval_code sc).
  Local Notation trans_contract := (Interp.trans_contract ctx X eval_code sc).
  Local Notation eval_guards := (Interp.eval_guards ctx X eval_code sc).
  Local Notation sel_priorities := (Interp.sel_priorities ctx X eval_code sc).
  Local Notation sel_sources := (Interp.sel_sources ctx X eval_code sc).
  Local Notation sel_depths := (Interp.sel_depths ctx X eval_code sc).
  Local Notation sel_eventness := (Interp.sel_eventness ctx X eval_code sc).
  Local Notation select_transitions := (Interp.select_transitions ctx X eval_code sc).
  Local Notation sort_transitions := (Interp.sort_transitions ctx X sc).
  Local Notation compute_steps := (Interp.compute_steps ctx X eval_code sc).
  Local Notation record_history := (Interp.record_history ctx X sc).
  Local Notation exit_state := (Interp.exit_state ctx X exec_code eval_code emit sc).
  Local Notation enter_state := (Interp.enter_state ctx X exec_code eval_code emit sc).
  Local Notation process_transition := (Interp.process_transition ctx X exec_code eval_code emit sc).
  Local Notation apply_step := (Interp.apply_step ctx X exec_code eval_code emit sc).
  Local Notation stabilize := (Interp.stabilize ctx X exec_code eval_code emit sc).
  Local Notation run_steps := (Interp.run_steps ctx X exec_code eval_code emit sc).
  Local Notation consume_event := (Interp.consume_event ctx X).
  Local Notation check_invariants := (Interp.check_invariants ctx X eval_code sc).
  Local Notation execute_once := (Interp.execute_once ctx X exec_code eval_code emit sc).
  Local Notation set_time := (Interp.set_time ctx).
  Local Notation set_initialized := (Interp.set_initialized ctx).
  Local Notation set_memory := (Interp.set_memory ctx).
  Local Notation set_config := (Interp.set_config ctx).
  Local Notation set_entry := (Interp.set_entry ctx).
  Local Notation set_idle := (Interp.set_idle ctx).
  Local Notation set_sent := (Interp.set_sent ctx).
  Local Notation set_iq := (Interp.set_iq ctx).
  Local Notation set_eq := (Interp.set_eq ctx).
  Local Notation set_ctx := (Interp.set_ctx ctx).
  Local Notation set_old := (Interp.set_old ctx).

  (* the state after `modify f` *)
  Definition upd (f : ist -> ist) (s : mst) : mst := mkM (f (m_i s)) (m_x s) (m_tr s).

  (* ------------------------------------------------------------ inversion of bind *)
  Lemma bind_inv A B (m : M A) (f : A -> M B) s s' r :
    bind m f s = (s', r) ->
    (exists e, m s = (s', inr e) /\ r = inr e) \/
    (exists a s1, m s = (s1, inl a) /\ f a s1 = (s', r)).
  Proof.
    unfold Interp.bind. destruct (m s) as [s1 [a|e]]; intros H.
    - right. exists a, s1. auto.
    - left. exists e. inversion H; subst; auto.
  Qed.

  Lemma raise_meta_inv m s s' r :
    raise_meta m s = (s', r) ->
    s' = fst (raise_meta m s) /\ m_i s' = m_i s /\
    m_tr s' = ObMeta m :: m_tr s /\
    m_x s' = fst (emit (i_time (m_i s)) m (m_x s)).
  Proof.
    intros H. rewrite H. split; [reflexivity|].
    unfold Interp.raise_meta in H. destruct (emit (i_time (m_i s)) m (m_x s)) as [x' [e|]];
      inversion H; subst; simpl; auto.
  Qed.

  (* ============================================================ generic preservation *)
  Section Pres.
    Variable R : mst -> mst -> Prop.

    Definition pres_at {A} (s : mst) (m : M A) : Prop := forall s' r, m s = (s', r) -> R s s'.
    Definition pres {A} (m : M A) : Prop := forall s, pres_at s m.

    Hypothesis R_refl : forall s, R s s.
    Hypothesis R_trans : forall a b c, R a b -> R b c -> R a c.

    Lemma pres_ret A (a : A) : pres (ret a).
    Proof. intros s s' r H. inversion H; subst. apply R_refl. Qed.

    Lemma pres_fail A (e : err) : pres (@Interp.fail ctx X A e).
    Proof. intros s s' r H. inversion H; subst. apply R_refl. Qed.

    Lemma pres_get : pres get.
    Proof. intros s s' r H. inversion H; subst. apply R_refl. Qed.

    Lemma pres_at_bind A B (m : M A) (f : A -> M B) s :
      pres_at s m -> (forall a, pres (f a)) -> pres_at s (bind m f).
    Proof.
      intros Hm Hf s' r H. apply bind_inv in H. destruct H as [(e & H & _)|(a & s1 & H1 & H2)].
      - eapply Hm; eauto.
      - eapply R_trans; [eapply Hm; eauto | eapply Hf; eauto].
    Qed.

    Lemma pres_bind A B (m : M A) (f : A -> M B) :
      pres m -> (forall a, pres (f a)) -> pres (bind m f).
    Proof. intros Hm Hf s. apply pres_at_bind; auto. Qed.

    (* after `get` the continuation is run on the field of the current state *)
    Lemma pres_at_get_bind B (f : ist -> M B) s :
      pres_at s (f (m_i s)) -> pres_at s (bind get f).
    Proof. intros Hf s' r H. exact (Hf s' r H). Qed.

    Lemma pres_get_bind B (f : ist -> M B) :
      (forall s, pres_at s (f (m_i s))) -> pres (bind get f).
    Proof. intros Hf s. apply pres_at_get_bind. apply Hf. Qed.

    Lemma pres_at_of_pres A (m : M A) s : pres m -> pres_at s m.
    Proof. intros H. apply H. Qed.

    Lemma pres_at_put s (i : ist) : R s (upd (fun _ => i) s) -> pres_at s (put i).
    Proof. intros Hi s' r H. inversion H; subst. exact Hi. Qed.

    Lemma pres_modify (f : ist -> ist) : (forall s, R s (upd f s)) -> pres (modify f).
    Proof. intros Hf s s' r H. inversion H; subst. apply Hf. Qed.

    Lemma pres_mapM A B (f : A -> M B) l : (forall a, pres (f a)) -> pres (mapM f l).
    Proof.
      intros Hf. induction l as [|x l IH]; simpl.
      - apply pres_ret.
      - apply pres_bind; [apply Hf|]. intros y. apply pres_bind; [apply IH|].
        intros ys. apply pres_ret.
    Qed.

    Lemma pres_iterM A (f : A -> M unit) l : (forall a, pres (f a)) -> pres (iterM f l).
    Proof.
      intros Hf. induction l as [|x l IH]; simpl.
      - apply pres_ret.
      - apply pres_bind; [apply Hf|]. intros _. apply IH.
    Qed.

    (* ---------------------------------------------------------- trace and listeners *)
    Hypothesis R_obs : forall s o, is_meta_obs o = false -> R s (fst (observe o s)).

    Lemma pres_observe o : is_meta_obs o = false -> pres (observe o).
    Proof. intros Ho s s' r H. inversion H; subst. apply (R_obs s o Ho). Qed.

    Hypothesis R_meta : forall s m, inner_meta m = true -> R s (fst (raise_meta m s)).

    Lemma pres_raise_meta m : inner_meta m = true -> pres (raise_meta m).
    Proof. intros Hm s s' r H. rewrite (proj1 (raise_meta_inv _ _ _ _ H)). apply R_meta, Hm. Qed.

    Ltac pres_step :=
      lazymatch goal with
      | |- pres (Interp.bind _ _ _ _) => apply pres_bind; [|intro]
      | |- pres (Interp.ret _ _ _) => apply pres_ret
      | |- pres (Interp.fail _ _ _) => apply pres_fail
      | |- pres (Interp.get _ _) => apply pres_get
      | |- pres (Interp.observe _ _ _) => apply pres_observe; reflexivity
      | |- pres (Interp.raise_meta _ _ _ _) => apply pres_raise_meta; reflexivity
      | |- pres (Interp.mapM _ _ _ _) => apply pres_mapM; intro
      | |- pres (Interp.iterM _ _ _ _) => apply pres_iterM; intro
      | |- pres (match ?x with _ => _ end) => destruct x
      | |- pres (let _ := _ in _) => cbv zeta
      | |- pres ((fun _ => _) _) => cbv beta
      end.

    (* ---------------------------------------------------------- evaluator calls *)
    Hypothesis R_ctx : forall s c, R s (upd (set_ctx c) s).

    (* run_code: trace + i_ctx *)
    Lemma pres_run_code k o cd ev : pres (run_code k o cd ev).
    Proof.
      intros s s' r H. unfold Interp.run_code, Interp.bind, Interp.get in H.
      destruct cd as [c|].
      - destruct (exec_code _ (i_ctx (m_i s))) as [[c' sent]|]; simpl in H; inversion H; subst.
        + match goal with |- R s {| m_i := _; m_x := _; m_tr := ?o :: _ |} =>
            apply R_trans with (fst (observe o s)); [apply R_obs; reflexivity|];
            apply (R_ctx (fst (observe o s)) c')
          end.
        + match goal with |- R s {| m_i := _; m_x := _; m_tr := ?o :: _ |} =>
            apply (R_obs s o); reflexivity end.
      - simpl in H; inversion H; subst.
        match goal with |- R s {| m_i := _; m_x := _; m_tr := ?o :: _ |} =>
          apply (R_obs s o); reflexivity end.
    Qed.

    (* eval_cond / eval_conds / guards / transition selection: trace only *)
    Lemma pres_eval_cond k o idx cd ev : pres (eval_cond k o idx cd ev).
    Proof.
      unfold Interp.eval_cond. apply pres_get_bind. intros s. cbv zeta.
      destruct (eval_code _ (i_ctx (m_i s))); apply pres_at_of_pres; repeat pres_step.
    Qed.

    Lemma pres_eval_conds k o cds ev : forall idx, pres (eval_conds k o idx cds ev).
    Proof.
      induction cds as [|cd rest IH]; intros idx; simpl.
      - apply pres_ret.
      - apply pres_bind; [apply pres_eval_cond|]. intros [|]; [apply IH|apply pres_fail].
    Qed.

    (* postconditions and invariants: trace only *)
    Lemma pres_contract_nopre k o pre post inv ev :
      k <> CPre -> pres (contract k o pre post inv ev).
    Proof.
      intros Hk. unfold Interp.contract. apply pres_get_bind. intros s. apply pres_at_of_pres.
      destruct (i_ignore_contract (m_i s)); [apply pres_ret|].
      destruct k; try apply pres_ret; try apply pres_eval_conds. congruence.
    Qed.

    Hypothesis R_old : forall s o, R s (upd (set_old o) s).

    (* contract: trace, and i_old for a precondition check *)
    Lemma pres_contract k o pre post inv ev : pres (contract k o pre post inv ev).
    Proof.
      unfold Interp.contract. apply pres_get_bind. intros s. apply pres_at_of_pres.
      destruct (i_ignore_contract (m_i s)); [apply pres_ret|].
      destruct k; try apply pres_ret; try apply pres_eval_conds.
      apply pres_bind; [|intros _; apply pres_eval_conds].
      destruct inv; destruct post; try apply pres_ret;
        (apply pres_modify; intros s0; apply (R_old s0)).
    Qed.

    Lemma pres_state_contract k st ev : pres (state_contract k st ev).
    Proof. apply pres_contract. Qed.

    Lemma pres_trans_contract k it ev : pres (trans_contract k it ev).
    Proof. apply pres_contract. Qed.


    (* ---------------------------------------------------------- _select_transitions: trace only *)
    Lemma pres_eval_guards exposed ts : pres (eval_guards exposed ts).
    Proof.
      induction ts as [|it rest IH]; simpl.
      - apply pres_ret.
      - apply pres_bind.
        + destruct (t_guard (snd it)); [apply pres_eval_cond|apply pres_ret].
        + intros ok. apply pres_bind; [apply IH|]. intros r. apply pres_ret.
    Qed.

    Lemma pres_sel_priorities exposed groups : pres (sel_priorities exposed groups).
    Proof.
      induction groups as [|[p ts] rest IH]; simpl.
      - apply pres_ret.
      - apply pres_bind; [apply pres_eval_guards|]. intros [|x r]; [apply IH|apply pres_ret].
    Qed.

    Lemma pres_sel_sources exposed groups :
      forall selected ignored, pres (sel_sources exposed groups selected ignored).
    Proof.
      induction groups as [|[source ts] rest IH]; intros selected ignored; simpl.
      - apply pres_ret.
      - destruct (mem source ignored); [apply IH|].
        apply pres_bind; [apply pres_sel_priorities|]. intros [|x r]; apply IH.
    Qed.

    Lemma pres_sel_depths exposed groups :
      forall selected ignored, pres (sel_depths exposed groups selected ignored).
    Proof.
      induction groups as [|[d ts] rest IH]; intros selected ignored; simpl.
      - apply pres_ret.
      - apply pres_bind; [apply pres_sel_sources|]. intros r. apply IH.
    Qed.

    Lemma pres_sel_eventness event groups :
      forall selected, pres (sel_eventness event groups selected).
    Proof.
      induction groups as [|[he ts] rest IH]; intros selected; simpl.
      - apply pres_ret.
      - destruct selected; [|apply pres_ret].
        apply pres_bind; [apply pres_sel_depths|]. intros r. apply IH.
    Qed.

    Lemma pres_select_transitions event states : pres (select_transitions event states).
    Proof. apply pres_sel_eventness. Qed.

    (* _sort_transitions: nothing at all *)
    Lemma pres_sort_transitions ts : pres (sort_transitions ts).
    Proof.
      unfold Interp.sort_transitions. destruct ts as [|a [|b ts]]; try apply pres_ret.
      destruct (check_pairs sc (a :: b :: ts)); [apply pres_fail|apply pres_ret].
    Qed.

    (* ---------------------------------------------------------- _compute_steps: trace + i_initialized *)
    Hypothesis R_init : forall s b, R s (upd (set_initialized b) s).

    Lemma pres_compute_steps : pres compute_steps.
    Proof.
      unfold Interp.compute_steps. apply pres_get_bind. intros s.
      destruct (negb (i_initialized (m_i s))).
      - apply pres_at_bind; [apply pres_at_put; apply (R_init s true)|]. intros _.
        destruct (root sc); [apply pres_ret|apply pres_fail].
      - apply pres_at_of_pres. cbv zeta.
        apply pres_bind; [apply pres_select_transitions|]. intros ts.
        apply pres_bind; [apply pres_observe; reflexivity|]. intros _.
        destruct ts as [|t ts].
        + destruct (select_event (m_i s)); apply pres_ret.
        + apply pres_bind; [apply pres_sort_transitions|]. intros ts'.
          apply pres_bind; [apply pres_get|]. intros s'. apply pres_ret.
    Qed.

    (* ---------------------------------------------------------- _apply_step and below *)
    Hypothesis R_memory : forall s m, R s (upd (set_memory m) s).

    Lemma pres_record_history active st : pres (record_history active st).
    Proof.
      unfold Interp.record_history. destruct (s_kind st); try apply pres_ret.
      apply pres_iterM. intros child.
      destruct (state_for sc child) as [cs|]; [|apply pres_fail].
      destruct (s_kind cs); try apply pres_ret.
      - destruct (filter _ active) as [|x [|y l]]; try apply pres_fail.
        apply pres_modify. intros s0. apply (R_memory s0).
      - destruct (filter _ active) as [|x l]; try apply pres_fail.
        apply pres_modify. intros s0. apply (R_memory s0).
    Qed.

    Hypothesis R_config : forall s c, R s (upd (set_config c) s).

    (* exit_state: trace, listeners, i_ctx, i_memory, i_config (CPost does not store __old__) *)
    Lemma pres_exit_state active ev st : pres (exit_state active ev st).
    Proof.
      unfold Interp.exit_state.
      apply pres_bind; [apply pres_run_code|]. intros sent.
      apply pres_bind; [apply pres_record_history|]. intros _.
      apply pres_get_bind. intros s.
      apply pres_at_bind.
      - destruct (mem (s_name st) (i_config (m_i s))).
        + apply pres_at_put. apply (R_config s).
        + apply pres_at_of_pres, pres_fail.
      - intros _. apply pres_bind; [apply pres_contract_nopre; discriminate|]. intros _.
        apply pres_bind; [apply pres_raise_meta; reflexivity|]. intros _. apply pres_ret.
    Qed.

    Hypothesis R_entry : forall s e, R s (upd (set_entry e) s).
    Hypothesis R_idle : forall s e, R s (upd (set_idle e) s).

    Lemma pres_enter_state ev st : pres (enter_state ev st).
    Proof.
      unfold Interp.enter_state.
      apply pres_bind; [apply pres_state_contract|]. intros _.
      apply pres_bind; [apply pres_run_code|]. intros sent.
      apply pres_bind.
      - apply pres_modify. intros s.
        set (s1 := upd (set_config (set_add (s_name st) (i_config (m_i s)))) s).
        set (s2 := upd (set_entry (dset (s_name st) (i_time (m_i s)) (i_entry (m_i s)))) s1).
        apply R_trans with s1; [apply (R_config s)|].
        apply R_trans with s2; [apply (R_entry s1)|].
        apply (R_idle s2 (dset (s_name st) (i_time (m_i s)) (i_idle (m_i s)))).
      - intros _. apply pres_bind; [apply pres_raise_meta; reflexivity|]. intros _. apply pres_ret.
    Qed.

    Lemma pres_process_transition ev i : pres (process_transition ev i).
    Proof.
      unfold Interp.process_transition.
      destruct (nth_error (c_transitions sc) i) as [t|]; [|apply pres_fail]. cbv zeta.
      apply pres_bind; [apply pres_trans_contract|]. intros _.
      apply pres_bind; [apply pres_trans_contract|]. intros _.
      apply pres_bind; [apply pres_run_code|]. intros sent.
      apply pres_bind; [apply pres_trans_contract|]. intros _.
      apply pres_bind; [apply pres_trans_contract|]. intros _.
      apply pres_bind; [apply pres_modify; intros s; apply (R_idle s)|]. intros _.
      apply pres_bind; [apply pres_raise_meta; reflexivity|]. intros _. apply pres_ret.
    Qed.

    (* the part of apply_step that runs before the sent events are raised *)
    Definition apply_step_body (ev : option event) (tr : option nat) (entered exited : list state)
      : M (list event) :=
      bind get (fun s0 =>
      bind (mapM (exit_state (i_config s0) ev) exited) (fun sent1 =>
      bind (match tr with Some i => process_transition ev i | None => ret [] end) (fun sent2 =>
      bind (mapM (enter_state ev) entered) (fun sent3 =>
      ret (concat sent1 ++ sent2 ++ concat sent3))))).

    Lemma pres_apply_step_body ev tr entered exited : pres (apply_step_body ev tr entered exited).
    Proof.
      unfold apply_step_body. apply pres_bind; [apply pres_get|]. intros s0.
      apply pres_bind; [apply pres_mapM; intros st; apply pres_exit_state|]. intros sent1.
      apply pres_bind.
      { destruct tr; [apply pres_process_transition|apply pres_ret]. }
      intros sent2.
      apply pres_bind; [apply pres_mapM; intros st; apply pres_enter_state|]. intros sent3.
      apply pres_ret.
    Qed.

    (* check_invariants: trace only (CInv does not store __old__) *)
    Lemma pres_check_invariants ev : pres (check_invariants ev).
    Proof.
      unfold Interp.check_invariants. apply pres_bind; [apply pres_get|]. intros s.
      apply pres_iterM. intros n.
      destruct (state_for sc n); [apply pres_contract_nopre; discriminate|apply pres_fail].
    Qed.

    (* ---------------------------------------------------------- raising the sent events *)
    Hypothesis R_sent : forall s l, R s (upd (set_sent l) s).
    Hypothesis R_queue : forall s e, e_kind e = Internal -> R s (upd (fun i => queue_event i e) s).

    Lemma pres_raise_event e : pres (raise_event e).
    Proof.
      unfold Interp.raise_event. destruct (e_kind e) eqn:K.
      - apply pres_ret.
      - apply pres_bind; [apply pres_modify; intros s; apply (R_queue s e K)|]. intros _.
        apply pres_bind; [apply pres_raise_meta; reflexivity|]. intros _.
        destruct (has_delay e); [apply pres_raise_meta; reflexivity|apply pres_ret].
      - apply pres_raise_meta; reflexivity.
    Qed.

    Definition raise_all (sent : list event) : M unit :=
      iterM (fun e => bind (raise_event e) (fun _ => modify (fun s => set_sent (i_sent s ++ [e]) s))) sent.

    Lemma pres_raise_all sent : pres (raise_all sent).
    Proof.
      apply pres_iterM. intros e. apply pres_bind; [apply pres_raise_event|]. intros _.
      apply pres_modify. intros s. apply (R_sent s).
    Qed.

    Lemma apply_step_eq step s :
      apply_step step s =
      match states_for sc (ms_entered step), states_for sc (ms_exited step) with
      | Some entered, Some exited =>
          bind (apply_step_body (ms_event step) (ms_trans step) entered exited) (fun sent =>
          bind (raise_all sent) (fun _ =>
          ret (mkMicro (ms_event step) (ms_trans step) (ms_entered step) (ms_exited step) sent)))
      | _, _ => fail EStatechart
      end s.
    Proof.
      unfold Interp.apply_step, apply_step_body, raise_all.
      destruct (states_for sc (ms_entered step)); [|reflexivity].
      destruct (states_for sc (ms_exited step)); [|reflexivity].
      unfold Interp.bind, Interp.get, Interp.ret.
      repeat (match goal with |- context [let (_,_) := ?t in _] => destruct t as [? [?|?]] end;
              try reflexivity).
    Qed.

    Lemma pres_ext A (m m' : M A) : (forall s, m s = m' s) -> pres m' -> pres m.
    Proof. intros E H s s' r Hm. rewrite E in Hm. exact (H s s' r Hm). Qed.

    Lemma pres_apply_step step : pres (apply_step step).
    Proof.
      eapply pres_ext; [apply apply_step_eq|].
      destruct (states_for sc (ms_entered step)); [|apply pres_fail].
      destruct (states_for sc (ms_exited step)); [|apply pres_fail].
      apply pres_bind; [apply pres_apply_step_body|]. intros sent.
      apply pres_bind; [apply pres_raise_all|]. intros _. apply pres_ret.
    Qed.

    Lemma pres_stabilize fuel : pres (stabilize fuel).
    Proof.
      induction fuel as [|f IH]; simpl; [apply pres_fail|].
      apply pres_get_bind. intros s. apply pres_at_of_pres.
      destruct (create_stabilization_step ctx sc (m_i s)) as [[step|e]|];
        [|apply pres_fail|apply pres_ret].
      apply pres_bind; [apply pres_apply_step|]. intros a.
      apply pres_bind; [apply IH|]. intros r. apply pres_ret.
    Qed.

    Lemma pres_run_steps fuel steps : pres (run_steps fuel steps).
    Proof.
      induction steps as [|st rest IH]; simpl; [apply pres_ret|].
      apply pres_bind; [apply pres_apply_step|]. intros a.
      apply pres_bind; [apply pres_stabilize|]. intros ss.
      apply pres_bind; [apply IH|]. intros r. apply pres_ret.
    Qed.

    (* ---------------------------------------------------------- execute_once *)
    Hypothesis R_pop_i : forall s t e q,
      i_iq (m_i s) = (t, e) :: q -> (t <= i_time (m_i s))%Z -> R s (upd (set_iq q) s).
    Hypothesis R_pop_e : forall s t e q,
      i_eq (m_i s) = (t, e) :: q -> (t <= i_time (m_i s))%Z ->
      due_head (i_time (m_i s)) (i_iq (m_i s)) = None -> R s (upd (set_eq q) s).

    Lemma pres_consume_event : pres consume_event.
    Proof.
      intros s s' r H. unfold Interp.consume_event, Interp.bind, Interp.get in H.
      destruct (i_iq (m_i s)) as [|[t e] q] eqn:Ei.
      - destruct (i_eq (m_i s)) as [|[t2 e2] q2] eqn:Ee.
        + inversion H; subst. apply R_refl.
        + destruct (t2 <=? i_time (m_i s))%Z eqn:L; inversion H; subst; [|apply R_refl].
          apply (R_pop_e s t2 e2 q2 Ee); [apply Z.leb_le, L|]. rewrite Ei. reflexivity.
      - destruct (t <=? i_time (m_i s))%Z eqn:L.
        + inversion H; subst. apply (R_pop_i s t e q Ei). apply Z.leb_le, L.
        + destruct (i_eq (m_i s)) as [|[t2 e2] q2] eqn:Ee.
          * inversion H; subst. apply R_refl.
          * destruct (t2 <=? i_time (m_i s))%Z eqn:L2; inversion H; subst; [|apply R_refl].
            apply (R_pop_e s t2 e2 q2 Ee); [apply Z.leb_le, L2|]. rewrite Ei. simpl. rewrite L.
            reflexivity.
    Qed.

    (* execute_once = first modify ;;; execute_once_tail *)
    Definition consume_part (first : microstep) : M unit :=
      match ms_event first with
      | Some _ =>
          bind consume_event (fun e =>
          match e with
          | Some ev => raise_meta (MConsumed ev)
          | None => fail EStatechart
          end)
      | None => ret tt
      end.

    Definition macro_part (fuel : nat) (steps : list microstep) : M (option macrostep) :=
      match steps with
      | [] => ret None
      | first :: _ =>
          bind (consume_part first) (fun _ =>
          bind (run_steps fuel steps) (fun executed =>
          bind get (fun s => ret (Some (i_time s, executed)))))
      end.

    Definition finish_part (macro : option macrostep) : M (option macrostep) :=
      bind (check_invariants (match macro with Some (_, ex) => macro_event ex | None => None end))
        (fun _ => bind (raise_meta MStepEnded) (fun _ => ret macro)).

    Definition execute_once_tail (fuel : nat) (now : Z) : M (option macrostep) :=
      bind (raise_meta (MStepStarted now)) (fun _ =>
      bind compute_steps (fun steps =>
      bind (macro_part fuel steps) finish_part)).

    Lemma execute_once_eq fuel now :
      execute_once fuel now =
      bind (modify (fun s => set_sent [] (set_time now s))) (fun _ => execute_once_tail fuel now).
    Proof. reflexivity. Qed.

    Lemma pres_raise_meta_outer m :
      (forall s, R s (fst (raise_meta m s))) -> pres (raise_meta m).
    Proof. intros Hm s s' r H. rewrite (proj1 (raise_meta_inv _ _ _ _ H)). apply Hm. Qed.

    (* the three meta events raised by execute_once itself *)
    Hypothesis R_meta_consumed : forall s e, R s (fst (raise_meta (MConsumed e) s)).

    Lemma pres_consume_part first : pres (consume_part first).
    Proof.
      unfold consume_part. destruct (ms_event first); [|apply pres_ret].
      apply pres_bind; [apply pres_consume_event|].
      intros [ev|]; [apply pres_raise_meta_outer; intros s; apply R_meta_consumed|apply pres_fail].
    Qed.

    Lemma pres_macro_part fuel steps : pres (macro_part fuel steps).
    Proof.
      unfold macro_part. destruct steps as [|first rest]; [apply pres_ret|].
      apply pres_bind; [apply pres_consume_part|]. intros _.
      apply pres_bind; [apply pres_run_steps|]. intros executed.
      apply pres_bind; [apply pres_get|]. intros s. apply pres_ret.
    Qed.

    Hypothesis R_meta_ended : forall s, R s (fst (raise_meta MStepEnded s)).

    Lemma pres_finish_part macro : pres (finish_part macro).
    Proof.
      unfold finish_part. apply pres_bind; [apply pres_check_invariants|]. intros _.
      apply pres_bind; [apply pres_raise_meta_outer, R_meta_ended|]. intros _. apply pres_ret.
    Qed.

    Hypothesis R_meta_started : forall s t, R s (fst (raise_meta (MStepStarted t) s)).

    (* everything execute_once does after setting the time *)
    Lemma pres_execute_once_tail fuel now : pres (execute_once_tail fuel now).
    Proof.
      unfold execute_once_tail.
      apply pres_bind; [apply pres_raise_meta_outer; intros s; apply R_meta_started|]. intros _.
      apply pres_bind; [apply pres_compute_steps|]. intros steps.
      apply pres_bind; [apply pres_macro_part|]. intros macro. apply pres_finish_part.
    Qed.

    Hypothesis R_start : forall s now, R s (upd (fun i => set_sent [] (set_time now i)) s).

    Lemma pres_execute_once fuel now : pres (execute_once fuel now).
    Proof.
      rewrite execute_once_eq. apply pres_bind; [apply pres_modify; intros s; apply R_start|].
      intros _. apply pres_execute_once_tail.
    Qed.
  End Pres.

  (* ============================================================ bundled footprints *)
  (* R is closed under everything code execution, contract checking, transition selection, state
     entry/exit and transition processing can do (everything but the queues, the time, and the
     three meta events raised by execute_once itself) *)
  Record mframe (R : mst -> mst -> Prop) : Prop := {
    mf_refl : forall s, R s s;
    mf_trans : forall a b c, R a b -> R b c -> R a c;
    mf_obs : forall s o, is_meta_obs o = false -> R s (fst (observe o s));
    mf_meta : forall s m, inner_meta m = true -> R s (fst (raise_meta m s));
    mf_ctx : forall s c, R s (upd (set_ctx c) s);
    mf_old : forall s o, R s (upd (set_old o) s);
    mf_init : forall s b, R s (upd (set_initialized b) s);
    mf_memory : forall s m, R s (upd (set_memory m) s);
    mf_config : forall s c, R s (upd (set_config c) s);
    mf_entry : forall s e, R s (upd (set_entry e) s);
    mf_idle : forall s e, R s (upd (set_idle e) s);
    mf_sent : forall s l, R s (upd (set_sent l) s)
  }.

  (* ... and moreover under sending internal events *)
  Definition msend_frame (R : mst -> mst -> Prop) : Prop :=
    forall s e, e_kind e = Internal -> R s (upd (fun i => queue_event i e) s).

  (* ... and under consuming the due head of a queue *)
  Definition mpop_frame (R : mst -> mst -> Prop) : Prop :=
    (forall s t e q, i_iq (m_i s) = (t, e) :: q -> (t <= i_time (m_i s))%Z -> R s (upd (set_iq q) s)) /\
    (forall s t e q, i_eq (m_i s) = (t, e) :: q -> (t <= i_time (m_i s))%Z ->
                     due_head (i_time (m_i s)) (i_iq (m_i s)) = None -> R s (upd (set_eq q) s)).

  (* ... and under the meta events of execute_once *)
  Definition mouter_frame (R : mst -> mst -> Prop) : Prop :=
    forall s m, inner_meta m = false -> R s (fst (raise_meta m s)).

  Section MFrame.
    Variable R : mst -> mst -> Prop.
    Hypothesis MF : mframe R.

    Let Hr := mf_refl R MF.  Let Ht := mf_trans R MF.  Let Ho := mf_obs R MF.
    Let Hm := mf_meta R MF.  Let Hctx := mf_ctx R MF.  Let Hold := mf_old R MF.
    Let Hinit := mf_init R MF.  Let Hmem := mf_memory R MF.  Let Hcfg := mf_config R MF.
    Let Hent := mf_entry R MF.  Let Hidl := mf_idle R MF.  Let Hsnt := mf_sent R MF.

    Lemma mf_raise_meta m : inner_meta m = true -> pres R (raise_meta m).
    Proof. apply pres_raise_meta; auto. Qed.
    Lemma mf_run_code k o cd ev : pres R (run_code k o cd ev).
    Proof. apply pres_run_code; auto. Qed.
    Lemma mf_eval_cond k o idx cd ev : pres R (eval_cond k o idx cd ev).
    Proof. apply pres_eval_cond; auto. Qed.
    Lemma mf_eval_conds k o cds ev idx : pres R (eval_conds k o idx cds ev).
    Proof. apply pres_eval_conds; auto. Qed.
    Lemma mf_contract k o pre post inv ev : pres R (contract k o pre post inv ev).
    Proof. apply pres_contract; auto. Qed.
    Lemma mf_select_transitions event states : pres R (select_transitions event states).
    Proof. apply pres_select_transitions; auto. Qed.
    Lemma mf_sort_transitions ts : pres R (sort_transitions ts).
    Proof. apply pres_sort_transitions; auto. Qed.
    Lemma mf_compute_steps : pres R compute_steps.
    Proof. apply pres_compute_steps; auto. Qed.
    Lemma mf_exit_state active ev st : pres R (exit_state active ev st).
    Proof. apply pres_exit_state; auto. Qed.
    Lemma mf_enter_state ev st : pres R (enter_state ev st).
    Proof. apply pres_enter_state; auto. Qed.
    Lemma mf_process_transition ev i : pres R (process_transition ev i).
    Proof. apply pres_process_transition; auto. Qed.
    Lemma mf_apply_step_body ev tr entered exited : pres R (apply_step_body ev tr entered exited).
    Proof. apply pres_apply_step_body; auto. Qed.
    Lemma mf_check_invariants ev : pres R (check_invariants ev).
    Proof. apply pres_check_invariants; auto. Qed.
    Lemma mf_finish_part macro :
      (forall s, R s (fst (raise_meta MStepEnded s))) -> pres R (finish_part macro).
    Proof. intros He. apply pres_finish_part; auto. Qed.

    Hypothesis SF : msend_frame R.

    Lemma mf_raise_event e : pres R (raise_event e).
    Proof. apply pres_raise_event; auto. Qed.
    Lemma mf_raise_all sent : pres R (raise_all sent).
    Proof. apply pres_raise_all; auto. Qed.
    Lemma mf_apply_step step : pres R (apply_step step).
    Proof. apply pres_apply_step; auto. Qed.
    Lemma mf_stabilize fuel : pres R (stabilize fuel).
    Proof. apply pres_stabilize; auto. Qed.
    Lemma mf_run_steps fuel steps : pres R (run_steps fuel steps).
    Proof. apply pres_run_steps; auto. Qed.

    Hypothesis PF : mpop_frame R.

    Lemma mf_consume_event : pres R consume_event.
    Proof. apply pres_consume_event; auto; apply PF. Qed.

    Hypothesis OF : mouter_frame R.

    Lemma mf_execute_once_tail fuel now : pres R (execute_once_tail fuel now).
    Proof.
      apply pres_execute_once_tail; auto; try apply PF; intros; apply OF; reflexivity.
    Qed.
  End MFrame.

  (* the conjunction of two frames is a frame *)
  Definition rconj (R1 R2 : mst -> mst -> Prop) : mst -> mst -> Prop :=
    fun s s' => R1 s s' /\ R2 s s'.

  Lemma mframe_conj (R1 R2 : mst -> mst -> Prop) : mframe R1 -> mframe R2 -> mframe (rconj R1 R2).
  Proof.
    intros F1 F2. unfold rconj. constructor.
    - intros s. split; [apply F1|apply F2].
    - intros a b c [A1 A2] [B1 B2].
      split; [eapply (mf_trans _ F1)|eapply (mf_trans _ F2)]; eauto.
    - intros s o Ho. split; [apply F1|apply F2]; exact Ho.
    - intros s m Hm. split; [apply F1|apply F2]; exact Hm.
    - intros s c. split; [apply F1|apply F2].
    - intros s o. split; [apply F1|apply F2].
    - intros s b. split; [apply F1|apply F2].
    - intros s m. split; [apply F1|apply F2].
    - intros s c. split; [apply F1|apply F2].
    - intros s e. split; [apply F1|apply F2].
    - intros s e. split; [apply F1|apply F2].
    - intros s l. split; [apply F1|apply F2].
  Qed.

  Lemma msend_conj (R1 R2 : mst -> mst -> Prop) : msend_frame R1 -> msend_frame R2 -> msend_frame (rconj R1 R2).
  Proof. intros F1 F2 s e K. split; [apply F1|apply F2]; exact K. Qed.

  (* ============================================================ relations on the trace alone *)
  Definition liftT (Rt : list (obs ctx) -> list (obs ctx) -> Prop) : mst -> mst -> Prop :=
    fun s s' => Rt (m_tr s) (m_tr s').

  Lemma mframe_trace (Rt : list (obs ctx) -> list (obs ctx) -> Prop) :
    (forall t, Rt t t) -> (forall a b c, Rt a b -> Rt b c -> Rt a c) ->
    (forall t o, is_meta_obs o = false -> Rt t (o :: t)) ->
    (forall t m, inner_meta m = true -> Rt t (ObMeta m :: t)) ->
    mframe (liftT Rt).
  Proof.
    intros Hr Ht Ho Hm. unfold liftT. constructor; intros; simpl; eauto.
    unfold Interp.raise_meta. destruct (emit (i_time (m_i s)) m (m_x s)) as [x' [e|]]; simpl; auto.
  Qed.

  Lemma msend_trace (Rt : list (obs ctx) -> list (obs ctx) -> Prop) : (forall t, Rt t t) -> msend_frame (liftT Rt).
  Proof. intros Hr s e K. apply Hr. Qed.

  Lemma mpop_trace (Rt : list (obs ctx) -> list (obs ctx) -> Prop) : (forall t, Rt t t) -> mpop_frame (liftT Rt).
  Proof. intros Hr. split; intros; apply Hr. Qed.

  (* ============================================================ relations on the interpreter state *)
  Definition lift (Ri : ist -> ist -> Prop) : mst -> mst -> Prop :=
    fun s s' => Ri (m_i s) (m_i s').

  Lemma lift_meta (Ri : ist -> ist -> Prop) :
    (forall i, Ri i i) -> forall s m, lift Ri s (fst (raise_meta m s)).
  Proof.
    intros H s m. unfold lift, Interp.raise_meta.
    destruct (emit (i_time (m_i s)) m (m_x s)) as [x' [e|]]; apply H.
  Qed.

  Record code_frame (Ri : ist -> ist -> Prop) : Prop := {
    cf_refl : forall i, Ri i i;
    cf_trans : forall a b c, Ri a b -> Ri b c -> Ri a c;
    cf_ctx : forall i c, Ri i (set_ctx c i);
    cf_old : forall i o, Ri i (set_old o i);
    cf_init : forall i b, Ri i (set_initialized b i);
    cf_memory : forall i m, Ri i (set_memory m i);
    cf_config : forall i c, Ri i (set_config c i);
    cf_entry : forall i e, Ri i (set_entry e i);
    cf_idle : forall i e, Ri i (set_idle e i);
    cf_sent : forall i l, Ri i (set_sent l i)
  }.

  Definition send_frame (Ri : ist -> ist -> Prop) : Prop :=
    forall i e, e_kind e = Internal -> Ri i (queue_event i e).

  Definition pop_frame (Ri : ist -> ist -> Prop) : Prop :=
    (forall i t e q, i_iq i = (t, e) :: q -> (t <= i_time i)%Z -> Ri i (set_iq q i)) /\
    (forall i t e q, i_eq i = (t, e) :: q -> (t <= i_time i)%Z ->
                     due_head (i_time i) (i_iq i) = None -> Ri i (set_eq q i)).

  Lemma mframe_lift (Ri : ist -> ist -> Prop) : code_frame Ri -> mframe (lift Ri).
  Proof.
    intros CF. unfold lift. constructor; intros; simpl; try apply CF.
    - eapply (cf_trans _ CF); eauto.
    - apply (lift_meta Ri (cf_refl _ CF)).
  Qed.

  Lemma msend_lift (Ri : ist -> ist -> Prop) : send_frame Ri -> msend_frame (lift Ri).
  Proof. intros SF s e K. apply SF, K. Qed.

  Lemma mpop_lift (Ri : ist -> ist -> Prop) : pop_frame Ri -> mpop_frame (lift Ri).
  Proof. intros [P1 P2]. split; intros s; [apply (P1 (m_i s))|apply (P2 (m_i s))]. Qed.

  Lemma mouter_lift (Ri : ist -> ist -> Prop) : (forall i, Ri i i) -> mouter_frame (lift Ri).
  Proof. intros Hr s m _. apply lift_meta, Hr. Qed.

  Section CodeFrame.
    Variable Ri : ist -> ist -> Prop.
    Hypothesis CF : code_frame Ri.
    Let MF := mframe_lift Ri CF.

    Lemma cf_raise_meta m : pres (lift Ri) (raise_meta m).
    Proof. apply pres_raise_meta_outer. intros s. apply lift_meta, CF. Qed.
    Definition cf_run_code := mf_run_code _ MF.
    Definition cf_eval_cond := mf_eval_cond _ MF.
    Definition cf_eval_conds := mf_eval_conds _ MF.
    Definition cf_contract := mf_contract _ MF.
    Definition cf_select_transitions := mf_select_transitions _ MF.
    Definition cf_sort_transitions := mf_sort_transitions _ MF.
    Definition cf_compute_steps := mf_compute_steps _ MF.
    Definition cf_exit_state := mf_exit_state _ MF.
    Definition cf_enter_state := mf_enter_state _ MF.
    Definition cf_process_transition := mf_process_transition _ MF.
    Definition cf_apply_step_body := mf_apply_step_body _ MF.
    Definition cf_check_invariants := mf_check_invariants _ MF.
    Lemma cf_finish_part macro : pres (lift Ri) (finish_part macro).
    Proof. apply (mf_finish_part _ MF). intros s. apply lift_meta, CF. Qed.

    Hypothesis SF : send_frame Ri.
    Let MS := msend_lift Ri SF.

    Definition cf_raise_event := mf_raise_event _ MF MS.
    Definition cf_raise_all := mf_raise_all _ MF MS.
    Definition cf_apply_step := mf_apply_step _ MF MS.
    Definition cf_stabilize := mf_stabilize _ MF MS.
    Definition cf_run_steps := mf_run_steps _ MF MS.

    Hypothesis PF : pop_frame Ri.

    Definition cf_consume_event := mf_consume_event _ MF (mpop_lift Ri PF).
    Definition cf_execute_once_tail :=
      mf_execute_once_tail _ MF MS (mpop_lift Ri PF) (mouter_lift Ri (cf_refl _ CF)).
  End CodeFrame.

  (* ============================================================ instances *)
  (* --- the two queues and the time are untouched --- *)
  Definition same_queues (i i' : ist) : Prop :=
    i_iq i' = i_iq i /\ i_eq i' = i_eq i /\ i_time i' = i_time i.

  Lemma same_queues_frame : code_frame same_queues.
  Proof.
    unfold same_queues. constructor; try (intros; simpl; auto; fail).
    intros a b c (A1 & A2 & A3) (B1 & B2 & B3). repeat split; congruence.
  Qed.

  (* --- the time is untouched (by everything except the first modify of execute_once) --- *)
  Definition same_time (i i' : ist) : Prop := i_time i' = i_time i.

  Lemma same_time_frame : code_frame same_time.
  Proof.
    unfold same_time. constructor; try (intros; simpl; auto; fail).
    intros a b c A B. congruence.
  Qed.

  Lemma same_time_send : send_frame same_time.
  Proof. intros i e K. unfold same_time, queue_event. destruct (e_kind e); reflexivity. Qed.

  Lemma same_time_pop : pop_frame same_time.
  Proof. split; intros; reflexivity. Qed.

  Lemma same_time_queue_event i e : same_time i (queue_event i e).
  Proof. unfold same_time, queue_event. destruct (e_kind e); reflexivity. Qed.

  (* i_time is frozen during a step: only the first modify of execute_once writes it *)
  Lemma execute_once_tail_time fuel now s s' r :
    execute_once_tail fuel now s = (s', r) -> i_time (m_i s') = i_time (m_i s).
  Proof.
    apply (cf_execute_once_tail same_time same_time_frame same_time_send same_time_pop).
  Qed.

  Lemma execute_once_time fuel now s s' r :
    execute_once fuel now s = (s', r) -> i_time (m_i s') = now.
  Proof.
    rewrite execute_once_eq. intros H. apply bind_inv in H.
    destruct H as [(e & H & _)|(a & s1 & H1 & H2)]; [inversion H|].
    inversion H1; subst. apply execute_once_tail_time in H2. rewrite H2. reflexivity.
  Qed.

  (* --- queue evolution: internal events are inserted, nothing else happens to the queues --- *)
  Definition qins (l : list event) (i i' : ist) : Prop :=
    i_iq i' = ins_all (i_time i) (internals l) (i_iq i) /\ i_eq i' = i_eq i /\ i_time i' = i_time i.

  Definition qevol (i i' : ist) : Prop := exists l, qins l i i'.

  Lemma qins_nil i i' : qins [] i i' <-> same_queues i i'.
  Proof. unfold qins, same_queues. simpl. tauto. Qed.

  Lemma qins_refl i : qins [] i i.
  Proof. apply qins_nil. apply (cf_refl _ same_queues_frame). Qed.

  Lemma qins_app l1 l2 a b c : qins l1 a b -> qins l2 b c -> qins (l1 ++ l2) a c.
  Proof.
    intros (H1 & H2 & H3) (K1 & K2 & K3). repeat split; try congruence.
    rewrite internals_app, ins_all_app, K1, H1, H3. reflexivity.
  Qed.

  Lemma qins_same_l l a b c : same_queues a b -> qins l b c -> qins l a c.
  Proof. intros H K. apply qins_nil in H. apply (qins_app [] l a b c H K). Qed.

  Lemma qins_same_r l a b c : qins l a b -> same_queues b c -> qins l a c.
  Proof.
    intros H K. apply qins_nil in K. rewrite <- (app_nil_r l). apply (qins_app l [] a b c H K).
  Qed.

  Lemma qins_queue_event i e : e_kind e = Internal -> qins [e] i (queue_event i e).
  Proof.
    intros K. unfold qins, queue_event, internals. simpl.
    rewrite (proj2 (is_internal_true e) K), K. simpl. auto.
  Qed.

  Lemma qins_not_internal l i i' :
    Forall (fun e => e_kind e <> Internal) l -> qins l i i' -> same_queues i i'.
  Proof.
    intros Hl H. apply qins_nil. unfold qins in *.
    assert (E : internals l = []).
    { clear H. induction Hl as [|e l He Hl IH]; simpl; auto.
      destruct (is_internal e) eqn:I; [apply is_internal_true in I; contradiction|exact IH]. }
    rewrite E in H. exact H.
  Qed.

  Lemma qevol_refl i : qevol i i.
  Proof. exists []. apply qins_refl. Qed.

  Lemma qevol_trans a b c : qevol a b -> qevol b c -> qevol a c.
  Proof. intros (l1 & H1) (l2 & H2). exists (l1 ++ l2). eapply qins_app; eauto. Qed.

  Lemma same_queues_qevol i i' : same_queues i i' -> qevol i i'.
  Proof. intros H. exists []. apply qins_nil, H. Qed.

  Lemma qevol_frame : code_frame qevol.
  Proof.
    constructor;
      first [ exact qevol_refl | exact qevol_trans
            | intros; apply same_queues_qevol; apply same_queues_frame ].
  Qed.

  Lemma qevol_send : send_frame qevol.
  Proof. intros i e K. exists [e]. apply qins_queue_event, K. Qed.

  (* the indexed versions: WHICH events were inserted *)
  Lemma raise_event_qins e s s' r : raise_event e s = (s', r) -> qins [e] (m_i s) (m_i s').
  Proof.
    unfold Interp.raise_event. destruct (e_kind e) eqn:K.
    - intros H. inversion H; subst. unfold qins, internals. simpl.
      unfold is_internal. rewrite K. simpl. auto.
    - intros H. apply bind_inv in H. destruct H as [(x & H & _)|(a & s1 & H1 & H2)]; [inversion H|].
      inversion H1; subst. eapply qins_same_r; [apply qins_queue_event, K|].
      revert H2. apply (pres_bind (lift same_queues)).
      + apply (mf_trans _ (mframe_lift _ same_queues_frame)).
      + apply cf_raise_meta, same_queues_frame.
      + intros _. destruct (has_delay e); [apply cf_raise_meta, same_queues_frame|].
        apply pres_ret. apply (mf_refl _ (mframe_lift _ same_queues_frame)).
    - intros H. assert (Q : same_queues (m_i s) (m_i s')).
      { revert H. apply cf_raise_meta, same_queues_frame. }
      unfold qins, internals. simpl. unfold is_internal. rewrite K. simpl. exact Q.
  Qed.

  Lemma raise_all_qins sent : forall s s' r,
    raise_all sent s = (s', r) ->
    match r with
    | inl _ => qins sent (m_i s) (m_i s')
    | inr _ => exists l1 l2, sent = l1 ++ l2 /\ qins l1 (m_i s) (m_i s')
    end.
  Proof.
    unfold raise_all. induction sent as [|e sent IH]; intros s s' r H; simpl in H.
    - inversion H; subst. apply qins_refl.
    - apply bind_inv in H. destruct H as [(x & H & ->)|([] & s1 & H1 & H2)].
      + exists [e], sent. split; [reflexivity|].
        apply bind_inv in H. destruct H as [(y & H & _)|(a & s1 & H1 & H2)]; [|inversion H2].
        eapply raise_event_qins; eauto.
      + assert (Q1 : qins [e] (m_i s) (m_i s1)).
        { apply bind_inv in H1. destruct H1 as [(y & H & Hy)|(a & s0 & H0 & H3)]; [discriminate|].
          inversion H3; subst. eapply qins_same_r; [eapply raise_event_qins; eauto|].
          simpl. apply (cf_sent _ same_queues_frame). }
        specialize (IH _ _ _ H2). destruct r as [u|x].
        * apply (qins_app [e] sent _ _ _ Q1 IH).
        * destruct IH as (l1 & l2 & -> & Q2). exists (e :: l1), l2. split; [reflexivity|].
          apply (qins_app [e] l1 _ _ _ Q1 Q2).
  Qed.

  Lemma apply_step_qins step s s' r :
    apply_step step s = (s', r) ->
    match r with
    | inl a => qins (ms_sent a) (m_i s) (m_i s') /\
               ms_event a = ms_event step /\ ms_trans a = ms_trans step /\
               ms_entered a = ms_entered step /\ ms_exited a = ms_exited step
    | inr _ => qevol (m_i s) (m_i s')
    end.
  Proof.
    rewrite apply_step_eq.
    destruct (states_for sc (ms_entered step)) as [entered|];
      [|intros H; inversion H; subst; apply qevol_refl].
    destruct (states_for sc (ms_exited step)) as [exited|];
      [|intros H; inversion H; subst; apply qevol_refl].
    intros H. apply bind_inv in H. destruct H as [(x & H & ->)|(sent & s1 & H1 & H2)].
    - apply same_queues_qevol. revert H. apply cf_apply_step_body, same_queues_frame.
    - assert (Q1 : same_queues (m_i s) (m_i s1)).
      { revert H1. apply cf_apply_step_body, same_queues_frame. }
      apply bind_inv in H2. destruct H2 as [(x & H & ->)|(u & s2 & H2 & H3)].
      + apply raise_all_qins in H. destruct H as (l1 & l2 & _ & Q2). exists l1.
        eapply qins_same_l; eauto.
      + inversion H3; subst. simpl. split; [|repeat split; reflexivity].
        apply raise_all_qins in H2. eapply qins_same_l; eauto.
  Qed.

  (* stabilization steps carry no event and no transition *)
  Lemma first_some_inv A B (P : B -> Prop) (f : A -> option B) l y :
    (forall x z, f x = Some z -> P z) -> first_some f l = Some y -> P y.
  Proof.
    intros Hf. induction l as [|x l IH]; simpl; [discriminate|].
    destruct (f x) eqn:E; [intros H; inversion H; subst; eauto|exact IH].
  Qed.

  Lemma create_stabilization_step_event (i : ist) step :
    create_stabilization_step ctx sc i = Some (inl step) ->
    ms_event step = None /\ ms_trans step = None /\ ms_sent step = [].
  Proof.
    unfold create_stabilization_step.
    set (P := fun z : microstep + err =>
                match z with inl st => ms_event st = None /\ ms_trans st = None /\ ms_sent st = []
                        | inr _ => True end).
    intros H. change (P (inl step)).
    destruct (first_some (stab_for_leaf sc (i_memory i)) _) eqn:E1.
    - inversion H; subst. revert E1. apply first_some_inv. clear.
      intros leaf z. unfold stab_for_leaf.
      destruct (state_for sc leaf) as [st|]; [|intros H; inversion H; exact I].
      destruct (s_kind st).
      + discriminate.
      + destruct (truthy (s_initial st)); intros H; inversion H; simpl; auto.
      + destruct (children_for sc leaf); intros H; inversion H; simpl; auto.
      + destruct (ostr_eqb _ _); [|discriminate].
        destruct (root sc); intros H; inversion H; simpl; auto.
      + destruct (lookup leaf _); [intros H; inversion H; simpl; auto|].
        destruct (s_memory st); intros H; inversion H; simpl; auto.
      + destruct (lookup leaf _); [intros H; inversion H; simpl; auto|].
        destruct (s_memory st); intros H; inversion H; simpl; auto.
    - revert H. apply first_some_inv. clear.
      intros n z. unfold stab_for_orthogonal.
      destruct (state_for sc n) as [st|]; [|intros H; inversion H; exact I].
      destruct (s_kind st); try discriminate.
      destruct (filter _ _); intros H; inversion H; simpl; auto.
  Qed.

  Lemma stabilize_qins fuel : forall s s' r,
    stabilize fuel s = (s', r) ->
    match r with
    | inl ss => qins (concat (map ms_sent ss)) (m_i s) (m_i s') /\
                Forall (fun a => ms_event a = None /\ ms_trans a = None) ss
    | inr _ => qevol (m_i s) (m_i s')
    end.
  Proof.
    induction fuel as [|f IH]; intros s s' r H; simpl in H.
    - inversion H; subst. apply qevol_refl.
    - unfold Interp.bind at 1, Interp.get at 1 in H.
      destruct (create_stabilization_step ctx sc (m_i s)) as [[step|e]|] eqn:E.
      + apply create_stabilization_step_event in E. destruct E as (E1 & E2 & _).
        apply bind_inv in H. destruct H as [(x & H & ->)|(a & s1 & H1 & H2)].
        * apply apply_step_qins in H. exact H.
        * apply apply_step_qins in H1. destruct H1 as (Q1 & A1 & A2 & _).
          apply bind_inv in H2. destruct H2 as [(x & H & ->)|(ss & s2 & H2 & H3)].
          -- apply IH in H. eapply qevol_trans; [eexists; eauto|exact H].
          -- apply IH in H2. destruct H2 as (Q2 & F2). inversion H3; subst. simpl. split.
             ++ eapply qins_app; eauto.
             ++ constructor; [split; congruence|exact F2].
      + inversion H; subst. apply qevol_refl.
      + inversion H; subst. simpl. split; [apply qins_refl|constructor].
  Qed.

  Lemma macro_event_app_none ss r :
    Forall (fun a => ms_event a = None /\ ms_trans a = None) ss ->
    macro_event (ss ++ r) = macro_event r.
  Proof. induction 1 as [|a ss [Ha _] _ IH]; simpl; auto. rewrite Ha. exact IH. Qed.

  Lemma run_steps_qins fuel steps : forall s s' r,
    run_steps fuel steps s = (s', r) ->
    match r with
    | inl ex => qins (concat (map ms_sent ex)) (m_i s) (m_i s') /\
                macro_event ex = macro_event steps /\
                (steps <> [] -> ex <> [])
    | inr _ => qevol (m_i s) (m_i s')
    end.
  Proof.
    induction steps as [|st rest IH]; intros s s' r H; simpl in H.
    - inversion H; subst. simpl. split; [apply qins_refl|]. split; auto.
    - apply bind_inv in H. destruct H as [(x & H & ->)|(a & s1 & H1 & H2)].
      + apply apply_step_qins in H. exact H.
      + apply apply_step_qins in H1. destruct H1 as (Q1 & A1 & _).
        apply bind_inv in H2. destruct H2 as [(x & H & ->)|(ss & s2 & H2 & H3)].
        * apply stabilize_qins in H. eapply qevol_trans; [eexists; eauto|exact H].
        * apply stabilize_qins in H2. destruct H2 as (Q2 & F2).
          apply bind_inv in H3. destruct H3 as [(x & H & ->)|(ex & s3 & H3 & H4)].
          -- apply IH in H. eapply qevol_trans; [|exact H]. eexists. eapply qins_app; eauto.
          -- apply IH in H3. destruct H3 as (Q3 & M3 & _). inversion H4; subst. simpl.
             split; [|split; [|discriminate]].
             ++ rewrite map_app, concat_app. eapply qins_app; [exact Q1|].
                eapply qins_app; eauto.
             ++ rewrite A1. rewrite (macro_event_app_none _ _ F2), M3. reflexivity.
  Qed.

  (* ============================================================ explicit footprints *)
  (* The statements "f changes only ..." spelled out for the functions that do not touch the
     queues.  `upd_by set` : the interpreter state changed at most in the field written by `set`,
     the listeners' state m_x is untouched (the trace may have grown). *)
  Definition only_trace (s s' : mst) : Prop := m_i s' = m_i s /\ m_x s' = m_x s.

  Definition upd_by {T} (set : T -> ist -> ist) (s s' : mst) : Prop :=
    (exists x, m_i s' = set x (m_i s)) /\ m_x s' = m_x s.

  Lemma only_trace_refl s : only_trace s s.
  Proof. split; reflexivity. Qed.
  Lemma only_trace_trans a b c : only_trace a b -> only_trace b c -> only_trace a c.
  Proof. intros [A1 A2] [B1 B2]. split; congruence. Qed.
  Lemma only_trace_obs s o : is_meta_obs o = false -> only_trace s (fst (observe o s)).
  Proof. intros _. split; reflexivity. Qed.

  Lemma upd_by_trans {T} (set : T -> ist -> ist) :
    (forall x y i, set x (set y i) = set x i) ->
    forall a b c, upd_by set a b -> upd_by set b c -> upd_by set a c.
  Proof.
    intros Hss a b c [(x & A1) A2] [(y & B1) B2]. split; [|congruence].
    exists y. rewrite B1, A1. apply Hss.
  Qed.

  (* eval_cond / eval_conds / select_transitions / check_invariants: nothing but the trace *)
  Lemma eval_cond_footprint k o idx cd ev s s' r :
    eval_cond k o idx cd ev s = (s', r) -> only_trace s s'.
  Proof.
    apply (pres_eval_cond only_trace only_trace_refl only_trace_trans only_trace_obs).
  Qed.

  Lemma eval_conds_footprint k o idx cds ev s s' r :
    eval_conds k o idx cds ev s = (s', r) -> only_trace s s'.
  Proof.
    apply (pres_eval_conds only_trace only_trace_refl only_trace_trans only_trace_obs).
  Qed.

  Lemma select_transitions_footprint event states s s' r :
    select_transitions event states s = (s', r) -> only_trace s s'.
  Proof.
    apply (pres_select_transitions only_trace only_trace_refl only_trace_trans only_trace_obs).
  Qed.

  Lemma check_invariants_footprint ev s s' r :
    check_invariants ev s = (s', r) -> only_trace s s'.
  Proof.
    apply (pres_check_invariants only_trace only_trace_refl only_trace_trans only_trace_obs).
  Qed.

  (* sort_transitions: nothing at all *)
  Lemma sort_transitions_footprint ts s s' r : sort_transitions ts s = (s', r) -> s' = s.
  Proof.
    apply (pres_sort_transitions (fun s s' => s' = s)). reflexivity.
  Qed.

  (* raise_meta: only the listeners' state and the trace (see also raise_meta_inv) *)
  Lemma raise_meta_footprint m s s' r : raise_meta m s = (s', r) -> m_i s' = m_i s.
  Proof. intros H. apply raise_meta_inv in H. tauto. Qed.

  (* run_code: trace + i_ctx *)
  Lemma run_code_footprint k o cd ev s s' r :
    run_code k o cd ev s = (s', r) -> upd_by set_ctx s s'.
  Proof.
    apply (pres_run_code (upd_by set_ctx)).
    - apply upd_by_trans. reflexivity.
    - intros s0 ob _. split; [|reflexivity]. exists (i_ctx (m_i s0)). simpl.
      destruct (m_i s0); reflexivity.
    - intros s0 c. split; [|reflexivity]. exists c. reflexivity.
  Qed.

  (* contract: trace + i_old *)
  Lemma contract_footprint k o pre post inv ev s s' r :
    contract k o pre post inv ev s = (s', r) -> upd_by set_old s s'.
  Proof.
    apply (pres_contract (upd_by set_old)).
    - intros s0. split; [|reflexivity]. exists (i_old (m_i s0)). destruct (m_i s0); reflexivity.
    - apply upd_by_trans. reflexivity.
    - intros s0 ob _. split; [|reflexivity]. exists (i_old (m_i s0)). simpl.
      destruct (m_i s0); reflexivity.
    - intros s0 c. split; [|reflexivity]. exists c. reflexivity.
  Qed.

  (* compute_steps: trace + i_initialized *)
  Lemma compute_steps_footprint s s' r :
    compute_steps s = (s', r) -> upd_by set_initialized s s'.
  Proof.
    apply (pres_compute_steps (upd_by set_initialized)).
    - intros s0. split; [|reflexivity]. exists (i_initialized (m_i s0)).
      destruct (m_i s0); reflexivity.
    - apply upd_by_trans. reflexivity.
    - intros s0 ob _. split; [|reflexivity]. exists (i_initialized (m_i s0)). simpl.
      destruct (m_i s0); reflexivity.
    - intros s0 c. split; [|reflexivity]. exists c. reflexivity.
  Qed.
End Frame.

Print Assumptions pres_execute_once.
Print Assumptions run_steps_qins.
Print Assumptions execute_once_time.
Print Assumptions compute_steps_footprint.
