(* IOProofs.v -- C12 "YAML import accepts only sound statecharts" and C11 "export/import round trip"
   for the model of theories/IO.v (schema validation, import_from_dict, export_to_dict) built on the
   add_state/add_transition invariants of EditProofs.v.
   (work in progress: summary of theorems, hypotheses and gaps is filled in at the end of the work) *)
From Coq Require Import String Ascii List Bool ZArith NArith Arith Lia Permutation Sorted.
From Sismic Require Import Base Chart Edit IO IOCorr.
From SismicProofs Require Import SortLib EditProofs.
Import ListNotations.
Open Scope string_scope.
Open Scope list_scope.

(* ================================================================== 1. C12_sound *)

(* ---- erasing initial/memory: add_state/add_transition never look at them ---- *)
Definition clr (s : state) : state :=
  mkState (s_name s) (s_kind s) None None (s_on_entry s) (s_on_exit s) (s_pre s) (s_post s) (s_inv s).
Definition erase (c : chart) : chart :=
  with_states c (map (fun kv => (fst kv, clr (snd kv))) (c_states c)).

Lemma has_state_erase : forall c n, has_state (erase c) n = has_state c n.
Proof.
  intros c n. unfold has_state, erase, with_states. cbn [c_states].
  rewrite lookup_mapv. destruct (lookup n (c_states c)); reflexivity.
Qed.

Lemma lookup_erase : forall c n, lookup n (c_states (erase c)) = option_map clr (lookup n (c_states c)).
Proof. intros c n. unfold erase, with_states. cbn [c_states]. apply lookup_mapv. Qed.

Lemma keys_erase : forall c, map fst (c_states (erase c)) = map fst (c_states c).
Proof. intros c. unfold erase, with_states. cbn [c_states]. apply keys_mapv. Qed.

Lemma map_dset : forall {V W} (f : V -> W) k v (d : list (name * V)),
  map (fun kv => (fst kv, f (snd kv))) (dset k v d) = dset k (f v) (map (fun kv => (fst kv, f (snd kv))) d).
Proof.
  intros V W f k v d; induction d as [|[k0 v0] d IH]; simpl; [reflexivity|].
  destruct (str_eqb k k0); simpl; [reflexivity|]. rewrite IH; reflexivity.
Qed.

Lemma erase_register : forall c st p l,
  erase (register_chart c st p l) = register_chart (erase c) (clr st) p l.
Proof.
  intros c st p l. unfold erase, register_chart, with_states. cbn. rewrite map_dset. reflexivity.
Qed.

Lemma empty_chart_sound : forall nm d p, sound (empty_chart nm d p).
Proof.
  intros nm d p. constructor; cbn.
  - constructor.
  - constructor.
  - constructor; [intros []|constructor].
  - intros k s H; discriminate.
  - intros n. unfold has_state; cbn. split; [congruence|discriminate].
  - intros n. unfold has_state; cbn. split; [congruence|discriminate].
  - discriminate.
  - intros n q H; discriminate.
  - intros [k|] l ch H; cbn in H; [discriminate|]. inv H. intros [].
  - intros l H. inv H. cbn. lia.
  - exists (fun _ => 0). intros n q H; discriminate.
  - intros t [].
  - intros k s H; discriminate.
  - intros k s i H; discriminate.
  - intros k s m H; discriminate.
Qed.

Lemma erase_empty : forall nm d p, erase (empty_chart nm d p) = empty_chart nm d p.
Proof. reflexivity. Qed.

(* ---- the loop of import_from_dict, one iteration ---- *)
Definition push_subs (nm : name) (subs : list ydata) (acc : list (list (string * ydata) * option name)) :=
  fold_left (fun acc d => match d with YMap sm => acc ++ [(sm, Some nm)] | _ => acc end) subs acc.
Definition push_trans (nm : name) (ts : list ydata) (acc : list transition) :=
  fold_left (fun acc d => match d with YMap tm => acc ++ [import_transition nm tm] | _ => acc end) ts acc.
Definition subs_of (st : state) (m : list (string * ydata)) : list ydata :=
  match s_kind st with
  | KCompound => ylist_of "states" m
  | KOrthogonal => ylist_of "parallel states" m
  | _ => []
  end.

Lemma import_walk_S : forall f stack states trans,
  import_walk (S f) stack states trans =
  match rev stack with
  | [] => Some (states, trans)
  | (m, parent) :: rest_rev =>
      match import_state m with
      | None => None
      | Some st =>
          import_walk f (push_subs (s_name st) (subs_of st m) (rev rest_rev)) (states ++ [(st, parent)])
                      (push_trans (s_name st) (ylist_of "transitions" m) trans)
      end
  end.
Proof. reflexivity. Qed.

Lemma In_push_subs : forall nm subs acc e,
  In e (push_subs nm subs acc) -> In e acc \/ exists sm, e = (sm, Some nm) /\ In (YMap sm) subs.
Proof.
  intros nm subs; induction subs as [|d subs IH]; intros acc e H; cbn in H; [left; exact H|].
  apply IH in H. destruct H as [H|[sm [E Hin]]].
  - destruct d; try (left; exact H).
    apply in_app_or in H. destruct H as [H|[<-|[]]]; [left; exact H|].
    right. eexists; split; [reflexivity|left; reflexivity].
  - right. exists sm. split; [exact E|right; exact Hin].
Qed.

(* ---- order in which the states are registered: a parent before its children, one root first ---- *)
Definition snames (l : list (state * option name)) : list name := map (fun e => s_name (fst e)) l.

Definition pok (seen : list name) (p : option name) : Prop :=
  match p with None => seen = [] | Some q => In q seen end.

Fixpoint ordered (seen : list name) (l : list (state * option name)) : Prop :=
  match l with
  | [] => True
  | e :: r => pok seen (snd e) /\ ordered (s_name (fst e) :: seen) r
  end.

Lemma ordered_snoc : forall l seen e,
  ordered seen l -> pok (rev (snames l) ++ seen) (snd e) -> ordered seen (l ++ [e]).
Proof.
  induction l as [|a l IH]; intros seen e Ho Hp; cbn in *; [split; [exact Hp|exact I]|].
  destruct Ho as [H1 H2]. split; [exact H1|]. apply IH; [exact H2|].
  rewrite <- app_assoc in Hp. exact Hp.
Qed.

Lemma import_walk_ordered : forall fuel stack states trans res,
  ordered [] states ->
  (forall m p, In (m, p) stack -> exists q, p = Some q /\ In q (snames states)) ->
  import_walk fuel stack states trans = Some res -> ordered [] (fst res).
Proof.
  induction fuel as [|f IH]; intros stack states trans res Ho Hst H; [discriminate|].
  rewrite import_walk_S in H. destruct (rev stack) as [|[m parent] rr] eqn:Er.
  - inv H. exact Ho.
  - destruct (import_state m) as [st|]; [|discriminate].
    assert (Hsub : forall x, In x (rev rr) -> In x stack).
    { intros x Hx. apply in_rev. rewrite Er. right. apply in_rev. exact Hx. }
    apply IH in H; [exact H| |].
    + apply ordered_snoc; [exact Ho|]. cbn [snd].
      destruct (Hst m parent) as [q [-> Hq]]; [apply in_rev; rewrite Er; left; reflexivity|].
      cbn. apply in_or_app. left. apply in_rev in Hq. exact Hq.
    + intros m' p' Hin. apply In_push_subs in Hin. unfold snames. rewrite map_app.
      destruct Hin as [Hin|[sm [E _]]].
      * destruct (Hst m' p' (Hsub _ Hin)) as [q [-> Hq]]. exists q. split; [reflexivity|].
        apply in_or_app; left; exact Hq.
      * inv E. eexists; split; [reflexivity|]. apply in_or_app; right; left; reflexivity.
Qed.

Lemma import_walk_root_ordered : forall f root res,
  import_walk f [(root, None)] [] [] = Some res -> ordered [] (fst res).
Proof.
  intros [|f] root res H; [discriminate|]. rewrite import_walk_S in H. cbn [rev app] in H.
  destruct (import_state root) as [st|]; [|discriminate].
  eapply import_walk_ordered; [| |exact H].
  - cbn. split; [reflexivity|exact I].
  - intros m p Hin. apply In_push_subs in Hin. destruct Hin as [[]|[sm [E _]]].
    inv E. eexists; split; [reflexivity|left; reflexivity].
Qed.

(* ---- invariant of the registration loops ---- *)
Definition hist_ok (c : chart) : Prop :=
  forall k s, lookup k (c_states c) = Some s -> is_history (s_kind s) = true ->
    exists p ps, lookup k (c_parent c) = Some (Some p) /\ lookup p (c_states c) = Some ps /\ s_kind ps = KCompound.

Record inv_import (c : chart) (seen : list name) : Prop := mkInvImport {
  ii_sound : sound (erase c);
  ii_seen : forall q, In q seen <-> has_state c q = true;
  ii_hist : hist_ok c
}.

Lemma add_state_hist : forall c st p c' r,
  add_state c st p = (c', r) -> r = EOk \/ r = EKeyError -> is_history (s_kind st) = true ->
  exists q ps, p = Some q /\ lookup q (c_states c) = Some ps /\ s_kind ps = KCompound.
Proof.
  intros c st p c' r H Hr Hh. unfold add_state in H.
  destruct (has_state c (s_name st)); [inv H; destruct Hr; discriminate|].
  destruct (no_parent p).
  - destruct (truthy (root c)); [inv H; destruct Hr; discriminate|].
    rewrite Hh in H. inv H; destruct Hr; discriminate.
  - destruct p as [q|]; [|inv H; destruct Hr; discriminate].
    unfold state_for in H. destruct (lookup q (c_states c)) as [ps|] eqn:Eq; [|inv H; destruct Hr; discriminate].
    destruct (negb (is_composite (s_kind ps))); [inv H; destruct Hr; discriminate|].
    rewrite Hh in H. cbn [andb] in H.
    destruct (kind_eqb (s_kind ps) KCompound) eqn:Ek; cbn [negb] in H; [|inv H; destruct Hr; discriminate].
    apply kind_eqb_eq in Ek. exists q, ps. auto.
Qed.

Lemma has_state_register : forall c st p l q,
  has_state (register_chart c st p l) q = str_eqb q (s_name st) || has_state c q.
Proof.
  intros c st p l q. unfold has_state, register_chart. cbn [c_states]. rewrite lookup_dset.
  destruct (str_eqb q (s_name st)); reflexivity.
Qed.

(* one add_state of the loop: it cannot fail with KeyError and keeps the invariant *)
Lemma add_state_import_step : forall c seen st p c' r,
  inv_import c seen -> pok seen p -> add_state c st p = (c', r) -> r = EOk \/ r = EKeyError ->
  r = EOk /\ inv_import c' (s_name st :: seen).
Proof.
  intros c seen st p c' r [HS Hseen Hhist] Hpok H Hr.
  destruct (add_state_inv _ _ _ _ _ H Hr) as [Hfresh [_ Hreg]].
  rewrite olookup_oset in Hreg.
  assert (Hp : p <> Some (s_name st) /\ exists l, olookup p (c_children c) = Some l /\
               (p = None -> l = []) /\ (forall q, p = Some q -> has_state c q = true)).
  { destruct p as [q|]; cbn in Hpok.
    - apply Hseen in Hpok. split; [intros E; inv E; congruence|].
      destruct (sound_state_children (erase c) HS q) as [l El]; [rewrite has_state_erase; exact Hpok|].
      exists l. split; [exact El|]. split; [discriminate|]. intros q' E; inv E; exact Hpok.
    - subst seen. split; [discriminate|].
      destruct (olookup None (c_children c)) as [l|] eqn:El; [|exfalso; apply (sd_ctop (erase c) HS); exact El].
      exists l. split; [reflexivity|]. split; [|discriminate]. intros _.
      destruct l as [|x l]; [reflexivity|]. exfalso.
      assert (Hx : has_state (erase c) x = true).
      { apply (sound_child_state (erase c) HS None (x :: l) x); [exact El|left; reflexivity]. }
      rewrite has_state_erase in Hx. apply Hseen in Hx. destruct Hx. }
  destruct Hp as [Hne [l [El [Htop Hpar]]]].
  destruct (oeqbP p (Some (s_name st))) as [E|_]; [congruence|].
  rewrite El in Hreg. destruct Hreg as [-> ->]. split; [reflexivity|].
  constructor.
  - rewrite erase_register.
    apply register_sound;
      try match goal with
          | |- has_state (erase _) _ = false => cbn [clr s_name]; rewrite has_state_erase; exact Hfresh
          | |- forall q, _ = Some q -> has_state (erase _) q = true =>
              intros q E; rewrite has_state_erase; auto
          | |- memory_ok _ _ _ => intros mm E; discriminate E
          end; auto.
  - intros q. rewrite has_state_register. cbn [In]. rewrite Hseen.
    destruct (seqbP q (s_name st)) as [->|Hn]; cbn [orb].
    + split; [reflexivity|left; reflexivity].
    + split; [intros [E|E]; [congruence|exact E]|intros E; right; exact E].
  - intros k s Hl Hh. unfold register_chart in *. cbn [c_states c_parent] in *.
    rewrite lookup_dset in Hl.
    destruct (seqbP k (s_name st)) as [->|Hn].
    + inv Hl. destruct (add_state_hist _ _ _ _ _ H (or_introl eq_refl) Hh) as [q [ps [-> [Hq Hk]]]].
      exists q, ps. rewrite !lookup_dset, seqb_refl. split; [reflexivity|]. split; [|exact Hk].
      destruct (seqbP q (s_name s)) as [->|_]; [|exact Hq].
      apply has_state_false in Hfresh. congruence.
    + destruct (Hhist k s Hl Hh) as [q [ps [H1 [H2 H3]]]]. exists q, ps. rewrite !lookup_dset.
      destruct (seqbP k (s_name st)) as [|_]; [congruence|].
      split; [exact H1|]. split; [|exact H3].
      destruct (seqbP q (s_name st)) as [->|_]; [|exact H2].
      apply has_state_false in Hfresh. congruence.
Qed.

Lemma add_states_import : forall l c seen c',
  inv_import c seen -> ordered seen l -> add_states c l = Some c' ->
  inv_import c' (rev (snames l) ++ seen).
Proof.
  induction l as [|[st p] l IH]; intros c seen c' Hinv Ho H; cbn [add_states] in H.
  - inv H. exact Hinv.
  - destruct (add_state c st p) as [c1 r] eqn:E. destruct Ho as [Hp Ho]. cbn [fst snd] in *.
    destruct r; try discriminate.
    destruct (add_state_import_step _ _ _ _ _ _ Hinv Hp E (or_introl eq_refl)) as [_ Hinv1].
    specialize (IH _ _ _ Hinv1 Ho H). cbn [snames map rev fst]. rewrite <- app_assoc. exact IH.
Qed.

(* the first error of the loop, if any: never a KeyError (which Python would not turn into StatechartError) *)
Fixpoint add_states_err (c : chart) (l : list (state * option name)) : eres :=
  match l with
  | [] => EOk
  | (st, p) :: r => match add_state c st p with (c', EOk) => add_states_err c' r | (_, e) => e end
  end.

Lemma add_state_results : forall c st p, snd (add_state c st p) = EOk \/ snd (add_state c st p) = EStatechartError
                                         \/ snd (add_state c st p) = EKeyError.
Proof.
  intros c st p. unfold add_state.
  repeat match goal with
         | |- context [if ?b then _ else _] => destruct b
         | |- context [match ?x with _ => _ end] => destruct x
         end; cbn; auto.
Qed.

Lemma add_states_no_keyerror : forall l c seen,
  inv_import c seen -> ordered seen l ->
  add_states_err c l = EOk \/ add_states_err c l = EStatechartError.
Proof.
  induction l as [|[st p] l IH]; intros c seen Hinv Ho; cbn [add_states_err]; [left; reflexivity|].
  destruct Ho as [Hp Ho]. cbn [fst snd] in *.
  destruct (add_state c st p) as [c1 r] eqn:E.
  pose proof (add_state_results c st p) as Hr. rewrite E in Hr. cbn [snd] in Hr.
  destruct Hr as [->|[->| ->]].
  - destruct (add_state_import_step _ _ _ _ _ _ Hinv Hp E (or_introl eq_refl)) as [_ Hinv1].
    eapply IH; eauto.
  - right; reflexivity.
  - destruct (add_state_import_step _ _ _ _ _ _ Hinv Hp E (or_intror eq_refl)) as [Habs _]. discriminate.
Qed.

(* ---- add_transition ---- *)
Lemma add_transition_ok_inv : forall c t c',
  add_transition c t = (c', EOk) ->
  c' = with_transitions c (c_transitions c ++ [t]) /\
  (exists s, lookup (t_source t) (c_states c) = Some s /\ owns_transitions (s_kind s) = true) /\
  (forall tg, t_target t = Some tg -> has_state c tg = true).
Proof.
  intros c t c' H. unfold add_transition, state_for in H.
  destruct (lookup (t_source t) (c_states c)) as [s|] eqn:Es; [|discriminate].
  destruct (owns_transitions (s_kind s)) eqn:Eo; cbn [negb] in H; [|discriminate].
  destruct (t_target t) as [tg|].
  - destruct (has_state c tg) eqn:Etg; inv H.
    split; [reflexivity|]. split; [eauto|]. intros x E; inv E; exact Etg.
  - inv H. split; [reflexivity|]. split; [eauto|]. intros x E; discriminate.
Qed.

Lemma add_transition_results : forall c t,
  snd (add_transition c t) = EOk \/ snd (add_transition c t) = EStatechartError.
Proof.
  intros c t. unfold add_transition.
  repeat match goal with
         | |- context [if ?b then _ else _] => destruct b
         | |- context [match ?x with _ => _ end] => destruct x
         end; cbn; auto.
Qed.

Lemma add_transition_import_step : forall c seen t c',
  inv_import c seen -> add_transition c t = (c', EOk) -> inv_import c' seen.
Proof.
  intros c seen t c' [HS Hseen Hhist] H.
  destruct (add_transition_ok_inv _ _ _ H) as [-> [[s [Hs Ho]] Htg]].
  constructor.
  - change (erase (with_transitions c (c_transitions c ++ [t])))
      with (with_transitions (erase c) (c_transitions (erase c) ++ [t])).
    apply sound_with_transitions; [exact HS|].
    intros t' Hin. apply in_app_or in Hin. destruct Hin as [Hin|[<-|[]]].
    + apply (sd_trans (erase c) HS); exact Hin.
    + split.
      * exists (clr s). rewrite lookup_erase, Hs. split; [reflexivity|exact Ho].
      * intros tg E. rewrite has_state_erase. auto.
  - exact Hseen.
  - exact Hhist.
Qed.

Lemma add_transitions_import : forall l c seen c',
  inv_import c seen -> add_transitions c l = Some c' -> inv_import c' seen.
Proof.
  induction l as [|t l IH]; intros c seen c' Hinv H; cbn [add_transitions] in H; [inv H; exact Hinv|].
  destruct (add_transition c t) as [c1 r] eqn:E. destruct r; try discriminate.
  eapply IH; [|exact H]. eapply add_transition_import_step; eauto.
Qed.

(* ---- inversion of the pattern matching on the literal key "statechart" ---- *)
Ltac peel H :=
  repeat match type of H with
         | match ?x with _ => _ end = Some _ => is_var x; destruct x; try discriminate H
         end.

Lemma import_from_dict_inv : forall d c,
  import_from_dict d = Some c ->
  exists m nm root states trans c1,
    d = YMap [("statechart", YMap m)] /\ get_str "name" m = Some nm /\ ylookup "root state" m = Some (YMap root) /\
    import_walk (S (count_nodes (YMap root))) [(root, None)] [] [] = Some (states, trans) /\
    add_states (empty_chart nm (get_str "description" m) (get_str "preamble" m)) states = Some c1 /\
    add_transitions c1 trans = Some c.
Proof.
  intros d c H. unfold import_from_dict in H. peel H.
  match goal with |- exists _ _ _ _ _ _, YMap [(_, YMap ?m0)] = _ /\ _ => rename m0 into m end.
  destruct (get_str "name" m) as [nm|] eqn:En; [|discriminate].
  destruct (ylookup "root state" m) as [[| | | | | |root]|] eqn:Er; try discriminate.
  destruct (import_walk (S (count_nodes (YMap root))) [(root, None)] [] []) as [[states trans]|] eqn:Ew; [|discriminate].
  destruct (add_states (empty_chart nm (get_str "description" m) (get_str "preamble" m)) states) as [c1|] eqn:Ea;
    [|discriminate].
  exists m, nm, root, states, trans, c1. repeat split; auto.
Qed.

Lemma import_from_dict_invariant : forall d c,
  import_from_dict d = Some c -> exists seen, inv_import c seen.
Proof.
  intros d c H. destruct (import_from_dict_inv _ _ H) as [m [nm [root [states [trans [c1 [_ [_ [_ [Hw [Ha Ht]]]]]]]]]]].
  apply import_walk_root_ordered in Hw. cbn [fst] in Hw.
  assert (H0 : inv_import (empty_chart nm (get_str "description" m) (get_str "preamble" m)) []).
  { constructor.
    - rewrite erase_empty. apply empty_chart_sound.
    - intros q. unfold has_state; cbn. split; [intros []|discriminate].
    - intros k s Hl; discriminate. }
  pose proof (add_states_import _ _ _ _ H0 Hw Ha) as H1.
  eexists. eapply add_transitions_import; eauto.
Qed.

(* ---- the property: first sentence of C12 ---- *)
Record import_sound (c : chart) : Prop := mkImportSound {
  (* unique state names, every state object stored under its own name *)
  is_nd_states : NoDup (map fst (c_states c));
  is_keyname : forall k s, lookup k (c_states c) = Some s -> s_name s = k;
  (* ... forming one tree: _parent and _children are keyed by exactly the states (plus None for the top
     level), they agree with each other, there is at most one parentless state and no cycle *)
  is_nd_parent : NoDup (map fst (c_parent c));
  is_nd_children : NoDup (map fst (c_children c));
  is_pkeys : forall n, lookup n (c_parent c) <> None <-> has_state c n = true;
  is_ckeys : forall n, olookup (Some n) (c_children c) <> None <-> has_state c n = true;
  is_ctop : olookup None (c_children c) <> None;
  is_pc : forall n p, lookup n (c_parent c) = Some p ->
      (forall q, p = Some q -> has_state c q = true) /\
      exists l, olookup p (c_children c) = Some l /\ count_occ string_dec l n = 1;
  is_cp : forall k l ch, olookup k (c_children c) = Some l -> In ch l -> lookup ch (c_parent c) = Some k;
  is_top : forall l, olookup None (c_children c) = Some l -> length l <= 1;
  is_acyc : exists rank, rank_ok c rank;
  (* transitions only from states that may own transitions and only towards existing states *)
  is_trans : forall t, In t (c_transitions c) ->
      (exists s, lookup (t_source t) (c_states c) = Some s /\ owns_transitions (s_kind s) = true) /\
      (forall tg, t_target t = Some tg -> has_state c tg = true);
  (* history states only inside compound states *)
  is_hist : hist_ok c;
  (* every declared (= truthy, as tested by validate() and by the interpreter) initial state a direct child *)
  is_init : forall k s i, lookup k (c_states c) = Some s -> s_kind s = KCompound ->
      truthy (s_initial s) = Some i -> In i (children_for c k);
  (* every history memory a sibling other than itself *)
  is_mem : forall k s m, lookup k (c_states c) = Some s -> is_history (s_kind s) = true ->
      s_memory s = Some m -> m <> k /\ exists p, parent_for c k = Some p /\ In m (children_for c p)
}.

Lemma import_sound_of_erase : forall c,
  sound (erase c) -> hist_ok c -> validate c = true -> import_sound c.
Proof.
  intros c HS Hh Hv.
  assert (Hnd : NoDup (map fst (c_states c))) by (rewrite <- keys_erase; apply (sd_nd_states _ HS)).
  unfold validate in Hv. apply andb_true_iff in Hv. destruct Hv as [Hvi Hvm].
  constructor.
  - exact Hnd.
  - intros k s Hl. pose proof (sd_keyname _ HS k (clr s)) as H. rewrite lookup_erase, Hl in H. apply H. reflexivity.
  - apply (sd_nd_parent _ HS).
  - apply (sd_nd_children _ HS).
  - intros n. rewrite <- has_state_erase. apply (sd_pkeys _ HS).
  - intros n. rewrite <- has_state_erase. apply (sd_ckeys _ HS).
  - apply (sd_ctop _ HS).
  - intros n p Hl. destruct (sd_pc _ HS n p Hl) as [H1 H2]. split; [|exact H2].
    intros q E. rewrite <- has_state_erase. auto.
  - apply (sd_cp _ HS).
  - apply (sd_top _ HS).
  - apply (sd_acyc _ HS).
  - intros t Hin. destruct (sd_trans _ HS t Hin) as [[s [H1 H2]] H3]. split.
    + rewrite lookup_erase in H1. destruct (lookup (t_source t) (c_states c)) as [s0|]; [|discriminate].
      inv H1. exists s0. split; [reflexivity|exact H2].
    + intros tg E. rewrite <- has_state_erase. auto.
  - exact Hh.
  - intros k s i Hl Hk Hi. apply (proj1 (validate_initial_iff c Hnd) Hvi k s i Hl Hk Hi).
  - intros k s m Hl Hk Hm. destruct (proj1 (validate_memory_iff c Hnd) Hvm k s m Hl Hk Hm) as [H1 [_ H3]].
    split; assumption.
Qed.

Lemma import_pipeline_inv : forall d c,
  import_pipeline d = Some c ->
  exists d', schema_statechart d = Some d' /\ import_from_dict d' = Some c /\ validate c = true.
Proof.
  intros d c H. unfold import_pipeline in H.
  destruct (schema_statechart d) as [d'|]; [|discriminate].
  destruct (import_from_dict d') as [c0|] eqn:Ei; [|discriminate].
  destruct (validate c0) eqn:Ev; inv H. eauto.
Qed.

(* C12, first sentence *)
Theorem C12_sound : forall d c, import_pipeline d = Some c -> import_sound c.
Proof.
  intros d c H. destruct (import_pipeline_inv _ _ H) as [d' [_ [Hi Hv]]].
  destruct (import_from_dict_invariant _ _ Hi) as [seen [HS _ Hh]].
  apply import_sound_of_erase; assumption.
Qed.

(* "forming one tree", spelled out: a non-empty sound chart has exactly one root and every other
   state is a strict descendant of it *)
Lemma import_sound_one_tree : forall c, import_sound c ->
  forall x, has_state c x = true ->
  exists r, lookup r (c_parent c) = Some None /\
            (forall r', lookup r' (c_parent c) = Some None -> r' = r) /\
            (forall y, has_state c y = true -> y = r \/ anc c y r).
Proof.
  intros c IS.
  assert (Huniq : forall r r', lookup r (c_parent c) = Some None -> lookup r' (c_parent c) = Some None -> r' = r).
  { intros r r' H1 H2.
    destruct (is_pc c IS _ _ H1) as [_ [l [Hl Hc]]]. destruct (is_pc c IS _ _ H2) as [_ [l' [Hl' Hc']]].
    rewrite Hl in Hl'. inv Hl'. pose proof (is_top c IS _ Hl) as Hlen.
    apply count_occ_one_In in Hc. apply count_occ_one_In in Hc'.
    destruct l' as [|a [|b l']]; cbn in Hlen; [destruct Hc| |lia].
    destruct Hc as [<-|[]]. destruct Hc' as [<-|[]]. reflexivity. }
  destruct (is_acyc c IS) as [rank Hr].
  assert (Hup : forall k y, rank y < k -> has_state c y = true ->
                exists r, lookup r (c_parent c) = Some None /\ (y = r \/ anc c y r)).
  { induction k as [|k IH]; intros y Hk Hy; [inversion Hk|].
    apply (is_pkeys c IS) in Hy. destruct (lookup y (c_parent c)) as [[q|]|] eqn:Ep; [|eauto|congruence].
    destruct (is_pc c IS _ _ Ep) as [Hq _]. specialize (Hq q eq_refl).
    pose proof (Hr _ _ Ep) as Hlt.
    destruct (IH q ltac:(lia) Hq) as [r [H1 H2]]. exists r. split; [exact H1|]. right.
    destruct H2 as [->|H2]; [apply anc_parent; exact Ep|eapply anc_step; eauto]. }
  intros x Hx. destruct (Hup (S (rank x)) x ltac:(lia) Hx) as [r [H1 _]].
  exists r. split; [exact H1|]. split; [intros r' H'; eapply Huniq; eauto|].
  intros y Hy. destruct (Hup (S (rank y)) y ltac:(lia) Hy) as [r' [H1' H2']].
  rewrite (Huniq _ _ H1 H1') in H2'. exact H2'.
Qed.

(* ---- an equational reading of _import_state_from_dict (no pattern matching on string literals) ---- *)
Lemma type_match : forall (A : Type) (s : string) (a b c d : A),
  match s with "final" => a | "shallow history" => b | "deep history" => c | _ => d end =
  if str_eqb s "final" then a else if str_eqb s "shallow history" then b
  else if str_eqb s "deep history" then c else d.
Proof.
  intros A s a b c d. unfold str_eqb.
  repeat (match goal with
          | |- context [match ?x with _ => _ end] => is_var x; destruct x; cbn; try reflexivity
          end).
Qed.

Definition kind_of_type (s : string) : option kind :=
  if str_eqb s "final" then Some KFinal else if str_eqb s "shallow history" then Some KShallow
  else if str_eqb s "deep history" then Some KDeep else None.

Definition state_kind (m : list (string * ydata)) : option kind :=
  match ylookup "type" m with
  | Some (YStr s) => kind_of_type s
  | Some _ => None
  | None => match ylist_of "states" m, ylist_of "parallel states" m with
            | _ :: _, _ :: _ => None
            | _ :: _, [] => Some KCompound
            | [], _ :: _ => Some KOrthogonal
            | [], [] => Some KBasic
            end
  end.

Definition import_state' (m : list (string * ydata)) : option state :=
  match get_str "name" m with
  | None => None
  | Some nm =>
      match state_kind m with
      | None => None
      | Some k =>
          let '(pre, post, inv) := import_contract (contract_list m) [] [] [] in
          Some (mkState nm k (match k with KCompound => get_str "initial" m | _ => None end)
                        (if is_history k then get_str "memory" m else None)
                        (strip_opt (get_str "on entry" m)) (strip_opt (get_str "on exit" m)) pre post inv)
      end
  end.

Lemma import_state_eq : forall m, import_state m = import_state' m.
Proof.
  intros m. unfold import_state, import_state', state_kind.
  destruct (get_str "name" m) as [nm|]; [|reflexivity].
  destruct (import_contract (contract_list m) [] [] []) as [[pre post] inv].
  destruct (ylookup "type" m) as [[| | | |s| |]|]; try reflexivity.
  - rewrite type_match. unfold kind_of_type.
    destruct (str_eqb s "final"); [reflexivity|].
    destruct (str_eqb s "shallow history"); [reflexivity|].
    destruct (str_eqb s "deep history"); reflexivity.
  - destruct (ylist_of "states" m), (ylist_of "parallel states" m); reflexivity.
Qed.

Lemma import_state_fields : forall m st, import_state m = Some st ->
  get_str "name" m = Some (s_name st) /\ state_kind m = Some (s_kind st) /\
  (forall i, s_initial st = Some i -> s_kind st = KCompound) /\
  (forall x, s_memory st = Some x -> is_history (s_kind st) = true).
Proof.
  intros m st H. rewrite import_state_eq in H. unfold import_state' in H.
  destruct (get_str "name" m) as [nm|]; [|discriminate].
  destruct (state_kind m) as [k|]; [|discriminate].
  destruct (import_contract (contract_list m) [] [] []) as [[pre post] inv]. inv H. cbn.
  split; [reflexivity|]. split; [reflexivity|]. split.
  - intros i E. destruct k; try discriminate; reflexivity.
  - intros x E. destruct (is_history k); [reflexivity|discriminate].
Qed.

(* every state registered by the loop comes out of _import_state_from_dict *)
Lemma import_walk_states_from : forall fuel stack states trans res,
  import_walk fuel stack states trans = Some res ->
  forall e, In e (fst res) -> In e states \/ exists m, import_state m = Some (fst e).
Proof.
  induction fuel as [|f IH]; intros stack states trans res H e He; [discriminate|].
  rewrite import_walk_S in H. destruct (rev stack) as [|[m parent] rr].
  - inv H. left; exact He.
  - destruct (import_state m) as [st|] eqn:Em; [|discriminate].
    destruct (IH _ _ _ _ H e He) as [Hin|Hex]; [|right; exact Hex].
    apply in_app_or in Hin. destruct Hin as [Hin|[<-|[]]]; [left; exact Hin|].
    right. exists m. exact Em.
Qed.

Definition st_fields_ok (st : state) : Prop :=
  (forall i, s_initial st = Some i -> s_kind st = KCompound) /\
  (forall x, s_memory st = Some x -> is_history (s_kind st) = true).

Lemma add_states_fields : forall l c c',
  fields_ok c -> (forall e, In e l -> st_fields_ok (fst e)) -> add_states c l = Some c' -> fields_ok c'.
Proof.
  induction l as [|[st p] l IH]; intros c c' Hf Hl H; cbn [add_states] in H; [inv H; exact Hf|].
  destruct (add_state c st p) as [c1 r] eqn:E. destruct r; try discriminate.
  apply (IH c1); [|intros e He; apply Hl; right; exact He|exact H].
  destruct (add_state_inv _ _ _ _ _ E (or_introl eq_refl)) as [_ [_ Hreg]].
  destruct (olookup p (oset (Some (s_name st)) [] (c_children c))) as [l0|]; [|discriminate].
  destruct Hreg as [-> _]. intros k s Hk. unfold register_chart in Hk. cbn [c_states] in Hk.
  rewrite lookup_dset in Hk. destruct (str_eqb k (s_name st)).
  - inv Hk. apply (Hl (s, p)). left; reflexivity.
  - apply (Hf k s Hk).
Qed.

Lemma add_transitions_states : forall l c c', add_transitions c l = Some c' -> c_states c' = c_states c.
Proof.
  induction l as [|t l IH]; intros c c' H; cbn [add_transitions] in H; [inv H; reflexivity|].
  destruct (add_transition c t) as [c1 r] eqn:E. destruct r; try discriminate.
  destruct (add_transition_ok_inv _ _ _ E) as [-> _]. rewrite (IH _ _ H). reflexivity.
Qed.

Lemma import_from_dict_fields : forall d c, import_from_dict d = Some c -> fields_ok c.
Proof.
  intros d c H. destruct (import_from_dict_inv _ _ H) as [m [nm [root [states [trans [c1 [_ [_ [_ [Hw [Ha Ht]]]]]]]]]]].
  assert (Hf1 : fields_ok c1).
  { refine (add_states_fields states _ c1 _ _ Ha); [intros k s Hk; discriminate|].
    intros e He.
    destruct (import_walk_states_from _ _ _ _ _ Hw e He) as [[]|[m0 Hm0]].
    destruct (import_state_fields _ _ Hm0) as [_ [_ [H1 H2]]]. split; assumption. }
  intros k s Hk. rewrite (add_transitions_states _ _ _ Ht) in Hk. exact (Hf1 k s Hk).
Qed.

(* ---- the Prop and the checker of IOCorr ---- *)
Lemma parent_for_Some : forall c k p, parent_for c k = Some p <-> lookup k (c_parent c) = Some (Some p).
Proof.
  intros c k p. unfold parent_for. destruct (lookup k (c_parent c)) as [[q|]|]; split; congruence.
Qed.

Lemma import_sound_b_sound : forall c, import_sound_b c = true -> no_empty_name c -> import_sound c.
Proof.
  intros c H Hne. unfold import_sound_b in H.
  apply andb_true_iff in H; destruct H as [H Hmem].
  apply andb_true_iff in H; destruct H as [H Hini].
  apply andb_true_iff in H; destruct H as [Hsb Hhist].
  pose proof (sound_b_sound c Hsb Hne) as S. destruct S.
  constructor; try assumption.
  - intros k s Hl Hh. rewrite forallb_forall in Hhist. specialize (Hhist _ (lookup_In _ _ _ Hl)).
    cbn [fst snd] in Hhist. rewrite Hh in Hhist.
    destruct (parent_for c k) as [p|] eqn:Ep; [|discriminate]. apply parent_for_Some in Ep.
    unfold kind_of, state_for in Hhist. destruct (lookup p (c_states c)) as [ps|] eqn:Eps; [|discriminate].
    cbn in Hhist. exists p, ps. split; [exact Ep|]. split; [exact Eps|].
    destruct (s_kind ps); try discriminate; reflexivity.
  - intros k s i Hl Hk Hi. apply (sd_vinit k s i Hl Hk Hi).
  - intros k s m Hl Hk Hm. destruct (sd_vmem k s m Hl Hk Hm) as [H1 [_ H3]]. split; assumption.
Qed.

Lemma import_sound_child_state : forall c, import_sound c ->
  forall k i, In i (children_for c k) -> has_state c i = true.
Proof.
  intros c IS k i Hin. unfold children_for in Hin.
  destruct (olookup (Some k) (c_children c)) as [l|] eqn:El; [|destruct Hin].
  apply (is_pkeys c IS). rewrite (is_cp c IS _ _ _ El Hin). discriminate.
Qed.

(* the checker is stricter than the Prop on two points only: it wants every initial/memory field, also
   on states of another kind, to name a state, and it reads initial = '' as a declared initial state *)
Definition refs_tidy (c : chart) : Prop :=
  fields_ok c /\ forall k s, lookup k (c_states c) = Some s -> s_initial s <> Some "".

Lemma import_sound_sound : forall c, import_sound c -> refs_tidy c -> sound c.
Proof.
  intros c IS [Hf Hi]. pose proof (import_sound_child_state c IS) as Hch. destruct IS.
  assert (Hinit : forall k s i, lookup k (c_states c) = Some s -> s_initial s = Some i ->
                  In i (children_for c k)).
  { intros k s i Hl E. destruct (Hf k s Hl) as [Hk _]. apply (is_init0 k s i Hl (Hk i E)).
    rewrite E. apply truthy_nonempty. intros ->. apply (Hi k s Hl E). }
  constructor; try assumption.
  - intros k s Hl. split.
    + intros i E. apply (Hch k). eapply Hinit; eauto.
    + intros m E. destruct (Hf k s Hl) as [_ Hk].
      destruct (is_mem0 k s m Hl (Hk m E) E) as [_ [p [_ Hin]]]. apply (Hch p); exact Hin.
  - intros k s i Hl Hk E. pose proof (is_init0 k s i Hl Hk E) as Hin. split; [apply (Hch k); exact Hin|exact Hin].
  - intros k s m Hl Hk E. destruct (is_mem0 k s m Hl Hk E) as [H1 [p [H2 H3]]].
    split; [exact H1|]. split; [apply (Hch p); exact H3|]. exists p; auto.
Qed.

Lemma import_sound_b_complete : forall c, import_sound c -> refs_tidy c -> import_sound_b c = true.
Proof.
  intros c IS HT. pose proof (import_sound_sound c IS HT) as S. destruct HT as [Hf Hi].
  pose proof (is_nd_states c IS) as Hnd.
  unfold import_sound_b. rewrite (sound_sound_b c S). cbn [andb].
  apply andb_true_iff; split; [apply andb_true_iff; split|].
  - apply forallb_forall. intros [k s] Hin. cbn [fst snd]. pose proof (In_lookup _ _ _ Hnd Hin) as Hl.
    destruct (is_history (s_kind s)) eqn:Eh; [|reflexivity].
    destruct (is_hist c IS k s Hl Eh) as [p [ps [H1 [H2 H3]]]].
    apply parent_for_Some in H1. rewrite H1. unfold kind_of, state_for. rewrite H2. cbn. rewrite H3. reflexivity.
  - apply forallb_forall. intros [k s] Hin. cbn [fst snd]. pose proof (In_lookup _ _ _ Hnd Hin) as Hl.
    destruct (s_kind s) eqn:Ek; try reflexivity. destruct (s_initial s) as [i|] eqn:Ei; [|reflexivity].
    apply mem_In. apply (is_init c IS k s i Hl Ek). rewrite Ei. apply truthy_nonempty.
    intros ->. apply (Hi k s Hl Ei).
  - apply forallb_forall. intros [k s] Hin. cbn [fst snd]. pose proof (In_lookup _ _ _ Hnd Hin) as Hl.
    destruct (is_history (s_kind s)) eqn:Eh; [|reflexivity].
    destruct (s_memory s) as [m|] eqn:Em; [|reflexivity].
    destruct (is_mem c IS k s m Hl Eh Em) as [H1 [p [H2 H3]]]. rewrite H2.
    apply seqb_neq in H1. rewrite H1. cbn. apply mem_In. exact H3.
Qed.

Theorem import_sound_b_iff : forall c, no_empty_name c -> refs_tidy c ->
  (import_sound_b c = true <-> import_sound c).
Proof.
  intros c Hne HT. split; [intros H; apply import_sound_b_sound; assumption|intros H; apply import_sound_b_complete; assumption].
Qed.

(* on what the importer returns, the checker passes as soon as no compound state declares initial: '' *)
Theorem C12_sound_b : forall d c, import_pipeline d = Some c ->
  (forall k s, lookup k (c_states c) = Some s -> s_initial s <> Some "") -> import_sound_b c = true.
Proof.
  intros d c H Hi. apply import_sound_b_complete; [eapply C12_sound; exact H|].
  split; [|exact Hi]. destruct (import_pipeline_inv _ _ H) as [d' [_ [Hd _]]].
  eapply import_from_dict_fields; exact Hd.
Qed.

(* ... and only then: the strict reading of the checker is refuted by initial: '' (validate() and the
   interpreter test `if state.initial`, so '' means "no initial state"; benign) *)
Definition doc_initial_empty : ydata :=
  YMap [("statechart", YMap [("name", YStr "sc");
     ("root state", YMap [("name", YStr "root"); ("initial", YStr "");
                          ("states", YList [YMap [("name", YStr "a")]])])])].

Theorem C12_sound_b_refuted :
  exists d c, import_pipeline d = Some c /\ import_sound_b c = false.
Proof.
  exists doc_initial_empty. eexists. split; [vm_compute; reflexivity|]. vm_compute. reflexivity.
Qed.

(* ================================================================== 2. C12_reject: the schema *)

Definition doc (m : list (string * ydata)) : ydata := YMap [("statechart", YMap m)].

(* x occurs as a state node in the state tree rooted at the first argument, at any depth, through
   'states' / 'parallel states' *)
Inductive state_in : ydata -> ydata -> Prop :=
| si_here : forall d, state_in d d
| si_sub : forall m k l s x, k = "states" \/ k = "parallel states" ->
    In (k, YList l) m -> In s l -> state_in s x -> state_in (YMap m) x.

Definition state_invalid (d : ydata) : Prop := forall f, schema_state f d = None.

Lemma map_opt_None : forall {A B} (f : A -> option B) l x, In x l -> f x = None -> map_opt f l = None.
Proof.
  intros A B f l x; induction l as [|y l IH]; intros Hin Hx; [destruct Hin|].
  cbn [map_opt]. destruct Hin as [->|Hin].
  - rewrite Hx. reflexivity.
  - rewrite (IH Hin Hx). destruct (f y); reflexivity.
Qed.

Lemma map_opt_Some_In : forall {A B} (f : A -> option B) l r x,
  map_opt f l = Some r -> In x l -> exists y, f x = Some y /\ In y r.
Proof.
  intros A B f l; induction l as [|a l IH]; intros r x H Hin; [destruct Hin|].
  cbn [map_opt] in H. destruct (f a) as [b|] eqn:Ea; [|discriminate].
  destruct (map_opt f l) as [r'|] eqn:Er; [|discriminate]. inv H.
  destruct Hin as [->|Hin]; [exists b; split; [exact Ea|left; reflexivity]|].
  destruct (IH _ _ eq_refl Hin) as [y [H1 H2]]. exists y. split; [exact H1|right; exact H2].
Qed.

Lemma keys_within_false : forall m allowed k v,
  In (k, v) m -> mem k allowed = false -> keys_within m allowed = false.
Proof.
  intros m allowed k v Hin Hk. unfold keys_within.
  destruct (forallb (fun kv => mem (fst kv) allowed) m) eqn:E; [|reflexivity].
  rewrite forallb_forall in E. specialize (E _ Hin). cbn in E. congruence.
Qed.

Definition state_field (f : nat) (kv : string * ydata) : option (string * ydata) :=
  let k := fst kv in
  let wrap := option_map (fun x => (k, x)) in
  if str_eqb k "contract" then wrap (schema_contracts (snd kv))
  else if str_eqb k "transitions" then
         match snd kv with
         | YList l => wrap (option_map YList (map_opt schema_transition l))
         | _ => None
         end
  else if str_eqb k "states" || str_eqb k "parallel states" then
         match snd kv with
         | YList l => wrap (option_map YList (map_opt (schema_state f) l))
         | _ => None
         end
  else if str_eqb k "type" then
         match snd kv with
         | YStr s => if mem s type_values then Some kv else None
         | _ => None
         end
  else v_str kv.

Lemma schema_state_S : forall f m,
  schema_state (S f) (YMap m) =
  if keys_within m state_keys && (match ylookup "name" m with Some _ => true | None => false end)
  then option_map YMap (map_opt (state_field f) m) else None.
Proof. reflexivity. Qed.

Lemma schema_state_not_map : forall d, (forall m, d <> YMap m) -> state_invalid d.
Proof. intros d H [|f]; [reflexivity|]. destruct d; try reflexivity. exfalso. eapply H; reflexivity. Qed.

Lemma state_field_invalid : forall m kv,
  In kv m -> (forall f, state_field f kv = None) -> state_invalid (YMap m).
Proof.
  intros m kv Hin Hkv [|f]; [reflexivity|]. rewrite schema_state_S.
  rewrite (map_opt_None _ _ _ Hin (Hkv f)). destruct (_ && _); reflexivity.
Qed.

(* the fault classes, at one state node *)
Lemma state_unknown_key_invalid : forall m k v,
  In (k, v) m -> mem k state_keys = false -> state_invalid (YMap m).
Proof.
  intros m k v Hin Hk [|f]; [reflexivity|]. rewrite schema_state_S.
  rewrite (keys_within_false _ _ _ _ Hin Hk). reflexivity.
Qed.

Lemma state_missing_name_invalid : forall m, ylookup "name" m = None -> state_invalid (YMap m).
Proof.
  intros m H [|f]; [reflexivity|]. rewrite schema_state_S, H, andb_false_r. reflexivity.
Qed.

Lemma state_bad_type_invalid : forall m v,
  In ("type", v) m -> (forall s, v = YStr s -> mem s type_values = false) -> state_invalid (YMap m).
Proof.
  intros m v Hin Hv. apply (state_field_invalid m _ Hin). intros f. unfold state_field. cbn -[mem].
  destruct v; try reflexivity. rewrite (Hv s eq_refl). reflexivity.
Qed.

Lemma state_sub_invalid : forall m k l s,
  k = "states" \/ k = "parallel states" -> In (k, YList l) m -> In s l -> state_invalid s ->
  state_invalid (YMap m).
Proof.
  intros m k l s Hk Hin Hs Hinv. apply (state_field_invalid m _ Hin). intros f. unfold state_field.
  destruct Hk as [-> | ->]; cbn; rewrite (map_opt_None _ _ _ Hs (Hinv f)); reflexivity.
Qed.

Lemma state_bad_transition_invalid : forall m l t,
  In ("transitions", YList l) m -> In t l -> schema_transition t = None -> state_invalid (YMap m).
Proof.
  intros m l t Hin Ht Hinv. apply (state_field_invalid m _ Hin). intros f. unfold state_field. cbn.
  rewrite (map_opt_None _ _ _ Ht Hinv). reflexivity.
Qed.

Lemma state_bad_contract_invalid : forall m v,
  In ("contract", v) m -> schema_contracts v = None -> state_invalid (YMap m).
Proof.
  intros m v Hin Hinv. apply (state_field_invalid m _ Hin). intros f. unfold state_field. cbn.
  rewrite Hinv. reflexivity.
Qed.

(* a fault anywhere in the tree invalidates the root *)
Lemma state_in_invalid : forall root x, state_in root x -> state_invalid x -> state_invalid root.
Proof.
  intros root x H; induction H as [d|m k l s x Hk Hin Hs Hx IH]; intros Hinv; [exact Hinv|].
  eapply state_sub_invalid; eauto.
Qed.

(* transitions and contracts *)
Lemma schema_contract_unknown_key : forall m k v,
  In (k, v) m -> mem k contract_keys = false -> schema_contract (YMap m) = None.
Proof.
  intros m k v Hin Hk. unfold schema_contract. destruct m as [|a m]; [reflexivity|].
  rewrite (keys_within_false _ _ _ _ Hin Hk). reflexivity.
Qed.

Lemma schema_contracts_bad : forall l x, In x l -> schema_contract x = None -> schema_contracts (YList l) = None.
Proof. intros l x Hin Hx. unfold schema_contracts. rewrite (map_opt_None _ _ _ Hin Hx). reflexivity. Qed.

Definition transition_field (kv : string * ydata) : option (string * ydata) :=
  if str_eqb (fst kv) "contract" then option_map (fun x => (fst kv, x)) (schema_contracts (snd kv))
  else if str_eqb (fst kv) "priority" then option_map (fun x => (fst kv, x)) (use_priority (snd kv))
  else v_str kv.

Lemma schema_transition_map : forall m,
  schema_transition (YMap m) =
  if keys_within m transition_keys then option_map YMap (map_opt transition_field m) else None.
Proof. reflexivity. Qed.

Lemma schema_transition_unknown_key : forall m k v,
  In (k, v) m -> mem k transition_keys = false -> schema_transition (YMap m) = None.
Proof. intros m k v Hin Hk. rewrite schema_transition_map, (keys_within_false _ _ _ _ Hin Hk). reflexivity. Qed.

Lemma schema_transition_bad_priority : forall m v,
  In ("priority", v) m -> use_priority v = None -> schema_transition (YMap m) = None.
Proof.
  intros m v Hin Hv. rewrite schema_transition_map.
  rewrite (map_opt_None transition_field m _ Hin); [destruct (keys_within _ _); reflexivity|].
  unfold transition_field. cbn. rewrite Hv. reflexivity.
Qed.

Lemma schema_transition_bad_contract : forall m v,
  In ("contract", v) m -> schema_contracts v = None -> schema_transition (YMap m) = None.
Proof.
  intros m v Hin Hv. rewrite schema_transition_map.
  rewrite (map_opt_None transition_field m _ Hin); [destruct (keys_within _ _); reflexivity|].
  unfold transition_field. cbn. rewrite Hv. reflexivity.
Qed.

(* which priorities are refused *)
Lemma use_priority_None_iff : forall v,
  use_priority v = None <->
  match v with
  | YNull | YList _ | YMap _ => True
  | YStr s => int_of_string s = None /\ s <> "high" /\ s <> "low"
  | _ => False
  end.
Proof.
  intros v. destruct v; cbn; try (split; [discriminate|intros []]); try (split; auto; fail).
  destruct (int_of_string s); [split; [discriminate|intros [H _]; discriminate]|].
  destruct (seqbP s "high") as [->|H1]; cbn; [split; [discriminate|intros [_ [H _]]; congruence]|].
  destruct (seqbP s "low") as [->|H2]; cbn; [split; [discriminate|intros [_ [_ H]]; congruence]|].
  split; auto.
Qed.

(* the statechart level *)
Definition statechart_field (kv : string * ydata) : option (string * ydata) :=
  if str_eqb (fst kv) "root state"
  then option_map (fun x => (fst kv, x)) (schema_state (S (ydepth (snd kv))) (snd kv))
  else v_str kv.

Lemma schema_statechart_doc : forall m,
  schema_statechart (doc m) =
  if keys_within m statechart_keys
     && (match ylookup "name" m with Some _ => true | None => false end)
     && (match ylookup "root state" m with Some _ => true | None => false end)
  then option_map (fun m' => doc m') (map_opt statechart_field m) else None.
Proof. reflexivity. Qed.

Lemma schema_statechart_shape : forall d d', schema_statechart d = Some d' -> exists m, d = doc m.
Proof.
  intros d d' H. unfold schema_statechart in H. peel H. eexists; reflexivity.
Qed.

Lemma pipeline_schema_None : forall d, schema_statechart d = None -> import_pipeline d = None.
Proof. intros d H. unfold import_pipeline. rewrite H. reflexivity. Qed.

Theorem C12_reject_not_a_statechart : forall d, (forall m, d <> doc m) -> import_pipeline d = None.
Proof.
  intros d H. apply pipeline_schema_None. destruct (schema_statechart d) as [d'|] eqn:E; [|reflexivity].
  destruct (schema_statechart_shape _ _ E) as [m ->]. exfalso. apply (H m). reflexivity.
Qed.

Theorem C12_reject_unknown_key_statechart : forall m k v,
  In (k, v) m -> mem k statechart_keys = false -> import_pipeline (doc m) = None.
Proof.
  intros m k v Hin Hk. apply pipeline_schema_None.
  rewrite schema_statechart_doc, (keys_within_false _ _ _ _ Hin Hk). reflexivity.
Qed.

Theorem C12_reject_missing_statechart_name : forall m,
  ylookup "name" m = None -> import_pipeline (doc m) = None.
Proof.
  intros m H. apply pipeline_schema_None. rewrite schema_statechart_doc, H, andb_false_r. reflexivity.
Qed.

Theorem C12_reject_missing_root_state : forall m,
  ylookup "root state" m = None -> import_pipeline (doc m) = None.
Proof.
  intros m H. apply pipeline_schema_None. rewrite schema_statechart_doc, H, andb_false_r. reflexivity.
Qed.

(* every schema fault below the root state *)
Theorem C12_reject_invalid_state : forall m root x,
  In ("root state", root) m -> state_in root x -> state_invalid x -> import_pipeline (doc m) = None.
Proof.
  intros m root x Hin Hx Hinv. apply pipeline_schema_None. rewrite schema_statechart_doc.
  rewrite (map_opt_None statechart_field m _ Hin); [destruct (_ && _); reflexivity|].
  unfold statechart_field. cbn [fst snd]. rewrite seqb_refl, (state_in_invalid _ _ Hx Hinv). reflexivity.
Qed.

Theorem C12_reject_unknown_key_state : forall m root sm k v,
  In ("root state", root) m -> state_in root (YMap sm) ->
  In (k, v) sm -> mem k state_keys = false -> import_pipeline (doc m) = None.
Proof. intros. eapply C12_reject_invalid_state; eauto using state_unknown_key_invalid. Qed.

Theorem C12_reject_missing_state_name : forall m root sm,
  In ("root state", root) m -> state_in root (YMap sm) ->
  ylookup "name" sm = None -> import_pipeline (doc m) = None.
Proof. intros. eapply C12_reject_invalid_state; eauto using state_missing_name_invalid. Qed.

Theorem C12_reject_state_not_a_mapping : forall m root x,
  In ("root state", root) m -> state_in root x -> (forall sm, x <> YMap sm) -> import_pipeline (doc m) = None.
Proof. intros. eapply C12_reject_invalid_state; eauto using schema_state_not_map. Qed.

Theorem C12_reject_unknown_type : forall m root sm v,
  In ("root state", root) m -> state_in root (YMap sm) ->
  In ("type", v) sm -> (forall s, v = YStr s -> mem s type_values = false) -> import_pipeline (doc m) = None.
Proof. intros. eapply C12_reject_invalid_state; eauto using state_bad_type_invalid. Qed.

Theorem C12_reject_unknown_key_transition : forall m root sm ts tm k v,
  In ("root state", root) m -> state_in root (YMap sm) ->
  In ("transitions", YList ts) sm -> In (YMap tm) ts ->
  In (k, v) tm -> mem k transition_keys = false -> import_pipeline (doc m) = None.
Proof.
  intros. eapply C12_reject_invalid_state; eauto.
  eapply state_bad_transition_invalid; eauto using schema_transition_unknown_key.
Qed.

Theorem C12_reject_bad_priority : forall m root sm ts tm v,
  In ("root state", root) m -> state_in root (YMap sm) ->
  In ("transitions", YList ts) sm -> In (YMap tm) ts ->
  In ("priority", v) tm -> use_priority v = None -> import_pipeline (doc m) = None.
Proof.
  intros. eapply C12_reject_invalid_state; eauto.
  eapply state_bad_transition_invalid; eauto using schema_transition_bad_priority.
Qed.

Theorem C12_reject_unknown_key_state_contract : forall m root sm cs cm k v,
  In ("root state", root) m -> state_in root (YMap sm) ->
  In ("contract", YList cs) sm -> In (YMap cm) cs ->
  In (k, v) cm -> mem k contract_keys = false -> import_pipeline (doc m) = None.
Proof.
  intros. eapply C12_reject_invalid_state; eauto.
  eapply state_bad_contract_invalid; eauto.
  eapply schema_contracts_bad; eauto using schema_contract_unknown_key.
Qed.

Theorem C12_reject_unknown_key_transition_contract : forall m root sm ts tm cs cm k v,
  In ("root state", root) m -> state_in root (YMap sm) ->
  In ("transitions", YList ts) sm -> In (YMap tm) ts ->
  In ("contract", YList cs) tm -> In (YMap cm) cs ->
  In (k, v) cm -> mem k contract_keys = false -> import_pipeline (doc m) = None.
Proof.
  intros. eapply C12_reject_invalid_state; eauto.
  eapply state_bad_transition_invalid; eauto.
  eapply schema_transition_bad_contract; eauto.
  eapply schema_contracts_bad; eauto using schema_contract_unknown_key.
Qed.

(* ================================================================== 3. C12_error_type: fuel and error kinds *)

(* ---- the schema never runs out of fuel ---- *)
Lemma ydepth_pos : forall d, 1 <= ydepth d.
Proof. destruct d; cbn; lia. Qed.

Lemma ydepth_list_elem : forall l x, In x l -> ydepth x < ydepth (YList l).
Proof.
  intros l x Hin. cbn [ydepth]. apply Nat.lt_succ_r.
  induction l as [|y l IH]; [destruct Hin|]. cbn [fold_right].
  destruct Hin as [->|Hin]; [lia|]. specialize (IH Hin). lia.
Qed.

Lemma ydepth_map_val : forall m k v, In (k, v) m -> ydepth v < ydepth (YMap m).
Proof.
  intros m k v Hin. cbn [ydepth]. apply Nat.lt_succ_r.
  induction m as [|y m IH]; [destruct Hin|]. cbn [fold_right].
  destruct Hin as [->|Hin]; [cbn [snd]; lia|]. specialize (IH Hin). lia.
Qed.

Lemma map_opt_ext : forall {A B} (f g : A -> option B) l,
  (forall x, In x l -> f x = g x) -> map_opt f l = map_opt g l.
Proof.
  intros A B f g l; induction l as [|x l IH]; intros H; [reflexivity|].
  cbn [map_opt]. rewrite (H x (or_introl eq_refl)), IH; [reflexivity|].
  intros y Hy. apply H. right; exact Hy.
Qed.

Lemma schema_state_fuel : forall f1 d f2,
  ydepth d <= f1 -> ydepth d <= f2 -> schema_state f1 d = schema_state f2 d.
Proof.
  induction f1 as [|f1 IH]; intros d f2 H1 H2; [pose proof (ydepth_pos d); lia|].
  destruct f2 as [|f2]; [pose proof (ydepth_pos d); lia|].
  destruct d as [| | | | | |m]; try reflexivity.
  rewrite !schema_state_S.
  rewrite (map_opt_ext (state_field f1) (state_field f2) m); [reflexivity|].
  intros [k v] Hin. unfold state_field. cbn [fst snd].
  destruct (str_eqb k "contract"); [reflexivity|].
  destruct (str_eqb k "transitions"); [reflexivity|].
  destruct (str_eqb k "states" || str_eqb k "parallel states"); [|reflexivity].
  destruct v as [| | | | |l|]; try reflexivity.
  rewrite (map_opt_ext (schema_state f1) (schema_state f2) l); [reflexivity|].
  intros x Hx. pose proof (ydepth_list_elem _ _ Hx). pose proof (ydepth_map_val _ _ _ Hin).
  apply IH; lia.
Qed.

(* ---- the loop of import_from_dict never runs out of fuel ---- *)
Definition stack_size (stack : list (list (string * ydata) * option name)) : nat :=
  fold_right (fun e acc => count_nodes (YMap (fst e)) + acc) 0 stack.
Definition maps_size (l : list ydata) : nat :=
  fold_right (fun d acc => match d with YMap sm => count_nodes (YMap sm) | _ => 0 end + acc) 0 l.

Lemma stack_size_app : forall a b, stack_size (a ++ b) = stack_size a + stack_size b.
Proof.
  induction a as [|e a IH]; intros b; [reflexivity|].
  change (stack_size ((e :: a) ++ b)) with (count_nodes (YMap (fst e)) + stack_size (a ++ b)).
  change (stack_size (e :: a)) with (count_nodes (YMap (fst e)) + stack_size a).
  rewrite IH. lia.
Qed.

Lemma stack_size_cons : forall e a, stack_size (e :: a) = count_nodes (YMap (fst e)) + stack_size a.
Proof. reflexivity. Qed.
Lemma maps_size_cons : forall d l,
  maps_size (d :: l) = match d with YMap sm => count_nodes (YMap sm) | _ => 0 end + maps_size l.
Proof. reflexivity. Qed.

Lemma stack_size_push_subs : forall nm subs acc,
  stack_size (push_subs nm subs acc) = stack_size acc + maps_size subs.
Proof.
  intros nm subs; induction subs as [|d subs IH]; intros acc.
  - change (stack_size acc = stack_size acc + 0). lia.
  - rewrite maps_size_cons.
    change (push_subs nm (d :: subs) acc)
      with (push_subs nm subs (match d with YMap sm => acc ++ [(sm, Some nm)] | _ => acc end)).
    rewrite IH. destruct d; try lia.
    rewrite stack_size_app, stack_size_cons. cbn [fst]. change (stack_size []) with 0. lia.
Qed.

Lemma count_nodes_pos : forall d, 1 <= count_nodes d.
Proof. destruct d; cbn; lia. Qed.

Lemma maps_size_lt : forall l, maps_size l < count_nodes (YList l).
Proof.
  intros l. cbn [count_nodes]. apply Nat.lt_succ_r.
  induction l as [|d l IH]; [change (0 <= 0); lia|]. rewrite maps_size_cons. cbn [fold_right].
  destruct d; lia.
Qed.

Lemma count_nodes_map_val : forall m k v, In (k, v) m -> count_nodes v < count_nodes (YMap m).
Proof.
  intros m k v Hin. cbn [count_nodes]. apply Nat.lt_succ_r.
  induction m as [|y m IH]; [destruct Hin|]. cbn [fold_right].
  destruct Hin as [->|Hin]; [cbn [snd]; lia|]. specialize (IH Hin). lia.
Qed.

Lemma ylookup_In : forall k m v, ylookup k m = Some v -> In (k, v) m.
Proof.
  intros k m v; induction m as [|[k0 v0] m IH]; cbn [ylookup]; [discriminate|].
  destruct (seqbP k k0) as [->|Hn]; intros H; [inv H; left; reflexivity|right; auto].
Qed.

Lemma ylist_of_size : forall k m, maps_size (ylist_of k m) < count_nodes (YMap m).
Proof.
  intros k m. unfold ylist_of. pose proof (count_nodes_pos (YMap m)).
  destruct (ylookup k m) as [[| | | | |l|]|] eqn:E; try (change (maps_size []) with 0; lia).
  pose proof (count_nodes_map_val _ _ _ (ylookup_In _ _ _ E)). pose proof (maps_size_lt l). lia.
Qed.

Lemma subs_of_size : forall st m, maps_size (subs_of st m) < count_nodes (YMap m).
Proof.
  intros st m. unfold subs_of. pose proof (count_nodes_pos (YMap m)).
  pose proof (ylist_of_size "states" m). pose proof (ylist_of_size "parallel states" m).
  destruct (s_kind st); try (change (maps_size []) with 0); lia.
Qed.

Lemma rev_cons_eq : forall {A} (l : list A) x r, rev l = x :: r -> l = rev r ++ [x].
Proof. intros A l x r H. rewrite <- (rev_involutive l), H. reflexivity. Qed.

Lemma import_walk_fuel : forall f1 stack states trans f2,
  stack_size stack < f1 -> stack_size stack < f2 ->
  import_walk f1 stack states trans = import_walk f2 stack states trans.
Proof.
  induction f1 as [|f1 IH]; intros stack states trans f2 H1 H2; [lia|].
  destruct f2 as [|f2]; [lia|]. rewrite !import_walk_S.
  destruct (rev stack) as [|[m parent] rr] eqn:Er; [reflexivity|].
  destruct (import_state m) as [st|]; [|reflexivity].
  apply rev_cons_eq in Er. subst stack. rewrite stack_size_app in H1, H2.
  cbn [stack_size fold_right fst] in H1, H2.
  pose proof (subs_of_size st m).
  apply IH; rewrite stack_size_push_subs; fold (stack_size (rev rr)) in *; lia.
Qed.

(* ---- the pipeline with arbitrary additional fuel ---- *)
Definition with_doc {A} (d : ydata) (f : list (string * ydata) -> option A) : option A :=
  match d with YMap [("statechart", YMap m)] => f m | _ => None end.

Lemma with_doc_ext : forall {A} d (f g : list (string * ydata) -> option A),
  (forall m, f m = g m) -> with_doc d f = with_doc d g.
Proof.
  intros A d f g H. unfold with_doc.
  repeat match goal with
         | |- context [match ?x with _ => _ end] => is_var x; destruct x; try reflexivity
         end.
  apply H.
Qed.

Definition schema_statechart_f (k : nat) (d : ydata) : option ydata :=
  with_doc d (fun m =>
    if keys_within m statechart_keys
       && (match ylookup "name" m with Some _ => true | None => false end)
       && (match ylookup "root state" m with Some _ => true | None => false end)
    then option_map (fun m' => YMap [("statechart", YMap m')])
           (map_opt (fun kv => if str_eqb (fst kv) "root state"
                               then option_map (fun x => (fst kv, x)) (schema_state (k + S (ydepth (snd kv))) (snd kv))
                               else v_str kv) m)
    else None).

Definition import_from_dict_f (k : nat) (d : ydata) : option chart :=
  with_doc d (fun m =>
    match get_str "name" m, ylookup "root state" m with
    | Some nm, Some (YMap root) =>
        match import_walk (k + S (count_nodes (YMap root))) [(root, None)] [] [] with
        | None => None
        | Some (states, trans) =>
            match add_states (empty_chart nm (get_str "description" m) (get_str "preamble" m)) states with
            | None => None
            | Some c => add_transitions c trans
            end
        end
    | _, _ => None
    end).

Definition import_pipeline_f (k1 k2 : nat) (d : ydata) : option chart :=
  match schema_statechart_f k1 d with
  | None => None
  | Some d' =>
      match import_from_dict_f k2 d' with
      | None => None
      | Some c => if validate c then Some c else None
      end
  end.

Lemma schema_statechart_with_doc : forall d,
  schema_statechart d =
  with_doc d (fun m =>
    if keys_within m statechart_keys
       && (match ylookup "name" m with Some _ => true | None => false end)
       && (match ylookup "root state" m with Some _ => true | None => false end)
    then option_map (fun m' => doc m') (map_opt statechart_field m) else None).
Proof. reflexivity. Qed.

Lemma import_from_dict_with_doc : forall d, import_from_dict d = import_from_dict_f 0 d.
Proof. reflexivity. Qed.

Lemma schema_statechart_fuel : forall k d, schema_statechart_f k d = schema_statechart d.
Proof.
  intros k d. unfold schema_statechart_f. rewrite schema_statechart_with_doc. apply with_doc_ext. intros m.
  destruct (_ && _); [|reflexivity]. unfold doc. f_equal. apply map_opt_ext. intros [k0 v] _.
  unfold statechart_field. cbn [fst snd]. destruct (str_eqb k0 "root state"); [|reflexivity].
  rewrite (schema_state_fuel (k + S (ydepth v)) v (S (ydepth v))); [reflexivity|lia|lia].
Qed.

Lemma import_from_dict_fuel : forall k d, import_from_dict_f k d = import_from_dict d.
Proof.
  intros k d. rewrite import_from_dict_with_doc. unfold import_from_dict_f. apply with_doc_ext. intros m.
  destruct (get_str "name" m) as [nm|]; [|reflexivity].
  destruct (ylookup "root state" m) as [[| | | | | |root]|]; try reflexivity.
  rewrite (import_walk_fuel (k + S (count_nodes (YMap root))) _ _ _ (0 + S (count_nodes (YMap root))));
    [reflexivity| |]; rewrite stack_size_cons; cbn [fst]; change (stack_size []) with 0; lia.
Qed.

(* C12, last clause, as far as it is a statement about the model: the outcome of the pipeline is Some
   statechart or None (= StatechartError) and is the same whatever fuel is added to the two bounded
   recursions -- no None is an artefact of a fuel running out *)
Theorem C12_error_type_fuel : forall k1 k2 d, import_pipeline_f k1 k2 d = import_pipeline d.
Proof.
  intros k1 k2 d. unfold import_pipeline_f, import_pipeline. rewrite schema_statechart_fuel.
  destruct (schema_statechart d) as [d'|]; [|reflexivity]. rewrite import_from_dict_fuel. reflexivity.
Qed.

(* ... and the None produced by the registration loops stands for StatechartError only: add_state never
   ends in the KeyError of `self._children[parent].append`, add_transition raises nothing else *)
Theorem C12_error_type_no_keyerror : forall f root states trans nm descr pre,
  import_walk f [(root, None)] [] [] = Some (states, trans) ->
  add_states_err (empty_chart nm descr pre) states = EOk \/
  add_states_err (empty_chart nm descr pre) states = EStatechartError.
Proof.
  intros f root states trans nm descr pre Hw.
  apply import_walk_root_ordered in Hw. cbn [fst] in Hw.
  apply (add_states_no_keyerror states _ []); [|exact Hw].
  constructor.
  - rewrite erase_empty. apply empty_chart_sound.
  - intros q. unfold has_state; cbn. split; [intros []|discriminate].
  - intros k s Hl; discriminate.
Qed.

Lemma add_states_err_spec : forall l c, add_states_err c l = EOk <-> add_states c l <> None.
Proof.
  induction l as [|[st p] l IH]; intros c; cbn [add_states_err add_states]; [split; [discriminate|reflexivity]|].
  destruct (add_state c st p) as [c1 r]. destruct r; try (split; [discriminate|congruence]). apply IH.
Qed.

Print Assumptions C12_sound.
Print Assumptions C12_sound_b.
Print Assumptions C12_sound_b_refuted.
Print Assumptions import_sound_b_iff.
Print Assumptions C12_reject_unknown_key_transition_contract.
Print Assumptions C12_error_type_fuel.
Print Assumptions C12_error_type_no_keyerror.
