(* IOProofs.v -- C12 "YAML import accepts only sound statecharts" and C11 "export/import round trip"
   for the model of theories/IO.v (schema validation of yaml.py, import_from_dict / export_to_dict of
   datadict.py), built on the add_state / add_transition invariants of EditProofs.v
   (register_sound, add_state_inv, sound_with_transitions, sound_b_sound, sound_sound_b).

   The pipeline is  import_pipeline d = schema_statechart d >>= import_from_dict >>= validate ;  None models
   StatechartError.  Everything below is about YAML *data trees* (ydata); ruamel's text layer is not modelled.

   ---------------------------------------------------------------------------------------------------------
   C12, first sentence
   * import_sound c (Record): unique names stored under their own name; _parent/_children keyed by exactly the
     states, mutually consistent, at most one parentless state, acyclic (rank); transitions from
     transition-owning states to existing states; history states have a compound parent; every truthy
     `initial` of a compound state is a direct child; every `memory` of a history state is a sibling <> itself.
     import_sound_one_tree spells "one tree" out: one root, every other state a strict descendant.
   * C12_sound : import_pipeline d = Some c -> import_sound c.            (no hypothesis, any ydata)
     Proof: add_state/add_transition never read initial/memory, so the chart with these fields erased is
     built by the same calls and is `sound` by EditProofs.register_sound; the walk registers parents before
     children (import_walk_ordered), which also handles states named ''; validate gives initial/memory.
   * checker <-> Prop: import_sound_b_sound (needs no_empty_name c: the acyclicity test of sound_b stops at a
     state named ''), import_sound_b_complete (needs refs_tidy c: initial only on compound / memory only on
     history states, no initial = Some ""), import_sound_b_iff.
   * C12_sound_b : on an imported chart the checker passes provided no state has initial = Some "".
     C12_sound_b_refuted (witness doc_initial_empty): a compound state with `initial: ''` is accepted and
     the strict checker import_sound_b fails on the result.  Checked against /repo: validate() and the
     interpreter test `if state.initial`, so '' means "no initial state" -- benign, no sismic defect; it is
     the checker that reads Some "" as a declared initial state.
     (DESIGN's expected C12_sound_refuted "history root accepted" no longer holds: /repo and the model were fixed.)

   C12, second sentence (the C12_reject_ theorems)
   * schema level, on the raw document doc m = {statechart: m}, fault at ANY depth (state_in = reachable through
     'states'/'parallel states', using In, so also under shadowed duplicate keys):
     C12_reject_not_a_statechart, _unknown_key_statechart, _missing_statechart_name, _missing_root_state,
     _invalid_state (generic), _unknown_key_state, _missing_state_name, _state_not_a_mapping, _unknown_type,
     _unknown_key_transition, _bad_priority (use_priority_None_iff says which priorities are refused),
     _unknown_key_state_contract, _unknown_key_transition_contract.
   * import/validate level (Section ImportFaults).  Hypotheses: schema_statechart d = Some (doc m) and
     ylookup "root state" m = Some (YMap root); the fault is located in the schema-VALIDATED tree doc m
     (= d with scalars coerced by Use(str)/Use(int); = d itself whenever the schema is the identity on d,
     e.g. every exported document, schema_export) at a node the importer visits (walk_in):
     C12_reject_import_state, _both_states_and_parallel, _duplicate_name (two visited nodes, same name,
     differing in parent or content), _duplicate_name_list (any repetition in the list of registered
     names), _transition_on_final_or_history, _unknown_target, _history_root, _history_under_non_compound,
     _initial_not_child, _memory_not_sibling (itself / no such sibling / unknown).
     GAP: these ten are not restated on the raw tree d (needs a shape lemma relating d and schema d);
     substates written under a final/history state are ignored by the importer and are no fault (DESIGN).

   C12, last sentence
   * C12_error_type : (i) the outcome is None or Some c; (ii) C12_error_type_fuel: adding any fuel to the
     two bounded recursions (schema_state: ydepth, import_walk: count_nodes) does not change the outcome, so no
     None is due to a fuel running out (schema_state_fuel, import_walk_fuel); (iii)
     C12_error_type_no_keyerror: in the registration loop add_state never ends in the KeyError that
     add_states would silently turn into None (add_transition only ever returns EOk/EStatechartError).
     Not expressible in the model: other Python exceptions (the model has no such outcome; use_str of a
     list/mapping is "<repr not modelled>").

   C11 (dict level)
   * valid_for_export_b c (decidable): import_sound_b c (sound tree, validate passes, history under compound),
     no state named '', a root exists, exactly the composite states have children, no empty contract condition.
     No hypothesis on whitespace: roundtrip_ok compares with strip_state/strip_trans (code and event stripped,
     '' read as None), which is exactly what the importer does.
   * C11_dict_roundtrip : valid_for_export_b c = true ->
       exists c', import_pipeline (export_to_dict c) = Some c' /\ roundtrip_ok c c' = true.       (complete)
     roundtrip_ok_eqv unfolds the checker into the Prop roundtrip_eqv (same name/description/preamble, same
     states with all fields, same parents, same children sets, as many transitions, same transitions per
     source in the same order); C11_dict_roundtrip_eqv combines both.
     Building blocks: priority_roundtrip, import_contract_items, import_export_transition,
     import_export_state, schema_export_transition, schema_efields / schema_export_tree / schema_export
     (the schema is the identity on exported documents), subtree_of_sound (fuel S |states| reaches every
     state), walk_export (the explicit stack = preorder with reversed siblings, cdfs), cdfs_In / cdfs_NoDup,
     add_states_export_ok, back_validate, roundtrip_export.
   * Not here: C11_behaviour and C11_eq of DESIGN (runs / Python ==); the text layer (load(dump d) = d).

   Non-vacuity: ex_doc / ex_chart (11 states, nested compound + orthogonal, shallow+deep history, final,
   contracts, priorities high/low/5/"-3", name given as integer 7): ex_import, ex_import_sound_b, ex_valid,
   ex_roundtrip, ex_roundtrip_by_theorem; nine faulty documents ex_reject_*, each closed with the theorem of
   its class (hypotheses satisfiable) or by vm_compute.

   Depends on EditProofs.register_sound in its current form (hypothesis memory_ok). *)
From Coq Require Import String Ascii List Bool ZArith NArith Arith Lia Permutation Sorted.
From SismicProofs Require Import SortLib EditProofs.
From Sismic Require Import Base Chart Edit IO IOCorr.
Import ListNotations.
Open Scope string_scope.
Open Scope list_scope.

(* ================================================================== 1. C12_sound *)

(* ---- erasing initial/memory: add_state/add_transition never look at them ---- *)
Definition clr_refs (s : state) : state :=
  mkState (s_name s) (s_kind s) None None (s_on_entry s) (s_on_exit s) (s_pre s) (s_post s) (s_inv s).
Definition erase (c : chart) : chart :=
  with_states c (map (fun kv => (fst kv, clr_refs (snd kv))) (c_states c)).

Lemma has_state_erase : forall c n, has_state (erase c) n = has_state c n.
Proof.
  intros c n. unfold has_state, erase, with_states. cbn [c_states].
  rewrite lookup_mapv. destruct (lookup n (c_states c)); reflexivity.
Qed.

Lemma lookup_erase : forall c n, lookup n (c_states (erase c)) = option_map clr_refs (lookup n (c_states c)).
Proof. intros c n. unfold erase, with_states. cbn [c_states]. apply lookup_mapv. Qed.

Lemma keys_erase : forall c, map fst (c_states (erase c)) = map fst (c_states c).
Proof. intros c. unfold erase, with_states. cbn [c_states]. apply keys_mapv. Qed.

Lemma map_dset : forall {V W} (f : V -> W) k v (d : list (name * V)),
  map (fun kv => (fst kv, f (snd kv))) (dset k v d) = dset k (f v) (map (fun kv => (fst kv, f (snd kv))) d).
Proof.
  intros V W f k v d; induction d as [|[k0 v0] d IH]; simpl; [reflexivity|].
  destruct (str_eqb k k0); simpl; [reflexivity|]. rewrite IH; reflexivity.
Qed.

Lemma erase_register : forall c st p l,
  erase (register_chart c st p l) = register_chart (erase c) (clr_refs st) p l.
Proof.
  intros c st p l. unfold erase, register_chart, with_states. cbn. rewrite map_dset. reflexivity.
Qed.

Lemma empty_chart_sound : forall nm d p, sound (empty_chart nm d p).
Proof.
  intros nm d p. constructor; cbn.
  - constructor.
  - constructor.
  - constructor; [intros []|constructor].
  - intros k s H; discriminate.
  - intros n. unfold has_state; cbn. split; [congruence|discriminate].
  - intros n. unfold has_state; cbn. split; [congruence|discriminate].
  - discriminate.
  - intros n q H; discriminate.
  - intros [k|] l ch H; cbn in H; [discriminate|]. inv H. intros [].
  - intros l H. inv H. cbn. lia.
  - exists (fun _ => 0). intros n q H; discriminate.
  - intros t [].
  - intros k s H; discriminate.
  - intros k s i H; discriminate.
  - intros k s m H; discriminate.
Qed.

Lemma erase_empty : forall nm d p, erase (empty_chart nm d p) = empty_chart nm d p.
Proof. reflexivity. Qed.

(* ---- the loop of import_from_dict, one iteration ---- *)
Definition push_subs (nm : name) (subs : list ydata) (acc : list (list (string * ydata) * option name)) :=
  fold_left (fun acc d => match d with YMap sm => acc ++ [(sm, Some nm)] | _ => acc end) subs acc.
Definition push_trans (nm : name) (ts : list ydata) (acc : list transition) :=
  fold_left (fun acc d => match d with YMap tm => acc ++ [import_transition nm tm] | _ => acc end) ts acc.
Definition subs_of (st : state) (m : list (string * ydata)) : list ydata :=
  match s_kind st with
  | KCompound => ylist_of "states" m
  | KOrthogonal => ylist_of "parallel states" m
  | _ => []
  end.

Lemma import_walk_S : forall f stack states trans,
  import_walk (S f) stack states trans =
  match rev stack with
  | [] => Some (states, trans)
  | (m, parent) :: rest_rev =>
      match import_state m with
      | None => None
      | Some st =>
          import_walk f (push_subs (s_name st) (subs_of st m) (rev rest_rev)) (states ++ [(st, parent)])
                      (push_trans (s_name st) (ylist_of "transitions" m) trans)
      end
  end.
Proof. reflexivity. Qed.

Lemma In_push_subs : forall nm subs acc e,
  In e (push_subs nm subs acc) -> In e acc \/ exists sm, e = (sm, Some nm) /\ In (YMap sm) subs.
Proof.
  intros nm subs; induction subs as [|d subs IH]; intros acc e H; cbn in H; [left; exact H|].
  apply IH in H. destruct H as [H|[sm [E Hin]]].
  - destruct d; try (left; exact H).
    apply in_app_or in H. destruct H as [H|[<-|[]]]; [left; exact H|].
    right. eexists; split; [reflexivity|left; reflexivity].
  - right. exists sm. split; [exact E|right; exact Hin].
Qed.

(* ---- order in which the states are registered: a parent before its children, one root first ---- *)
Definition snames (l : list (state * option name)) : list name := map (fun e => s_name (fst e)) l.

Definition pok (seen : list name) (p : option name) : Prop :=
  match p with None => seen = [] | Some q => In q seen end.

Fixpoint ordered (seen : list name) (l : list (state * option name)) : Prop :=
  match l with
  | [] => True
  | e :: r => pok seen (snd e) /\ ordered (s_name (fst e) :: seen) r
  end.

Lemma ordered_snoc : forall l seen e,
  ordered seen l -> pok (rev (snames l) ++ seen) (snd e) -> ordered seen (l ++ [e]).
Proof.
  induction l as [|a l IH]; intros seen e Ho Hp; cbn in *; [split; [exact Hp|exact I]|].
  destruct Ho as [H1 H2]. split; [exact H1|]. apply IH; [exact H2|].
  rewrite <- app_assoc in Hp. exact Hp.
Qed.

Lemma import_walk_ordered : forall fuel stack states trans res,
  ordered [] states ->
  (forall m p, In (m, p) stack -> exists q, p = Some q /\ In q (snames states)) ->
  import_walk fuel stack states trans = Some res -> ordered [] (fst res).
Proof.
  induction fuel as [|f IH]; intros stack states trans res Ho Hst H; [discriminate|].
  rewrite import_walk_S in H. destruct (rev stack) as [|[m parent] rr] eqn:Er.
  - inv H. exact Ho.
  - destruct (import_state m) as [st|]; [|discriminate].
    assert (Hsub : forall x, In x (rev rr) -> In x stack).
    { intros x Hx. apply in_rev. rewrite Er. right. apply in_rev. exact Hx. }
    apply IH in H; [exact H| |].
    + apply ordered_snoc; [exact Ho|]. cbn [snd].
      destruct (Hst m parent) as [q [-> Hq]]; [apply in_rev; rewrite Er; left; reflexivity|].
      cbn. apply in_or_app. left. apply in_rev in Hq. exact Hq.
    + intros m' p' Hin. apply In_push_subs in Hin. unfold snames. rewrite map_app.
      destruct Hin as [Hin|[sm [E _]]].
      * destruct (Hst m' p' (Hsub _ Hin)) as [q [-> Hq]]. exists q. split; [reflexivity|].
        apply in_or_app; left; exact Hq.
      * inv E. eexists; split; [reflexivity|]. apply in_or_app; right; left; reflexivity.
Qed.

Lemma import_walk_root_ordered : forall f root res,
  import_walk f [(root, None)] [] [] = Some res -> ordered [] (fst res).
Proof.
  intros [|f] root res H; [discriminate|]. rewrite import_walk_S in H. cbn [rev app] in H.
  destruct (import_state root) as [st|]; [|discriminate].
  eapply import_walk_ordered; [| |exact H].
  - cbn. split; [reflexivity|exact I].
  - intros m p Hin. apply In_push_subs in Hin. destruct Hin as [[]|[sm [E _]]].
    inv E. eexists; split; [reflexivity|left; reflexivity].
Qed.

(* ---- invariant of the registration loops ---- *)
Definition hist_ok (c : chart) : Prop :=
  forall k s, lookup k (c_states c) = Some s -> is_history (s_kind s) = true ->
    exists p ps, lookup k (c_parent c) = Some (Some p) /\ lookup p (c_states c) = Some ps /\ s_kind ps = KCompound.

Record inv_import (c : chart) (seen : list name) : Prop := mkInvImport {
  ii_sound : sound (erase c);
  ii_seen : forall q, In q seen <-> has_state c q = true;
  ii_hist : hist_ok c
}.

Lemma add_state_hist : forall c st p c' r,
  add_state c st p = (c', r) -> r = EOk \/ r = EKeyError -> is_history (s_kind st) = true ->
  exists q ps, p = Some q /\ lookup q (c_states c) = Some ps /\ s_kind ps = KCompound.
Proof.
  intros c st p c' r H Hr Hh. unfold add_state in H.
  destruct (has_state c (s_name st)); [inv H; destruct Hr; discriminate|].
  destruct (no_parent p).
  - destruct (truthy (root c)); [inv H; destruct Hr; discriminate|].
    rewrite Hh in H. inv H; destruct Hr; discriminate.
  - destruct p as [q|]; [|inv H; destruct Hr; discriminate].
    unfold state_for in H. destruct (lookup q (c_states c)) as [ps|] eqn:Eq; [|inv H; destruct Hr; discriminate].
    destruct (negb (is_composite (s_kind ps))); [inv H; destruct Hr; discriminate|].
    rewrite Hh in H. cbn [andb] in H.
    destruct (kind_eqb (s_kind ps) KCompound) eqn:Ek; cbn [negb] in H; [|inv H; destruct Hr; discriminate].
    apply kind_eqb_eq in Ek. exists q, ps. auto.
Qed.

Lemma has_state_register : forall c st p l q,
  has_state (register_chart c st p l) q = str_eqb q (s_name st) || has_state c q.
Proof.
  intros c st p l q. unfold has_state, register_chart. cbn [c_states]. rewrite lookup_dset.
  destruct (str_eqb q (s_name st)); reflexivity.
Qed.

(* one add_state of the loop: it cannot fail with KeyError and keeps the invariant *)
Lemma add_state_import_step : forall c seen st p c' r,
  inv_import c seen -> pok seen p -> add_state c st p = (c', r) -> r = EOk \/ r = EKeyError ->
  r = EOk /\ inv_import c' (s_name st :: seen).
Proof.
  intros c seen st p c' r [HS Hseen Hhist] Hpok H Hr.
  destruct (add_state_inv _ _ _ _ _ H Hr) as [Hfresh [_ Hreg]].
  rewrite olookup_oset in Hreg.
  assert (Hp : p <> Some (s_name st) /\ exists l, olookup p (c_children c) = Some l /\
               (p = None -> l = []) /\ (forall q, p = Some q -> has_state c q = true)).
  { destruct p as [q|]; cbn in Hpok.
    - apply Hseen in Hpok. split; [intros E; inv E; congruence|].
      destruct (sound_state_children (erase c) HS q) as [l El]; [rewrite has_state_erase; exact Hpok|].
      exists l. split; [exact El|]. split; [discriminate|]. intros q' E; inv E; exact Hpok.
    - subst seen. split; [discriminate|].
      destruct (olookup None (c_children c)) as [l|] eqn:El; [|exfalso; apply (sd_ctop (erase c) HS); exact El].
      exists l. split; [reflexivity|]. split; [|discriminate]. intros _.
      destruct l as [|x l]; [reflexivity|]. exfalso.
      assert (Hx : has_state (erase c) x = true).
      { apply (sound_child_state (erase c) HS None (x :: l) x); [exact El|left; reflexivity]. }
      rewrite has_state_erase in Hx. apply Hseen in Hx. destruct Hx. }
  destruct Hp as [Hne [l [El [Htop Hpar]]]].
  destruct (oeqbP p (Some (s_name st))) as [E|_]; [congruence|].
  rewrite El in Hreg. destruct Hreg as [-> ->]. split; [reflexivity|].
  constructor.
  - rewrite erase_register.
    apply register_sound;
      try match goal with
          | |- has_state (erase _) _ = false => cbn [clr_refs s_name]; rewrite has_state_erase; exact Hfresh
          | |- forall q, _ = Some q -> has_state (erase _) q = true =>
              intros q E; rewrite has_state_erase; auto
          | |- memory_ok _ _ _ => intros mm E; discriminate E
          end; auto.
  - intros q. rewrite has_state_register. cbn [In]. rewrite Hseen.
    destruct (seqbP q (s_name st)) as [->|Hn]; cbn [orb].
    + split; [reflexivity|left; reflexivity].
    + split; [intros [E|E]; [congruence|exact E]|intros E; right; exact E].
  - intros k s Hl Hh. unfold register_chart in *. cbn [c_states c_parent] in *.
    rewrite lookup_dset in Hl.
    destruct (seqbP k (s_name st)) as [->|Hn].
    + inv Hl. destruct (add_state_hist _ _ _ _ _ H (or_introl eq_refl) Hh) as [q [ps [-> [Hq Hk]]]].
      exists q, ps. rewrite !lookup_dset, seqb_refl. split; [reflexivity|]. split; [|exact Hk].
      destruct (seqbP q (s_name s)) as [->|_]; [|exact Hq].
      apply has_state_false in Hfresh. congruence.
    + destruct (Hhist k s Hl Hh) as [q [ps [H1 [H2 H3]]]]. exists q, ps. rewrite !lookup_dset.
      destruct (seqbP k (s_name st)) as [|_]; [congruence|].
      split; [exact H1|]. split; [|exact H3].
      destruct (seqbP q (s_name st)) as [->|_]; [|exact H2].
      apply has_state_false in Hfresh. congruence.
Qed.

Lemma add_states_import : forall l c seen c',
  inv_import c seen -> ordered seen l -> add_states c l = Some c' ->
  inv_import c' (rev (snames l) ++ seen).
Proof.
  induction l as [|[st p] l IH]; intros c seen c' Hinv Ho H; cbn [add_states] in H.
  - inv H. exact Hinv.
  - destruct (add_state c st p) as [c1 r] eqn:E. destruct Ho as [Hp Ho]. cbn [fst snd] in *.
    destruct r; try discriminate.
    destruct (add_state_import_step _ _ _ _ _ _ Hinv Hp E (or_introl eq_refl)) as [_ Hinv1].
    specialize (IH _ _ _ Hinv1 Ho H). cbn [snames map rev fst]. rewrite <- app_assoc. exact IH.
Qed.

(* the first error of the loop, if any: never a KeyError (which Python would not turn into StatechartError) *)
Fixpoint add_states_err (c : chart) (l : list (state * option name)) : eres :=
  match l with
  | [] => EOk
  | (st, p) :: r => match add_state c st p with (c', EOk) => add_states_err c' r | (_, e) => e end
  end.

Lemma add_state_results : forall c st p, snd (add_state c st p) = EOk \/ snd (add_state c st p) = EStatechartError
                                         \/ snd (add_state c st p) = EKeyError.
Proof.
  intros c st p. unfold add_state.
  repeat match goal with
         | |- context [if ?b then _ else _] => destruct b
         | |- context [match ?x with _ => _ end] => destruct x
         end; cbn; auto.
Qed.

Lemma add_states_no_keyerror : forall l c seen,
  inv_import c seen -> ordered seen l ->
  add_states_err c l = EOk \/ add_states_err c l = EStatechartError.
Proof.
  induction l as [|[st p] l IH]; intros c seen Hinv Ho; cbn [add_states_err]; [left; reflexivity|].
  destruct Ho as [Hp Ho]. cbn [fst snd] in *.
  destruct (add_state c st p) as [c1 r] eqn:E.
  pose proof (add_state_results c st p) as Hr. rewrite E in Hr. cbn [snd] in Hr.
  destruct Hr as [->|[->| ->]].
  - destruct (add_state_import_step _ _ _ _ _ _ Hinv Hp E (or_introl eq_refl)) as [_ Hinv1].
    eapply IH; eauto.
  - right; reflexivity.
  - destruct (add_state_import_step _ _ _ _ _ _ Hinv Hp E (or_intror eq_refl)) as [Habs _]. discriminate.
Qed.

(* ---- add_transition ---- *)
Lemma add_transition_ok_inv : forall c t c',
  add_transition c t = (c', EOk) ->
  c' = with_transitions c (c_transitions c ++ [t]) /\
  (exists s, lookup (t_source t) (c_states c) = Some s /\ owns_transitions (s_kind s) = true) /\
  (forall tg, t_target t = Some tg -> has_state c tg = true).
Proof.
  intros c t c' H. unfold add_transition, state_for in H.
  destruct (lookup (t_source t) (c_states c)) as [s|] eqn:Es; [|discriminate].
  destruct (owns_transitions (s_kind s)) eqn:Eo; cbn [negb] in H; [|discriminate].
  destruct (t_target t) as [tg|].
  - destruct (has_state c tg) eqn:Etg; inv H.
    split; [reflexivity|]. split; [eauto|]. intros x E; inv E; exact Etg.
  - inv H. split; [reflexivity|]. split; [eauto|]. intros x E; discriminate.
Qed.

Lemma add_transition_results : forall c t,
  snd (add_transition c t) = EOk \/ snd (add_transition c t) = EStatechartError.
Proof.
  intros c t. unfold add_transition.
  repeat match goal with
         | |- context [if ?b then _ else _] => destruct b
         | |- context [match ?x with _ => _ end] => destruct x
         end; cbn; auto.
Qed.

Lemma add_transition_import_step : forall c seen t c',
  inv_import c seen -> add_transition c t = (c', EOk) -> inv_import c' seen.
Proof.
  intros c seen t c' [HS Hseen Hhist] H.
  destruct (add_transition_ok_inv _ _ _ H) as [-> [[s [Hs Ho]] Htg]].
  constructor.
  - change (erase (with_transitions c (c_transitions c ++ [t])))
      with (with_transitions (erase c) (c_transitions (erase c) ++ [t])).
    apply sound_with_transitions; [exact HS|].
    intros t' Hin. apply in_app_or in Hin. destruct Hin as [Hin|[<-|[]]].
    + apply (sd_trans (erase c) HS); exact Hin.
    + split.
      * exists (clr_refs s). rewrite lookup_erase, Hs. split; [reflexivity|exact Ho].
      * intros tg E. rewrite has_state_erase. auto.
  - exact Hseen.
  - exact Hhist.
Qed.

Lemma add_transitions_import : forall l c seen c',
  inv_import c seen -> add_transitions c l = Some c' -> inv_import c' seen.
Proof.
  induction l as [|t l IH]; intros c seen c' Hinv H; cbn [add_transitions] in H; [inv H; exact Hinv|].
  destruct (add_transition c t) as [c1 r] eqn:E. destruct r; try discriminate.
  eapply IH; [|exact H]. eapply add_transition_import_step; eauto.
Qed.

(* ---- inversion of the pattern matching on the literal key "statechart" ---- *)
Ltac peel H :=
  repeat match type of H with
         | match ?x with _ => _ end = Some _ => is_var x; destruct x; try discriminate H
         end.

Lemma import_from_dict_inv : forall d c,
  import_from_dict d = Some c ->
  exists m nm root states trans c1,
    d = YMap [("statechart", YMap m)] /\ get_str "name" m = Some nm /\ ylookup "root state" m = Some (YMap root) /\
    import_walk (S (count_nodes (YMap root))) [(root, None)] [] [] = Some (states, trans) /\
    add_states (empty_chart nm (get_str "description" m) (get_str "preamble" m)) states = Some c1 /\
    add_transitions c1 trans = Some c.
Proof.
  intros d c H. unfold import_from_dict in H. peel H.
  match goal with |- exists _ _ _ _ _ _, YMap [(_, YMap ?m0)] = _ /\ _ => rename m0 into m end.
  destruct (get_str "name" m) as [nm|] eqn:En; [|discriminate].
  destruct (ylookup "root state" m) as [[| | | | | |root]|] eqn:Er; try discriminate.
  destruct (import_walk (S (count_nodes (YMap root))) [(root, None)] [] []) as [[states trans]|] eqn:Ew; [|discriminate].
  destruct (add_states (empty_chart nm (get_str "description" m) (get_str "preamble" m)) states) as [c1|] eqn:Ea;
    [|discriminate].
  exists m, nm, root, states, trans, c1. repeat split; auto.
Qed.

Lemma import_from_dict_invariant : forall d c,
  import_from_dict d = Some c -> exists seen, inv_import c seen.
Proof.
  intros d c H. destruct (import_from_dict_inv _ _ H) as [m [nm [root [states [trans [c1 [_ [_ [_ [Hw [Ha Ht]]]]]]]]]]].
  apply import_walk_root_ordered in Hw. cbn [fst] in Hw.
  assert (H0 : inv_import (empty_chart nm (get_str "description" m) (get_str "preamble" m)) []).
  { constructor.
    - rewrite erase_empty. apply empty_chart_sound.
    - intros q. unfold has_state; cbn. split; [intros []|discriminate].
    - intros k s Hl; discriminate. }
  pose proof (add_states_import _ _ _ _ H0 Hw Ha) as H1.
  eexists. eapply add_transitions_import; eauto.
Qed.

(* ---- the property: first sentence of C12 ---- *)
Record import_sound (c : chart) : Prop := mkImportSound {
  (* unique state names, every state object stored under its own name *)
  is_nd_states : NoDup (map fst (c_states c));
  is_keyname : forall k s, lookup k (c_states c) = Some s -> s_name s = k;
  (* ... forming one tree: _parent and _children are keyed by exactly the states (plus None for the top
     level), they agree with each other, there is at most one parentless state and no cycle *)
  is_nd_parent : NoDup (map fst (c_parent c));
  is_nd_children : NoDup (map fst (c_children c));
  is_pkeys : forall n, lookup n (c_parent c) <> None <-> has_state c n = true;
  is_ckeys : forall n, olookup (Some n) (c_children c) <> None <-> has_state c n = true;
  is_ctop : olookup None (c_children c) <> None;
  is_pc : forall n p, lookup n (c_parent c) = Some p ->
      (forall q, p = Some q -> has_state c q = true) /\
      exists l, olookup p (c_children c) = Some l /\ count_occ string_dec l n = 1;
  is_cp : forall k l ch, olookup k (c_children c) = Some l -> In ch l -> lookup ch (c_parent c) = Some k;
  is_top : forall l, olookup None (c_children c) = Some l -> length l <= 1;
  is_acyc : exists rank, rank_ok c rank;
  (* transitions only from states that may own transitions and only towards existing states *)
  is_trans : forall t, In t (c_transitions c) ->
      (exists s, lookup (t_source t) (c_states c) = Some s /\ owns_transitions (s_kind s) = true) /\
      (forall tg, t_target t = Some tg -> has_state c tg = true);
  (* history states only inside compound states *)
  is_hist : hist_ok c;
  (* every declared (= truthy, as tested by validate() and by the interpreter) initial state a direct child *)
  is_init : forall k s i, lookup k (c_states c) = Some s -> s_kind s = KCompound ->
      truthy (s_initial s) = Some i -> In i (children_for c k);
  (* every history memory a sibling other than itself *)
  is_mem : forall k s m, lookup k (c_states c) = Some s -> is_history (s_kind s) = true ->
      s_memory s = Some m -> m <> k /\ exists p, parent_for c k = Some p /\ In m (children_for c p)
}.

Lemma import_sound_of_erase : forall c,
  sound (erase c) -> hist_ok c -> validate c = true -> import_sound c.
Proof.
  intros c HS Hh Hv.
  assert (Hnd : NoDup (map fst (c_states c))) by (rewrite <- keys_erase; apply (sd_nd_states _ HS)).
  unfold validate in Hv. apply andb_true_iff in Hv. destruct Hv as [Hvi Hvm].
  constructor.
  - exact Hnd.
  - intros k s Hl. pose proof (sd_keyname _ HS k (clr_refs s)) as H. rewrite lookup_erase, Hl in H. apply H. reflexivity.
  - apply (sd_nd_parent _ HS).
  - apply (sd_nd_children _ HS).
  - intros n. rewrite <- has_state_erase. apply (sd_pkeys _ HS).
  - intros n. rewrite <- has_state_erase. apply (sd_ckeys _ HS).
  - apply (sd_ctop _ HS).
  - intros n p Hl. destruct (sd_pc _ HS n p Hl) as [H1 H2]. split; [|exact H2].
    intros q E. rewrite <- has_state_erase. auto.
  - apply (sd_cp _ HS).
  - apply (sd_top _ HS).
  - apply (sd_acyc _ HS).
  - intros t Hin. destruct (sd_trans _ HS t Hin) as [[s [H1 H2]] H3]. split.
    + rewrite lookup_erase in H1. destruct (lookup (t_source t) (c_states c)) as [s0|]; [|discriminate].
      inv H1. exists s0. split; [reflexivity|exact H2].
    + intros tg E. rewrite <- has_state_erase. auto.
  - exact Hh.
  - intros k s i Hl Hk Hi. apply (proj1 (validate_initial_iff c Hnd) Hvi k s i Hl Hk Hi).
  - intros k s m Hl Hk Hm. destruct (proj1 (validate_memory_iff c Hnd) Hvm k s m Hl Hk Hm) as [H1 [_ H3]].
    split; assumption.
Qed.

Lemma import_pipeline_inv : forall d c,
  import_pipeline d = Some c ->
  exists d', schema_statechart d = Some d' /\ import_from_dict d' = Some c /\ validate c = true.
Proof.
  intros d c H. unfold import_pipeline in H.
  destruct (schema_statechart d) as [d'|]; [|discriminate].
  destruct (import_from_dict d') as [c0|] eqn:Ei; [|discriminate].
  destruct (validate c0) eqn:Ev; inv H. eauto.
Qed.

(* C12, first sentence *)
Theorem C12_sound : forall d c, import_pipeline d = Some c -> import_sound c.
Proof.
  intros d c H. destruct (import_pipeline_inv _ _ H) as [d' [_ [Hi Hv]]].
  destruct (import_from_dict_invariant _ _ Hi) as [seen [HS _ Hh]].
  apply import_sound_of_erase; assumption.
Qed.

(* "forming one tree", spelled out: a non-empty sound chart has exactly one root and every other
   state is a strict descendant of it *)
Lemma import_sound_one_tree : forall c, import_sound c ->
  forall x, has_state c x = true ->
  exists r, lookup r (c_parent c) = Some None /\
            (forall r', lookup r' (c_parent c) = Some None -> r' = r) /\
            (forall y, has_state c y = true -> y = r \/ anc c y r).
Proof.
  intros c IS.
  assert (Huniq : forall r r', lookup r (c_parent c) = Some None -> lookup r' (c_parent c) = Some None -> r' = r).
  { intros r r' H1 H2.
    destruct (is_pc c IS _ _ H1) as [_ [l [Hl Hc]]]. destruct (is_pc c IS _ _ H2) as [_ [l' [Hl' Hc']]].
    rewrite Hl in Hl'. inv Hl'. pose proof (is_top c IS _ Hl) as Hlen.
    apply count_occ_one_In in Hc. apply count_occ_one_In in Hc'.
    destruct l' as [|a [|b l']]; cbn in Hlen; [destruct Hc| |lia].
    destruct Hc as [<-|[]]. destruct Hc' as [<-|[]]. reflexivity. }
  destruct (is_acyc c IS) as [rank Hr].
  assert (Hup : forall k y, rank y < k -> has_state c y = true ->
                exists r, lookup r (c_parent c) = Some None /\ (y = r \/ anc c y r)).
  { induction k as [|k IH]; intros y Hk Hy; [inversion Hk|].
    apply (is_pkeys c IS) in Hy. destruct (lookup y (c_parent c)) as [[q|]|] eqn:Ep; [|eauto|congruence].
    destruct (is_pc c IS _ _ Ep) as [Hq _]. specialize (Hq q eq_refl).
    pose proof (Hr _ _ Ep) as Hlt.
    destruct (IH q ltac:(lia) Hq) as [r [H1 H2]]. exists r. split; [exact H1|]. right.
    destruct H2 as [->|H2]; [apply anc_parent; exact Ep|eapply anc_step; eauto]. }
  intros x Hx. destruct (Hup (S (rank x)) x ltac:(lia) Hx) as [r [H1 _]].
  exists r. split; [exact H1|]. split; [intros r' H'; eapply Huniq; eauto|].
  intros y Hy. destruct (Hup (S (rank y)) y ltac:(lia) Hy) as [r' [H1' H2']].
  rewrite (Huniq _ _ H1 H1') in H2'. exact H2'.
Qed.

(* ---- an equational reading of _import_state_from_dict (no pattern matching on string literals) ---- *)
Lemma type_match : forall (A : Type) (s : string) (a b c d : A),
  match s with "final" => a | "shallow history" => b | "deep history" => c | _ => d end =
  if str_eqb s "final" then a else if str_eqb s "shallow history" then b
  else if str_eqb s "deep history" then c else d.
Proof.
  intros A s a b c d. unfold str_eqb.
  repeat (match goal with
          | |- context [match ?x with _ => _ end] => is_var x; destruct x; cbn; try reflexivity
          end).
Qed.

Definition kind_of_type (s : string) : option kind :=
  if str_eqb s "final" then Some KFinal else if str_eqb s "shallow history" then Some KShallow
  else if str_eqb s "deep history" then Some KDeep else None.

Definition state_kind (m : list (string * ydata)) : option kind :=
  match ylookup "type" m with
  | Some (YStr s) => kind_of_type s
  | Some _ => None
  | None => match ylist_of "states" m, ylist_of "parallel states" m with
            | _ :: _, _ :: _ => None
            | _ :: _, [] => Some KCompound
            | [], _ :: _ => Some KOrthogonal
            | [], [] => Some KBasic
            end
  end.

Definition import_state' (m : list (string * ydata)) : option state :=
  match get_str "name" m with
  | None => None
  | Some nm =>
      match state_kind m with
      | None => None
      | Some k =>
          let '(pre, post, inv) := import_contract (contract_list m) [] [] [] in
          Some (mkState nm k (match k with KCompound => get_str "initial" m | _ => None end)
                        (if is_history k then get_str "memory" m else None)
                        (strip_opt (get_str "on entry" m)) (strip_opt (get_str "on exit" m)) pre post inv)
      end
  end.

Lemma import_state_eq : forall m, import_state m = import_state' m.
Proof.
  intros m. unfold import_state, import_state', state_kind.
  destruct (get_str "name" m) as [nm|]; [|reflexivity].
  destruct (import_contract (contract_list m) [] [] []) as [[pre post] inv].
  destruct (ylookup "type" m) as [[| | | |s| |]|]; try reflexivity.
  - rewrite type_match. unfold kind_of_type.
    destruct (str_eqb s "final"); [reflexivity|].
    destruct (str_eqb s "shallow history"); [reflexivity|].
    destruct (str_eqb s "deep history"); reflexivity.
  - destruct (ylist_of "states" m), (ylist_of "parallel states" m); reflexivity.
Qed.

Lemma import_state_fields : forall m st, import_state m = Some st ->
  get_str "name" m = Some (s_name st) /\ state_kind m = Some (s_kind st) /\
  (forall i, s_initial st = Some i -> s_kind st = KCompound) /\
  (forall x, s_memory st = Some x -> is_history (s_kind st) = true).
Proof.
  intros m st H. rewrite import_state_eq in H. unfold import_state' in H.
  destruct (get_str "name" m) as [nm|]; [|discriminate].
  destruct (state_kind m) as [k|]; [|discriminate].
  destruct (import_contract (contract_list m) [] [] []) as [[pre post] inv]. inv H. cbn.
  split; [reflexivity|]. split; [reflexivity|]. split.
  - intros i E. destruct k; try discriminate; reflexivity.
  - intros x E. destruct (is_history k); [reflexivity|discriminate].
Qed.

(* every state registered by the loop comes out of _import_state_from_dict *)
Lemma import_walk_states_from : forall fuel stack states trans res,
  import_walk fuel stack states trans = Some res ->
  forall e, In e (fst res) -> In e states \/ exists m, import_state m = Some (fst e).
Proof.
  induction fuel as [|f IH]; intros stack states trans res H e He; [discriminate|].
  rewrite import_walk_S in H. destruct (rev stack) as [|[m parent] rr].
  - inv H. left; exact He.
  - destruct (import_state m) as [st|] eqn:Em; [|discriminate].
    destruct (IH _ _ _ _ H e He) as [Hin|Hex]; [|right; exact Hex].
    apply in_app_or in Hin. destruct Hin as [Hin|[<-|[]]]; [left; exact Hin|].
    right. exists m. exact Em.
Qed.

Definition st_fields_ok (st : state) : Prop :=
  (forall i, s_initial st = Some i -> s_kind st = KCompound) /\
  (forall x, s_memory st = Some x -> is_history (s_kind st) = true).

Lemma add_states_fields : forall l c c',
  fields_ok c -> (forall e, In e l -> st_fields_ok (fst e)) -> add_states c l = Some c' -> fields_ok c'.
Proof.
  induction l as [|[st p] l IH]; intros c c' Hf Hl H; cbn [add_states] in H; [inv H; exact Hf|].
  destruct (add_state c st p) as [c1 r] eqn:E. destruct r; try discriminate.
  apply (IH c1); [|intros e He; apply Hl; right; exact He|exact H].
  destruct (add_state_inv _ _ _ _ _ E (or_introl eq_refl)) as [_ [_ Hreg]].
  destruct (olookup p (oset (Some (s_name st)) [] (c_children c))) as [l0|]; [|discriminate].
  destruct Hreg as [-> _]. intros k s Hk. unfold register_chart in Hk. cbn [c_states] in Hk.
  rewrite lookup_dset in Hk. destruct (str_eqb k (s_name st)).
  - inv Hk. apply (Hl (s, p)). left; reflexivity.
  - apply (Hf k s Hk).
Qed.

Lemma add_transitions_states : forall l c c', add_transitions c l = Some c' -> c_states c' = c_states c.
Proof.
  induction l as [|t l IH]; intros c c' H; cbn [add_transitions] in H; [inv H; reflexivity|].
  destruct (add_transition c t) as [c1 r] eqn:E. destruct r; try discriminate.
  destruct (add_transition_ok_inv _ _ _ E) as [-> _]. rewrite (IH _ _ H). reflexivity.
Qed.

Lemma import_from_dict_fields : forall d c, import_from_dict d = Some c -> fields_ok c.
Proof.
  intros d c H. destruct (import_from_dict_inv _ _ H) as [m [nm [root [states [trans [c1 [_ [_ [_ [Hw [Ha Ht]]]]]]]]]]].
  assert (Hf1 : fields_ok c1).
  { refine (add_states_fields states _ c1 _ _ Ha); [intros k s Hk; discriminate|].
    intros e He.
    destruct (import_walk_states_from _ _ _ _ _ Hw e He) as [[]|[m0 Hm0]].
    destruct (import_state_fields _ _ Hm0) as [_ [_ [H1 H2]]]. split; assumption. }
  intros k s Hk. rewrite (add_transitions_states _ _ _ Ht) in Hk. exact (Hf1 k s Hk).
Qed.

(* ---- the Prop and the checker of IOCorr ---- *)
Lemma parent_for_Some : forall c k p, parent_for c k = Some p <-> lookup k (c_parent c) = Some (Some p).
Proof.
  intros c k p. unfold parent_for. destruct (lookup k (c_parent c)) as [[q|]|]; split; congruence.
Qed.

Lemma import_sound_b_sound : forall c, import_sound_b c = true -> no_empty_name c -> import_sound c.
Proof.
  intros c H Hne. unfold import_sound_b in H.
  apply andb_true_iff in H; destruct H as [H Hmem].
  apply andb_true_iff in H; destruct H as [H Hini].
  apply andb_true_iff in H; destruct H as [Hsb Hhist].
  pose proof (sound_b_sound c Hsb Hne) as S. destruct S.
  constructor; try assumption.
  - intros k s Hl Hh. rewrite forallb_forall in Hhist. specialize (Hhist _ (lookup_In _ _ _ Hl)).
    cbn [fst snd] in Hhist. rewrite Hh in Hhist.
    destruct (parent_for c k) as [p|] eqn:Ep; [|discriminate]. apply parent_for_Some in Ep.
    unfold kind_of, state_for in Hhist. destruct (lookup p (c_states c)) as [ps|] eqn:Eps; [|discriminate].
    cbn in Hhist. exists p, ps. split; [exact Ep|]. split; [exact Eps|].
    destruct (s_kind ps); try discriminate; reflexivity.
  - intros k s i Hl Hk Hi. apply (sd_vinit k s i Hl Hk Hi).
  - intros k s m Hl Hk Hm. destruct (sd_vmem k s m Hl Hk Hm) as [H1 [_ H3]]. split; assumption.
Qed.

Lemma import_sound_child_state : forall c, import_sound c ->
  forall k i, In i (children_for c k) -> has_state c i = true.
Proof.
  intros c IS k i Hin. unfold children_for in Hin.
  destruct (olookup (Some k) (c_children c)) as [l|] eqn:El; [|destruct Hin].
  apply (is_pkeys c IS). rewrite (is_cp c IS _ _ _ El Hin). discriminate.
Qed.

(* the checker is stricter than the Prop on two points only: it wants every initial/memory field, also
   on states of another kind, to name a state, and it reads initial = '' as a declared initial state *)
Definition refs_tidy (c : chart) : Prop :=
  fields_ok c /\ forall k s, lookup k (c_states c) = Some s -> s_initial s <> Some "".

Lemma import_sound_sound : forall c, import_sound c -> refs_tidy c -> sound c.
Proof.
  intros c IS [Hf Hi]. pose proof (import_sound_child_state c IS) as Hch. destruct IS.
  assert (Hinit : forall k s i, lookup k (c_states c) = Some s -> s_initial s = Some i ->
                  In i (children_for c k)).
  { intros k s i Hl E. destruct (Hf k s Hl) as [Hk _]. apply (is_init0 k s i Hl (Hk i E)).
    rewrite E. apply truthy_nonempty. intros ->. apply (Hi k s Hl E). }
  constructor; try assumption.
  - intros k s Hl. split.
    + intros i E. apply (Hch k). eapply Hinit; eauto.
    + intros m E. destruct (Hf k s Hl) as [_ Hk].
      destruct (is_mem0 k s m Hl (Hk m E) E) as [_ [p [_ Hin]]]. apply (Hch p); exact Hin.
  - intros k s i Hl Hk E. pose proof (is_init0 k s i Hl Hk E) as Hin. split; [apply (Hch k); exact Hin|exact Hin].
  - intros k s m Hl Hk E. destruct (is_mem0 k s m Hl Hk E) as [H1 [p [H2 H3]]].
    split; [exact H1|]. split; [apply (Hch p); exact H3|]. exists p; auto.
Qed.

Lemma import_sound_b_complete : forall c, import_sound c -> refs_tidy c -> import_sound_b c = true.
Proof.
  intros c IS HT. pose proof (import_sound_sound c IS HT) as S. destruct HT as [Hf Hi].
  pose proof (is_nd_states c IS) as Hnd.
  unfold import_sound_b. rewrite (sound_sound_b c S). cbn [andb].
  apply andb_true_iff; split; [apply andb_true_iff; split|].
  - apply forallb_forall. intros [k s] Hin. cbn [fst snd]. pose proof (In_lookup _ _ _ Hnd Hin) as Hl.
    destruct (is_history (s_kind s)) eqn:Eh; [|reflexivity].
    destruct (is_hist c IS k s Hl Eh) as [p [ps [H1 [H2 H3]]]].
    apply parent_for_Some in H1. rewrite H1. unfold kind_of, state_for. rewrite H2. cbn. rewrite H3. reflexivity.
  - apply forallb_forall. intros [k s] Hin. cbn [fst snd]. pose proof (In_lookup _ _ _ Hnd Hin) as Hl.
    destruct (s_kind s) eqn:Ek; try reflexivity. destruct (s_initial s) as [i|] eqn:Ei; [|reflexivity].
    apply mem_In. apply (is_init c IS k s i Hl Ek). rewrite Ei. apply truthy_nonempty.
    intros ->. apply (Hi k s Hl Ei).
  - apply forallb_forall. intros [k s] Hin. cbn [fst snd]. pose proof (In_lookup _ _ _ Hnd Hin) as Hl.
    destruct (is_history (s_kind s)) eqn:Eh; [|reflexivity].
    destruct (s_memory s) as [m|] eqn:Em; [|reflexivity].
    destruct (is_mem c IS k s m Hl Eh Em) as [H1 [p [H2 H3]]]. rewrite H2.
    apply seqb_neq in H1. rewrite H1. cbn. apply mem_In. exact H3.
Qed.

Theorem import_sound_b_iff : forall c, no_empty_name c -> refs_tidy c ->
  (import_sound_b c = true <-> import_sound c).
Proof.
  intros c Hne HT. split; [intros H; apply import_sound_b_sound; assumption|intros H; apply import_sound_b_complete; assumption].
Qed.

(* on what the importer returns, the checker passes as soon as no compound state declares initial: '' *)
Theorem C12_sound_b : forall d c, import_pipeline d = Some c ->
  (forall k s, lookup k (c_states c) = Some s -> s_initial s <> Some "") -> import_sound_b c = true.
Proof.
  intros d c H Hi. apply import_sound_b_complete; [eapply C12_sound; exact H|].
  split; [|exact Hi]. destruct (import_pipeline_inv _ _ H) as [d' [_ [Hd _]]].
  eapply import_from_dict_fields; exact Hd.
Qed.

(* ... and only then: the strict reading of the checker is refuted by initial: '' (validate() and the
   interpreter test `if state.initial`, so '' means "no initial state"; benign) *)
Definition doc_initial_empty : ydata :=
  YMap [("statechart", YMap [("name", YStr "sc");
     ("root state", YMap [("name", YStr "root"); ("initial", YStr "");
                          ("states", YList [YMap [("name", YStr "a")]])])])].

Theorem C12_sound_b_refuted :
  exists d c, import_pipeline d = Some c /\ import_sound_b c = false.
Proof.
  exists doc_initial_empty. eexists. split; [vm_compute; reflexivity|]. vm_compute. reflexivity.
Qed.

(* ================================================================== 2. C12_reject: the schema *)

Definition doc (m : list (string * ydata)) : ydata := YMap [("statechart", YMap m)].

(* x occurs as a state node in the state tree rooted at the first argument, at any depth, through
   'states' / 'parallel states' *)
Inductive state_in : ydata -> ydata -> Prop :=
| si_here : forall d, state_in d d
| si_sub : forall m k l s x, k = "states" \/ k = "parallel states" ->
    In (k, YList l) m -> In s l -> state_in s x -> state_in (YMap m) x.

Definition state_invalid (d : ydata) : Prop := forall f, schema_state f d = None.

Lemma map_opt_None : forall {A B} (f : A -> option B) l x, In x l -> f x = None -> map_opt f l = None.
Proof.
  intros A B f l x; induction l as [|y l IH]; intros Hin Hx; [destruct Hin|].
  cbn [map_opt]. destruct Hin as [->|Hin].
  - rewrite Hx. reflexivity.
  - rewrite (IH Hin Hx). destruct (f y); reflexivity.
Qed.

Lemma map_opt_Some_In : forall {A B} (f : A -> option B) l r x,
  map_opt f l = Some r -> In x l -> exists y, f x = Some y /\ In y r.
Proof.
  intros A B f l; induction l as [|a l IH]; intros r x H Hin; [destruct Hin|].
  cbn [map_opt] in H. destruct (f a) as [b|] eqn:Ea; [|discriminate].
  destruct (map_opt f l) as [r'|] eqn:Er; [|discriminate]. inv H.
  destruct Hin as [->|Hin]; [exists b; split; [exact Ea|left; reflexivity]|].
  destruct (IH _ _ eq_refl Hin) as [y [H1 H2]]. exists y. split; [exact H1|right; exact H2].
Qed.

Lemma keys_within_false : forall m allowed k v,
  In (k, v) m -> mem k allowed = false -> keys_within m allowed = false.
Proof.
  intros m allowed k v Hin Hk. unfold keys_within.
  destruct (forallb (fun kv => mem (fst kv) allowed) m) eqn:E; [|reflexivity].
  rewrite forallb_forall in E. specialize (E _ Hin). cbn in E. congruence.
Qed.

Definition state_field (f : nat) (kv : string * ydata) : option (string * ydata) :=
  let k := fst kv in
  let wrap := option_map (fun x => (k, x)) in
  if str_eqb k "contract" then wrap (schema_contracts (snd kv))
  else if str_eqb k "transitions" then
         match snd kv with
         | YList l => wrap (option_map YList (map_opt schema_transition l))
         | _ => None
         end
  else if str_eqb k "states" || str_eqb k "parallel states" then
         match snd kv with
         | YList l => wrap (option_map YList (map_opt (schema_state f) l))
         | _ => None
         end
  else if str_eqb k "type" then
         match snd kv with
         | YStr s => if mem s type_values then Some kv else None
         | _ => None
         end
  else v_str kv.

Lemma schema_state_S : forall f m,
  schema_state (S f) (YMap m) =
  if keys_within m state_keys && (match ylookup "name" m with Some _ => true | None => false end)
  then option_map YMap (map_opt (state_field f) m) else None.
Proof. reflexivity. Qed.

Lemma schema_state_not_map : forall d, (forall m, d <> YMap m) -> state_invalid d.
Proof. intros d H [|f]; [reflexivity|]. destruct d; try reflexivity. exfalso. eapply H; reflexivity. Qed.

Lemma state_field_invalid : forall m kv,
  In kv m -> (forall f, state_field f kv = None) -> state_invalid (YMap m).
Proof.
  intros m kv Hin Hkv [|f]; [reflexivity|]. rewrite schema_state_S.
  rewrite (map_opt_None _ _ _ Hin (Hkv f)). destruct (_ && _); reflexivity.
Qed.

(* the fault classes, at one state node *)
Lemma state_unknown_key_invalid : forall m k v,
  In (k, v) m -> mem k state_keys = false -> state_invalid (YMap m).
Proof.
  intros m k v Hin Hk [|f]; [reflexivity|]. rewrite schema_state_S.
  rewrite (keys_within_false _ _ _ _ Hin Hk). reflexivity.
Qed.

Lemma state_missing_name_invalid : forall m, ylookup "name" m = None -> state_invalid (YMap m).
Proof.
  intros m H [|f]; [reflexivity|]. rewrite schema_state_S, H, andb_false_r. reflexivity.
Qed.

Lemma state_bad_type_invalid : forall m v,
  In ("type", v) m -> (forall s, v = YStr s -> mem s type_values = false) -> state_invalid (YMap m).
Proof.
  intros m v Hin Hv. apply (state_field_invalid m _ Hin). intros f. unfold state_field. cbn -[mem].
  destruct v; try reflexivity. rewrite (Hv s eq_refl). reflexivity.
Qed.

Lemma state_sub_invalid : forall m k l s,
  k = "states" \/ k = "parallel states" -> In (k, YList l) m -> In s l -> state_invalid s ->
  state_invalid (YMap m).
Proof.
  intros m k l s Hk Hin Hs Hinv. apply (state_field_invalid m _ Hin). intros f. unfold state_field.
  destruct Hk as [-> | ->]; cbn; rewrite (map_opt_None _ _ _ Hs (Hinv f)); reflexivity.
Qed.

Lemma state_bad_transition_invalid : forall m l t,
  In ("transitions", YList l) m -> In t l -> schema_transition t = None -> state_invalid (YMap m).
Proof.
  intros m l t Hin Ht Hinv. apply (state_field_invalid m _ Hin). intros f. unfold state_field. cbn.
  rewrite (map_opt_None _ _ _ Ht Hinv). reflexivity.
Qed.

Lemma state_bad_contract_invalid : forall m v,
  In ("contract", v) m -> schema_contracts v = None -> state_invalid (YMap m).
Proof.
  intros m v Hin Hinv. apply (state_field_invalid m _ Hin). intros f. unfold state_field. cbn.
  rewrite Hinv. reflexivity.
Qed.

(* a fault anywhere in the tree invalidates the root *)
Lemma state_in_invalid : forall root x, state_in root x -> state_invalid x -> state_invalid root.
Proof.
  intros root x H; induction H as [d|m k l s x Hk Hin Hs Hx IH]; intros Hinv; [exact Hinv|].
  eapply state_sub_invalid; eauto.
Qed.

(* transitions and contracts *)
Lemma schema_contract_unknown_key : forall m k v,
  In (k, v) m -> mem k contract_keys = false -> schema_contract (YMap m) = None.
Proof.
  intros m k v Hin Hk. unfold schema_contract. destruct m as [|a m]; [reflexivity|].
  rewrite (keys_within_false _ _ _ _ Hin Hk). reflexivity.
Qed.

Lemma schema_contracts_bad : forall l x, In x l -> schema_contract x = None -> schema_contracts (YList l) = None.
Proof. intros l x Hin Hx. unfold schema_contracts. rewrite (map_opt_None _ _ _ Hin Hx). reflexivity. Qed.

Definition transition_field (kv : string * ydata) : option (string * ydata) :=
  if str_eqb (fst kv) "contract" then option_map (fun x => (fst kv, x)) (schema_contracts (snd kv))
  else if str_eqb (fst kv) "priority" then option_map (fun x => (fst kv, x)) (use_priority (snd kv))
  else v_str kv.

Lemma schema_transition_map : forall m,
  schema_transition (YMap m) =
  if keys_within m transition_keys then option_map YMap (map_opt transition_field m) else None.
Proof. reflexivity. Qed.

Lemma schema_transition_unknown_key : forall m k v,
  In (k, v) m -> mem k transition_keys = false -> schema_transition (YMap m) = None.
Proof. intros m k v Hin Hk. rewrite schema_transition_map, (keys_within_false _ _ _ _ Hin Hk). reflexivity. Qed.

Lemma schema_transition_bad_priority : forall m v,
  In ("priority", v) m -> use_priority v = None -> schema_transition (YMap m) = None.
Proof.
  intros m v Hin Hv. rewrite schema_transition_map.
  rewrite (map_opt_None transition_field m _ Hin); [destruct (keys_within _ _); reflexivity|].
  unfold transition_field. cbn. rewrite Hv. reflexivity.
Qed.

Lemma schema_transition_bad_contract : forall m v,
  In ("contract", v) m -> schema_contracts v = None -> schema_transition (YMap m) = None.
Proof.
  intros m v Hin Hv. rewrite schema_transition_map.
  rewrite (map_opt_None transition_field m _ Hin); [destruct (keys_within _ _); reflexivity|].
  unfold transition_field. cbn. rewrite Hv. reflexivity.
Qed.

(* which priorities are refused *)
Lemma use_priority_None_iff : forall v,
  use_priority v = None <->
  match v with
  | YNull | YList _ | YMap _ => True
  | YStr s => int_of_string s = None /\ s <> "high" /\ s <> "low"
  | _ => False
  end.
Proof.
  intros v. destruct v; cbn; try (split; [discriminate|intros []]); try (split; auto; fail).
  destruct (int_of_string s); [split; [discriminate|intros [H _]; discriminate]|].
  destruct (seqbP s "high") as [->|H1]; cbn; [split; [discriminate|intros [_ [H _]]; congruence]|].
  destruct (seqbP s "low") as [->|H2]; cbn; [split; [discriminate|intros [_ [_ H]]; congruence]|].
  split; auto.
Qed.

(* the statechart level *)
Definition statechart_field (kv : string * ydata) : option (string * ydata) :=
  if str_eqb (fst kv) "root state"
  then option_map (fun x => (fst kv, x)) (schema_state (S (ydepth (snd kv))) (snd kv))
  else v_str kv.

Lemma schema_statechart_doc : forall m,
  schema_statechart (doc m) =
  if keys_within m statechart_keys
     && (match ylookup "name" m with Some _ => true | None => false end)
     && (match ylookup "root state" m with Some _ => true | None => false end)
  then option_map (fun m' => doc m') (map_opt statechart_field m) else None.
Proof. reflexivity. Qed.

Lemma schema_statechart_shape : forall d d', schema_statechart d = Some d' -> exists m, d = doc m.
Proof.
  intros d d' H. unfold schema_statechart in H. peel H. eexists; reflexivity.
Qed.

Lemma pipeline_schema_None : forall d, schema_statechart d = None -> import_pipeline d = None.
Proof. intros d H. unfold import_pipeline. rewrite H. reflexivity. Qed.

Theorem C12_reject_not_a_statechart : forall d, (forall m, d <> doc m) -> import_pipeline d = None.
Proof.
  intros d H. apply pipeline_schema_None. destruct (schema_statechart d) as [d'|] eqn:E; [|reflexivity].
  destruct (schema_statechart_shape _ _ E) as [m ->]. exfalso. apply (H m). reflexivity.
Qed.

Theorem C12_reject_unknown_key_statechart : forall m k v,
  In (k, v) m -> mem k statechart_keys = false -> import_pipeline (doc m) = None.
Proof.
  intros m k v Hin Hk. apply pipeline_schema_None.
  rewrite schema_statechart_doc, (keys_within_false _ _ _ _ Hin Hk). reflexivity.
Qed.

Theorem C12_reject_missing_statechart_name : forall m,
  ylookup "name" m = None -> import_pipeline (doc m) = None.
Proof.
  intros m H. apply pipeline_schema_None. rewrite schema_statechart_doc, H, andb_false_r. reflexivity.
Qed.

Theorem C12_reject_missing_root_state : forall m,
  ylookup "root state" m = None -> import_pipeline (doc m) = None.
Proof.
  intros m H. apply pipeline_schema_None. rewrite schema_statechart_doc, H, andb_false_r. reflexivity.
Qed.

(* every schema fault below the root state *)
Theorem C12_reject_invalid_state : forall m root x,
  In ("root state", root) m -> state_in root x -> state_invalid x -> import_pipeline (doc m) = None.
Proof.
  intros m root x Hin Hx Hinv. apply pipeline_schema_None. rewrite schema_statechart_doc.
  rewrite (map_opt_None statechart_field m _ Hin); [destruct (_ && _); reflexivity|].
  unfold statechart_field. cbn [fst snd]. rewrite seqb_refl, (state_in_invalid _ _ Hx Hinv). reflexivity.
Qed.

Theorem C12_reject_unknown_key_state : forall m root sm k v,
  In ("root state", root) m -> state_in root (YMap sm) ->
  In (k, v) sm -> mem k state_keys = false -> import_pipeline (doc m) = None.
Proof. intros. eapply C12_reject_invalid_state; eauto using state_unknown_key_invalid. Qed.

Theorem C12_reject_missing_state_name : forall m root sm,
  In ("root state", root) m -> state_in root (YMap sm) ->
  ylookup "name" sm = None -> import_pipeline (doc m) = None.
Proof. intros. eapply C12_reject_invalid_state; eauto using state_missing_name_invalid. Qed.

Theorem C12_reject_state_not_a_mapping : forall m root x,
  In ("root state", root) m -> state_in root x -> (forall sm, x <> YMap sm) -> import_pipeline (doc m) = None.
Proof. intros. eapply C12_reject_invalid_state; eauto using schema_state_not_map. Qed.

Theorem C12_reject_unknown_type : forall m root sm v,
  In ("root state", root) m -> state_in root (YMap sm) ->
  In ("type", v) sm -> (forall s, v = YStr s -> mem s type_values = false) -> import_pipeline (doc m) = None.
Proof. intros. eapply C12_reject_invalid_state; eauto using state_bad_type_invalid. Qed.

Theorem C12_reject_unknown_key_transition : forall m root sm ts tm k v,
  In ("root state", root) m -> state_in root (YMap sm) ->
  In ("transitions", YList ts) sm -> In (YMap tm) ts ->
  In (k, v) tm -> mem k transition_keys = false -> import_pipeline (doc m) = None.
Proof.
  intros. eapply C12_reject_invalid_state; eauto.
  eapply state_bad_transition_invalid; eauto using schema_transition_unknown_key.
Qed.

Theorem C12_reject_bad_priority : forall m root sm ts tm v,
  In ("root state", root) m -> state_in root (YMap sm) ->
  In ("transitions", YList ts) sm -> In (YMap tm) ts ->
  In ("priority", v) tm -> use_priority v = None -> import_pipeline (doc m) = None.
Proof.
  intros. eapply C12_reject_invalid_state; eauto.
  eapply state_bad_transition_invalid; eauto using schema_transition_bad_priority.
Qed.

Theorem C12_reject_unknown_key_state_contract : forall m root sm cs cm k v,
  In ("root state", root) m -> state_in root (YMap sm) ->
  In ("contract", YList cs) sm -> In (YMap cm) cs ->
  In (k, v) cm -> mem k contract_keys = false -> import_pipeline (doc m) = None.
Proof.
  intros. eapply C12_reject_invalid_state; eauto.
  eapply state_bad_contract_invalid; eauto.
  eapply schema_contracts_bad; eauto using schema_contract_unknown_key.
Qed.

Theorem C12_reject_unknown_key_transition_contract : forall m root sm ts tm cs cm k v,
  In ("root state", root) m -> state_in root (YMap sm) ->
  In ("transitions", YList ts) sm -> In (YMap tm) ts ->
  In ("contract", YList cs) tm -> In (YMap cm) cs ->
  In (k, v) cm -> mem k contract_keys = false -> import_pipeline (doc m) = None.
Proof.
  intros. eapply C12_reject_invalid_state; eauto.
  eapply state_bad_transition_invalid; eauto.
  eapply schema_transition_bad_contract; eauto.
  eapply schema_contracts_bad; eauto using schema_contract_unknown_key.
Qed.

(* ================================================================== 3. C12_error_type: fuel and error kinds *)

(* ---- the schema never runs out of fuel ---- *)
Lemma ydepth_pos : forall d, 1 <= ydepth d.
Proof. destruct d; cbn; lia. Qed.

Lemma ydepth_list_elem : forall l x, In x l -> ydepth x < ydepth (YList l).
Proof.
  intros l x Hin. cbn [ydepth]. apply Nat.lt_succ_r.
  induction l as [|y l IH]; [destruct Hin|]. cbn [fold_right].
  destruct Hin as [->|Hin]; [lia|]. specialize (IH Hin). lia.
Qed.

Lemma ydepth_map_val : forall m k v, In (k, v) m -> ydepth v < ydepth (YMap m).
Proof.
  intros m k v Hin. cbn [ydepth]. apply Nat.lt_succ_r.
  induction m as [|y m IH]; [destruct Hin|]. cbn [fold_right].
  destruct Hin as [->|Hin]; [cbn [snd]; lia|]. specialize (IH Hin). lia.
Qed.

Lemma map_opt_ext : forall {A B} (f g : A -> option B) l,
  (forall x, In x l -> f x = g x) -> map_opt f l = map_opt g l.
Proof.
  intros A B f g l; induction l as [|x l IH]; intros H; [reflexivity|].
  cbn [map_opt]. rewrite (H x (or_introl eq_refl)), IH; [reflexivity|].
  intros y Hy. apply H. right; exact Hy.
Qed.

Lemma schema_state_fuel : forall f1 d f2,
  ydepth d <= f1 -> ydepth d <= f2 -> schema_state f1 d = schema_state f2 d.
Proof.
  induction f1 as [|f1 IH]; intros d f2 H1 H2; [pose proof (ydepth_pos d); lia|].
  destruct f2 as [|f2]; [pose proof (ydepth_pos d); lia|].
  destruct d as [| | | | | |m]; try reflexivity.
  rewrite !schema_state_S.
  rewrite (map_opt_ext (state_field f1) (state_field f2) m); [reflexivity|].
  intros [k v] Hin. unfold state_field. cbn [fst snd].
  destruct (str_eqb k "contract"); [reflexivity|].
  destruct (str_eqb k "transitions"); [reflexivity|].
  destruct (str_eqb k "states" || str_eqb k "parallel states"); [|reflexivity].
  destruct v as [| | | | |l|]; try reflexivity.
  rewrite (map_opt_ext (schema_state f1) (schema_state f2) l); [reflexivity|].
  intros x Hx. pose proof (ydepth_list_elem _ _ Hx). pose proof (ydepth_map_val _ _ _ Hin).
  apply IH; lia.
Qed.

(* ---- the loop of import_from_dict never runs out of fuel ---- *)
Definition stack_size (stack : list (list (string * ydata) * option name)) : nat :=
  fold_right (fun e acc => count_nodes (YMap (fst e)) + acc) 0 stack.
Definition maps_size (l : list ydata) : nat :=
  fold_right (fun d acc => match d with YMap sm => count_nodes (YMap sm) | _ => 0 end + acc) 0 l.

Lemma stack_size_app : forall a b, stack_size (a ++ b) = stack_size a + stack_size b.
Proof.
  induction a as [|e a IH]; intros b; [reflexivity|].
  change (stack_size ((e :: a) ++ b)) with (count_nodes (YMap (fst e)) + stack_size (a ++ b)).
  change (stack_size (e :: a)) with (count_nodes (YMap (fst e)) + stack_size a).
  rewrite IH. lia.
Qed.

Lemma stack_size_cons : forall e a, stack_size (e :: a) = count_nodes (YMap (fst e)) + stack_size a.
Proof. reflexivity. Qed.
Lemma maps_size_cons : forall d l,
  maps_size (d :: l) = match d with YMap sm => count_nodes (YMap sm) | _ => 0 end + maps_size l.
Proof. reflexivity. Qed.

Lemma stack_size_push_subs : forall nm subs acc,
  stack_size (push_subs nm subs acc) = stack_size acc + maps_size subs.
Proof.
  intros nm subs; induction subs as [|d subs IH]; intros acc.
  - change (stack_size acc = stack_size acc + 0). lia.
  - rewrite maps_size_cons.
    change (push_subs nm (d :: subs) acc)
      with (push_subs nm subs (match d with YMap sm => acc ++ [(sm, Some nm)] | _ => acc end)).
    rewrite IH. destruct d; try lia.
    rewrite stack_size_app, stack_size_cons. cbn [fst]. change (stack_size []) with 0. lia.
Qed.

Lemma count_nodes_pos : forall d, 1 <= count_nodes d.
Proof. destruct d; cbn; lia. Qed.

Lemma maps_size_lt : forall l, maps_size l < count_nodes (YList l).
Proof.
  intros l. cbn [count_nodes]. apply Nat.lt_succ_r.
  induction l as [|d l IH]; [change (0 <= 0); lia|]. rewrite maps_size_cons. cbn [fold_right].
  destruct d; lia.
Qed.

Lemma count_nodes_map_val : forall m k v, In (k, v) m -> count_nodes v < count_nodes (YMap m).
Proof.
  intros m k v Hin. cbn [count_nodes]. apply Nat.lt_succ_r.
  induction m as [|y m IH]; [destruct Hin|]. cbn [fold_right].
  destruct Hin as [->|Hin]; [cbn [snd]; lia|]. specialize (IH Hin). lia.
Qed.

Lemma ylookup_In : forall k m v, ylookup k m = Some v -> In (k, v) m.
Proof.
  intros k m v; induction m as [|[k0 v0] m IH]; cbn [ylookup]; [discriminate|].
  destruct (seqbP k k0) as [->|Hn]; intros H; [inv H; left; reflexivity|right; auto].
Qed.

Lemma ylist_of_size : forall k m, maps_size (ylist_of k m) < count_nodes (YMap m).
Proof.
  intros k m. unfold ylist_of. pose proof (count_nodes_pos (YMap m)).
  destruct (ylookup k m) as [[| | | | |l|]|] eqn:E; try (change (maps_size []) with 0; lia).
  pose proof (count_nodes_map_val _ _ _ (ylookup_In _ _ _ E)). pose proof (maps_size_lt l). lia.
Qed.

Lemma subs_of_size : forall st m, maps_size (subs_of st m) < count_nodes (YMap m).
Proof.
  intros st m. unfold subs_of. pose proof (count_nodes_pos (YMap m)).
  pose proof (ylist_of_size "states" m). pose proof (ylist_of_size "parallel states" m).
  destruct (s_kind st); try (change (maps_size []) with 0); lia.
Qed.

Lemma rev_cons_eq : forall {A} (l : list A) x r, rev l = x :: r -> l = rev r ++ [x].
Proof. intros A l x r H. rewrite <- (rev_involutive l), H. reflexivity. Qed.

Lemma import_walk_fuel : forall f1 stack states trans f2,
  stack_size stack < f1 -> stack_size stack < f2 ->
  import_walk f1 stack states trans = import_walk f2 stack states trans.
Proof.
  induction f1 as [|f1 IH]; intros stack states trans f2 H1 H2; [lia|].
  destruct f2 as [|f2]; [lia|]. rewrite !import_walk_S.
  destruct (rev stack) as [|[m parent] rr] eqn:Er; [reflexivity|].
  destruct (import_state m) as [st|]; [|reflexivity].
  apply rev_cons_eq in Er. subst stack. rewrite stack_size_app in H1, H2.
  cbn [stack_size fold_right fst] in H1, H2.
  pose proof (subs_of_size st m).
  apply IH; rewrite stack_size_push_subs; fold (stack_size (rev rr)) in *; lia.
Qed.

(* ---- the pipeline with arbitrary additional fuel ---- *)
Definition with_doc {A} (d : ydata) (f : list (string * ydata) -> option A) : option A :=
  match d with YMap [("statechart", YMap m)] => f m | _ => None end.

Lemma with_doc_ext : forall {A} d (f g : list (string * ydata) -> option A),
  (forall m, f m = g m) -> with_doc d f = with_doc d g.
Proof.
  intros A d f g H. unfold with_doc.
  repeat match goal with
         | |- context [match ?x with _ => _ end] => is_var x; destruct x; try reflexivity
         end.
  apply H.
Qed.

Definition schema_statechart_f (k : nat) (d : ydata) : option ydata :=
  with_doc d (fun m =>
    if keys_within m statechart_keys
       && (match ylookup "name" m with Some _ => true | None => false end)
       && (match ylookup "root state" m with Some _ => true | None => false end)
    then option_map (fun m' => YMap [("statechart", YMap m')])
           (map_opt (fun kv => if str_eqb (fst kv) "root state"
                               then option_map (fun x => (fst kv, x)) (schema_state (k + S (ydepth (snd kv))) (snd kv))
                               else v_str kv) m)
    else None).

Definition import_from_dict_f (k : nat) (d : ydata) : option chart :=
  with_doc d (fun m =>
    match get_str "name" m, ylookup "root state" m with
    | Some nm, Some (YMap root) =>
        match import_walk (k + S (count_nodes (YMap root))) [(root, None)] [] [] with
        | None => None
        | Some (states, trans) =>
            match add_states (empty_chart nm (get_str "description" m) (get_str "preamble" m)) states with
            | None => None
            | Some c => add_transitions c trans
            end
        end
    | _, _ => None
    end).

Definition import_pipeline_f (k1 k2 : nat) (d : ydata) : option chart :=
  match schema_statechart_f k1 d with
  | None => None
  | Some d' =>
      match import_from_dict_f k2 d' with
      | None => None
      | Some c => if validate c then Some c else None
      end
  end.

Lemma schema_statechart_with_doc : forall d,
  schema_statechart d =
  with_doc d (fun m =>
    if keys_within m statechart_keys
       && (match ylookup "name" m with Some _ => true | None => false end)
       && (match ylookup "root state" m with Some _ => true | None => false end)
    then option_map (fun m' => doc m') (map_opt statechart_field m) else None).
Proof. reflexivity. Qed.

Lemma import_from_dict_with_doc : forall d, import_from_dict d = import_from_dict_f 0 d.
Proof. reflexivity. Qed.

Lemma schema_statechart_fuel : forall k d, schema_statechart_f k d = schema_statechart d.
Proof.
  intros k d. unfold schema_statechart_f. rewrite schema_statechart_with_doc. apply with_doc_ext. intros m.
  destruct (_ && _); [|reflexivity]. unfold doc. f_equal. apply map_opt_ext. intros [k0 v] _.
  unfold statechart_field. cbn [fst snd]. destruct (str_eqb k0 "root state"); [|reflexivity].
  rewrite (schema_state_fuel (k + S (ydepth v)) v (S (ydepth v))); [reflexivity|lia|lia].
Qed.

Lemma import_from_dict_fuel : forall k d, import_from_dict_f k d = import_from_dict d.
Proof.
  intros k d. rewrite import_from_dict_with_doc. unfold import_from_dict_f. apply with_doc_ext. intros m.
  destruct (get_str "name" m) as [nm|]; [|reflexivity].
  destruct (ylookup "root state" m) as [[| | | | | |root]|]; try reflexivity.
  rewrite (import_walk_fuel (k + S (count_nodes (YMap root))) _ _ _ (0 + S (count_nodes (YMap root))));
    [reflexivity| |]; rewrite stack_size_cons; cbn [fst]; change (stack_size []) with 0; lia.
Qed.

(* C12, last clause, as far as it is a statement about the model: the outcome of the pipeline is Some
   statechart or None (= StatechartError) and is the same whatever fuel is added to the two bounded
   recursions -- no None is an artefact of a fuel running out *)
Theorem C12_error_type_fuel : forall k1 k2 d, import_pipeline_f k1 k2 d = import_pipeline d.
Proof.
  intros k1 k2 d. unfold import_pipeline_f, import_pipeline. rewrite schema_statechart_fuel.
  destruct (schema_statechart d) as [d'|]; [|reflexivity]. rewrite import_from_dict_fuel. reflexivity.
Qed.

(* ... and the None produced by the registration loops stands for StatechartError only: add_state never
   ends in the KeyError of `self._children[parent].append`, add_transition raises nothing else *)
Theorem C12_error_type_no_keyerror : forall f root states trans nm descr pre,
  import_walk f [(root, None)] [] [] = Some (states, trans) ->
  add_states_err (empty_chart nm descr pre) states = EOk \/
  add_states_err (empty_chart nm descr pre) states = EStatechartError.
Proof.
  intros f root states trans nm descr pre Hw.
  apply import_walk_root_ordered in Hw. cbn [fst] in Hw.
  apply (add_states_no_keyerror states _ []); [|exact Hw].
  constructor.
  - rewrite erase_empty. apply empty_chart_sound.
  - intros q. unfold has_state; cbn. split; [intros []|discriminate].
  - intros k s Hl; discriminate.
Qed.

Lemma add_states_err_spec : forall l c, add_states_err c l = EOk <-> add_states c l <> None.
Proof.
  induction l as [|[st p] l IH]; intros c; cbn [add_states_err add_states]; [split; [discriminate|reflexivity]|].
  destruct (add_state c st p) as [c1 r]. destruct r; try (split; [discriminate|congruence]). apply IH.
Qed.

(* C12, last sentence, assembled *)
Theorem C12_error_type : forall d,
  (import_pipeline d = None \/ exists c, import_pipeline d = Some c) /\
  (forall k1 k2, import_pipeline_f k1 k2 d = import_pipeline d) /\
  (forall m root states trans,
     ylookup "root state" m = Some (YMap root) ->
     import_walk (S (count_nodes (YMap root))) [(root, None)] [] [] = Some (states, trans) ->
     let e := empty_chart (match get_str "name" m with Some n => n | None => "" end)
                          (get_str "description" m) (get_str "preamble" m) in
     add_states_err e states = EOk \/ add_states_err e states = EStatechartError).
Proof.
  intros d. split; [destruct (import_pipeline d) as [c|]; [right; exists c; reflexivity|left; reflexivity]|].
  split; [intros k1 k2; apply C12_error_type_fuel|].
  intros m root states trans _ Hw e. eapply C12_error_type_no_keyerror. exact Hw.
Qed.

(* ================================================================== 4. C12_reject: import_from_dict and validate *)

(* ---- what the registration loops build ---- *)
Lemma add_state_ok_form : forall c st p c',
  add_state c st p = (c', EOk) ->
  has_state c (s_name st) = false /\ exists l, c' = register_chart c st p l.
Proof.
  intros c st p c' H. destruct (add_state_inv _ _ _ _ _ H (or_introl eq_refl)) as [Hf [_ Hreg]].
  split; [exact Hf|]. destruct (olookup p (oset (Some (s_name st)) [] (c_children c))) as [l|]; [|discriminate].
  destruct Hreg as [-> _]. exists l. reflexivity.
Qed.

Lemma add_states_spec : forall l c c', add_states c l = Some c' ->
  NoDup (snames l) /\
  (forall n, In n (snames l) -> has_state c n = false) /\
  (forall k s, lookup k (c_states c) = Some s -> lookup k (c_states c') = Some s) /\
  (forall k p, lookup k (c_parent c) = Some p -> has_state c k = true -> lookup k (c_parent c') = Some p) /\
  (forall st p, In (st, p) l ->
     lookup (s_name st) (c_states c') = Some st /\ lookup (s_name st) (c_parent c') = Some p) /\
  (forall k s, lookup k (c_states c') = Some s -> lookup k (c_states c) = Some s \/ exists p, In (s, p) l) /\
  c_transitions c' = c_transitions c.
Proof.
  induction l as [|[st p] l IH]; intros c c' H; cbn [add_states] in H.
  - inv H. split; [constructor|]. split; [intros n []|]. split; [auto|]. split; [auto|].
    split; [intros st p []|]. split; [auto|reflexivity].
  - destruct (add_state c st p) as [c1 r] eqn:E. destruct r; try discriminate.
    destruct (add_state_ok_form _ _ _ _ E) as [Hfresh [l0 ->]].
    destruct (IH _ _ H) as [H1 [H2 [H3 [H4 [H5 [H6 H7]]]]]]. clear IH.
    assert (Hnm : has_state (register_chart c st p l0) (s_name st) = true).
    { rewrite has_state_register, seqb_refl. reflexivity. }
    assert (Hst : lookup (s_name st) (c_states (register_chart c st p l0)) = Some st).
    { unfold register_chart. cbn [c_states]. rewrite lookup_dset, seqb_refl. reflexivity. }
    assert (Hpa : lookup (s_name st) (c_parent (register_chart c st p l0)) = Some p).
    { unfold register_chart. cbn [c_parent]. rewrite lookup_dset, seqb_refl. reflexivity. }
    split; [|split; [|split; [|split; [|split; [|split]]]]].
    + cbn [snames map fst]. constructor; [|exact H1]. intros Hin. rewrite (H2 _ Hin) in Hnm. discriminate.
    + intros n [<-|Hin]; [exact Hfresh|]. specialize (H2 _ Hin). rewrite has_state_register in H2.
      apply orb_false_iff in H2. apply H2.
    + intros k s Hk. apply H3. unfold register_chart. cbn [c_states]. rewrite lookup_dset.
      destruct (seqbP k (s_name st)) as [->|_]; [|exact Hk]. apply has_state_false in Hfresh. congruence.
    + intros k q Hk Hhas. apply H4.
      * unfold register_chart. cbn [c_parent]. rewrite lookup_dset.
        destruct (seqbP k (s_name st)) as [->|_]; [congruence|exact Hk].
      * rewrite has_state_register, Hhas. apply orb_true_r.
    + intros st' p' [E0|Hin]; [inv E0; split; [apply H3; exact Hst|apply H4; assumption]|apply (H5 _ _ Hin)].
    + intros k s Hk. destruct (H6 _ _ Hk) as [Hk1|[q Hq]]; [|right; exists q; right; exact Hq].
      unfold register_chart in Hk1. cbn [c_states] in Hk1. rewrite lookup_dset in Hk1.
      destruct (str_eqb k (s_name st)); [inv Hk1; right; exists p; left; reflexivity|left; exact Hk1].
    + rewrite H7. reflexivity.
Qed.

Lemma add_transitions_list : forall l c c', add_transitions c l = Some c' ->
  c_transitions c' = c_transitions c ++ l /\ c_states c' = c_states c /\ c_parent c' = c_parent c.
Proof.
  induction l as [|t l IH]; intros c c' H; cbn [add_transitions] in H.
  - inv H. rewrite app_nil_r. auto.
  - destruct (add_transition c t) as [c1 r] eqn:E. destruct r; try discriminate.
    destruct (add_transition_ok_inv _ _ _ E) as [-> _]. destruct (IH _ _ H) as [H1 [H2 H3]].
    rewrite H1, H2, H3. cbn. rewrite <- app_assoc. auto.
Qed.

(* a statechart assembled from the lists produced by the loop *)
Record built (states : list (state * option name)) (trans : list transition) (c : chart) : Prop := mkBuilt {
  bl_nodup : NoDup (snames states);
  bl_state : forall st p, In (st, p) states ->
      lookup (s_name st) (c_states c) = Some st /\ lookup (s_name st) (c_parent c) = Some p;
  bl_from : forall k s, lookup k (c_states c) = Some s -> exists p, In (s, p) states;
  bl_trans : c_transitions c = trans;
  bl_sound : import_sound c
}.

Lemma import_pipeline_built : forall d c,
  import_pipeline d = Some c ->
  exists m nm root states trans,
    schema_statechart d = Some (doc m) /\ get_str "name" m = Some nm /\
    ylookup "root state" m = Some (YMap root) /\
    import_walk (S (count_nodes (YMap root))) [(root, None)] [] [] = Some (states, trans) /\
    built states trans c.
Proof.
  intros d c H. pose proof (C12_sound _ _ H) as IS.
  destruct (import_pipeline_inv _ _ H) as [d' [Hs [Hi Hv]]].
  destruct (import_from_dict_inv _ _ Hi) as [m [nm [root [states [trans [c1 [-> [Hn [Hr [Hw [Ha Ht]]]]]]]]]]].
  exists m, nm, root, states, trans.
  split; [exact Hs|]. split; [exact Hn|]. split; [exact Hr|]. split; [exact Hw|].
  destruct (add_states_spec _ _ _ Ha) as [H1 [H2 [H3 [H4 [H5 [H6 H7]]]]]].
  destruct (add_transitions_list _ _ _ Ht) as [T1 [T2 T3]].
  constructor; auto.
  - intros st p Hin. rewrite T2, T3. apply (H5 _ _ Hin).
  - intros k s Hk. rewrite T2 in Hk. destruct (H6 _ _ Hk) as [Hk0|Hex]; [discriminate|exact Hex].
  - rewrite T1, H7. reflexivity.
Qed.

Lemma built_name_in : forall states trans c, built states trans c ->
  forall n, has_state c n = true -> exists s p, In (s, p) states /\ s_name s = n /\ lookup n (c_states c) = Some s.
Proof.
  intros states trans c B n Hn. apply has_state_Some in Hn. destruct Hn as [s Hs].
  destruct (bl_from _ _ _ B _ _ Hs) as [p Hp]. exists s, p. split; [exact Hp|]. split; [|exact Hs].
  apply (is_keyname c (bl_sound _ _ _ B) _ _ Hs).
Qed.

Lemma built_child_in : forall states trans c, built states trans c ->
  forall k ch, In ch (children_for c k) -> exists s, In (s, Some k) states /\ s_name s = ch.
Proof.
  intros states trans c B k ch Hin. pose proof (bl_sound _ _ _ B) as IS.
  pose proof (import_sound_child_state c IS _ _ Hin) as Hch.
  destruct (built_name_in _ _ _ B _ Hch) as [s [p [Hp [Hnm _]]]].
  exists s. split; [|exact Hnm].
  unfold children_for in Hin. destruct (olookup (Some k) (c_children c)) as [l|] eqn:El; [|destruct Hin].
  pose proof (is_cp c IS _ _ _ El Hin) as Hpar.
  destruct (bl_state _ _ _ B _ _ Hp) as [_ Hpar']. rewrite Hnm, Hpar in Hpar'. inv Hpar'. exact Hp.
Qed.

(* ---- the fault classes, on the lists produced by the loop ---- *)
Lemma built_no_duplicate : forall states trans c, built states trans c -> NoDup (snames states).
Proof. intros states trans c B. apply (bl_nodup _ _ _ B). Qed.

Lemma built_source_owns : forall states trans c, built states trans c ->
  forall t st p, In t trans -> In (st, p) states -> t_source t = s_name st ->
  owns_transitions (s_kind st) = true.
Proof.
  intros states trans c B t st p Ht Hst Hsrc. rewrite <- (bl_trans _ _ _ B) in Ht.
  destruct (is_trans c (bl_sound _ _ _ B) t Ht) as [[s [Hs Ho]] _].
  destruct (bl_state _ _ _ B _ _ Hst) as [Hl _]. rewrite Hsrc, Hl in Hs. inv Hs. exact Ho.
Qed.

Lemma built_target_exists : forall states trans c, built states trans c ->
  forall t tg, In t trans -> t_target t = Some tg -> In tg (snames states).
Proof.
  intros states trans c B t tg Ht Htg. rewrite <- (bl_trans _ _ _ B) in Ht.
  destruct (is_trans c (bl_sound _ _ _ B) t Ht) as [_ Hx]. specialize (Hx tg Htg).
  destruct (built_name_in _ _ _ B _ Hx) as [s [p [Hin [Hnm _]]]]. rewrite <- Hnm.
  unfold snames. apply (in_map (fun e => s_name (fst e)) _ _ Hin).
Qed.

Lemma built_history_parent : forall states trans c, built states trans c ->
  forall st p, In (st, p) states -> is_history (s_kind st) = true ->
  exists pn, p = Some pn /\ forall pst pp, In (pst, pp) states -> s_name pst = pn -> s_kind pst = KCompound.
Proof.
  intros states trans c B st p Hin Hh. destruct (bl_state _ _ _ B _ _ Hin) as [Hl Hp].
  destruct (is_hist c (bl_sound _ _ _ B) _ _ Hl Hh) as [q [ps [H1 [H2 H3]]]].
  rewrite Hp in H1. inv H1. exists q. split; [reflexivity|]. intros pst pp Hpst Hnm.
  destruct (bl_state _ _ _ B _ _ Hpst) as [Hl' _]. rewrite Hnm, H2 in Hl'. inv Hl'. exact H3.
Qed.

Lemma built_initial_child : forall states trans c, built states trans c ->
  forall st p i, In (st, p) states -> s_kind st = KCompound -> truthy (s_initial st) = Some i ->
  exists ch, In (ch, Some (s_name st)) states /\ s_name ch = i.
Proof.
  intros states trans c B st p i Hin Hk Hi. destruct (bl_state _ _ _ B _ _ Hin) as [Hl _].
  apply (built_child_in _ _ _ B). apply (is_init c (bl_sound _ _ _ B) _ _ _ Hl Hk Hi).
Qed.

Lemma built_memory_sibling : forall states trans c, built states trans c ->
  forall st p mm, In (st, p) states -> is_history (s_kind st) = true -> s_memory st = Some mm ->
  mm <> s_name st /\ exists sib, In (sib, p) states /\ s_name sib = mm.
Proof.
  intros states trans c B st p mm Hin Hh Hm. destruct (bl_state _ _ _ B _ _ Hin) as [Hl Hp].
  destruct (is_mem c (bl_sound _ _ _ B) _ _ _ Hl Hh Hm) as [H1 [q [H2 H3]]]. split; [exact H1|].
  apply parent_for_Some in H2. rewrite Hp in H2. inv H2. apply (built_child_in _ _ _ B). exact H3.
Qed.

(* ---- the state nodes the importer visits ----
   walk_in m p x xp: starting from the node m registered under parent p, the loop reaches the node x and
   registers it under parent xp (children of a compound state under 'states', of an orthogonal state under
   'parallel states'; the substates written under a final/history state are ignored by the importer) *)
Inductive walk_in : list (string * ydata) -> option name -> list (string * ydata) -> option name -> Prop :=
| wi_here : forall m p, walk_in m p m p
| wi_sub : forall m p st sm x xp, import_state m = Some st -> In (YMap sm) (subs_of st m) ->
    walk_in sm (Some (s_name st)) x xp -> walk_in m p x xp.

Lemma walk_in_snoc : forall m p x xp st sm,
  walk_in m p x xp -> import_state x = Some st -> In (YMap sm) (subs_of st x) ->
  walk_in m p sm (Some (s_name st)).
Proof.
  intros m p x xp st sm H; induction H as [m p|m p st0 sm0 x xp H1 H2 H3 IH]; intros Hx Hs.
  - eapply wi_sub; [exact Hx|exact Hs|apply wi_here].
  - eapply wi_sub; [exact H1|exact H2|]. apply IH; assumption.
Qed.

Lemma In_push_subs_acc : forall nm subs acc e, In e acc -> In e (push_subs nm subs acc).
Proof.
  intros nm subs; induction subs as [|d subs IH]; intros acc e H; [exact H|].
  change (push_subs nm (d :: subs) acc)
    with (push_subs nm subs (match d with YMap sm => acc ++ [(sm, Some nm)] | _ => acc end)).
  apply IH. destruct d; try exact H. apply in_or_app; left; exact H.
Qed.

Lemma In_push_subs_new : forall nm subs acc sm, In (YMap sm) subs -> In (sm, Some nm) (push_subs nm subs acc).
Proof.
  intros nm subs; induction subs as [|d subs IH]; intros acc sm H; [destruct H|].
  change (push_subs nm (d :: subs) acc)
    with (push_subs nm subs (match d with YMap sm => acc ++ [(sm, Some nm)] | _ => acc end)).
  destruct H as [->|H]; [|apply IH; exact H].
  apply In_push_subs_acc. apply in_or_app; right; left; reflexivity.
Qed.

Lemma In_push_trans_acc : forall nm ts acc t, In t acc -> In t (push_trans nm ts acc).
Proof.
  intros nm ts; induction ts as [|d ts IH]; intros acc t H; [exact H|].
  change (push_trans nm (d :: ts) acc)
    with (push_trans nm ts (match d with YMap tm => acc ++ [import_transition nm tm] | _ => acc end)).
  apply IH. destruct d; try exact H. apply in_or_app; left; exact H.
Qed.

Lemma In_push_trans_new : forall nm ts acc tm,
  In (YMap tm) ts -> In (import_transition nm tm) (push_trans nm ts acc).
Proof.
  intros nm ts; induction ts as [|d ts IH]; intros acc tm H; [destruct H|].
  change (push_trans nm (d :: ts) acc)
    with (push_trans nm ts (match d with YMap tm => acc ++ [import_transition nm tm] | _ => acc end)).
  destruct H as [->|H]; [|apply IH; exact H].
  apply In_push_trans_acc. apply in_or_app; right; left; reflexivity.
Qed.

(* completeness: every visited node is registered, with its transitions *)
Lemma import_walk_complete : forall fuel stack states trans res,
  import_walk fuel stack states trans = Some res ->
  (forall e, In e states -> In e (fst res)) /\
  (forall t, In t trans -> In t (snd res)) /\
  (forall m p x xp, In (m, p) stack -> walk_in m p x xp ->
     exists st, import_state x = Some st /\ In (st, xp) (fst res) /\
       forall tm, In (YMap tm) (ylist_of "transitions" x) -> In (import_transition (s_name st) tm) (snd res)).
Proof.
  induction fuel as [|f IH]; intros stack states trans res H; [discriminate|].
  rewrite import_walk_S in H. destruct (rev stack) as [|[m0 p0] rr] eqn:Er.
  - inv H. cbn [fst snd]. split; [auto|]. split; [auto|].
    intros m p x xp Hin. apply in_rev in Hin. rewrite Er in Hin. destruct Hin.
  - destruct (import_state m0) as [st0|] eqn:Em0; [|discriminate].
    destruct (IH _ _ _ _ H) as [I1 [I2 I3]]. clear IH.
    split; [intros e He; apply I1; apply in_or_app; left; exact He|].
    split; [intros t Ht; apply I2; apply In_push_trans_acc; exact Ht|].
    intros m p x xp Hin Hw. apply in_rev in Hin. rewrite Er in Hin. destruct Hin as [E|Hin].
    + inv E. inversion Hw as [m' p'|m' p' st sm x' xp' H1 H2 H3]; subst.
      * exists st0. split; [exact Em0|]. split; [apply I1; apply in_or_app; right; left; reflexivity|].
        intros tm Htm. apply I2. apply In_push_trans_new. exact Htm.
      * rewrite Em0 in H1. inv H1. apply (I3 sm (Some (s_name st)) x xp); [|exact H3].
        apply In_push_subs_new. exact H2.
    + apply (I3 m p x xp); [|exact Hw]. apply In_push_subs_acc. apply (proj1 (in_rev rr (m, p))). exact Hin.
Qed.

(* soundness: every registered state is a visited node *)
Lemma import_walk_provenance : forall fuel stack states trans res,
  import_walk fuel stack states trans = Some res ->
  forall st xp, In (st, xp) (fst res) ->
    In (st, xp) states \/
    exists m p x, In (m, p) stack /\ walk_in m p x xp /\ import_state x = Some st.
Proof.
  induction fuel as [|f IH]; intros stack states trans res H st xp Hin; [discriminate|].
  rewrite import_walk_S in H. destruct (rev stack) as [|[m0 p0] rr] eqn:Er.
  - inv H. left; exact Hin.
  - destruct (import_state m0) as [st0|] eqn:Em0; [|discriminate].
    assert (Hm0 : In (m0, p0) stack) by (apply in_rev; rewrite Er; left; reflexivity).
    destruct (IH _ _ _ _ H st xp Hin) as [Hs|[m [p [x [Hst [Hw Hx]]]]]].
    + apply in_app_or in Hs. destruct Hs as [Hs|[E|[]]]; [left; exact Hs|]. inv E.
      right. exists m0, xp, m0. split; [exact Hm0|]. split; [apply wi_here|exact Em0].
    + right. apply In_push_subs in Hst. destruct Hst as [Hst|[sm [E Hsm]]].
      * exists m, p, x. split; [|split; assumption]. apply in_rev. rewrite Er. right. apply in_rev. exact Hst.
      * inv E. exists m0, p0, x. split; [exact Hm0|]. split; [|exact Hx].
        eapply wi_sub; [exact Em0|exact Hsm|exact Hw].
Qed.

Lemma root_walk_complete : forall f root states trans x xp,
  import_walk f [(root, None)] [] [] = Some (states, trans) -> walk_in root None x xp ->
  exists st, import_state x = Some st /\ In (st, xp) states /\
    forall tm, In (YMap tm) (ylist_of "transitions" x) -> In (import_transition (s_name st) tm) trans.
Proof.
  intros f root states trans x xp H Hw.
  destruct (import_walk_complete _ _ _ _ _ H) as [_ [_ H3]].
  apply (H3 root None x xp); [left; reflexivity|exact Hw].
Qed.

Lemma root_walk_provenance : forall f root states trans st xp,
  import_walk f [(root, None)] [] [] = Some (states, trans) -> In (st, xp) states ->
  exists x, walk_in root None x xp /\ import_state x = Some st.
Proof.
  intros f root states trans st xp H Hin.
  destruct (import_walk_provenance _ _ _ _ _ H st xp Hin) as [[]|[m [p [x [[E|[]] [Hw Hx]]]]]].
  inv E. exists x. split; assumption.
Qed.

Lemma import_transition_source : forall nm tm, t_source (import_transition nm tm) = nm.
Proof. intros nm tm. unfold import_transition. destruct (import_contract _ _ _ _) as [[a b] c0]. reflexivity. Qed.
Lemma import_transition_target : forall nm tm, t_target (import_transition nm tm) = get_str "target" tm.
Proof. intros nm tm. unfold import_transition. destruct (import_contract _ _ _ _) as [[a b] c0]. reflexivity. Qed.

(* ---- the fault classes on the (schema-validated) document handed to import_from_dict ---- *)
Section ImportFaults.
  Variables (d : ydata) (m root : list (string * ydata)).
  Hypothesis Hschema : schema_statechart d = Some (doc m).
  Hypothesis Hroot : ylookup "root state" m = Some (YMap root).

  Lemma reject_by_contradiction :
    (forall c states trans,
       import_walk (S (count_nodes (YMap root))) [(root, None)] [] [] = Some (states, trans) ->
       built states trans c -> False) ->
    import_pipeline d = None.
  Proof.
    intros H. destruct (import_pipeline d) as [c|] eqn:E; [exfalso|reflexivity].
    destruct (import_pipeline_built _ _ E) as [m' [nm [root' [states [trans [Hs [_ [Hr [Hw B]]]]]]]]].
    rewrite Hschema in Hs. inv Hs. rewrite Hroot in Hr. inv Hr. eapply H; eauto.
  Qed.

  (* a visited state that cannot be built: both 'states' and 'parallel states' non-empty, ... *)
  Theorem C12_reject_import_state : forall x xp,
    walk_in root None x xp -> import_state x = None -> import_pipeline d = None.
  Proof.
    intros x xp Hw Hx. apply reject_by_contradiction. intros c states trans H _.
    destruct (root_walk_complete _ _ _ _ _ _ H Hw) as [st [Hst _]]. congruence.
  Qed.

  Theorem C12_reject_both_states_and_parallel : forall x xp a la b lb,
    walk_in root None x xp -> ylookup "type" x = None ->
    ylist_of "states" x = a :: la -> ylist_of "parallel states" x = b :: lb -> import_pipeline d = None.
  Proof.
    intros x xp a la b lb Hw Ht Ha Hb. apply (C12_reject_import_state x xp Hw).
    rewrite import_state_eq. unfold import_state', state_kind. rewrite Ht, Ha, Hb.
    destruct (get_str "name" x); reflexivity.
  Qed.

  (* two visited nodes with the same name (which differ in something else: the parent, the kind, ...) *)
  Theorem C12_reject_duplicate_name : forall x xp y yp sx sy,
    walk_in root None x xp -> walk_in root None y yp ->
    import_state x = Some sx -> import_state y = Some sy ->
    s_name sx = s_name sy -> (sx, xp) <> (sy, yp) -> import_pipeline d = None.
  Proof.
    intros x xp y yp sx sy Hx Hy Ex Ey Hnm Hne. apply reject_by_contradiction. intros c states trans H B.
    destruct (root_walk_complete _ _ _ _ _ _ H Hx) as [sx' [Ex' [Hinx _]]].
    destruct (root_walk_complete _ _ _ _ _ _ H Hy) as [sy' [Ey' [Hiny _]]].
    rewrite Ex in Ex'. inv Ex'. rewrite Ey in Ey'. inv Ey'.
    destruct (bl_state _ _ _ B _ _ Hinx) as [H1 H2]. destruct (bl_state _ _ _ B _ _ Hiny) as [H3 H4].
    rewrite Hnm in H1, H2. rewrite H3 in H1. rewrite H4 in H2. inv H1. inv H2. apply Hne. reflexivity.
  Qed.

  (* in general: the list of registered names has a repetition *)
  Theorem C12_reject_duplicate_name_list : forall states trans,
    import_walk (S (count_nodes (YMap root))) [(root, None)] [] [] = Some (states, trans) ->
    ~ NoDup (snames states) -> import_pipeline d = None.
  Proof.
    intros states trans Hw Hnd. apply reject_by_contradiction. intros c states' trans' H B.
    rewrite Hw in H. inv H. apply Hnd. apply (bl_nodup _ _ _ B).
  Qed.

  Theorem C12_reject_transition_on_final_or_history : forall x xp st tm,
    walk_in root None x xp -> import_state x = Some st -> owns_transitions (s_kind st) = false ->
    In (YMap tm) (ylist_of "transitions" x) -> import_pipeline d = None.
  Proof.
    intros x xp st tm Hw Hx Ho Htm. apply reject_by_contradiction. intros c states trans H B.
    destruct (root_walk_complete _ _ _ _ _ _ H Hw) as [st' [Hx' [Hin Ht]]]. rewrite Hx in Hx'. inv Hx'.
    pose proof (built_source_owns _ _ _ B _ _ _ (Ht _ Htm) Hin (import_transition_source _ _)). congruence.
  Qed.

  Theorem C12_reject_unknown_target : forall x xp tm tg,
    walk_in root None x xp -> In (YMap tm) (ylist_of "transitions" x) -> get_str "target" tm = Some tg ->
    (forall y yp sy, walk_in root None y yp -> import_state y = Some sy -> s_name sy <> tg) ->
    import_pipeline d = None.
  Proof.
    intros x xp tm tg Hw Htm Htg Hno. apply reject_by_contradiction. intros c states trans H B.
    destruct (root_walk_complete _ _ _ _ _ _ H Hw) as [st [Hx [Hin Ht]]].
    assert (Htg' : t_target (import_transition (s_name st) tm) = Some tg).
    { rewrite import_transition_target. exact Htg. }
    pose proof (built_target_exists _ _ _ B _ _ (Ht _ Htm) Htg') as Hin'.
    unfold snames in Hin'. apply in_map_iff in Hin'. destruct Hin' as [[sy yp] [Hnm Hsy]]. cbn [fst] in Hnm.
    destruct (root_walk_provenance _ _ _ _ _ _ H Hsy) as [y [Hy Ey]]. apply (Hno y yp sy Hy Ey Hnm).
  Qed.

  Theorem C12_reject_history_root : forall st,
    import_state root = Some st -> is_history (s_kind st) = true -> import_pipeline d = None.
  Proof.
    intros st Hst Hh. apply reject_by_contradiction. intros c states trans H B.
    destruct (root_walk_complete _ _ _ _ _ _ H (wi_here root None)) as [st' [Hx [Hin _]]].
    rewrite Hst in Hx. inv Hx.
    destruct (built_history_parent _ _ _ B _ _ Hin Hh) as [pn [E _]]. discriminate.
  Qed.

  Theorem C12_reject_history_under_non_compound : forall x xp px sub st,
    walk_in root None x xp -> import_state x = Some px -> s_kind px <> KCompound ->
    In (YMap sub) (subs_of px x) -> import_state sub = Some st -> is_history (s_kind st) = true ->
    import_pipeline d = None.
  Proof.
    intros x xp px sub st Hw Hx Hk Hsub Hst Hh. apply reject_by_contradiction. intros c states trans H B.
    destruct (root_walk_complete _ _ _ _ _ _ H Hw) as [px' [Hx' [Hinx _]]]. rewrite Hx in Hx'. inv Hx'.
    destruct (root_walk_complete _ _ _ _ _ _ H (walk_in_snoc _ _ _ _ _ _ Hw Hx Hsub)) as [st' [Hs' [Hins _]]].
    rewrite Hst in Hs'. inv Hs'.
    destruct (built_history_parent _ _ _ B _ _ Hins Hh) as [pn [E Hall]]. inv E.
    apply Hk. apply (Hall _ _ Hinx eq_refl).
  Qed.

  (* initial names no state registered as a child of a state of that name *)
  Theorem C12_reject_initial_not_child : forall x xp st i,
    walk_in root None x xp -> import_state x = Some st -> s_kind st = KCompound ->
    truthy (s_initial st) = Some i ->
    (forall y sy, walk_in root None y (Some (s_name st)) -> import_state y = Some sy -> s_name sy <> i) ->
    import_pipeline d = None.
  Proof.
    intros x xp st i Hw Hx Hk Hi Hno. apply reject_by_contradiction. intros c states trans H B.
    destruct (root_walk_complete _ _ _ _ _ _ H Hw) as [st' [Hx' [Hin _]]]. rewrite Hx in Hx'. inv Hx'.
    destruct (built_initial_child _ _ _ B _ _ _ Hin Hk Hi) as [ch [Hch Hnm]].
    destruct (root_walk_provenance _ _ _ _ _ _ H Hch) as [y [Hy Ey]]. apply (Hno y ch Hy Ey Hnm).
  Qed.

  (* memory names the history state itself, or no state registered under the same parent *)
  Theorem C12_reject_memory_not_sibling : forall x xp st mm,
    walk_in root None x xp -> import_state x = Some st -> is_history (s_kind st) = true ->
    s_memory st = Some mm ->
    (mm = s_name st \/
     forall y sy, walk_in root None y xp -> import_state y = Some sy -> s_name sy <> mm) ->
    import_pipeline d = None.
  Proof.
    intros x xp st mm Hw Hx Hh Hm Hno. apply reject_by_contradiction. intros c states trans H B.
    destruct (root_walk_complete _ _ _ _ _ _ H Hw) as [st' [Hx' [Hin _]]]. rewrite Hx in Hx'. inv Hx'.
    destruct (built_memory_sibling _ _ _ B _ _ _ Hin Hh Hm) as [Hne [sib [Hsib Hnm]]].
    destruct Hno as [E|Hno]; [congruence|].
    destruct (root_walk_provenance _ _ _ _ _ _ H Hsib) as [y [Hy Ey]]. apply (Hno y sib Hy Ey Hnm).
  Qed.
End ImportFaults.

(* ================================================================== 5. C11: export then import *)

(* ---- looking keys up in the dictionaries written by export_to_dict ---- *)
Lemma ylookup_app : forall k a b,
  ylookup k (a ++ b) = match ylookup k a with Some v => Some v | None => ylookup k b end.
Proof.
  intros k a b; induction a as [|[k0 v0] a IH]; cbn [ylookup app]; [reflexivity|].
  destruct (str_eqb k k0); [reflexivity|exact IH].
Qed.

Lemma ylookup_opt_field : forall k k' o,
  ylookup k (opt_field k' o) = if str_eqb k k' then option_map YStr (keep_opt o) else None.
Proof.
  intros k k' o. unfold opt_field, keep_opt. destruct o as [s|]; [|destruct (str_eqb k k'); reflexivity].
  destruct (nonempty s); cbn [ylookup option_map]; destruct (str_eqb k k'); reflexivity.
Qed.

Definition contract_items (pre post inv : list code) : list ydata :=
  map (fun c => YMap [("before", YStr c)]) pre ++ map (fun c => YMap [("after", YStr c)]) post
  ++ map (fun c => YMap [("always", YStr c)]) inv.

Lemma export_contract_cases : forall pre post inv,
  (pre = [] /\ post = [] /\ inv = [] /\ export_contract pre post inv = []) \/
  export_contract pre post inv = [("contract", YList (contract_items pre post inv))].
Proof.
  intros [|a pre] [|b post] [|c inv]; try (right; reflexivity). left. repeat split; reflexivity.
Qed.

Lemma ylookup_export_contract : forall k pre post inv,
  k <> "contract" -> ylookup k (export_contract pre post inv) = None.
Proof.
  intros k pre post inv Hk.
  destruct (export_contract_cases pre post inv) as [[_ [_ [_ ->]]]| ->]; [reflexivity|].
  cbn [ylookup]. apply seqb_neq in Hk. rewrite Hk. reflexivity.
Qed.

Lemma contract_list_export : forall pre post inv,
  match ylookup "contract" (export_contract pre post inv) with Some (YList l) => l | _ => [] end
  = contract_items pre post inv.
Proof.
  intros pre post inv.
  destruct (export_contract_cases pre post inv) as [[-> [-> [-> ->]]]| ->]; reflexivity.
Qed.

(* ---- contracts: import after export strips every condition ---- *)
Definition codes_ok (l : list code) : Prop := forall x, In x l -> nonempty x = true.

Lemma import_contract_items : forall pre post inv a b c,
  codes_ok pre -> codes_ok post -> codes_ok inv ->
  import_contract (contract_items pre post inv) a b c
  = (a ++ map strip pre, b ++ map strip post, c ++ map strip inv).
Proof.
  unfold contract_items.
  induction pre as [|x pre IH]; intros post inv a b c Hp Hq Hr.
  - cbn [map app]. rewrite app_nil_r. revert b c.
    induction post as [|y post IHq]; intros b c.
    + cbn [map app]. rewrite app_nil_r. revert c.
      induction inv as [|z inv IHr]; intros c.
      * cbn. rewrite app_nil_r. reflexivity.
      * cbn [map import_contract]. cbn [get_str ylookup str_eqb String.eqb Ascii.eqb Bool.eqb].
        rewrite (Hr z (or_introl eq_refl)). rewrite IHr; [|intros w Hw; apply Hr; right; exact Hw].
        rewrite <- app_assoc. reflexivity.
    + cbn [map app import_contract]. cbn [get_str ylookup str_eqb String.eqb Ascii.eqb Bool.eqb].
      rewrite (Hq y (or_introl eq_refl)). rewrite IHq; [|intros w Hw; apply Hq; right; exact Hw].
      rewrite <- app_assoc. reflexivity.
  - cbn [map app import_contract]. cbn [get_str ylookup str_eqb String.eqb Ascii.eqb Bool.eqb].
    rewrite (Hp x (or_introl eq_refl)). rewrite IH; auto; [|intros w Hw; apply Hp; right; exact Hw].
    rewrite <- app_assoc. reflexivity.
Qed.

(* ---- priorities: high / low / integer is a bijection ---- *)
Definition export_priority (z : Z) : list (string * ydata) :=
  if Z.eqb z 0 then []
  else [("priority", if Z.eqb z (-1) then YStr "low" else if Z.eqb z 1 then YStr "high" else YInt z)].

Definition import_priority (m : list (string * ydata)) : Z :=
  match ylookup "priority" m with
  | Some (YStr "low") => (-1)%Z
  | Some (YStr "high") => 1%Z
  | Some (YInt z) => z
  | _ => 0%Z
  end.

Lemma priority_roundtrip : forall z, import_priority (export_priority z) = z.
Proof.
  intros z. unfold export_priority, import_priority.
  destruct (Z.eqb_spec z 0) as [->|H0]; [reflexivity|].
  destruct (Z.eqb_spec z (-1)) as [->|H1]; [reflexivity|].
  destruct (Z.eqb_spec z 1) as [->|H2]; reflexivity.
Qed.

Lemma use_priority_export : forall z k v, In (k, v) (export_priority z) -> use_priority v = Some v.
Proof.
  intros z k v. unfold export_priority.
  destruct (Z.eqb z 0); [intros []|]. intros [E|[]]. inv E.
  destruct (Z.eqb z (-1)); [reflexivity|]. destruct (Z.eqb z 1); reflexivity.
Qed.

(* ---- one transition ---- *)
Ltac lit :=
  repeat match goal with
         | |- context [str_eqb ?a ?b] =>
             let v := eval vm_compute in (str_eqb a b) in
             match v with true => idtac | false => idtac end;
             change (str_eqb a b) with v
         end.

Definition tfields (t : transition) : list (string * ydata) :=
  opt_field "event" (t_event t) ++ opt_field "guard" (t_guard t) ++ opt_field "target" (t_target t)
  ++ opt_field "action" (t_action t) ++ export_priority (t_priority t)
  ++ export_contract (t_pre t) (t_post t) (t_inv t).

Lemma export_transition_eq : forall t, export_transition t = YMap (tfields t).
Proof. reflexivity. Qed.

Lemma ylookup_export_priority : forall k z, k <> "priority" -> ylookup k (export_priority z) = None.
Proof.
  intros k z Hk. unfold export_priority. destruct (Z.eqb z 0); [reflexivity|].
  cbn [ylookup]. apply seqb_neq in Hk. rewrite Hk. reflexivity.
Qed.

Lemma get_opt_YStr : forall o : option string,
  match option_map YStr o with Some (YStr s) => Some s | _ => None end = o.
Proof. intros [s|]; reflexivity. Qed.


Lemma strip_opt_keep : forall o, strip_opt (keep_opt o) = norm_opt o.
Proof. intros [x|]; cbn; [|reflexivity]. destruct (nonempty x) eqn:E; cbn; [rewrite E|]; reflexivity. Qed.

Lemma get_str_tfields : forall t,
  get_str "event" (tfields t) = keep_opt (t_event t) /\
  get_str "guard" (tfields t) = keep_opt (t_guard t) /\
  get_str "target" (tfields t) = keep_opt (t_target t) /\
  get_str "action" (tfields t) = keep_opt (t_action t).
Proof.
  intros t. unfold get_str, tfields.
  repeat split; rewrite !ylookup_app, !ylookup_opt_field; lit; cbn iota;
    rewrite ylookup_export_priority, ylookup_export_contract by discriminate;
    match goal with |- context [keep_opt ?o] => destruct (keep_opt o); reflexivity end.
Qed.

Lemma import_priority_tfields : forall t, import_priority (tfields t) = t_priority t.
Proof.
  intros t. transitivity (import_priority (export_priority (t_priority t))); [|apply priority_roundtrip].
  unfold import_priority, tfields.
  rewrite !ylookup_app, !ylookup_opt_field; lit; cbn iota.
  destruct (ylookup "priority" (export_priority (t_priority t))) eqn:E; [reflexivity|].
  rewrite ylookup_export_contract by discriminate. reflexivity.
Qed.

Lemma contract_list_tfields : forall t,
  contract_list (tfields t) = contract_items (t_pre t) (t_post t) (t_inv t).
Proof.
  intros t. unfold contract_list, tfields.
  rewrite !ylookup_app, !ylookup_opt_field; lit; cbn iota.
  rewrite ylookup_export_priority by discriminate. apply contract_list_export.
Qed.

Definition trans_codes_ok (t : transition) : Prop := codes_ok (t_pre t) /\ codes_ok (t_post t) /\ codes_ok (t_inv t).

(* C11, one transition *)
Lemma import_export_transition : forall t,
  trans_codes_ok t -> import_transition (t_source t) (tfields t) = strip_trans t.
Proof.
  intros t [H1 [H2 H3]]. unfold import_transition. fold (import_priority (tfields t)).
  rewrite contract_list_tfields, (import_contract_items _ _ _ [] [] [] H1 H2 H3). cbn [app].
  destruct (get_str_tfields t) as [E1 [E2 [E3 E4]]]. rewrite E1, E2, E3, E4, import_priority_tfields.
  rewrite !strip_opt_keep. reflexivity.
Qed.

(* ---- one state ---- *)
Definition trseg (c : chart) (s : state) : list (string * ydata) :=
  if owns_transitions (s_kind s) then
    match transitions_from c (s_name s) with
    | [] => []
    | ts => [("transitions", YList (map export_transition ts))]
    end
  else [].

Definition kidseg (s : state) (kids : list ydata) : list (string * ydata) :=
  match s_kind s with
  | KCompound => [("states", YList kids)]
  | KOrthogonal => [("parallel states", YList kids)]
  | _ => []
  end.

Definition efields (c : chart) (s : state) (kids : list ydata) : list (string * ydata) :=
  [("name", YStr (s_name s))]
  ++ (match s_kind s with
      | KShallow => ("type", YStr "shallow history") :: opt_field "memory" (s_memory s)
      | KDeep => ("type", YStr "deep history") :: opt_field "memory" (s_memory s)
      | KFinal => [("type", YStr "final")]
      | _ => []
      end)
  ++ opt_field "on entry" (s_on_entry s) ++ opt_field "on exit" (s_on_exit s)
  ++ (match s_kind s with KCompound => opt_field "initial" (s_initial s) | _ => [] end)
  ++ export_contract (s_pre s) (s_post s) (s_inv s)
  ++ trseg c s ++ kidseg s kids.

Lemma export_state_S : forall f c n,
  export_state (S f) c n =
  match state_for c n with
  | None => YNull
  | Some s => YMap (efields c s (map (export_state f c) (children_for c (s_name s))))
  end.
Proof. intros f c n. cbn [export_state]. destruct (state_for c n) as [s|]; [|reflexivity]. unfold efields, trseg, kidseg. destruct (s_kind s); reflexivity. Qed.

Lemma ylookup_trseg : forall k c s, k <> "transitions" -> ylookup k (trseg c s) = None.
Proof.
  intros k c s Hk. unfold trseg. destruct (owns_transitions (s_kind s)); [|reflexivity].
  destruct (transitions_from c (s_name s)); [reflexivity|].
  cbn [ylookup]. apply seqb_neq in Hk. rewrite Hk. reflexivity.
Qed.

Ltac ylk := repeat (progress (rewrite ?ylookup_app, ?ylookup_opt_field; cbn [ylookup]; lit; cbn iota)).

Lemma get_name_efields : forall c s kids, get_str "name" (efields c s kids) = Some (s_name s).
Proof. intros. unfold get_str, efields. ylk. reflexivity. Qed.


Ltac yside := rewrite ?ylookup_export_contract, ?ylookup_trseg by discriminate.

Lemma get_entry_efields : forall c s kids, get_str "on entry" (efields c s kids) = keep_opt (s_on_entry s).
Proof.
  intros. unfold get_str, efields, kidseg.
  destruct (s_kind s); ylk; yside; destruct (keep_opt (s_on_entry s)); reflexivity.
Qed.

Lemma get_exit_efields : forall c s kids, get_str "on exit" (efields c s kids) = keep_opt (s_on_exit s).
Proof.
  intros. unfold get_str, efields, kidseg.
  destruct (s_kind s); ylk; yside; destruct (keep_opt (s_on_exit s)); reflexivity.
Qed.


Lemma contract_list_efields : forall c s kids,
  contract_list (efields c s kids) = contract_items (s_pre s) (s_post s) (s_inv s).
Proof.
  intros. unfold contract_list, efields, kidseg.
  destruct (s_kind s); ylk; yside; rewrite <- contract_list_export;
    destruct (ylookup "contract" (export_contract (s_pre s) (s_post s) (s_inv s))); reflexivity.
Qed.

Lemma type_efields : forall c s kids,
  ylookup "type" (efields c s kids) =
  match s_kind s with
  | KFinal => Some (YStr "final") | KShallow => Some (YStr "shallow history")
  | KDeep => Some (YStr "deep history") | _ => None
  end.
Proof.
  intros. unfold efields, kidseg.
  destruct (s_kind s); ylk; yside; try reflexivity;
    destruct (keep_opt (s_on_entry s)), (keep_opt (s_on_exit s)); cbn; try reflexivity;
    destruct (keep_opt (s_initial s)); reflexivity.
Qed.

Lemma memory_efields : forall c s kids, is_history (s_kind s) = true ->
  get_str "memory" (efields c s kids) = keep_opt (s_memory s).
Proof.
  intros c s kids Hh. unfold get_str, efields, kidseg.
  destruct (s_kind s); try discriminate; ylk; yside;
    destruct (keep_opt (s_memory s)); try reflexivity;
    destruct (keep_opt (s_on_entry s)), (keep_opt (s_on_exit s)); reflexivity.
Qed.

Lemma initial_efields : forall c s kids, s_kind s = KCompound ->
  get_str "initial" (efields c s kids) = keep_opt (s_initial s).
Proof.
  intros c s kids Hk. unfold get_str, efields, kidseg. rewrite Hk. ylk. yside.
  destruct (keep_opt (s_initial s)); try reflexivity;
    destruct (keep_opt (s_on_entry s)), (keep_opt (s_on_exit s)); reflexivity.
Qed.

Lemma states_efields : forall c s kids,
  ylist_of "states" (efields c s kids) = match s_kind s with KCompound => kids | _ => [] end.
Proof.
  intros. unfold ylist_of, efields, kidseg.
  destruct (s_kind s); ylk; yside;
    destruct (keep_opt (s_on_entry s)), (keep_opt (s_on_exit s)); cbn; try reflexivity;
    destruct (keep_opt (s_initial s)); try reflexivity; destruct (keep_opt (s_memory s)); reflexivity.
Qed.

Lemma parallel_efields : forall c s kids,
  ylist_of "parallel states" (efields c s kids) = match s_kind s with KOrthogonal => kids | _ => [] end.
Proof.
  intros. unfold ylist_of, efields, kidseg.
  destruct (s_kind s); ylk; yside;
    destruct (keep_opt (s_on_entry s)), (keep_opt (s_on_exit s)); cbn; try reflexivity;
    destruct (keep_opt (s_initial s)); try reflexivity; destruct (keep_opt (s_memory s)); reflexivity.
Qed.

Lemma transitions_efields : forall c s kids,
  ylist_of "transitions" (efields c s kids) =
  if owns_transitions (s_kind s) then map export_transition (transitions_from c (s_name s)) else [].
Proof.
  intros. unfold ylist_of, efields, kidseg.
  assert (Ht : match ylookup "transitions" (trseg c s) with Some (YList l) => l | _ => [] end =
               if owns_transitions (s_kind s) then map export_transition (transitions_from c (s_name s)) else []).
  { unfold trseg. destruct (owns_transitions (s_kind s)); [|reflexivity].
    destruct (transitions_from c (s_name s)); reflexivity. }
  rewrite <- Ht.
  destruct (s_kind s); ylk; yside;
    destruct (keep_opt (s_on_entry s)), (keep_opt (s_on_exit s)); cbn;
    try (destruct (ylookup "transitions" (trseg c s)); reflexivity);
    destruct (keep_opt (s_initial s)); try (destruct (ylookup "transitions" (trseg c s)); reflexivity);
    destruct (keep_opt (s_memory s)); destruct (ylookup "transitions" (trseg c s)); reflexivity.
Qed.

Definition state_codes_ok (s : state) : Prop := codes_ok (s_pre s) /\ codes_ok (s_post s) /\ codes_ok (s_inv s).

(* C11, one state: what _import_state_from_dict makes of an exported state *)
Lemma import_export_state : forall c s kids,
  state_codes_ok s -> (is_composite (s_kind s) = true -> kids <> []) ->
  import_state (efields c s kids) = Some (strip_state s).
Proof.
  intros c s kids [H1 [H2 H3]] Hkids. rewrite import_state_eq. unfold import_state'.
  rewrite get_name_efields.
  assert (Hk : state_kind (efields c s kids) = Some (s_kind s)).
  { unfold state_kind. rewrite type_efields, states_efields, parallel_efields.
    destruct (s_kind s) eqn:Ek; try reflexivity; destruct kids; try reflexivity; exfalso; apply Hkids; reflexivity. }
  rewrite Hk, contract_list_efields, (import_contract_items _ _ _ [] [] [] H1 H2 H3). cbn [app].
  rewrite get_entry_efields, get_exit_efields, !strip_opt_keep. unfold strip_state.
  f_equal. f_equal.
  - destruct (s_kind s) eqn:Ek; try reflexivity. apply initial_efields. exact Ek.
  - destruct (is_history (s_kind s)) eqn:Eh; [|reflexivity]. apply memory_efields. exact Eh.
Qed.

(* ---- the schema accepts an exported document and leaves it unchanged ---- *)
Lemma keys_within_app : forall a b K, keys_within (a ++ b) K = keys_within a K && keys_within b K.
Proof. intros a b K. unfold keys_within. apply forallb_app. Qed.

Lemma keys_within_opt_field : forall k o K, mem k K = true -> keys_within (opt_field k o) K = true.
Proof.
  intros k o K Hk. unfold opt_field. destruct o as [s|]; [|reflexivity].
  destruct (nonempty s); [|reflexivity]. cbn. rewrite Hk. reflexivity.
Qed.

Lemma keys_within_export_contract : forall a b c K,
  mem "contract" K = true -> keys_within (export_contract a b c) K = true.
Proof.
  intros a b c K Hk. destruct (export_contract_cases a b c) as [[_ [_ [_ ->]]]| ->]; [reflexivity|].
  cbn. rewrite Hk. reflexivity.
Qed.

Lemma map_opt_app : forall {A B} (g : A -> option B) a b x y,
  map_opt g a = Some x -> map_opt g b = Some y -> map_opt g (a ++ b) = Some (x ++ y).
Proof.
  intros A B g a; induction a as [|e a IH]; intros b x y Ha Hb; cbn [map_opt app] in *.
  - inv Ha. exact Hb.
  - destruct (g e) as [e'|]; [|discriminate]. destruct (map_opt g a) as [a'|]; [|discriminate]. inv Ha.
    rewrite (IH b a' y eq_refl Hb). reflexivity.
Qed.

Lemma map_opt_id : forall {A} (g : A -> option A) l, (forall x, In x l -> g x = Some x) -> map_opt g l = Some l.
Proof.
  intros A g l; induction l as [|x l IH]; intros H; [reflexivity|]. cbn [map_opt].
  rewrite (H x (or_introl eq_refl)), IH; [reflexivity|]. intros y Hy. apply H. right; exact Hy.
Qed.

Lemma map_opt_id_app : forall {A} (g : A -> option A) a b,
  map_opt g a = Some a -> map_opt g b = Some b -> map_opt g (a ++ b) = Some (a ++ b).
Proof. intros. apply map_opt_app; assumption. Qed.

Lemma schema_contracts_items : forall a b c,
  schema_contracts (YList (contract_items a b c)) = Some (YList (contract_items a b c)).
Proof.
  intros a b c. unfold schema_contracts. rewrite map_opt_id; [reflexivity|].
  intros x Hx. unfold contract_items in Hx. rewrite !in_app_iff, !in_map_iff in Hx.
  destruct Hx as [[y [<- _]]|[[y [<- _]]|[y [<- _]]]]; reflexivity.
Qed.

Lemma fix_opt_field_v_str : forall (g : string * ydata -> option (string * ydata)) k o,
  (forall v, g (k, YStr v) = Some (k, YStr v)) -> map_opt g (opt_field k o) = Some (opt_field k o).
Proof.
  intros g k o Hg. unfold opt_field. destruct o as [s|]; [|reflexivity].
  destruct (nonempty s); [|reflexivity]. cbn [map_opt]. rewrite Hg. reflexivity.
Qed.

Lemma fix_export_contract : forall (g : string * ydata -> option (string * ydata)) a b c,
  (forall v, g ("contract", v) = option_map (fun x => ("contract", x)) (schema_contracts v)) ->
  map_opt g (export_contract a b c) = Some (export_contract a b c).
Proof.
  intros g a b c Hg. destruct (export_contract_cases a b c) as [[_ [_ [_ ->]]]| ->]; [reflexivity|].
  cbn [map_opt]. rewrite Hg, schema_contracts_items. reflexivity.
Qed.

Lemma schema_export_transition : forall t, schema_transition (export_transition t) = Some (export_transition t).
Proof.
  intros t. rewrite export_transition_eq, schema_transition_map.
  assert (Hk : keys_within (tfields t) transition_keys = true).
  { unfold tfields. rewrite !keys_within_app, !keys_within_opt_field by reflexivity.
    rewrite keys_within_export_contract by reflexivity. unfold export_priority.
    destruct (Z.eqb (t_priority t) 0); reflexivity. }
  rewrite Hk. unfold tfields.
  repeat (rewrite map_opt_id_app; [reflexivity| |]); try (apply fix_opt_field_v_str; intros v; reflexivity).
  - apply map_opt_id. intros [k v] Hin. pose proof (use_priority_export _ _ _ Hin) as Hu.
    unfold export_priority in Hin. destruct (Z.eqb (t_priority t) 0); [destruct Hin|].
    destruct Hin as [E|[]]. inv E. unfold transition_field. cbn [fst snd]. lit. rewrite Hu. reflexivity.
  - apply fix_export_contract. intros v. reflexivity.
Qed.

Lemma keys_within_cons : forall k v l K, keys_within ((k, v) :: l) K = mem k K && keys_within l K.
Proof. reflexivity. Qed.

Lemma keys_within_trseg : forall c s, keys_within (trseg c s) state_keys = true.
Proof.
  intros c s. unfold trseg. destruct (owns_transitions (s_kind s)); [|reflexivity].
  destruct (transitions_from c (s_name s)); reflexivity.
Qed.

Lemma schema_efields : forall f c s kids,
  (forall x, In x kids -> schema_state f x = Some x) ->
  schema_state (S f) (YMap (efields c s kids)) = Some (YMap (efields c s kids)).
Proof.
  intros f c s kids Hkids. rewrite schema_state_S.
  assert (Hk : keys_within (efields c s kids) state_keys = true).
  { unfold efields, kidseg.
    destruct (s_kind s);
      repeat (progress (rewrite ?keys_within_app, ?keys_within_cons, ?keys_within_trseg;
                        rewrite ?keys_within_opt_field, ?keys_within_export_contract by reflexivity));
      reflexivity. }
  rewrite Hk. unfold get_str in *.
  assert (Hn : ylookup "name" (efields c s kids) = Some (YStr (s_name s))) by reflexivity.
  rewrite Hn. cbn [andb option_map]. unfold efields.
  repeat (rewrite map_opt_id_app; [reflexivity| |]); try (apply fix_opt_field_v_str; intros v; reflexivity).
  - reflexivity.
  - destruct (s_kind s); try reflexivity.
    + cbn [map_opt]. change (state_field f ("type", YStr "shallow history")) with (Some ("type", YStr "shallow history")).
      rewrite fix_opt_field_v_str by (intros v; reflexivity). reflexivity.
    + cbn [map_opt]. change (state_field f ("type", YStr "deep history")) with (Some ("type", YStr "deep history")).
      rewrite fix_opt_field_v_str by (intros v; reflexivity). reflexivity.
  - destruct (s_kind s); try reflexivity. apply fix_opt_field_v_str; intros v; reflexivity.
  - apply fix_export_contract. intros v. reflexivity.
  - unfold trseg. destruct (owns_transitions (s_kind s)); [|reflexivity].
    destruct (transitions_from c (s_name s)) as [|t ts]; [reflexivity|].
    cbn [map_opt]. unfold state_field. cbn [fst snd]. lit. cbn iota.
    rewrite map_opt_id; [reflexivity|]. intros x Hx. apply in_map_iff in Hx. destruct Hx as [t' [<- _]].
    apply schema_export_transition.
  - unfold kidseg. destruct (s_kind s); try reflexivity;
      cbn [map_opt]; unfold state_field; cbn [fst snd]; lit; cbn [orb]; cbn iota;
      rewrite (map_opt_id _ _ Hkids); reflexivity.
Qed.

(* ---- the exported tree: fuel S (number of states) reaches every state ---- *)
Inductive subtree (c : chart) : nat -> name -> Prop :=
| st_node : forall f n s, state_for c n = Some s -> s_name s = n ->
    (forall ch, In ch (children_for c n) -> subtree c f ch) -> subtree c (S f) n.

Lemma anc_has_state : forall c, sound c -> forall x a, anc c x a -> has_state c a = true.
Proof.
  intros c HS x a H; induction H as [x a Hp|x q a Hp Ha IH]; [|exact IH].
  destruct (sd_pc c HS _ _ Hp) as [H _]. apply H. reflexivity.
Qed.

Lemma subtree_of_sound : forall c, sound c -> forall f path n,
  f + length path = S (length (c_states c)) -> NoDup path -> (forall a, In a path -> anc c n a) ->
  has_state c n = true -> subtree c f n.
Proof.
  intros c HS. induction f as [|f IH]; intros path n Hlen Hnd Hanc Hn.
  - exfalso. assert (Hincl : incl path (map fst (c_states c))).
    { intros a Ha. apply has_state_In. apply (anc_has_state c HS n a). apply Hanc; exact Ha. }
    pose proof (NoDup_incl_length Hnd Hincl) as Hl. rewrite map_length in Hl. cbn in Hlen. lia.
  - apply has_state_Some in Hn. destruct Hn as [s Hs].
    apply (st_node c f n s); [exact Hs|apply (sd_keyname c HS _ _ Hs)|].
    intros ch Hch. pose proof (sound_child_parent c HS _ _ Hch) as Hp.
    apply (IH (n :: path)).
    + cbn [length]. lia.
    + constructor; [|exact Hnd]. intros Hin. apply (sound_anc_irrefl c HS n). apply Hanc; exact Hin.
    + intros a [<-|Ha]; [apply anc_parent; exact Hp|]. eapply anc_step; [exact Hp|apply Hanc; exact Ha].
    + apply (sd_pkeys c HS). congruence.
Qed.

Definition enode (f : nat) (c : chart) (n : name) : list (string * ydata) :=
  match export_state f c n with YMap m => m | _ => [] end.

Lemma export_state_subtree : forall c f n, subtree c f n -> export_state f c n = YMap (enode f c n).
Proof.
  intros c f n H. inversion H as [f' n' s Hs Hnm Hch]; subst. unfold enode.
  rewrite export_state_S, Hs. reflexivity.
Qed.

Lemma enode_S : forall c f n s, state_for c n = Some s -> s_name s = n ->
  enode (S f) c n = efields c s (map (export_state f c) (children_for c n)).
Proof. intros c f n s Hs Hnm. unfold enode. rewrite export_state_S, Hs, Hnm. reflexivity. Qed.

(* ---- what the loop of import_from_dict does on an exported tree ---- *)
Definition maps (l : list ydata) : list (list (string * ydata)) :=
  flat_map (fun d => match d with YMap sm => [sm] | _ => [] end) l.

Lemma push_subs_eq : forall nm subs acc, push_subs nm subs acc = acc ++ map (fun sm => (sm, Some nm)) (maps subs).
Proof.
  intros nm subs; induction subs as [|d subs IH]; intros acc.
  - cbn. rewrite app_nil_r. reflexivity.
  - change (push_subs nm (d :: subs) acc)
      with (push_subs nm subs (match d with YMap sm => acc ++ [(sm, Some nm)] | _ => acc end)).
    rewrite IH. destruct d; try reflexivity. cbn [maps flat_map app map]. rewrite <- app_assoc. reflexivity.
Qed.

Lemma push_trans_eq : forall nm ts acc, push_trans nm ts acc = acc ++ map (import_transition nm) (maps ts).
Proof.
  intros nm ts; induction ts as [|d ts IH]; intros acc.
  - cbn. rewrite app_nil_r. reflexivity.
  - change (push_trans nm (d :: ts) acc)
      with (push_trans nm ts (match d with YMap tm => acc ++ [import_transition nm tm] | _ => acc end)).
    rewrite IH. destruct d; try reflexivity. cbn [maps flat_map app map]. rewrite <- app_assoc. reflexivity.
Qed.

Lemma maps_export_transitions : forall ts, maps (map export_transition ts) = map tfields ts.
Proof. induction ts as [|t ts IH]; [reflexivity|]. cbn [map maps flat_map app]. fold (maps (map export_transition ts)). rewrite IH. reflexivity. Qed.

Fixpoint cdfs (c : chart) (f : nat) (n : name) (parent : option name) : list (state * option name) :=
  match f with
  | O => []
  | S f' =>
      match state_for c n with
      | None => []
      | Some s => (strip_state s, parent)
                    :: flat_map (fun ch => cdfs c f' ch (Some n)) (rev (children_for c n))
      end
  end.

Definition tl_of (c : chart) (l : list (state * option name)) : list transition :=
  flat_map (fun e => map strip_trans (transitions_from c (s_name (fst e)))) l.

Lemma tl_of_app : forall c a b, tl_of c (a ++ b) = tl_of c a ++ tl_of c b.
Proof. intros. unfold tl_of. apply flat_map_app. Qed.

(* ---- ancestors in a sound chart ---- *)
Lemma anc_last : forall c x n, anc c x n ->
  exists ch, lookup ch (c_parent c) = Some (Some n) /\ (x = ch \/ anc c x ch).
Proof.
  intros c x n H; induction H as [x a Hp|x q a Hp Ha IH].
  - exists x. split; [exact Hp|left; reflexivity].
  - destruct IH as [ch [H1 H2]]. exists ch. split; [exact H1|]. right.
    destruct H2 as [->|H2]; [apply anc_parent; exact Hp|eapply anc_step; eauto].
Qed.

Lemma anc_linear : forall c x a b, anc c x a -> anc c x b -> a = b \/ anc c a b \/ anc c b a.
Proof.
  intros c x a b H; revert b; induction H as [x a Hp|x q a Hp Ha IH]; intros b Hb.
  - destruct (anc_inv _ _ _ Hb) as [q' [Hq' [E|Hq'b]]]; rewrite Hp in Hq'; inv Hq'; auto.
  - destruct (anc_inv _ _ _ Hb) as [q' [Hq' [E|Hq'b]]]; rewrite Hp in Hq'; inv Hq'.
    + right; right. exact Ha.
    + apply IH. exact Hq'b.
Qed.

Lemma siblings_disjoint : forall c, sound c -> forall n ch1 ch2 x,
  lookup ch1 (c_parent c) = Some (Some n) -> lookup ch2 (c_parent c) = Some (Some n) -> ch1 <> ch2 ->
  (x = ch1 \/ anc c x ch1) -> (x = ch2 \/ anc c x ch2) -> False.
Proof.
  intros c HS n ch1 ch2 x H1 H2 Hne Hx1 Hx2.
  assert (Hno : forall a b, lookup a (c_parent c) = Some (Some n) -> lookup b (c_parent c) = Some (Some n) ->
                 anc c a b -> False).
  { intros a b Ha Hb Hab. destruct (anc_inv _ _ _ Hab) as [q [Hq [E|Hqb]]]; rewrite Ha in Hq; inv Hq.
    - apply (sound_anc_irrefl c HS b). apply anc_parent. exact Hb.
    - apply (sound_anc_irrefl c HS q). eapply anc_trans; [exact Hqb|apply anc_parent; exact Hb]. }
  destruct Hx1 as [->|Hx1], Hx2 as [E|Hx2].
  - congruence.
  - apply (Hno ch1 ch2); assumption.
  - subst x. apply (Hno ch2 ch1); assumption.
  - destruct (anc_linear _ _ _ _ Hx1 Hx2) as [E|[H|H]]; [congruence|apply (Hno ch1 ch2)|apply (Hno ch2 ch1)]; assumption.
Qed.

Lemma map_flat_map : forall {A B C} (f : B -> C) (g : A -> list B) l,
  map f (flat_map g l) = flat_map (fun x => map f (g x)) l.
Proof. intros A B C f g l; induction l as [|x l IH]; [reflexivity|]. cbn [flat_map]. rewrite map_app, IH. reflexivity. Qed.

Lemma NoDup_flat_map : forall {A B} (g : A -> list B) l,
  NoDup l -> (forall x, In x l -> NoDup (g x)) ->
  (forall x y z, In x l -> In y l -> x <> y -> In z (g x) -> In z (g y) -> False) ->
  NoDup (flat_map g l).
Proof.
  intros A B g l; induction l as [|a l IH]; intros Hnd Hg Hdis; [constructor|].
  inv Hnd. cbn [flat_map]. apply NoDup_app_intro.
  - apply Hg. left; reflexivity.
  - apply IH; [assumption|intros x Hx; apply Hg; right; exact Hx|].
    intros x y z Hx Hy. apply Hdis; right; assumption.
  - intros z Hz1 Hz2. apply in_flat_map in Hz2. destruct Hz2 as [y [Hy Hzy]].
    apply (Hdis a y z); [left; reflexivity|right; exact Hy| |exact Hz1|exact Hzy].
    intros ->. contradiction.
Qed.

Section Roundtrip.
  Variable c : chart.
  Hypothesis HS : sound c.
  Hypothesis Hscodes : forall n s, state_for c n = Some s -> state_codes_ok s.
  Hypothesis Htcodes : forall t, In t (c_transitions c) -> trans_codes_ok t.
  Hypothesis Hkids : forall n s, state_for c n = Some s ->
    (is_composite (s_kind s) = true -> children_for c n <> []) /\
    (is_composite (s_kind s) = false -> children_for c n = []).

  Lemma transitions_from_owns : forall n s, state_for c n = Some s -> owns_transitions (s_kind s) = false ->
    transitions_from c n = [].
  Proof.
    intros n s Hs Ho. unfold transitions_from.
    destruct (filter (fun t => str_eqb (t_source t) n) (c_transitions c)) as [|t l] eqn:E; [reflexivity|].
    exfalso. assert (Hin : In t (filter (fun t => str_eqb (t_source t) n) (c_transitions c))) by (rewrite E; left; reflexivity).
    apply filter_In in Hin. destruct Hin as [Hin Hsrc]. apply seqb_eq in Hsrc.
    destruct (sd_trans c HS t Hin) as [[s' [H1 H2]] _]. unfold state_for in Hs. rewrite Hsrc, Hs in H1. inv H1. congruence.
  Qed.

  Lemma walk_node_step : forall f n s p stack S T fuel,
    state_for c n = Some s -> s_name s = n ->
    (forall ch, In ch (children_for c n) -> subtree c f ch) ->
    import_walk (Datatypes.S fuel) (stack ++ [(enode (Datatypes.S f) c n, p)]) S T =
    import_walk fuel (stack ++ map (fun ch => (enode f c ch, Some n)) (children_for c n))
                (S ++ [(strip_state s, p)]) (T ++ map strip_trans (transitions_from c n)).
  Proof.
    intros f n s p stack S T fuel Hs Hnm Hch.
    rewrite import_walk_S, rev_unit, (enode_S c f n s Hs Hnm).
    destruct (Hkids n s Hs) as [Hk1 Hk2].
    rewrite import_export_state; [|apply (Hscodes n s Hs)|].
    2:{ intros Hc E. apply map_eq_nil in E. apply (Hk1 Hc E). }
    rewrite rev_involutive, push_subs_eq, push_trans_eq.
    assert (Hn' : s_name (strip_state s) = n) by exact Hnm. rewrite Hn'.
    f_equal.
    - f_equal. unfold subs_of. change (s_kind (strip_state s)) with (s_kind s).
      rewrite states_efields, parallel_efields.
      assert (Hm : maps (map (export_state f c) (children_for c n)) = map (enode f c) (children_for c n)).
      { revert Hch. generalize (children_for c n) as l. induction l as [|ch l IH]; intros Hch; [reflexivity|].
        cbn [map maps flat_map]. rewrite (export_state_subtree c f ch (Hch ch (or_introl eq_refl))).
        cbn [app]. f_equal. apply IH. intros x Hx. apply Hch. right; exact Hx. }
      destruct (s_kind s) eqn:Ek; try (rewrite (Hk2 eq_refl); reflexivity); rewrite Hm, map_map; reflexivity.
    - f_equal. rewrite transitions_efields, Hnm.
      destruct (owns_transitions (s_kind s)) eqn:Eo.
      + rewrite maps_export_transitions, map_map. apply map_ext_in. intros t Ht.
        unfold transitions_from in Ht. apply filter_In in Ht. destruct Ht as [Hin Hsrc]. apply seqb_eq in Hsrc.
        rewrite <- Hsrc. apply import_export_transition. apply Htcodes. exact Hin.
      + rewrite (transitions_from_owns n s Hs Eo). reflexivity.
  Qed.

  Lemma walk_export : forall f n, subtree c f n -> forall p stack S T fuel,
    import_walk (length (cdfs c f n p) + fuel) (stack ++ [(enode f c n, p)]) S T =
    import_walk fuel stack (S ++ cdfs c f n p) (T ++ tl_of c (cdfs c f n p)).
  Proof.
    induction f as [|f IH]; intros n Hsub p stack S T fuel; inversion Hsub as [f' n' s Hs Hnm Hch]; subst.
    assert (Hlist : forall chs, (forall ch, In ch chs -> subtree c f ch) -> forall q stack S T fuel,
      import_walk (length (flat_map (fun ch => cdfs c f ch q) (rev chs)) + fuel)
                  (stack ++ map (fun ch => (enode f c ch, q)) chs) S T =
      import_walk fuel stack (S ++ flat_map (fun ch => cdfs c f ch q) (rev chs))
                  (T ++ tl_of c (flat_map (fun ch => cdfs c f ch q) (rev chs)))).
    { induction chs as [|x chs IHl] using rev_ind; intros Hall q stack0 S0 T0 fuel0.
      - cbn. rewrite !app_nil_r. reflexivity.
      - rewrite rev_unit, map_app. cbn [map flat_map]. rewrite app_assoc, app_length, <- Nat.add_assoc.
        assert (Hx : subtree c f x) by (apply Hall; apply in_or_app; right; left; reflexivity).
        rewrite (IH x Hx).
        rewrite IHl; [|intros ch Hc; apply Hall; apply in_or_app; left; exact Hc].
        rewrite tl_of_app, !app_assoc. reflexivity. }
    cbn [cdfs]. rewrite Hs. cbn [length Nat.add].
    rewrite (walk_node_step f _ s p stack S T _ Hs eq_refl Hch).
    rewrite (Hlist _ Hch). cbn [tl_of flat_map fst]. fold (tl_of c (flat_map (fun ch => cdfs c f ch (Some (s_name s))) (rev (children_for c (s_name s))))).
    change (s_name (strip_state s)) with (s_name s).
    rewrite <- !app_assoc. reflexivity.
  Qed.

  (* ---- which states the loop registers ---- *)
  Lemma cdfs_In : forall f n, subtree c f n -> forall p st q, lookup n (c_parent c) = Some p ->
    (In (st, q) (cdfs c f n p) <->
     exists x s, (x = n \/ anc c x n) /\ state_for c x = Some s /\ st = strip_state s /\
                 lookup x (c_parent c) = Some q).
  Proof.
    induction f as [|f IH]; intros n Hsub p st q Hp; inversion Hsub as [f' n' s Hs Hnm Hch]; subst.
    cbn [cdfs]. rewrite Hs. cbn [In]. rewrite in_flat_map. split.
    - intros [E|[ch [Hin Hc]]].
      + inv E. exists (s_name s), s. auto.
      + apply in_rev in Hin. pose proof (sound_child_parent c HS _ _ Hin) as Hcp.
        apply (IH ch (Hch ch Hin) (Some (s_name s)) st q Hcp) in Hc.
        destruct Hc as [x [sx [Hx H]]]. exists x, sx. split; [|exact H]. right.
        destruct Hx as [->|Hx]; [apply anc_parent; exact Hcp|eapply anc_trans; [exact Hx|apply anc_parent; exact Hcp]].
    - intros [x [sx [[->|Hx] [H1 [H2 H3]]]]].
      + left. rewrite Hs in H1. inv H1. rewrite Hp in H3. inv H3. reflexivity.
      + right. destruct (anc_last _ _ _ Hx) as [ch [Hcp Hxc]].
        pose proof (sound_parent_child c HS _ _ Hcp) as Hin.
        exists ch. split; [apply (proj1 (in_rev _ _)); exact Hin|].
        apply (IH ch (Hch ch Hin) (Some (s_name s)) st q Hcp). exists x, sx. auto.
  Qed.

  Lemma cdfs_names : forall f n, subtree c f n -> forall p x,
    In x (snames (cdfs c f n p)) -> x = n \/ anc c x n.
  Proof.
    induction f as [|f IH]; intros n Hsub p x Hin; inversion Hsub as [f' n' s Hs Hnm Hch]; subst.
    cbn [cdfs] in Hin. rewrite Hs in Hin. unfold snames in Hin. cbn [map fst] in Hin.
    destruct Hin as [E|Hin]; [left; symmetry; exact E|]. right.
    rewrite map_flat_map in Hin. apply in_flat_map in Hin. destruct Hin as [ch [Hc Hin]].
    apply in_rev in Hc. pose proof (sound_child_parent c HS _ _ Hc) as Hcp.
    destruct (IH ch (Hch ch Hc) (Some (s_name s)) x Hin) as [->|Hx];
      [apply anc_parent; exact Hcp|eapply anc_trans; [exact Hx|apply anc_parent; exact Hcp]].
  Qed.

  Lemma cdfs_NoDup : forall f n, subtree c f n -> forall p, NoDup (snames (cdfs c f n p)).
  Proof.
    induction f as [|f IH]; intros n Hsub p; inversion Hsub as [f' n' s Hs Hnm Hch]; subst.
    cbn [cdfs]. rewrite Hs. unfold snames. cbn [map fst]. change (s_name (strip_state s)) with (s_name s).
    rewrite map_flat_map. constructor.
    - intros Hin. apply in_flat_map in Hin. destruct Hin as [ch [Hc Hin]]. apply in_rev in Hc.
      pose proof (sound_child_parent c HS _ _ Hc) as Hcp.
      destruct (cdfs_names f ch (Hch ch Hc) _ _ Hin) as [E|Ha].
      + apply (sound_anc_irrefl c HS ch). rewrite <- E at 2. apply anc_parent. exact Hcp.
      + apply (sound_anc_irrefl c HS ch). eapply anc_trans; [apply anc_parent; exact Hcp|exact Ha].
    - apply NoDup_flat_map.
      + apply NoDup_rev. apply (sound_children_for_NoDup c HS).
      + intros ch Hc. apply in_rev in Hc. apply (IH ch (Hch ch Hc)).
      + intros ch1 ch2 z H1 H2 Hne Hz1 Hz2. apply in_rev in H1. apply in_rev in H2.
        apply (siblings_disjoint c HS (s_name s) ch1 ch2 z);
          [apply (sound_child_parent c HS); exact H1|apply (sound_child_parent c HS); exact H2|exact Hne| |].
        * apply (cdfs_names f ch1 (Hch ch1 H1) _ _ Hz1).
        * apply (cdfs_names f ch2 (Hch ch2 H2) _ _ Hz2).
  Qed.
End Roundtrip.


(* ---- list facts for the comparison made by roundtrip_ok ---- *)
Lemma list_eqb_refl : forall {A} (eqb : A -> A -> bool), (forall a, eqb a a = true) ->
  forall l, list_eqb eqb l l = true.
Proof. intros A eqb H; induction l as [|x l IH]; [reflexivity|]. cbn. rewrite H, IH. reflexivity. Qed.

Lemma ostr_eqb_refl : forall a, ostr_eqb a a = true.
Proof. intros a. apply ostr_eqb_eq. reflexivity. Qed.

Lemma strs_eqb_refl : forall a, strs_eqb a a = true.
Proof. intros a. apply strs_eqb_eq. reflexivity. Qed.

Lemma kind_eqb_refl : forall k, kind_eqb k k = true.
Proof. destruct k; reflexivity. Qed.

Lemma state_eqb_refl : forall s, state_eqb s s = true.
Proof.
  intros s. unfold state_eqb.
  rewrite seqb_refl, kind_eqb_refl, !ostr_eqb_refl, !strs_eqb_refl. reflexivity.
Qed.

Lemma trans_eqb_refl : forall t, trans_eqb t t = true.
Proof.
  intros t. unfold trans_eqb.
  rewrite seqb_refl, !ostr_eqb_refl, !strs_eqb_refl, Z.eqb_refl. reflexivity.
Qed.

Lemma sorted_perm_eq_on : forall {A} (R : A -> A -> Prop) l1 l2,
  (forall a b, In a l1 -> In b l1 -> R a b -> R b a -> a = b) ->
  StronglySorted R l1 -> StronglySorted R l2 -> Permutation l1 l2 -> l1 = l2.
Proof.
  intros A R; induction l1 as [|a l1 IH]; intros l2 Hanti H1 H2 HP.
  - apply Permutation_nil in HP. auto.
  - destruct l2 as [|b l2]; [apply Permutation_sym, Permutation_nil in HP; discriminate|].
    inversion H1 as [|? ? H1a H1b]; inversion H2 as [|? ? H2a H2b]; subst.
    rewrite Forall_forall in H1b, H2b.
    assert (Ha : In a (b :: l2)) by (eapply Permutation_in; [exact HP|left; reflexivity]).
    assert (Hb : In b (a :: l1)) by (eapply Permutation_in; [apply Permutation_sym; exact HP|left; reflexivity]).
    assert (E : a = b).
    { destruct Ha as [Ha|Ha]; [auto|]. destruct Hb as [Hb'|Hb']; [auto|].
      apply Hanti; [left; reflexivity|right; exact Hb'|auto|auto]. }
    subst b. f_equal. apply IH; auto.
    + intros x y Hx Hy. apply Hanti; right; assumption.
    + eapply Permutation_cons_inv; exact HP.
Qed.

Lemma NoDup_keys_inj : forall {V} (l : list (name * V)) a b,
  NoDup (map fst l) -> In a l -> In b l -> fst a = fst b -> a = b.
Proof.
  intros V l [ka va] [kb vb] Hnd Ha Hb E. cbn in E. subst kb.
  pose proof (In_lookup _ _ _ Hnd Ha) as H1. pose proof (In_lookup _ _ _ Hnd Hb) as H2. congruence.
Qed.

Lemma NoDup_keys_pairs : forall {V} (l : list (name * V)), NoDup (map fst l) -> NoDup l.
Proof.
  intros V l; induction l as [|[k v] l IH]; intros H; [constructor|]. inv H. constructor; [|auto].
  intros Hin. apply H2. change k with (fst (k, v)). apply in_map. exact Hin.
Qed.

Lemma by_key_eq : forall {V} (l1 l2 : list (name * V)),
  NoDup (map fst l1) -> NoDup (map fst l2) -> (forall k, lookup k l1 = lookup k l2) -> by_key l1 = by_key l2.
Proof.
  intros V l1 l2 H1 H2 Hl. unfold by_key.
  set (leb := fun a b : name * V => str_leb (fst a) (fst b)).
  assert (Htot : forall a b, leb a b = true \/ leb b a = true) by (intros a b; apply str_leb_total).
  assert (Htr : forall a b c, leb a b = true -> leb b c = true -> leb a c = true)
    by (intros a b c; apply str_leb_trans).
  assert (HP : Permutation l1 l2).
  { apply NoDup_Permutation; [apply NoDup_keys_pairs; exact H1|apply NoDup_keys_pairs; exact H2|].
    intros [k v]. split; intros Hin.
    - apply lookup_In. rewrite <- Hl. apply In_lookup; assumption.
    - apply lookup_In. rewrite Hl. apply In_lookup; assumption. }
  apply (sorted_perm_eq_on (lebP leb)).
  - intros a b Ha Hb Hab Hba. apply (proj1 (sort_In _ a l1)) in Ha. apply (proj1 (sort_In _ b l1)) in Hb.
    apply (NoDup_keys_inj l1); auto. apply str_leb_antisym; assumption.
  - apply sort_strongly_sorted; assumption.
  - apply sort_strongly_sorted; assumption.
  - eapply Permutation_trans; [apply sort_perm|]. eapply Permutation_trans; [exact HP|].
    apply Permutation_sym, sort_perm.
Qed.

Lemma sort_names_perm_eq : forall l1 l2, Permutation l1 l2 -> sort_names l1 = sort_names l2.
Proof. intros. apply (sort_perm_eq str_leb str_leb_total str_leb_trans str_leb_antisym). assumption. Qed.

(* transitions grouped by source *)
Definition from_src (n : name) (t : transition) : bool := str_eqb (t_source t) n.

Lemma filter_src_twice : forall n k l,
  filter (from_src k) (filter (from_src n) l) = if str_eqb n k then filter (from_src k) l else [].
Proof.
  intros n k l; induction l as [|t l IH]; cbn [filter]; [destruct (str_eqb n k); reflexivity|].
  destruct (from_src n t) eqn:En; cbn [filter]; destruct (from_src k t) eqn:Ek; rewrite IH;
    unfold from_src in En, Ek; destruct (seqbP n k) as [E|E]; try reflexivity; exfalso;
    repeat match goal with
           | H : str_eqb _ _ = true |- _ => apply seqb_eq in H
           | H : str_eqb _ _ = false |- _ => apply seqb_neq in H
           end; congruence.
Qed.

Lemma filter_flat_map_notin : forall k ns l, ~ In k ns ->
  filter (from_src k) (flat_map (fun n => filter (from_src n) l) ns) = [].
Proof.
  intros k ns l; induction ns as [|n ns IH]; intros Hk; [reflexivity|].
  cbn [flat_map]. rewrite filter_app, filter_src_twice, IH; [|intros H; apply Hk; right; exact H].
  destruct (seqbP n k) as [->|_]; [exfalso; apply Hk; left; reflexivity|reflexivity].
Qed.

Lemma filter_flat_map_key : forall k ns l, NoDup ns -> In k ns ->
  filter (from_src k) (flat_map (fun n => filter (from_src n) l) ns) = filter (from_src k) l.
Proof.
  intros k ns l; induction ns as [|n ns IH]; intros Hnd Hk; [destruct Hk|].
  inv Hnd. cbn [flat_map]. rewrite filter_app, filter_src_twice.
  destruct (seqbP n k) as [->|Hn].
  - rewrite filter_flat_map_notin by assumption. apply app_nil_r.
  - destruct Hk as [E|Hk]; [congruence|]. cbn [app]. apply IH; assumption.
Qed.

Lemma length_flat_map_src : forall ns l, NoDup ns -> (forall t, In t l -> In (t_source t) ns) ->
  length (flat_map (fun n => filter (from_src n) l) ns) = length l.
Proof.
  intros ns l Hnd; induction l as [|t l IH]; intros Hsrc.
  - clear Hsrc Hnd. induction ns as [|n ns IHn]; [reflexivity|]. cbn [flat_map filter app]. exact IHn.
  - assert (Hstep : forall ms, NoDup ms ->
      length (flat_map (fun n => filter (from_src n) (t :: l)) ms) =
      length (flat_map (fun n => filter (from_src n) l) ms) + count_occ string_dec ms (t_source t)).
    { induction ms as [|n ms IHm]; intros Hm; [reflexivity|]. inv Hm.
      cbn [flat_map count_occ]. rewrite !app_length, (IHm H2). cbn [filter]. unfold from_src at 1.
      destruct (seqbP (t_source t) n) as [E|E]; destruct (string_dec n (t_source t)); try congruence; cbn [length]; lia. }
    rewrite (Hstep ns Hnd), IH; [|intros t' Ht'; apply Hsrc; right; exact Ht'].
    rewrite (NoDup_count_one ns (t_source t) Hnd (Hsrc t (or_introl eq_refl))). cbn [length]. lia.
Qed.

Lemma filter_map_comm : forall {A B} (f : A -> B) (p : B -> bool) l,
  filter p (map f l) = map f (filter (fun x => p (f x)) l).
Proof.
  intros A B f p l; induction l as [|x l IH]; [reflexivity|]. cbn [map filter].
  destruct (p (f x)); cbn [map]; rewrite IH; reflexivity.
Qed.

Lemma flat_map_map : forall {A B C} (f : A -> B) (g : B -> list C) l,
  flat_map g (map f l) = flat_map (fun x => g (f x)) l.
Proof. intros A B C f g l; induction l as [|x l IH]; [reflexivity|]. cbn [map flat_map]. rewrite IH. reflexivity. Qed.

Lemma keep_opt_Some : forall o x, keep_opt o = Some x -> o = Some x.
Proof. intros [s|] x H; cbn in H; [|discriminate]. destruct (nonempty s); [inv H; reflexivity|discriminate]. Qed.

Lemma truthy_keep_opt : forall o, truthy (keep_opt o) = truthy o.
Proof. intros [[|a s]|]; reflexivity. Qed.


(* ---- fuel of the loop, once more ---- *)
Lemma import_walk_mono : forall f stack S T r k,
  import_walk f stack S T = Some r -> import_walk (f + k) stack S T = Some r.
Proof.
  induction f as [|f IH]; intros stack S T r k H; [discriminate|].
  cbn [Nat.add]. rewrite import_walk_S in *. destruct (rev stack) as [|[m p] rr]; [exact H|].
  destruct (import_state m) as [st|]; [|discriminate]. apply IH. exact H.
Qed.

Lemma import_walk_any_fuel : forall f root r,
  import_walk f [(root, None)] [] [] = Some r ->
  import_walk (S (count_nodes (YMap root))) [(root, None)] [] [] = Some r.
Proof.
  intros f root r H. set (F := S (count_nodes (YMap root))).
  assert (Hsz : stack_size [(root, None)] < F).
  { rewrite stack_size_cons. cbn [fst]. change (stack_size []) with 0. unfold F. lia. }
  destruct (Nat.le_gt_cases f F) as [Hle|Hgt].
  - replace F with (f + (F - f)) by lia. apply import_walk_mono. exact H.
  - rewrite (import_walk_fuel F _ _ _ f); [exact H|exact Hsz|lia].
Qed.

(* ---- when add_state cannot raise StatechartError ---- *)
Lemma add_state_register_or : forall cur st q,
  has_state cur (s_name st) = false ->
  (q = None /\ truthy (root cur) = None /\ is_history (s_kind st) = false) \/
  (exists pn ps, q = Some pn /\ pn <> "" /\ state_for cur pn = Some ps /\ is_composite (s_kind ps) = true /\
                 (is_history (s_kind st) = true -> s_kind ps = KCompound)) ->
  snd (add_state cur st q) = EOk \/ snd (add_state cur st q) = EKeyError.
Proof.
  intros cur st q Hfresh H. unfold add_state. rewrite Hfresh.
  destruct H as [[-> [Hroot Hh]]|[pn [ps [-> [Hpn [Hps [Hcomp Hhc]]]]]]].
  - change (no_parent None) with true. cbv iota. rewrite Hroot, Hh. cbv zeta.
    match goal with |- context [match ?x with Some _ => _ | None => _ end] => destruct x end; cbn; auto.
  - assert (Hnp : no_parent (Some pn) = false) by (destruct pn; [congruence|reflexivity]).
    rewrite Hnp, Hps, Hcomp. cbn [negb].
    assert (Hc : is_history (s_kind st) && negb (kind_eqb (s_kind ps) KCompound) = false).
    { destruct (is_history (s_kind st)); [|reflexivity]. rewrite (Hhc eq_refl). reflexivity. }
    rewrite Hc. cbv zeta.
    match goal with |- context [match ?x with Some _ => _ | None => _ end] => destruct x end; cbn; auto.
Qed.

Lemma add_transitions_succeeds : forall l cur,
  (forall t, In t l ->
     (exists s, lookup (t_source t) (c_states cur) = Some s /\ owns_transitions (s_kind s) = true) /\
     (forall tg, t_target t = Some tg -> has_state cur tg = true)) ->
  exists c', add_transitions cur l = Some c'.
Proof.
  induction l as [|t l IH]; intros cur H; [exists cur; reflexivity|].
  cbn [add_transitions].
  destruct (H t (or_introl eq_refl)) as [[s [Hs Ho]] Htg].
  assert (E : add_transition cur t = (with_transitions cur (c_transitions cur ++ [t]), EOk)).
  { unfold add_transition, state_for. rewrite Hs, Ho. cbn [negb].
    destruct (t_target t) as [tg|]; [rewrite (Htg tg eq_refl)|]; reflexivity. }
  rewrite E. apply IH. intros t' Ht'. apply H. right; exact Ht'.
Qed.

Lemma root_of_In : forall d r, root_of d = Some r -> In (r, None) d.
Proof.
  induction d as [|[n [p|]] d IH]; intros r H; cbn in H; [discriminate| |].
  - right. apply IH. exact H.
  - inv H. left; reflexivity.
Qed.

Lemma add_states_meta : forall l cur c', add_states cur l = Some c' ->
  c_name c' = c_name cur /\ c_description c' = c_description cur /\ c_preamble c' = c_preamble cur.
Proof.
  induction l as [|[st p] l IH]; intros cur c' H; cbn [add_states] in H; [inv H; auto|].
  destruct (add_state cur st p) as [c1 r] eqn:E. destruct r; try discriminate.
  destruct (add_state_ok_form _ _ _ _ E) as [_ [l0 ->]]. destruct (IH _ _ H) as [H1 [H2 H3]].
  rewrite H1, H2, H3. auto.
Qed.

Lemma add_transitions_meta : forall l cur c', add_transitions cur l = Some c' ->
  c_name c' = c_name cur /\ c_description c' = c_description cur /\ c_preamble c' = c_preamble cur.
Proof.
  induction l as [|t l IH]; intros cur c' H; cbn [add_transitions] in H; [inv H; auto|].
  destruct (add_transition cur t) as [c1 r] eqn:E. destruct r; try discriminate.
  destruct (add_transition_ok_inv _ _ _ E) as [-> _]. destruct (IH _ _ H) as [H1 [H2 H3]].
  rewrite H1, H2, H3. auto.
Qed.

Lemma sound_import_sound : forall c, sound c -> hist_ok c -> import_sound c.
Proof.
  intros c S Hh. destruct S. constructor; try assumption.
  - intros k s i Hl Hk Hi. apply (sd_vinit k s i Hl Hk Hi).
  - intros k s m Hl Hk Hm. destruct (sd_vmem k s m Hl Hk Hm) as [H1 [_ H3]]. split; assumption.
Qed.

Section Roundtrip2.
  Variable c : chart.
  Hypothesis HS : sound c.
  Hypothesis Hne : no_empty_name c.
  Hypothesis Hscodes : forall n s, state_for c n = Some s -> state_codes_ok s.
  Hypothesis Htcodes : forall t, In t (c_transitions c) -> trans_codes_ok t.
  Hypothesis Hkids : forall n s, state_for c n = Some s ->
    (is_composite (s_kind s) = true -> children_for c n <> []) /\
    (is_composite (s_kind s) = false -> children_for c n = []).
  Hypothesis Hhist : hist_ok c.

  (* the schema leaves an exported state tree unchanged *)
  Lemma schema_export_tree : forall f n, subtree c f n -> forall fuel,
    ydepth (export_state f c n) <= fuel -> schema_state fuel (export_state f c n) = Some (export_state f c n).
  Proof.
    induction f as [|f IH]; intros n Hsub fuel Hd; inversion Hsub as [f' n' s Hs Hnm Hch]; subst.
    destruct fuel as [|fuel]; [pose proof (ydepth_pos (export_state (S f) c (s_name s))); lia|].
    rewrite export_state_S, Hs in *. apply schema_efields. intros x Hx.
    apply in_map_iff in Hx. destruct Hx as [ch [<- Hc]]. apply (IH ch (Hch ch Hc)).
    destruct (Hkids _ _ Hs) as [_ Hk2].
    assert (Hin : exists k, In (k, YList (map (export_state f c) (children_for c (s_name s))))
                            (efields c s (map (export_state f c) (children_for c (s_name s))))).
    { unfold efields, kidseg. destruct (s_kind s) eqn:Ek;
        try (rewrite (Hk2 eq_refl) in Hc; destruct Hc);
        eexists; repeat (apply in_or_app; right); left; reflexivity. }
    destruct Hin as [k Hin]. pose proof (ydepth_map_val _ _ _ Hin) as H1.
    pose proof (ydepth_list_elem _ _ (in_map (export_state f c) _ _ Hc)) as H2. lia.
  Qed.

  (* ---- the registration loops succeed on what the walk produced ---- *)
  Definition from_c (st : state) (q : option name) : Prop :=
    exists x s, state_for c x = Some s /\ st = strip_state s /\ lookup x (c_parent c) = Some q.
  Definition stripped_from_c (cur : chart) : Prop :=
    forall k s', lookup k (c_states cur) = Some s' -> exists s, state_for c k = Some s /\ s' = strip_state s.

  Lemma add_states_export_ok : forall l cur seen,
    inv_import cur seen -> stripped_from_c cur -> ordered seen l -> NoDup (snames l) ->
    (forall n, In n (snames l) -> ~ In n seen) -> (forall st q, In (st, q) l -> from_c st q) ->
    exists c', add_states cur l = Some c'.
  Proof.
    induction l as [|[st q] l IH]; intros cur seen Hinv HJ Ho Hnd Hnew Hfrom; [exists cur; reflexivity|].
    cbn [add_states]. destruct Ho as [Hpok Ho]. cbn [fst snd] in Hpok, Ho.
    destruct (Hfrom st q (or_introl eq_refl)) as [x [s [Hs [Hst Hxp]]]].
    assert (Hnm : s_name st = x) by (rewrite Hst; apply (sd_keyname c HS _ _ Hs)).
    assert (Hfresh : has_state cur (s_name st) = false).
    { destruct (has_state cur (s_name st)) eqn:E; [|reflexivity]. exfalso.
      apply (Hnew (s_name st)); [left; reflexivity|]. apply (ii_seen _ _ Hinv). exact E. }
    assert (Hkind : s_kind st = s_kind s) by (rewrite Hst; reflexivity).
    assert (Hor : snd (add_state cur st q) = EOk \/ snd (add_state cur st q) = EKeyError).
    { apply add_state_register_or; [exact Hfresh|]. destruct q as [pn|]; cbn in Hpok.
      - right. apply (ii_seen _ _ Hinv) in Hpok. apply has_state_Some in Hpok. destruct Hpok as [ps' Hps'].
        destruct (HJ _ _ Hps') as [ps [Hps ->]]. exists pn, (strip_state ps).
        split; [reflexivity|]. split; [|split; [exact Hps'|]].
        + intros ->. unfold no_empty_name, has_state in Hne. unfold state_for in Hps. rewrite Hps in Hne. discriminate.
        + change (s_kind (strip_state ps)) with (s_kind ps). split.
          * destruct (is_composite (s_kind ps)) eqn:Ec; [reflexivity|]. exfalso.
            destruct (Hkids _ _ Hps) as [_ Hk]. pose proof (sound_parent_child c HS _ _ Hxp) as Hin.
            rewrite (Hk Ec) in Hin. destruct Hin.
          * intros Hh. rewrite Hkind in Hh. destruct (Hhist x s Hs Hh) as [p' [ps2 [H1 [H2 H3]]]].
            rewrite Hxp in H1. inv H1. unfold state_for in Hps. rewrite Hps in H2. inv H2. exact H3.
      - left. subst seen. split; [reflexivity|]. split.
        + assert (Hp : c_parent cur = []).
          { destruct (c_parent cur) as [|[k v] r] eqn:Ep; [reflexivity|]. exfalso.
            assert (Hk : has_state (erase cur) k = true).
            { apply (sd_pkeys _ (ii_sound _ _ Hinv)). unfold erase, with_states. cbn [c_parent]. rewrite Ep.
              cbn [lookup]. rewrite seqb_refl. discriminate. }
            rewrite has_state_erase in Hk. apply (ii_seen _ _ Hinv) in Hk. destruct Hk. }
          unfold root. rewrite Hp. reflexivity.
        + rewrite Hkind. destruct (is_history (s_kind s)) eqn:Eh; [|reflexivity]. exfalso.
          destruct (Hhist x s Hs Eh) as [p' [ps2 [H1 _]]]. rewrite Hxp in H1. discriminate. }
    destruct (add_state cur st q) as [c1 r] eqn:E. cbn [snd] in Hor.
    assert (Hr : r = EOk \/ r = EKeyError) by exact Hor.
    destruct (add_state_import_step _ _ _ _ _ _ Hinv Hpok E Hr) as [-> Hinv1].
    cbn [snames map fst] in Hnd. apply NoDup_cons_iff in Hnd. destruct Hnd as [Hn1 Hn2].
    apply (IH c1 (s_name st :: seen)); auto.
    - destruct (add_state_ok_form _ _ _ _ E) as [_ [l0 ->]]. intros k s' Hk.
      unfold register_chart in Hk. cbn [c_states] in Hk. rewrite lookup_dset in Hk.
      destruct (seqbP k (s_name st)) as [->|_]; [inv Hk; exists s; split; [exact Hs|reflexivity]|apply (HJ _ _ Hk)].
    - intros n Hn [<-|Hin]; [contradiction|]. apply (Hnew n); [right; exact Hn|exact Hin].
    - intros st' q' Hin. apply Hfrom. right; exact Hin.
  Qed.

  (* ---- the whole document ---- *)
  Variable r : name.
  Hypothesis Hroot : root c = Some r.

  Let F := S (length (c_states c)).
  Let L := cdfs c F r None.
  Let TL := tl_of c L.
  Let m := [("name", YStr (c_name c))] ++ opt_field "description" (c_description c)
           ++ opt_field "preamble" (c_preamble c) ++ [("root state", YMap (enode F c r))].

  Lemma root_parent : lookup r (c_parent c) = Some None.
  Proof. apply In_lookup; [apply (sd_nd_parent c HS)|]. apply root_of_In. exact Hroot. Qed.

  Lemma root_subtree : subtree c F r.
  Proof.
    apply (subtree_of_sound c HS F [] r); [cbn; unfold F; lia|constructor|intros a []|].
    apply (sd_pkeys c HS). rewrite root_parent. discriminate.
  Qed.

  Lemma export_to_dict_eq : export_to_dict c = doc m.
  Proof.
    unfold export_to_dict, doc, m. rewrite Hroot. fold F. rewrite (export_state_subtree c F r root_subtree).
    reflexivity.
  Qed.

  Lemma schema_export : schema_statechart (doc m) = Some (doc m).
  Proof.
    rewrite schema_statechart_doc.
    assert (Hk : keys_within m statechart_keys = true).
    { unfold m. rewrite !keys_within_app, !keys_within_opt_field by reflexivity. reflexivity. }
    assert (Hn : ylookup "name" m = Some (YStr (c_name c))) by reflexivity.
    assert (Hr : ylookup "root state" m = Some (YMap (enode F c r))).
    { unfold m. rewrite !ylookup_app, !ylookup_opt_field. cbn [ylookup]. lit. reflexivity. }
    rewrite Hk, Hn, Hr. cbn [andb]. unfold m.
    repeat (rewrite map_opt_id_app; [reflexivity| |]); try (apply fix_opt_field_v_str; intros v; reflexivity).
    - reflexivity.
    - cbn [map_opt]. unfold statechart_field. cbn [fst snd]. lit. cbn iota.
      rewrite <- (export_state_subtree c F r root_subtree).
      rewrite schema_export_tree; [reflexivity|apply root_subtree|lia].
  Qed.

  Lemma walk_export_root :
    import_walk (S (count_nodes (YMap (enode F c r)))) [(enode F c r, None)] [] [] = Some (L, TL).
  Proof.
    apply (import_walk_any_fuel (length L + 1)).
    pose proof (walk_export c HS Hscodes Htcodes Hkids F r root_subtree None [] [] [] 1) as H.
    cbn [app] in H. fold L in H. rewrite H. reflexivity.
  Qed.

  Lemma descr_export : get_str "description" m = keep_opt (c_description c).
  Proof.
    unfold get_str, m. rewrite !ylookup_app, !ylookup_opt_field. cbn [ylookup]. lit. cbn iota.
    destruct (keep_opt (c_description c)); [reflexivity|]. cbn [option_map].
    destruct (keep_opt (c_preamble c)); reflexivity.
  Qed.

  Lemma preamble_export : get_str "preamble" m = keep_opt (c_preamble c).
  Proof.
    unfold get_str, m. rewrite !ylookup_app, !ylookup_opt_field. cbn [ylookup]. lit. cbn iota.
    destruct (keep_opt (c_preamble c)); reflexivity.
  Qed.

  (* ---- the registered states are exactly the states of c, stripped, under their parents ---- *)
  Lemma L_from : forall st q, In (st, q) L -> from_c st q.
  Proof.
    intros st q Hin. apply (cdfs_In c HS F r root_subtree None st q root_parent) in Hin.
    destruct Hin as [x [s [_ [H1 [H2 H3]]]]]. exists x, s. auto.
  Qed.

  Lemma L_cover : forall x s, state_for c x = Some s ->
    exists q, lookup x (c_parent c) = Some q /\ In (strip_state s, q) L.
  Proof.
    intros x s Hs. assert (Hx : has_state c x = true) by (apply has_state_Some; exists s; exact Hs).
    destruct (sound_state_parent c HS x Hx) as [q Hq]. exists q. split; [exact Hq|].
    apply (cdfs_In c HS F r root_subtree None _ q root_parent). exists x, s.
    split; [|auto].
    destruct (import_sound_one_tree c (sound_import_sound c HS Hhist) x Hx) as [r0 [H1 [H2 H3]]].
    rewrite (H2 r root_parent) in *. apply H3. exact Hx.
  Qed.

  Lemma L_nodup : NoDup (snames L).
  Proof. apply (cdfs_NoDup c HS F r root_subtree). Qed.

  Lemma L_ordered : ordered [] L.
  Proof. apply (import_walk_root_ordered _ _ _ walk_export_root). Qed.

  Let e0 := empty_chart (c_name c) (get_str "description" m) (get_str "preamble" m).

  Lemma e0_inv : inv_import e0 [].
  Proof.
    constructor.
    - unfold e0. rewrite erase_empty. apply empty_chart_sound.
    - intros q. unfold has_state; cbn. split; [intros []|discriminate].
    - intros k s Hl; discriminate.
  Qed.

  Lemma export_builds : exists c1 c', add_states e0 L = Some c1 /\ add_transitions c1 TL = Some c'.
  Proof.
    destruct (add_states_export_ok L e0 [] e0_inv) as [c1 Hc1].
    - intros k s' Hk; discriminate.
    - exact L_ordered.
    - exact L_nodup.
    - intros n _ [].
    - exact L_from.
    - exists c1. destruct (add_states_spec _ _ _ Hc1) as [_ [_ [_ [_ [H5 _]]]]].
      destruct (add_transitions_succeeds TL c1) as [c' Hc']; [|exists c'; auto].
      intros t Ht. unfold TL, tl_of in Ht. apply in_flat_map in Ht. destruct Ht as [[st q] [Hin Ht]].
      cbn [fst] in Ht. apply in_map_iff in Ht. destruct Ht as [t0 [<- Ht0]].
      unfold transitions_from in Ht0. apply filter_In in Ht0. destruct Ht0 as [Hin0 Hsrc]. apply seqb_eq in Hsrc.
      destruct (H5 _ _ Hin) as [Hst _]. destruct (L_from _ _ Hin) as [x [s [Hs [E _]]]].
      destruct (sd_trans c HS t0 Hin0) as [[s' [Hs' Ho]] Htg]. split.
      + exists st. change (t_source (strip_trans t0)) with (t_source t0). rewrite Hsrc. split; [exact Hst|].
        assert (Hx : s_name st = x) by (rewrite E; apply (sd_keyname c HS _ _ Hs)).
        unfold state_for in Hs. rewrite Hsrc, Hx, Hs in Hs'. inv Hs'. exact Ho.
      + intros tg Etg. change (t_target (strip_trans t0)) with (keep_opt (t_target t0)) in Etg.
        apply keep_opt_Some in Etg. specialize (Htg tg Etg). apply has_state_Some in Htg. destruct Htg as [stg Hstg].
        destruct (L_cover tg stg Hstg) as [q' [_ Hin']]. destruct (H5 _ _ Hin') as [Hl' _].
        change (s_name (strip_state stg)) with (s_name stg) in Hl'. rewrite (sd_keyname c HS _ _ Hstg) in Hl'.
        apply has_state_Some. eexists; exact Hl'.
  Qed.

  (* ---- the statechart that comes back ---- *)
  Variables c1 c' : chart.
  Hypothesis Hc1 : add_states e0 L = Some c1.
  Hypothesis Hc' : add_transitions c1 TL = Some c'.

  Lemma back_inv : inv_import c' (rev (snames L) ++ []).
  Proof.
    eapply add_transitions_import; [|exact Hc']. apply (add_states_import L e0 [] c1 e0_inv L_ordered Hc1).
  Qed.

  Lemma back_state : forall x s, state_for c x = Some s -> lookup x (c_states c') = Some (strip_state s).
  Proof.
    intros x s Hs. destruct (L_cover x s Hs) as [q [_ Hin]].
    destruct (add_states_spec _ _ _ Hc1) as [_ [_ [_ [_ [H5 _]]]]].
    destruct (add_transitions_list _ _ _ Hc') as [_ [T2 _]]. rewrite T2.
    destruct (H5 _ _ Hin) as [Hl _]. change (s_name (strip_state s)) with (s_name s) in Hl.
    rewrite (sd_keyname c HS _ _ Hs) in Hl. exact Hl.
  Qed.

  Lemma back_state_inv : forall k s', lookup k (c_states c') = Some s' ->
    exists s, state_for c k = Some s /\ s' = strip_state s.
  Proof.
    intros k s' Hk. destruct (add_transitions_list _ _ _ Hc') as [_ [T2 _]]. rewrite T2 in Hk.
    destruct (add_states_spec _ _ _ Hc1) as [_ [_ [_ [_ [H5 [H6 _]]]]]].
    destruct (H6 _ _ Hk) as [Hk0|[q Hin]]; [discriminate|].
    destruct (L_from _ _ Hin) as [x [s [Hs [E _]]]]. exists s. split; [|exact E].
    destruct (H5 _ _ Hin) as [Hl _].
    assert (Hx : s_name s' = x) by (rewrite E; apply (sd_keyname c HS _ _ Hs)).
    assert (Hkx : k = x).
    { pose proof (sd_keyname _ (ii_sound _ _ back_inv) k (clr_refs s')) as Hkn.
      rewrite lookup_erase, T2, Hk in Hkn. specialize (Hkn eq_refl). cbn in Hkn. congruence. }
    subst k. exact Hs.
  Qed.

  Lemma back_has_state : forall x, has_state c' x = has_state c x.
  Proof.
    intros x. destruct (has_state c x) eqn:E.
    - apply has_state_Some in E. destruct E as [s Hs]. apply has_state_Some. eexists. apply (back_state x s Hs).
    - destruct (has_state c' x) eqn:E'; [|reflexivity]. apply has_state_Some in E'. destruct E' as [s' Hs'].
      destruct (back_state_inv _ _ Hs') as [s [Hs _]]. apply has_state_false in E. unfold state_for in Hs. congruence.
  Qed.

  Lemma back_parent : forall x, lookup x (c_parent c') = lookup x (c_parent c).
  Proof.
    intros x. destruct (has_state c x) eqn:E.
    - pose proof E as E2. apply has_state_Some in E2. destruct E2 as [s Hs].
      destruct (L_cover x s Hs) as [q [Hq Hin]].
      destruct (add_states_spec _ _ _ Hc1) as [_ [_ [_ [_ [H5 _]]]]].
      destruct (add_transitions_list _ _ _ Hc') as [_ [_ T3]]. rewrite T3, Hq.
      destruct (H5 _ _ Hin) as [_ Hl]. change (s_name (strip_state s)) with (s_name s) in Hl.
      rewrite (sd_keyname c HS _ _ Hs) in Hl. exact Hl.
    - rewrite (sound_nostate_parent c HS x E).
      assert (E' : has_state (erase c') x = false) by (rewrite has_state_erase, back_has_state; exact E).
      apply (sound_nostate_parent _ (ii_sound _ _ back_inv) x E').
  Qed.

  Lemma back_children : forall k ch, In ch (children_for c' k) <-> In ch (children_for c k).
  Proof.
    intros k ch. pose proof (ii_sound _ _ back_inv) as HS'. split; intros H.
    - apply (sound_parent_child c HS). rewrite <- back_parent. apply (sound_child_parent _ HS' k ch). exact H.
    - apply (sound_parent_child _ HS' k ch). change (c_parent (erase c')) with (c_parent c'). rewrite back_parent.
      apply (sound_child_parent c HS). exact H.
  Qed.

  Lemma back_transitions : c_transitions c' = TL.
  Proof.
    destruct (add_transitions_list _ _ _ Hc') as [T1 _]. rewrite T1.
    destruct (add_states_spec _ _ _ Hc1) as [_ [_ [_ [_ [_ [_ H7]]]]]]. rewrite H7. reflexivity.
  Qed.

  Lemma back_nodup : NoDup (map fst (c_states c')).
  Proof. rewrite <- keys_erase. apply (sd_nd_states _ (ii_sound _ _ back_inv)). Qed.

  Lemma back_validate : validate c' = true.
  Proof.
    unfold validate. apply andb_true_iff. split.
    - apply (validate_initial_iff c' back_nodup). intros k s' i Hk Hkind Hi.
      destruct (back_state_inv _ _ Hk) as [s [Hs ->]]. change (s_kind (strip_state s)) with (s_kind s) in Hkind.
      assert (Hi' : truthy (s_initial s) = Some i).
      { cbn [strip_state s_initial] in Hi. rewrite Hkind in Hi. rewrite truthy_keep_opt in Hi. exact Hi. }
      destruct (sd_vinit c HS k s i Hs Hkind Hi') as [H1 H2]. split.
      + rewrite back_has_state. exact H1.
      + apply back_children. exact H2.
    - apply (validate_memory_iff c' back_nodup). intros k s' mm Hk Hkind Hm.
      destruct (back_state_inv _ _ Hk) as [s [Hs ->]]. change (s_kind (strip_state s)) with (s_kind s) in Hkind.
      assert (Hm' : s_memory s = Some mm).
      { cbn [strip_state s_memory] in Hm. rewrite Hkind in Hm. apply keep_opt_Some. exact Hm. }
      destruct (sd_vmem c HS k s mm Hs Hkind Hm') as [H1 [H2 [p [H3 H4]]]].
      split; [exact H1|]. split; [rewrite back_has_state; exact H2|]. exists p. split.
      + unfold parent_for in *. rewrite back_parent. exact H3.
      + apply back_children. exact H4.
  Qed.

  Lemma root_state_m : ylookup "root state" m = Some (YMap (enode F c r)).
  Proof. unfold m. rewrite !ylookup_app, !ylookup_opt_field. cbn [ylookup]. lit. reflexivity. Qed.

  Lemma pipeline_export : import_pipeline (export_to_dict c) = Some c'.
  Proof.
    unfold import_pipeline. rewrite export_to_dict_eq, schema_export.
    assert (Hi : import_from_dict (doc m) = Some c').
    { rewrite import_from_dict_with_doc. unfold import_from_dict_f, with_doc, doc. cbv iota beta.
      assert (Hn : get_str "name" m = Some (c_name c)) by reflexivity.
      rewrite Hn, root_state_m. cbn [Nat.add]. rewrite walk_export_root. fold e0. rewrite Hc1. exact Hc'. }
    rewrite Hi, back_validate. reflexivity.
  Qed.

  Lemma back_meta : c_name c' = c_name c /\ c_description c' = keep_opt (c_description c) /\
                    c_preamble c' = keep_opt (c_preamble c).
  Proof.
    destruct (add_transitions_meta _ _ _ Hc') as [A1 [A2 A3]].
    destruct (add_states_meta _ _ _ Hc1) as [B1 [B2 B3]].
    rewrite A1, A2, A3, B1, B2, B3. unfold e0. cbn [empty_chart c_name c_description c_preamble].
    rewrite descr_export, preamble_export. auto.
  Qed.

  Lemma TL_eq : TL = map strip_trans (flat_map (fun n => filter (from_src n) (c_transitions c)) (snames L)).
  Proof.
    unfold TL, tl_of, snames. rewrite map_flat_map, flat_map_map. reflexivity.
  Qed.

  Lemma snames_cover : forall x, has_state c x = true -> In x (snames L).
  Proof.
    intros x Hx. apply has_state_Some in Hx. destruct Hx as [s Hs].
    destruct (L_cover x s Hs) as [q [_ Hin]]. unfold snames.
    apply in_map_iff. exists (strip_state s, q). split; [|exact Hin].
    cbn. apply (sd_keyname c HS _ _ Hs).
  Qed.

  Lemma roundtrip_export : roundtrip_ok c c' = true.
  Proof.
    destruct back_meta as [M1 [M2 M3]]. pose proof (ii_sound _ _ back_inv) as HS'.
    unfold roundtrip_ok. repeat (apply andb_true_iff; split).
    - apply seqb_eq. symmetry. exact M1.
    - rewrite M2. apply ostr_eqb_refl.
    - rewrite M3. apply ostr_eqb_refl.
    - rewrite (by_key_eq (map (fun kv => (fst kv, strip_state (snd kv))) (c_states c)) (c_states c')).
      + apply list_eqb_refl. intros [k v]. unfold pair_eqb. cbn. rewrite seqb_refl, state_eqb_refl. reflexivity.
      + rewrite keys_mapv. apply (sd_nd_states c HS).
      + exact back_nodup.
      + intros k. rewrite lookup_mapv. destruct (lookup k (c_states c)) as [s|] eqn:E; cbn [option_map].
        * symmetry. apply back_state. exact E.
        * symmetry. apply has_state_false. rewrite back_has_state. apply has_state_false. exact E.
    - rewrite (by_key_eq (c_parent c) (c_parent c')).
      + apply list_eqb_refl. intros [k v]. unfold pair_eqb. cbn. rewrite seqb_refl. apply ostr_eqb_refl.
      + apply (sd_nd_parent c HS).
      + apply (sd_nd_parent _ HS').
      + intros k. symmetry. apply back_parent.
    - apply forallb_forall. intros [k s] _. cbn [fst]. apply strs_eqb_eq. apply sort_names_perm_eq.
      apply NoDup_Permutation.
      + apply (sound_children_for_NoDup c HS).
      + apply (sound_children_for_NoDup _ HS' k).
      + intros ch. symmetry. apply back_children.
    - apply Nat.eqb_eq. rewrite back_transitions, TL_eq, map_length. symmetry.
      apply length_flat_map_src; [exact L_nodup|]. intros t Ht. apply snames_cover.
      destruct (sd_trans c HS t Ht) as [[s [Hs _]] _]. apply has_state_Some. eexists; exact Hs.
    - apply forallb_forall. intros [k s] Hin. cbn [fst].
      assert (Hk : has_state c k = true).
      { apply has_state_In. change k with (fst (k, s)). apply in_map. exact Hin. }
      unfold transitions_from at 2. rewrite back_transitions, TL_eq.
      rewrite (filter_map_comm strip_trans (fun t => str_eqb (t_source t) k)).
      change (fun x : transition => str_eqb (t_source (strip_trans x)) k) with (from_src k).
      rewrite (filter_flat_map_key k (snames L) (c_transitions c) L_nodup (snames_cover k Hk)).
      apply list_eqb_refl. apply trans_eqb_refl.
  Qed.
End Roundtrip2.


(* ---- C11: the theorem ---- *)
Definition is_nil {A} (l : list A) : bool := match l with [] => true | _ => false end.
Definition codes_ok_b (l : list code) : bool := forallb nonempty l.

(* the statecharts export_to_dict/import_from_dict are expected to carry over (decidable):
   a sound tree on which validate() passes with history states under compound states (import_sound_b),
   no state named '', a root state, exactly the composite states have children, and no empty
   contract condition (an empty condition is dropped by the importer) *)
Definition valid_for_export_b (c : chart) : bool :=
  import_sound_b c
  && negb (has_state c "")
  && (match root c with Some _ => true | None => false end)
  && forallb (fun kv => if is_composite (s_kind (snd kv)) then negb (is_nil (children_for c (fst kv)))
                        else is_nil (children_for c (fst kv))) (c_states c)
  && forallb (fun kv => codes_ok_b (s_pre (snd kv)) && codes_ok_b (s_post (snd kv)) && codes_ok_b (s_inv (snd kv)))
             (c_states c)
  && forallb (fun t => codes_ok_b (t_pre t) && codes_ok_b (t_post t) && codes_ok_b (t_inv t)) (c_transitions c).

Lemma codes_ok_b_ok : forall l, codes_ok_b l = true -> codes_ok l.
Proof. intros l H x Hx. unfold codes_ok_b in H. rewrite forallb_forall in H. apply H. exact Hx. Qed.

Theorem C11_dict_roundtrip : forall c, valid_for_export_b c = true ->
  exists c', import_pipeline (export_to_dict c) = Some c' /\ roundtrip_ok c c' = true.
Proof.
  intros c H. unfold valid_for_export_b in H.
  apply andb_true_iff in H; destruct H as [H Htc].
  apply andb_true_iff in H; destruct H as [H Hsc].
  apply andb_true_iff in H; destruct H as [H Hk].
  apply andb_true_iff in H; destruct H as [H Hr].
  apply andb_true_iff in H; destruct H as [Hisb Hne].
  apply negb_true_iff in Hne.
  pose proof (import_sound_b_sound c Hisb Hne) as IS.
  assert (HS : sound c).
  { unfold import_sound_b in Hisb. do 3 (apply andb_true_iff in Hisb; destruct Hisb as [Hisb _]).
    apply sound_b_sound; assumption. }
  destruct (root c) as [r|] eqn:Hroot; [|discriminate].
  assert (Hscodes : forall n s, state_for c n = Some s -> state_codes_ok s).
  { intros n s Hs. rewrite forallb_forall in Hsc. specialize (Hsc _ (lookup_In _ _ _ Hs)). cbn [snd] in Hsc.
    apply andb_true_iff in Hsc; destruct Hsc as [Hsc H3]. apply andb_true_iff in Hsc; destruct Hsc as [H1 H2].
    repeat split; apply codes_ok_b_ok; assumption. }
  assert (Htcodes : forall t, In t (c_transitions c) -> trans_codes_ok t).
  { intros t Ht. rewrite forallb_forall in Htc. specialize (Htc _ Ht).
    apply andb_true_iff in Htc; destruct Htc as [Htc H3]. apply andb_true_iff in Htc; destruct Htc as [H1 H2].
    repeat split; apply codes_ok_b_ok; assumption. }
  assert (Hkids : forall n s, state_for c n = Some s ->
            (is_composite (s_kind s) = true -> children_for c n <> []) /\
            (is_composite (s_kind s) = false -> children_for c n = [])).
  { intros n s Hs. rewrite forallb_forall in Hk. specialize (Hk _ (lookup_In _ _ _ Hs)). cbn [fst snd] in Hk.
    split; intros Hc; rewrite Hc in Hk; destruct (children_for c n); try discriminate; congruence. }
  pose proof (is_hist c IS) as Hhist.
  destruct (export_builds c HS Hne Hscodes Htcodes Hkids Hhist r Hroot) as [c1 [c' [Hc1 Hc']]].
  exists c'. split.
  - apply (pipeline_export c HS Hscodes Htcodes Hkids Hhist r Hroot c1 c' Hc1 Hc').
  - apply (roundtrip_export c HS Hscodes Htcodes Hkids Hhist r Hroot c1 c' Hc1 Hc').
Qed.

(* ---- what roundtrip_ok says ---- *)
Lemma state_eqb_eq : forall a b, state_eqb a b = true <-> a = b.
Proof.
  intros [n1 k1 i1 m1 e1 x1 p1 q1 v1] [n2 k2 i2 m2 e2 x2 p2 q2 v2]. unfold state_eqb. cbn.
  rewrite !andb_true_iff, seqb_eq, kind_eqb_eq, !ostr_eqb_eq, !strs_eqb_eq. split.
  - intros [[[[[[[[-> ->] ->] ->] ->] ->] ->] ->] ->]. reflexivity.
  - intros H; inv H. repeat split; reflexivity.
Qed.

Lemma trans_eqb_eq : forall a b, trans_eqb a b = true <-> a = b.
Proof.
  intros [n1 k1 i1 m1 e1 x1 p1 q1 v1] [n2 k2 i2 m2 e2 x2 p2 q2 v2]. unfold trans_eqb. cbn.
  rewrite !andb_true_iff, seqb_eq, !ostr_eqb_eq, !strs_eqb_eq, Z.eqb_eq. split.
  - intros [[[[[[[[-> ->] ->] ->] ->] ->] ->] ->] ->]. reflexivity.
  - intros H; inv H. repeat split; reflexivity.
Qed.

Lemma pair_eqb_eq : forall {A B} (ea : A -> A -> bool) (eb : B -> B -> bool),
  (forall a b, ea a b = true <-> a = b) -> (forall a b, eb a b = true <-> a = b) ->
  forall x y, pair_eqb ea eb x y = true <-> x = y.
Proof.
  intros A B ea eb Ha Hb [a1 b1] [a2 b2]. unfold pair_eqb. cbn. rewrite andb_true_iff, Ha, Hb.
  split; [intros [-> ->]; reflexivity|intros H; inv H; auto].
Qed.

Lemma by_key_perm : forall {V} (l1 l2 : list (name * V)), by_key l1 = by_key l2 -> Permutation l1 l2.
Proof.
  intros V l1 l2 H. unfold by_key in H.
  apply (Permutation_trans (Permutation_sym (sort_perm (fun a b : string * V => str_leb (fst a) (fst b)) l1))).
  rewrite H. apply sort_perm.
Qed.

(* the relation written "sc' ~ strip_code sc" in the statement of C11 *)
Record roundtrip_eqv (a b : chart) : Prop := mkRoundtripEqv {
  re_name : c_name a = c_name b;
  re_descr : keep_opt (c_description a) = c_description b;
  re_preamble : keep_opt (c_preamble a) = c_preamble b;
  (* the same states, each with its code stripped and '' read as None *)
  re_states : Permutation (map (fun kv => (fst kv, strip_state (snd kv))) (c_states a)) (c_states b);
  (* the same parent for every state, the same set of children *)
  re_parent : Permutation (c_parent a) (c_parent b);
  re_children : forall k, has_state a k = true -> Permutation (children_for a k) (children_for b k);
  (* as many transitions, and for every state the same (stripped) transitions in the same order *)
  re_ntrans : length (c_transitions a) = length (c_transitions b);
  re_trans : forall k, has_state a k = true -> map strip_trans (transitions_from a k) = transitions_from b k
}.

Theorem roundtrip_ok_eqv : forall a b, roundtrip_ok a b = true -> roundtrip_eqv a b.
Proof.
  intros a b H. unfold roundtrip_ok in H.
  apply andb_true_iff in H; destruct H as [H H8].
  apply andb_true_iff in H; destruct H as [H H7].
  apply andb_true_iff in H; destruct H as [H H6].
  apply andb_true_iff in H; destruct H as [H H5].
  apply andb_true_iff in H; destruct H as [H H4].
  apply andb_true_iff in H; destruct H as [H H3].
  apply andb_true_iff in H; destruct H as [H1 H2].
  assert (Hin : forall k, has_state a k = true -> exists s, In (k, s) (c_states a)).
  { intros k Hk. apply has_state_Some in Hk. destruct Hk as [s Hs]. exists s. apply lookup_In. exact Hs. }
  constructor.
  - apply seqb_eq. exact H1.
  - apply ostr_eqb_eq. exact H2.
  - apply ostr_eqb_eq. exact H3.
  - apply by_key_perm. apply (list_eqb_eq _ (pair_eqb_eq _ _ seqb_eq state_eqb_eq)). exact H4.
  - apply by_key_perm. apply (list_eqb_eq _ (pair_eqb_eq _ _ seqb_eq ostr_eqb_eq)). exact H5.
  - intros k Hk. destruct (Hin k Hk) as [s Hs]. rewrite forallb_forall in H6. specialize (H6 _ Hs). cbn [fst] in H6.
    apply strs_eqb_eq in H6.
    eapply Permutation_trans; [apply Permutation_sym, sort_names_perm|]. rewrite H6. apply sort_names_perm.
  - apply Nat.eqb_eq. exact H7.
  - intros k Hk. destruct (Hin k Hk) as [s Hs]. rewrite forallb_forall in H8. specialize (H8 _ Hs). cbn [fst] in H8.
    apply (list_eqb_eq _ trans_eqb_eq). exact H8.
Qed.

Corollary C11_dict_roundtrip_eqv : forall c, valid_for_export_b c = true ->
  exists c', import_pipeline (export_to_dict c) = Some c' /\ roundtrip_eqv c c'.
Proof.
  intros c H. destruct (C11_dict_roundtrip c H) as [c' [H1 H2]]. exists c'. split; [exact H1|].
  apply roundtrip_ok_eqv. exact H2.
Qed.


(* ================================================================== 6. non-vacuity *)
Definition ex_doc : ydata :=
  YMap [("statechart", YMap [
    ("name", YStr "demo"); ("description", YStr ""); ("preamble", YStr " x = 1 ");
    ("root state", YMap [
      ("name", YStr "root"); ("initial", YStr "s1");
      ("states", YList [
        YMap [("name", YStr "s1"); ("on entry", YStr " a = 1 ");
              ("contract", YList [YMap [("always", YStr "x >= 0")]]);
              ("transitions", YList [
                 YMap [("target", YStr "s2"); ("event", YStr "go"); ("guard", YStr " x > 0 ");
                       ("priority", YStr "high"); ("contract", YList [YMap [("before", YStr " p ")];
                                                                       YMap [("after", YStr "q")]])];
                 YMap [("event", YStr " tick "); ("action", YStr "x += 1"); ("priority", YStr "low")];
                 YMap [("target", YStr "par"); ("priority", YInt 5)]])];
        YMap [("name", YStr "s2"); ("initial", YStr "s2a"); ("on exit", YStr "bye");
              ("states", YList [
                 YMap [("name", YStr "s2a")];
                 YMap [("name", YStr "h"); ("type", YStr "shallow history"); ("memory", YStr "s2a")];
                 YMap [("name", YStr "dh"); ("type", YStr "deep history")];
                 YMap [("name", YStr "fin"); ("type", YStr "final")]])];
        YMap [("name", YStr "par");
              ("parallel states", YList [
                 YMap [("name", YStr "r1"); ("states", YList [YMap [("name", YStr "r1a")]])];
                 YMap [("name", YInt 7)]]);
              ("transitions", YList [
                 YMap [("target", YInt 7); ("event", YStr "back"); ("priority", YStr "-3")]])]])])])].

Definition ex_chart : chart :=
  Eval vm_compute in match import_pipeline ex_doc with Some c => c | None => empty_chart "" None None end.

(* C12_sound is not vacuous: the document is accepted, and the checker agrees with the theorem *)
Example ex_import : import_pipeline ex_doc = Some ex_chart.
Proof. vm_compute. reflexivity. Qed.
Example ex_import_sound : import_sound ex_chart.
Proof. exact (C12_sound _ _ ex_import). Qed.
Example ex_import_sound_b : import_sound_b ex_chart = true.
Proof. vm_compute. reflexivity. Qed.
Example ex_nontrivial :
  length (c_states ex_chart) = 11 /\ length (c_transitions ex_chart) = 4 /\
  map t_priority (c_transitions ex_chart) = [-3; 1; -1; 5]%Z /\
  kind_of ex_chart "h" = Some KShallow /\ parent_for ex_chart "r1a" = Some "r1" /\ has_state ex_chart "7" = true.
Proof. vm_compute. repeat split; reflexivity. Qed.

(* C11 is not vacuous: the example satisfies the hypothesis, and the round trip can be replayed by computation *)
Example ex_valid : valid_for_export_b ex_chart = true.
Proof. vm_compute. reflexivity. Qed.
Example ex_roundtrip :
  exists c', import_pipeline (export_to_dict ex_chart) = Some c' /\ roundtrip_ok ex_chart c' = true /\
             chart_eqb ex_chart c' = false.   (* stripping and sibling order do change the statechart *)
Proof. eexists. split; [vm_compute; reflexivity|]. split; vm_compute; reflexivity. Qed.
Example ex_roundtrip_by_theorem :
  exists c', import_pipeline (export_to_dict ex_chart) = Some c' /\ roundtrip_eqv ex_chart c'.
Proof. exact (C11_dict_roundtrip_eqv ex_chart ex_valid). Qed.

(* C12_reject is not vacuous: faulty documents, each rejected both by computation and by the theorem of its class *)
Definition st (nm : string) (rest : list (string * ydata)) : ydata := YMap (("name", YStr nm) :: rest).
Definition sc_of (root : ydata) : list (string * ydata) := [("name", YStr "sc"); ("root state", root)].

(* unknown key two levels down *)
Definition bad_key_node := [("name", YStr "b"); ("colour", YStr "red")].
Definition bad_key_root := st "root" [("states", YList [st "a" [("states", YList [YMap bad_key_node])]])].
Example ex_reject_unknown_key : import_pipeline (doc (sc_of bad_key_root)) = None.
Proof.
  apply (C12_reject_unknown_key_state (sc_of bad_key_root) bad_key_root bad_key_node "colour" (YStr "red")).
  - right; left; reflexivity.
  - eapply si_sub; [left; reflexivity|right; left; reflexivity|left; reflexivity|].
    eapply si_sub; [left; reflexivity|right; left; reflexivity|left; reflexivity|apply si_here].
  - right; left; reflexivity.
  - reflexivity.
Qed.
Example ex_reject_unknown_key_computed : import_pipeline (doc (sc_of bad_key_root)) = None.
Proof. vm_compute. reflexivity. Qed.

(* a priority that is neither an integer nor high/low, in a nested state *)
Definition bad_prio_trans := [("target", YStr "a"); ("priority", YStr "medium")].
Definition bad_prio_node := [("name", YStr "a"); ("transitions", YList [YMap bad_prio_trans])].
Definition bad_prio_root := st "root" [("parallel states", YList [YMap bad_prio_node])].
Example ex_reject_bad_priority : import_pipeline (doc (sc_of bad_prio_root)) = None.
Proof.
  apply (C12_reject_bad_priority (sc_of bad_prio_root) bad_prio_root bad_prio_node
           [YMap bad_prio_trans] bad_prio_trans (YStr "medium")).
  - right; left; reflexivity.
  - eapply si_sub; [right; reflexivity|right; left; reflexivity|left; reflexivity|apply si_here].
  - right; left; reflexivity.
  - left; reflexivity.
  - right; left; reflexivity.
  - apply use_priority_None_iff. cbn. repeat split; discriminate.
Qed.

(* both 'states' and 'parallel states' non-empty (passes the schema, refused by import_from_dict) *)
Definition both_node := [("name", YStr "a"); ("states", YList [st "x" []]); ("parallel states", YList [st "y" []])].
Definition both_root := [("name", YStr "root"); ("states", YList [YMap both_node])].
Example ex_reject_both : import_pipeline (doc (sc_of (YMap both_root))) = None.
Proof.
  apply (C12_reject_both_states_and_parallel (doc (sc_of (YMap both_root))) (sc_of (YMap both_root)) both_root
           eq_refl eq_refl both_node (Some "root") (st "x" []) [] (st "y" []) []); try reflexivity.
  eapply wi_sub; [reflexivity|left; reflexivity|apply wi_here].
Qed.

(* the same name under two parents *)
Definition dup_root := [("name", YStr "root");
  ("states", YList [st "a" [("states", YList [st "x" []])]; st "b" [("states", YList [st "x" []])]])].
Example ex_reject_duplicate : import_pipeline (doc (sc_of (YMap dup_root))) = None.
Proof.
  apply (C12_reject_duplicate_name (doc (sc_of (YMap dup_root))) (sc_of (YMap dup_root)) dup_root eq_refl eq_refl
           [("name", YStr "x")] (Some "a") [("name", YStr "x")] (Some "b")
           (mkState "x" KBasic None None None None [] [] []) (mkState "x" KBasic None None None None [] [] []));
    try reflexivity.
  - eapply wi_sub; [reflexivity|left; reflexivity|].
    eapply wi_sub; [reflexivity|left; reflexivity|apply wi_here].
  - eapply wi_sub; [reflexivity|right; left; reflexivity|].
    eapply wi_sub; [reflexivity|left; reflexivity|apply wi_here].
  - intros E; inv E.
Qed.

(* a history state at the root, and one under an orthogonal state *)
Definition hroot := [("name", YStr "h"); ("type", YStr "deep history")].
Example ex_reject_history_root : import_pipeline (doc (sc_of (YMap hroot))) = None.
Proof.
  eapply (C12_reject_history_root (doc (sc_of (YMap hroot))) (sc_of (YMap hroot)) hroot eq_refl eq_refl); reflexivity.
Qed.

Definition horth_root := [("name", YStr "root");
  ("parallel states", YList [st "r1" []; st "h" [("type", YStr "shallow history")]])].
Example ex_reject_history_under_orthogonal : import_pipeline (doc (sc_of (YMap horth_root))) = None.
Proof.
  eapply (C12_reject_history_under_non_compound (doc (sc_of (YMap horth_root))) (sc_of (YMap horth_root)) horth_root eq_refl eq_refl horth_root None _
            [("name", YStr "h"); ("type", YStr "shallow history")]).
  - apply wi_here.
  - reflexivity.
  - cbn. discriminate.
  - right; left; reflexivity.
  - reflexivity.
  - reflexivity.
Qed.

(* memory naming the history state itself (refused by validate) *)
Definition mem_node := [("name", YStr "h"); ("type", YStr "shallow history"); ("memory", YStr "h")].
Definition mem_root := [("name", YStr "root"); ("states", YList [st "a" []; YMap mem_node])].
Example ex_reject_memory_itself : import_pipeline (doc (sc_of (YMap mem_root))) = None.
Proof.
  eapply (C12_reject_memory_not_sibling (doc (sc_of (YMap mem_root))) (sc_of (YMap mem_root)) mem_root eq_refl eq_refl mem_node (Some "root") _ "h").
  - eapply wi_sub; [reflexivity|right; left; reflexivity|apply wi_here].
  - reflexivity.
  - reflexivity.
  - reflexivity.
  - left. reflexivity.
Qed.

(* transition declared on a final state; transition to a state that does not exist *)
Definition fin_node := [("name", YStr "f"); ("type", YStr "final"); ("transitions", YList [YMap [("target", YStr "root")]])].
Definition fin_root := [("name", YStr "root"); ("states", YList [YMap fin_node])].
Example ex_reject_transition_on_final : import_pipeline (doc (sc_of (YMap fin_root))) = None.
Proof.
  eapply (C12_reject_transition_on_final_or_history (doc (sc_of (YMap fin_root))) (sc_of (YMap fin_root)) fin_root eq_refl eq_refl fin_node (Some "root") _
            [("target", YStr "root")]).
  - eapply wi_sub; [reflexivity|left; reflexivity|apply wi_here].
  - reflexivity.
  - reflexivity.
  - left; reflexivity.
Qed.

Definition tgt_root := [("name", YStr "root"); ("transitions", YList [YMap [("target", YStr "nowhere")]])].
Example ex_reject_unknown_target : import_pipeline (doc (sc_of (YMap tgt_root))) = None.
Proof.
  eapply (C12_reject_unknown_target (doc (sc_of (YMap tgt_root))) (sc_of (YMap tgt_root)) tgt_root eq_refl eq_refl tgt_root None [("target", YStr "nowhere")] "nowhere").
  - apply wi_here.
  - left; reflexivity.
  - reflexivity.
  - intros y yp sy Hw Hy. inversion Hw; subst.
    + vm_compute in Hy. inv Hy. cbn. discriminate.
    + match goal with H : import_state tgt_root = Some _ |- _ => vm_compute in H; inv H end.
      match goal with H : In _ (subs_of _ _) |- _ => destruct H end.
Qed.

(* initial naming a state that is not a child *)
Definition ini_root := [("name", YStr "root"); ("initial", YStr "b");
                        ("states", YList [st "a" [("states", YList [st "b" []])]])].
Example ex_reject_initial_not_child_computed : import_pipeline (doc (sc_of (YMap ini_root))) = None.
Proof. vm_compute. reflexivity. Qed.

Print Assumptions C12_sound.
Print Assumptions import_sound_one_tree.
Print Assumptions import_sound_b_iff.
Print Assumptions C12_sound_b.
Print Assumptions C12_sound_b_refuted.
Print Assumptions C12_reject_not_a_statechart.
Print Assumptions C12_reject_unknown_key_statechart.
Print Assumptions C12_reject_missing_statechart_name.
Print Assumptions C12_reject_missing_root_state.
Print Assumptions C12_reject_unknown_key_state.
Print Assumptions C12_reject_missing_state_name.
Print Assumptions C12_reject_unknown_type.
Print Assumptions C12_reject_unknown_key_transition.
Print Assumptions C12_reject_bad_priority.
Print Assumptions C12_reject_unknown_key_state_contract.
Print Assumptions C12_reject_unknown_key_transition_contract.
Print Assumptions C12_reject_both_states_and_parallel.
Print Assumptions C12_reject_duplicate_name.
Print Assumptions C12_reject_duplicate_name_list.
Print Assumptions C12_reject_transition_on_final_or_history.
Print Assumptions C12_reject_unknown_target.
Print Assumptions C12_reject_history_root.
Print Assumptions C12_reject_history_under_non_compound.
Print Assumptions C12_reject_initial_not_child.
Print Assumptions C12_reject_memory_not_sibling.
Print Assumptions C12_error_type.
Print Assumptions C11_dict_roundtrip.
Print Assumptions C11_dict_roundtrip_eqv.
Print Assumptions ex_roundtrip.
Print Assumptions ex_reject_unknown_target.
