(* C06Proofs.v -- property C06 "History states restore exactly what was active".  (header: see end of work) *)
From Coq Require Import List ZArith Lia Bool Sorted Permutation.
From Sismic Require Import Base Chart Interp World Spec.
From SismicProofs Require Import SortLib.
Import ListNotations.
Open Scope list_scope.

(* ------------------------------------------------------------------ pure list / dictionary facts *)
Lemma lookup_dset_same {V} (k : name) (v : V) d : lookup k (dset k v d) = Some v.
Proof.
  induction d as [|[k' v'] d IH]; simpl.
  - replace (str_eqb k k) with true; [reflexivity|]. symmetry. apply str_eqb_spec. reflexivity.
  - destruct (str_eqb k k') eqn:E; simpl.
    + replace (str_eqb k k) with true; [reflexivity|]. symmetry. apply str_eqb_spec. reflexivity.
    + rewrite E. exact IH.
Qed.

Lemma lookup_dset_other {V} (k k' : name) (v : V) d : k <> k' -> lookup k (dset k' v d) = lookup k d.
Proof.
  intros Hne. assert (Hf : str_eqb k k' = false).
  { destruct (str_eqb k k') eqn:E; [|reflexivity]. apply str_eqb_spec in E. contradiction. }
  induction d as [|[k2 v2] d IH]; simpl.
  - rewrite Hf. reflexivity.
  - destruct (str_eqb k' k2) eqn:E; simpl.
    + apply str_eqb_spec in E. subst k2. rewrite Hf. reflexivity.
    + destruct (str_eqb k k2); [reflexivity|exact IH].
Qed.

Lemma lookup_dset {V} (k k' : name) (v : V) d :
  lookup k (dset k' v d) = if str_eqb k k' then Some v else lookup k d.
Proof.
  destruct (str_eqb k k') eqn:E.
  - apply str_eqb_spec in E. subst. apply lookup_dset_same.
  - apply lookup_dset_other. intros ->.
    assert (str_eqb k' k' = true) by (apply str_eqb_spec; reflexivity). congruence.
Qed.

Lemma str_eqb_refl (a : name) : str_eqb a a = true.
Proof. apply str_eqb_spec. reflexivity. Qed.

Lemma strs_eqb_refl (l : list name) : strs_eqb l l = true.
Proof.
  induction l as [|x l IH]; [reflexivity|].
  change (str_eqb x x && strs_eqb l l = true). rewrite str_eqb_refl. exact IH.
Qed.

Lemma strs_eqb_eq (a b : list name) : strs_eqb a b = true -> a = b.
Proof.
  revert b. induction a as [|x a IH]; intros [|y b] H; try discriminate; [reflexivity|].
  change (str_eqb x y && strs_eqb a b = true) in H. apply andb_true_iff in H. destruct H as [H1 H2]. apply str_eqb_spec in H1. subst. f_equal. apply IH. exact H2.
Qed.

Section C06.
  Variable ctx : Type.
  Variable X : Type.
  Variable exec_code : call ctx -> ctx -> option (ctx * list event).
  Variable eval_code : call ctx -> ctx -> option bool.
  Variable emit : Z -> meta -> X -> X * option err.
  Variable sc : chart.

  Notation ist := (istate ctx).
  Notation mst := (mstate ctx X).
  Notation M := (Interp.M ctx X).
  Local Notation bind := (Interp.bind ctx X).
  Local Notation ret := (Interp.ret ctx X).
  Local Notation fail := (Interp.fail ctx X).
  Local Notation get := (Interp.get ctx X).
  Local Notation put := (Interp.put ctx X).
  Local Notation modify := (Interp.modify ctx X).
  Local Notation observe := (Interp.observe ctx X).
  Local Notation mapM := (Interp.mapM ctx X).
  Local Notation iterM := (Interp.iterM ctx X).
  Local Notation raise_meta := (Interp.raise_meta ctx X emit).
  Local Notation raise_event := (Interp.raise_event ctx X emit).
  Local Notation run_code := (Interp.run_code ctx X exec_code sc).
  Local Notation eval_cond := (Interp.eval_cond ctx X eval_code sc).
  Local Notation eval_conds := (Interp.eval_conds ctx X eval_code sc).
  Local Notation contract := (Interp.contract ctx X eval_code sc).
  Local Notation state_contract := (Interp.state_contract ctx X eval_code sc).
  Local Notation trans_contract := (Interp.trans_contract ctx X eval_code sc).
  Local Notation eval_guards := (Interp.eval_guards ctx X eval_code sc).
  Local Notation sel_priorities := (Interp.sel_priorities ctx X eval_code sc).
  Local Notation sel_sources := (Interp.sel_sources ctx X eval_code sc).
  Local Notation sel_depths := (Interp.sel_depths ctx X eval_code sc).
  Local Notation sel_eventness := (Interp.sel_eventness ctx X eval_code sc).
  Local Notation select_transitions := (Interp.select_transitions ctx X eval_code sc).
  Local Notation sort_transitions := (Interp.sort_transitions ctx X sc).
  Local Notation compute_steps := (Interp.compute_steps ctx X eval_code sc).
  Local Notation record_history := (Interp.record_history ctx X sc).
  Local Notation exit_state := (Interp.exit_state ctx X exec_code eval_code emit sc).
  Local Notation enter_state := (Interp.enter_state ctx X exec_code eval_code emit sc).
  Local Notation process_transition := (Interp.process_transition ctx X exec_code eval_code emit sc).
  Local Notation apply_step := (Interp.apply_step ctx X exec_code eval_code emit sc).
  Local Notation stabilize := (Interp.stabilize ctx X exec_code eval_code emit sc).
  Local Notation run_steps := (Interp.run_steps ctx X exec_code eval_code emit sc).
  Local Notation consume_event := (Interp.consume_event ctx X).
  Local Notation check_invariants := (Interp.check_invariants ctx X eval_code sc).
  Local Notation execute_once := (Interp.execute_once ctx X exec_code eval_code emit sc).
  Local Notation queue := (Interp.queue ctx X).
  Local Notation set_memory := (Interp.set_memory ctx).
  Local Notation set_config := (Interp.set_config ctx).

  (* ================================================================ monad decomposition *)
  Lemma bind_inv A B (m : M A) (f : A -> M B) s s' r :
    bind m f s = (s', r) ->
    (exists e, m s = (s', inr e) /\ r = inr e) \/
    (exists a s1, m s = (s1, inl a) /\ f a s1 = (s', r)).
  Proof.
    unfold Interp.bind. destruct (m s) as [s1 [a|e]]; intros H.
    - right. exists a, s1. auto.
    - left. exists e. inversion H; subst; auto.
  Qed.

  (* normal return of a bind: both parts returned normally *)
  Lemma bind_inl A B (m : M A) (f : A -> M B) s s' b :
    bind m f s = (s', inl b) -> exists a s1, m s = (s1, inl a) /\ f a s1 = (s', inl b).
  Proof.
    intros H. apply bind_inv in H. destruct H as [(e & _ & He)|H]; [discriminate|exact H].
  Qed.

  (* ================================================================ frame: memory and configuration *)
  (* [same s s']: the history memory and the configuration are the same in s and s' *)
  Definition same (s s' : mst) : Prop :=
    i_memory (m_i s') = i_memory (m_i s) /\ i_config (m_i s') = i_config (m_i s).

  Lemma same_refl s : same s s.
  Proof. split; reflexivity. Qed.
  Lemma same_trans a b c : same a b -> same b c -> same a c.
  Proof. intros [H1 H2] [H3 H4]. split; congruence. Qed.

  Definition keeps_at {A} (s : mst) (m : M A) : Prop := forall s' r, m s = (s', r) -> same s s'.
  Definition keeps {A} (m : M A) : Prop := forall s, keeps_at s m.

  Lemma keeps_ret A (a : A) : keeps (ret a).
  Proof. intros s s' r H. inversion H; subst. apply same_refl. Qed.
  Lemma keeps_fail A (e : err) : keeps (@Interp.fail ctx X A e).
  Proof. intros s s' r H. inversion H; subst. apply same_refl. Qed.
  Lemma keeps_get : keeps get.
  Proof. intros s s' r H. inversion H; subst. apply same_refl. Qed.
  Lemma keeps_observe o : keeps (observe o).
  Proof. intros s s' r H. inversion H; subst. split; reflexivity. Qed.

  Lemma keeps_at_bind A B (m : M A) (f : A -> M B) s :
    keeps_at s m -> (forall a, keeps (f a)) -> keeps_at s (bind m f).
  Proof.
    intros Hm Hf s' r H. apply bind_inv in H. destruct H as [(e & H & _)|(a & s1 & H1 & H2)].
    - eapply Hm; eauto.
    - eapply same_trans; [eapply Hm; eauto | eapply Hf; eauto].
  Qed.
  Lemma keeps_bind A B (m : M A) (f : A -> M B) :
    keeps m -> (forall a, keeps (f a)) -> keeps (bind m f).
  Proof. intros Hm Hf s. apply keeps_at_bind; auto. Qed.

  Lemma keeps_at_get_bind B (f : ist -> M B) s : keeps_at s (f (m_i s)) -> keeps_at s (bind get f).
  Proof. intros Hf s' r H. exact (Hf s' r H). Qed.
  Lemma keeps_get_bind B (f : ist -> M B) : (forall s, keeps_at s (f (m_i s))) -> keeps (bind get f).
  Proof. intros Hf s. apply keeps_at_get_bind. apply Hf. Qed.
  Lemma keeps_at_of A (m : M A) s : keeps m -> keeps_at s m.
  Proof. intros H. apply H. Qed.

  Lemma keeps_at_put s (i : ist) :
    i_memory i = i_memory (m_i s) -> i_config i = i_config (m_i s) -> keeps_at s (put i).
  Proof. intros H1 H2 s' r H. inversion H; subst. split; assumption. Qed.

  Lemma keeps_modify (f : ist -> ist) :
    (forall i, i_memory (f i) = i_memory i /\ i_config (f i) = i_config i) -> keeps (modify f).
  Proof. intros Hf s s' r H. inversion H; subst. exact (Hf (m_i s)). Qed.

  Lemma keeps_mapM A B (f : A -> M B) l : (forall a, keeps (f a)) -> keeps (mapM f l).
  Proof.
    intros Hf. induction l as [|x l IH]; simpl.
    - apply keeps_ret.
    - apply keeps_bind; [apply Hf|]. intros y. apply keeps_bind; [apply IH|]. intros ys. apply keeps_ret.
  Qed.
  Lemma keeps_iterM A (f : A -> M unit) l : (forall a, keeps (f a)) -> keeps (iterM f l).
  Proof.
    intros Hf. induction l as [|x l IH]; simpl.
    - apply keeps_ret.
    - apply keeps_bind; [apply Hf|]. intros _. apply IH.
  Qed.

  Lemma keeps_raise_meta m : keeps (raise_meta m).
  Proof.
    intros s s' r H. unfold Interp.raise_meta in H.
    destruct (emit (i_time (m_i s)) m (m_x s)) as [x' [e|]]; inversion H; subst; split; reflexivity.
  Qed.

  Lemma queue_event_same (i : ist) e :
    i_memory (queue_event i e) = i_memory i /\ i_config (queue_event i e) = i_config i.
  Proof. unfold queue_event. destruct (e_kind e); split; reflexivity. Qed.

  Lemma keeps_raise_event e : keeps (raise_event e).
  Proof.
    unfold Interp.raise_event. destruct (e_kind e).
    - apply keeps_ret.
    - apply keeps_bind; [apply keeps_modify; intros i; apply queue_event_same|]. intros _.
      apply keeps_bind; [apply keeps_raise_meta|]. intros _.
      destruct (has_delay e); [apply keeps_raise_meta|apply keeps_ret].
    - apply keeps_raise_meta.
  Qed.

  Lemma keeps_queue e : keeps (queue e).
  Proof. apply keeps_modify. intros i. apply queue_event_same. Qed.

  (* run_code: only the trace and i_ctx; its only error is the CodeEvaluationError of that code *)
  Lemma run_code_spec k o cd ev s s' r :
    run_code k o cd ev s = (s', r) -> same s s' /\ (forall e, r = inr e -> e = ECode k o 0).
  Proof.
    intros H. unfold Interp.run_code, Interp.bind, Interp.get in H.
    destruct cd as [c|].
    - destruct (exec_code _ (i_ctx (m_i s))) as [[c' sent]|]; simpl in H; inversion H; subst.
      + split; [split; reflexivity|]. intros e He. discriminate.
      + split; [split; reflexivity|]. intros e He. inversion He. reflexivity.
    - simpl in H. inversion H; subst. split; [split; reflexivity|]. intros e He. discriminate.
  Qed.

  Lemma keeps_run_code k o cd ev : keeps (run_code k o cd ev).
  Proof. intros s s' r H. apply (run_code_spec _ _ _ _ _ _ _ H). Qed.

  Lemma keeps_eval_cond k o idx cd ev : keeps (eval_cond k o idx cd ev).
  Proof.
    unfold Interp.eval_cond. apply keeps_get_bind. intros s. cbv zeta.
    destruct (eval_code _ (i_ctx (m_i s))); apply keeps_at_of;
      (apply keeps_bind; [apply keeps_observe|intros _]); [apply keeps_ret|apply keeps_fail].
  Qed.

  Lemma keeps_eval_conds k o cds ev : forall idx, keeps (eval_conds k o idx cds ev).
  Proof.
    induction cds as [|cd rest IH]; intros idx; simpl.
    - apply keeps_ret.
    - apply keeps_bind; [apply keeps_eval_cond|]. intros [|]; [apply IH|apply keeps_fail].
  Qed.

  Lemma keeps_contract k o pre post inv ev : keeps (contract k o pre post inv ev).
  Proof.
    unfold Interp.contract. apply keeps_get_bind. intros s. apply keeps_at_of.
    destruct (i_ignore_contract (m_i s)); [apply keeps_ret|].
    destruct k; try apply keeps_ret; try apply keeps_eval_conds.
    apply keeps_bind; [|intros _; apply keeps_eval_conds].
    destruct inv; destruct post; try apply keeps_ret;
      (apply keeps_modify; intros i; split; reflexivity).
  Qed.

  Lemma keeps_state_contract k st ev : keeps (state_contract k st ev).
  Proof. apply keeps_contract. Qed.
  Lemma keeps_trans_contract k it ev : keeps (trans_contract k it ev).
  Proof. apply keeps_contract. Qed.

  Lemma keeps_eval_guards exposed ts : keeps (eval_guards exposed ts).
  Proof.
    induction ts as [|it rest IH]; simpl.
    - apply keeps_ret.
    - apply keeps_bind.
      + destruct (t_guard (snd it)); [apply keeps_eval_cond|apply keeps_ret].
      + intros ok. apply keeps_bind; [apply IH|]. intros r. apply keeps_ret.
  Qed.

  Lemma keeps_sel_priorities exposed groups : keeps (sel_priorities exposed groups).
  Proof.
    induction groups as [|[p ts] rest IH]; simpl.
    - apply keeps_ret.
    - apply keeps_bind; [apply keeps_eval_guards|]. intros [|x r]; [apply IH|apply keeps_ret].
  Qed.

  Lemma keeps_sel_sources exposed groups :
    forall selected ignored, keeps (sel_sources exposed groups selected ignored).
  Proof.
    induction groups as [|[source ts] rest IH]; intros selected ignored; simpl.
    - apply keeps_ret.
    - destruct (mem source ignored); [apply IH|].
      apply keeps_bind; [apply keeps_sel_priorities|]. intros [|x r]; apply IH.
  Qed.

  Lemma keeps_sel_depths exposed groups :
    forall selected ignored, keeps (sel_depths exposed groups selected ignored).
  Proof.
    induction groups as [|[d ts] rest IH]; intros selected ignored; simpl.
    - apply keeps_ret.
    - apply keeps_bind; [apply keeps_sel_sources|]. intros r. apply IH.
  Qed.

  Lemma keeps_sel_eventness event groups :
    forall selected, keeps (sel_eventness event groups selected).
  Proof.
    induction groups as [|[he ts] rest IH]; intros selected; simpl.
    - apply keeps_ret.
    - destruct selected; [|apply keeps_ret].
      apply keeps_bind; [apply keeps_sel_depths|]. intros r. apply IH.
  Qed.

  Lemma keeps_select_transitions event states : keeps (select_transitions event states).
  Proof. apply keeps_sel_eventness. Qed.

  Lemma keeps_sort_transitions ts : keeps (sort_transitions ts).
  Proof.
    unfold Interp.sort_transitions. destruct ts as [|a [|b ts]]; try apply keeps_ret.
    destruct (check_pairs sc (a :: b :: ts)); [apply keeps_fail|apply keeps_ret].
  Qed.

  Lemma keeps_compute_steps : keeps compute_steps.
  Proof.
    unfold Interp.compute_steps. apply keeps_get_bind. intros s.
    destruct (negb (i_initialized (m_i s))).
    - apply keeps_at_bind; [apply keeps_at_put; reflexivity|]. intros _.
      destruct (root sc); [apply keeps_ret|apply keeps_fail].
    - apply keeps_at_of. cbv zeta.
      apply keeps_bind; [apply keeps_select_transitions|]. intros ts.
      apply keeps_bind; [apply keeps_observe|]. intros _.
      destruct ts as [|t ts].
      + destruct (select_event (m_i s)); apply keeps_ret.
      + apply keeps_bind; [apply keeps_sort_transitions|]. intros ts'.
        apply keeps_bind; [apply keeps_get|]. intros s'. apply keeps_ret.
  Qed.

  Lemma keeps_process_transition ev i : keeps (process_transition ev i).
  Proof.
    unfold Interp.process_transition. destruct (nth_error (c_transitions sc) i) as [t|]; [|apply keeps_fail].
    cbv zeta.
    apply keeps_bind; [apply keeps_trans_contract|]. intros _.
    apply keeps_bind; [apply keeps_trans_contract|]. intros _.
    apply keeps_bind; [apply keeps_run_code|]. intros sent.
    apply keeps_bind; [apply keeps_trans_contract|]. intros _.
    apply keeps_bind; [apply keeps_trans_contract|]. intros _.
    apply keeps_bind; [apply keeps_modify; intros i0; split; reflexivity|]. intros _.
    apply keeps_bind; [apply keeps_raise_meta|]. intros _. apply keeps_ret.
  Qed.

  Lemma keeps_consume_event : keeps consume_event.
  Proof.
    unfold Interp.consume_event. apply keeps_get_bind. intros s.
    assert (He : forall q,
      keeps_at s (match q with
                  | (t2, e2) :: q2 => if (t2 <=? i_time (m_i s))%Z
                                      then bind (put (Interp.set_eq ctx q2 (m_i s))) (fun _ => ret (Some e2))
                                      else ret None
                  | [] => ret None
                  end)).
    { intros [|[t2 e2] q2]; [apply keeps_at_of, keeps_ret|].
      destruct (t2 <=? i_time (m_i s))%Z; [|apply keeps_at_of, keeps_ret].
      apply keeps_at_bind; [apply keeps_at_put; reflexivity|]. intros _. apply keeps_ret. }
    destruct (i_iq (m_i s)) as [|[t e] q']; [apply He|].
    destruct (t <=? i_time (m_i s))%Z; [|apply He].
    apply keeps_at_bind; [apply keeps_at_put; reflexivity|]. intros _. apply keeps_ret.
  Qed.

  Lemma keeps_check_invariants ev : keeps (check_invariants ev).
  Proof.
    unfold Interp.check_invariants. apply keeps_get_bind. intros s. apply keeps_at_of.
    apply keeps_iterM. intros n. destruct (state_for sc n); [apply keeps_state_contract|apply keeps_fail].
  Qed.

  (* ================================================================ C06_record *)
  (* Statechart._states[name].name = name (part of WF1) *)
  Definition names_ok : Prop := forall n st, state_for sc n = Some st -> s_name st = n.

  (* what the exit of compound state n writes into memory[child] (active = configuration at the
     beginning of the micro step); None = nothing is written for that child *)
  Definition kval (active : list name) (n child : name) : option (list name) :=
    match kind_of sc child with
    | Some KDeep => Some (sort_names (filter (fun x => mem x (descendants_for sc n)) active))
    | Some KShallow => Some (sort_names (filter (fun x => mem x (children_for sc n)) active))
    | _ => None
    end.

  Definition record_child (active : list name) (n : name) (m : list (name * list name)) (child : name)
    : list (name * list name) :=
    match kval active n child with Some v => dset child v m | None => m end.

  Definition record_children (active : list name) (n : name) (chs : list name) (m : list (name * list name))
    : list (name * list name) := fold_left (record_child active n) chs m.

  Lemma fold_left_ext {A B} (f g : A -> B -> A) l : (forall a b, f a b = g a b) ->
    forall a, fold_left f l a = fold_left g l a.
  Proof. intros H. induction l as [|x l IH]; intros a; simpl; [reflexivity|]. rewrite H. apply IH. Qed.

  (* record_for of Spec.v in terms of record_children *)
  Lemma record_for_unfold active m n :
    record_for sc active m n =
      match kind_of sc n with
      | Some KCompound => record_children active n (children_for sc n) m
      | _ => m
      end.
  Proof.
    unfold record_for, kind_of. destruct (state_for sc n) as [st|]; simpl; [|reflexivity].
    destruct (s_kind st); try reflexivity.
    unfold record_children. apply fold_left_ext. intros a b. unfold record_child, kval, kind_of.
    destruct (option_map s_kind (state_for sc b)) as [[]|]; reflexivity.
  Qed.

  (* the Python asserts of the recording loop (and the lookup of the child), as a pure function *)
  Definition rec_err (active : list name) (n child : name) : option err :=
    match state_for sc child with
    | None => Some EStatechart
    | Some cs =>
        match s_kind cs with
        | KDeep => match filter (fun x => mem x (descendants_for sc n)) active with
                   | [] => Some EAssert | _ => None end
        | KShallow => match filter (fun x => mem x (children_for sc n)) active with
                      | [_] => None | _ => Some EAssert end
        | _ => None
        end
    end.

  (* the body of the loop of record_history *)
  Definition rec_body (active : list name) (n child : name) : M unit :=
    match state_for sc child with
    | None => fail EStatechart
    | Some cs =>
        match s_kind cs with
        | KDeep =>
            let desc := descendants_for sc n in
            let act := filter (fun x => mem x desc) active in
            match act with
            | [] => fail EAssert
            | _ => modify (fun s => set_memory (dset child (sort_names act) (i_memory s)) s)
            end
        | KShallow =>
            let ch := children_for sc n in
            let act := filter (fun x => mem x ch) active in
            match act with
            | [_] => modify (fun s => set_memory (dset child act (i_memory s)) s)
            | _ => fail EAssert
            end
        | _ => ret tt
        end
    end.

  Lemma record_history_unfold active st :
    record_history active st =
      match s_kind st with
      | KCompound => iterM (rec_body active (s_name st)) (children_for sc (s_name st))
      | _ => ret tt
      end.
  Proof. reflexivity. Qed.

  (* one iteration: either the assert fires and nothing changes, or exactly memory[child] is written *)
  Lemma rec_body_spec active n child s s' r :
    rec_body active n child s = (s', r) ->
    i_config (m_i s') = i_config (m_i s) /\
    match rec_err active n child with
    | None => r = inl tt /\ i_memory (m_i s') = record_child active n (i_memory (m_i s)) child
    | Some e => r = inr e /\ i_memory (m_i s') = i_memory (m_i s)
    end.
  Proof.
    unfold rec_body, rec_err, record_child, kval, kind_of.
    destruct (state_for sc child) as [cs|]; simpl.
    2:{ intros H; inversion H; subst; auto. }
    destruct (s_kind cs); cbv zeta; try (intros H; inversion H; subst; auto).
    - (* shallow *)
      revert H. destruct (filter (fun x => mem x (children_for sc n)) active) as [|x [|y l]];
        intros H; inversion H; subst; auto.
    - (* deep *)
      revert H. destruct (filter (fun x => mem x (descendants_for sc n)) active) as [|x l];
        intros H; inversion H; subst; auto.
  Qed.

  Lemma rec_iter_spec active n : forall chs s s' r,
    iterM (rec_body active n) chs s = (s', r) ->
    i_config (m_i s') = i_config (m_i s) /\
    match r with
    | inl _ => Forall (fun c => rec_err active n c = None) chs /\
               i_memory (m_i s') = record_children active n chs (i_memory (m_i s))
    | inr e => exists pre x post, chs = pre ++ x :: post /\
               Forall (fun c => rec_err active n c = None) pre /\ rec_err active n x = Some e /\
               i_memory (m_i s') = record_children active n pre (i_memory (m_i s))
    end.
  Proof.
    induction chs as [|c chs IH]; intros s s' r H; simpl in H.
    - inversion H; subst. split; [reflexivity|]. split; [constructor|reflexivity].
    - apply bind_inv in H. destruct H as [(e & H & ->)|([] & s1 & H1 & H2)].
      + apply rec_body_spec in H. destruct H as [Hc H]. split; [exact Hc|].
        destruct (rec_err active n c) as [e'|] eqn:E; destruct H as [Hr Hm]; [|discriminate].
        inversion Hr; subst e'. exists [], c, chs. repeat split; auto.
      + apply rec_body_spec in H1. destruct H1 as [Hc1 H1].
        destruct (rec_err active n c) as [e'|] eqn:E; destruct H1 as [Hr Hm1]; [discriminate|].
        apply IH in H2. destruct H2 as [Hc2 H2]. split; [congruence|].
        destruct r as [u|e].
        * destruct H2 as [HF Hm2]. split; [constructor; assumption|].
          rewrite Hm2, Hm1. reflexivity.
        * destruct H2 as (pre & x & post & -> & HF & Hx & Hm2).
          exists (c :: pre), x, post. repeat split; auto.
          rewrite Hm2, Hm1. reflexivity.
  Qed.

  Lemma record_history_spec active st s s' r :
    state_for sc (s_name st) = Some st ->
    record_history active st s = (s', r) ->
    i_config (m_i s') = i_config (m_i s) /\
    match r with
    | inl _ => i_memory (m_i s') = record_for sc active (i_memory (m_i s)) (s_name st)
    | inr e => s_kind st = KCompound /\
               exists pre x post, children_for sc (s_name st) = pre ++ x :: post /\
                 Forall (fun c => rec_err active (s_name st) c = None) pre /\
                 rec_err active (s_name st) x = Some e /\
                 i_memory (m_i s') = record_children active (s_name st) pre (i_memory (m_i s))
    end.
  Proof.
    intros Hst H. rewrite record_history_unfold in H. rewrite record_for_unfold.
    unfold kind_of. rewrite Hst. simpl.
    destruct (s_kind st); try (inversion H; subst; split; reflexivity).
    apply rec_iter_spec in H. destruct H as [Hc H]. split; [exact Hc|].
    destruct r as [u|e]; [apply H|]. split; [reflexivity|exact H].
  Qed.

  (* exit_state, any outcome *)
  Theorem C06_record active ev st s s' r :
    state_for sc (s_name st) = Some st ->
    exit_state active ev st s = (s', r) ->
    let n := s_name st in
    let m0 := i_memory (m_i s) in
    let c0 := i_config (m_i s) in
    match r with
    | inl _ =>
        i_memory (m_i s') = record_for sc active m0 n /\
        mem n c0 = true /\ i_config (m_i s') = remove_first n c0
    | inr e =>
        (* (a) the on_exit code failed: nothing is recorded *)
        (e = ECode CExit (OState n) 0 /\ i_memory (m_i s') = m0 /\ i_config (m_i s') = c0)
        \/
        (* (b) the lookup / assert for history child x failed: the children before x are recorded *)
        (s_kind st = KCompound /\ i_config (m_i s') = c0 /\
         exists pre x post, children_for sc n = pre ++ x :: post /\
           Forall (fun c => rec_err active n c = None) pre /\ rec_err active n x = Some e /\
           i_memory (m_i s') = record_children active n pre m0)
        \/
        (* (c) a later error (KeyError, postcondition, listener): recording is complete *)
        (i_memory (m_i s') = record_for sc active m0 n)
    end.
  Proof.
    intros Hst H n m0 c0. subst n m0 c0. unfold Interp.exit_state in H.
    apply bind_inv in H. destruct H as [(e & H & ->)|(sent & s1 & H1 & H)].
    { apply run_code_spec in H. destruct H as [[Hm Hc] He]. left. rewrite (He e eq_refl). auto. }
    apply run_code_spec in H1. destruct H1 as [[Hm1 Hc1] _].
    apply bind_inv in H. destruct H as [(e & H & ->)|([] & s2 & H2 & H)].
    { apply (record_history_spec _ _ _ _ _ Hst) in H. destruct H as [Hc (Hk & pre & x & post & Hch & HF & Hx & Hm)].
      right; left. split; [exact Hk|]. split; [congruence|]. exists pre, x, post.
      repeat split; auto. rewrite Hm, Hm1. reflexivity. }
    apply (record_history_spec _ _ _ _ _ Hst) in H2. destruct H2 as [Hc2 Hm2].
    assert (Hrec : i_memory (m_i s2) = record_for sc active (i_memory (m_i s)) (s_name st)).
    { rewrite Hm2, Hm1. reflexivity. }
    change (bind get ?f s2) with (f (m_i s2) s2) in H. cbv beta in H.
    apply bind_inv in H. destruct H as [(e & H & ->)|([] & s3 & H3 & H)].
    { right; right. destruct (mem (s_name st) (i_config (m_i s2))); inversion H; subst; exact Hrec. }
    destruct (mem (s_name st) (i_config (m_i s2))) eqn:Emem; [|discriminate].
    assert (Hm3 : i_memory (m_i s3) = i_memory (m_i s2)) by (inversion H3; subst; reflexivity).
    assert (Hc3 : i_config (m_i s3) = remove_first (s_name st) (i_config (m_i s))).
    { inversion H3; subst. simpl. congruence. }
    assert (Hrest : forall s4 r4,
              bind (state_contract CPost st ev) (fun _ => bind (raise_meta (MExited (s_name st))) (fun _ => ret sent)) s3 = (s4, r4) ->
              same s3 s4).
    { apply keeps_bind; [apply keeps_state_contract|]. intros _.
      apply keeps_bind; [apply keeps_raise_meta|]. intros _. apply keeps_ret. }
    apply Hrest in H. destruct H as [Hm4 Hc4].
    destruct r as [a|e].
    - split; [congruence|]. split; congruence.
    - right; right. congruence.
  Qed.

  (* enter_state never touches the memory; on normal return the state is added to the configuration *)
  Lemma enter_state_spec ev st s s' r :
    enter_state ev st s = (s', r) ->
    i_memory (m_i s') = i_memory (m_i s) /\
    (forall a, r = inl a -> i_config (m_i s') = set_add (s_name st) (i_config (m_i s))).
  Proof.
    intros H. unfold Interp.enter_state in H.
    apply bind_inv in H. destruct H as [(e & H & ->)|([] & s1 & H1 & H)].
    { apply keeps_state_contract in H. destruct H as [Hm Hc]. split; [exact Hm|]. intros a Ha; discriminate. }
    apply keeps_state_contract in H1. destruct H1 as [Hm1 Hc1].
    apply bind_inv in H. destruct H as [(e & H & ->)|(sent & s2 & H2 & H)].
    { apply keeps_run_code in H. destruct H as [Hm Hc]. split; [congruence|]. intros a Ha; discriminate. }
    apply keeps_run_code in H2. destruct H2 as [Hm2 Hc2].
    apply bind_inv in H. destruct H as [(e & H & ->)|([] & s3 & H3 & H)].
    { inversion H. }
    assert (Hm3 : i_memory (m_i s3) = i_memory (m_i s2)) by (inversion H3; subst; reflexivity).
    assert (Hc3 : i_config (m_i s3) = set_add (s_name st) (i_config (m_i s2))) by (inversion H3; subst; reflexivity).
    assert (Hrest : forall s4 r4,
              bind (raise_meta (MEntered (s_name st))) (fun _ => ret sent) s3 = (s4, r4) -> same s3 s4).
    { apply keeps_bind; [apply keeps_raise_meta|]. intros _. apply keeps_ret. }
    apply Hrest in H. destruct H as [Hm4 Hc4]. split; [congruence|]. intros a _. congruence.
  Qed.

  Lemma states_for_spec l : names_ok -> forall sts, states_for sc l = Some sts ->
    map s_name sts = l /\ Forall (fun st => state_for sc (s_name st) = Some st) sts.
  Proof.
    intros Hn. induction l as [|n l IH]; intros sts H; simpl in H.
    - inversion H; subst. split; [reflexivity|constructor].
    - destruct (state_for sc n) as [st|] eqn:E; [|discriminate].
      destruct (states_for sc l) as [r|]; [|discriminate]. inversion H; subst.
      destruct (IH r eq_refl) as [IH1 IH2]. pose proof (Hn _ _ E) as Hname.
      split; [simpl; congruence|]. constructor; [rewrite Hname; exact E|exact IH2].
  Qed.

  (* the exit loop of _apply_step *)
  Lemma exit_all_spec active ev : forall sts s s' sent,
    Forall (fun st => state_for sc (s_name st) = Some st) sts ->
    mapM (exit_state active ev) sts s = (s', inl sent) ->
    i_memory (m_i s') = fold_left (record_for sc active) (map s_name sts) (i_memory (m_i s)) /\
    i_config (m_i s') = fold_left (fun c n => remove_first n c) (map s_name sts) (i_config (m_i s)).
  Proof.
    induction sts as [|st sts IH]; intros s s' sent HF H; simpl in H.
    - inversion H; subst. split; reflexivity.
    - inversion HF as [|? ? Hst HF']; subst.
      apply bind_inl in H. destruct H as (a & s1 & H1 & H).
      apply bind_inl in H. destruct H as (ys & s2 & H2 & H).
      inversion H; subst s2.
      apply (C06_record _ _ _ _ _ _ Hst) in H1. cbv zeta in H1. destruct H1 as (Hm1 & _ & Hc1).
      destruct (IH _ _ _ HF' H2) as [Hm2 Hc2]. simpl. rewrite <- Hm1, <- Hc1. split; assumption.
  Qed.

  (* the exit loop, any outcome: memory entries other than those of history children of exited
     states are never touched (stated through lookup below, see lookup_record_for) *)
  Lemma enter_all_spec ev : forall sts s s' r,
    mapM (enter_state ev) sts s = (s', r) ->
    i_memory (m_i s') = i_memory (m_i s) /\
    (forall a, r = inl a ->
       i_config (m_i s') = fold_left (fun c n => set_add n c) (map s_name sts) (i_config (m_i s))).
  Proof.
    induction sts as [|st sts IH]; intros s s' r H; simpl in H.
    - inversion H; subst. split; [reflexivity|]. intros; reflexivity.
    - apply bind_inv in H. destruct H as [(e & H & ->)|(a & s1 & H1 & H)].
      { apply enter_state_spec in H. destruct H as [Hm _]. split; [exact Hm|]. intros; discriminate. }
      apply enter_state_spec in H1. destruct H1 as [Hm1 Hc1].
      apply bind_inv in H. destruct H as [(e & H & ->)|(ys & s2 & H2 & H)].
      { apply IH in H. destruct H as [Hm _]. split; [congruence|]. intros; discriminate. }
      apply IH in H2. destruct H2 as [Hm2 Hc2]. inversion H; subst.
      split; [congruence|]. intros a0 _. simpl. rewrite (Hc2 ys eq_refl), (Hc1 a eq_refl). reflexivity.
  Qed.

  Lemma keeps_raise_all sent :
    keeps (iterM (fun e => bind (raise_event e) (fun _ => modify (fun s => Interp.set_sent ctx (i_sent s ++ [e]) s))) sent).
  Proof.
    apply keeps_iterM. intros e. apply keeps_bind; [apply keeps_raise_event|]. intros _.
    apply keeps_modify. intros i. split; reflexivity.
  Qed.

  (* _apply_step, any outcome: the memory is the one left by the exit loop (transition processing,
     entering and raising the sent events do not touch it) *)
  Lemma apply_step_memory_any step s s' r :
    apply_step step s = (s', r) ->
    match states_for sc (ms_entered step), states_for sc (ms_exited step) with
    | Some _, Some exited =>
        exists s1 r1, mapM (exit_state (i_config (m_i s)) (ms_event step)) exited s = (s1, r1) /\
                      i_memory (m_i s') = i_memory (m_i s1)
    | _, _ => i_memory (m_i s') = i_memory (m_i s)
    end.
  Proof.
    intros H. unfold Interp.apply_step in H.
    destruct (states_for sc (ms_entered step)) as [entered|];
      [destruct (states_for sc (ms_exited step)) as [exited|]|]; try (inversion H; subst; reflexivity).
    change (bind get ?f s) with (f (m_i s) s) in H. cbv beta zeta in H.
    apply bind_inv in H. destruct H as [(e & H & ->)|(sent1 & s1 & H1 & H)].
    { eexists _, _. split; [exact H|reflexivity]. }
    exists s1, (inl sent1). split; [exact H1|].
    apply bind_inv in H. destruct H as [(e & H & ->)|(sent2 & s2 & H2 & H)].
    { destruct (ms_trans step); [apply keeps_process_transition in H|apply keeps_ret in H]; apply H. }
    assert (Hm2 : i_memory (m_i s2) = i_memory (m_i s1)).
    { destruct (ms_trans step); [apply keeps_process_transition in H2|apply keeps_ret in H2]; apply H2. }
    apply bind_inv in H. destruct H as [(e & H & ->)|(sent3 & s3 & H3 & H)].
    { apply enter_all_spec in H. destruct H as [Hm _]. congruence. }
    apply enter_all_spec in H3. destruct H3 as [Hm3 _].
    apply bind_inv in H. destruct H as [(e & H & ->)|([] & s4 & H4 & H)].
    { apply keeps_raise_all in H. destruct H as [Hm _]. congruence. }
    apply keeps_raise_all in H4. destruct H4 as [Hm4 _]. inversion H; subst. congruence.
  Qed.

  (* _apply_step, normal return *)
  Theorem C06_record_step step s s' a :
    names_ok ->
    apply_step step s = (s', inl a) ->
    (ms_event a = ms_event step /\ ms_trans a = ms_trans step /\
     ms_entered a = ms_entered step /\ ms_exited a = ms_exited step) /\
    i_memory (m_i s') =
      fold_left (record_for sc (i_config (m_i s))) (ms_exited step) (i_memory (m_i s)) /\
    i_config (m_i s') =
      fold_left (fun c n => set_add n c) (ms_entered step)
        (fold_left (fun c n => remove_first n c) (ms_exited step) (i_config (m_i s))).
  Proof.
    intros Hn H. unfold Interp.apply_step in H.
    destruct (states_for sc (ms_entered step)) as [entered|] eqn:Een; [|discriminate].
    destruct (states_for sc (ms_exited step)) as [exited|] eqn:Eex; [|discriminate].
    destruct (states_for_spec _ Hn _ Een) as [Hen _].
    destruct (states_for_spec _ Hn _ Eex) as [Hex HFex].
    change (bind get ?f s) with (f (m_i s) s) in H. cbv beta zeta in H.
    apply bind_inl in H. destruct H as (sent1 & s1 & H1 & H).
    apply bind_inl in H. destruct H as (sent2 & s2 & H2 & H).
    apply bind_inl in H. destruct H as (sent3 & s3 & H3 & H).
    apply bind_inl in H. destruct H as ([] & s4 & H4 & H).
    inversion H; subst s4 a. simpl. split; [auto|].
    destruct (exit_all_spec _ _ _ _ _ _ HFex H1) as [Hm1 Hc1]. rewrite Hex in Hm1, Hc1.
    assert (H12 : same s1 s2).
    { destruct (ms_trans step); [apply keeps_process_transition in H2|apply keeps_ret in H2]; exact H2. }
    destruct H12 as [Hm2 Hc2].
    apply enter_all_spec in H3. destruct H3 as [Hm3 Hc3]. specialize (Hc3 sent3 eq_refl). rewrite Hen in Hc3.
    apply keeps_raise_all in H4. destruct H4 as [Hm4 Hc4].
    split; [congruence|]. rewrite Hc4, Hc3, Hc2, Hc1. reflexivity.
  Qed.

  (* ================================================================ C06_restore *)
  Local Notation create_stabilization_step := (Interp.create_stabilization_step ctx sc).

  (* the order used by the interpreter for entering = the order of the checker *)
  Lemma enter_order_is_depth_name : Interp.enter_order_leb sc = depth_name_leb sc.
  Proof. reflexivity. Qed.

  Lemma first_some_inv {A B} (f : A -> option B) l y :
    first_some f l = Some y -> exists x, In x l /\ f x = Some y.
  Proof.
    induction l as [|x l IH]; simpl; [discriminate|].
    destruct (f x) as [y'|] eqn:E; intros H.
    - inversion H; subst. exists x. auto.
    - destruct (IH H) as (x' & Hin & Hx). exists x'. auto.
  Qed.

  (* shape of a stabilisation step computed for a leaf *)
  Lemma stab_for_leaf_spec m leaf step :
    stab_for_leaf sc m leaf = Some (inl step) ->
    ms_event step = None /\ ms_trans step = None /\ ms_sent step = [] /\
    (ms_exited step = [] \/
     (exists r fs, ms_exited step = [leaf; r] /\ root sc = Some r /\
                   state_for sc leaf = Some fs /\ s_kind fs = KFinal) \/
     (ms_exited step = [leaf] /\
      exists hs, state_for sc leaf = Some hs /\ is_history (s_kind hs) = true /\
        match lookup leaf m with
        | Some l => ms_entered step = sort (depth_name_leb sc) l
        | None => exists d, s_memory hs = Some d /\ ms_entered step = [d]
        end)).
  Proof.
    unfold stab_for_leaf. destruct (state_for sc leaf) as [st|] eqn:Est; [|discriminate].
    assert (Hhist : is_history (s_kind st) = true ->
      match lookup leaf m with
      | Some l => Some (inl (mkMicro None None (sort (Interp.enter_order_leb sc) l) [leaf] []))
      | None => match s_memory st with
                | Some m0 => Some (inl (mkMicro None None [m0] [leaf] []))
                | None => Some (inr EStatechart)
                end
      end = Some (inl step) ->
      ms_event step = None /\ ms_trans step = None /\ ms_sent step = [] /\
      (ms_exited step = [] \/
       (exists r fs, ms_exited step = [leaf; r] /\ root sc = Some r /\
                     Some st = Some fs /\ s_kind fs = KFinal) \/
       (ms_exited step = [leaf] /\
        exists hs, Some st = Some hs /\ is_history (s_kind hs) = true /\
          match lookup leaf m with
          | Some l => ms_entered step = sort (depth_name_leb sc) l
          | None => exists d, s_memory hs = Some d /\ ms_entered step = [d]
          end))).
    { intros Hk H. destruct (lookup leaf m) as [l|].
      - inversion H; subst; simpl. repeat split; auto. right; right. split; [reflexivity|].
        exists st. auto.
      - destruct (s_memory st) as [d|] eqn:Ed; inversion H; subst; simpl. repeat split; auto.
        right; right. split; [reflexivity|]. exists st. repeat split; auto. exists d. auto. }
    destruct (s_kind st) eqn:Ek; try discriminate.
    - (* compound *) destruct (truthy (s_initial st)); [|discriminate].
      intros H; inversion H; subst; simpl. auto.
    - (* orthogonal *) destruct (children_for sc leaf); [discriminate|].
      intros H; inversion H; subst; simpl. auto.
    - (* final *) destruct (ostr_eqb (parent_for sc leaf) (root sc)); [|discriminate].
      destruct (root sc) as [r|]; [|discriminate].
      intros H; inversion H; subst; simpl. repeat split; auto. right; left. exists r, st. auto.
    - apply Hhist. reflexivity.
    - apply Hhist. reflexivity.
  Qed.

  Lemma stab_for_orthogonal_spec cfg n step :
    stab_for_orthogonal sc cfg n = Some (inl step) ->
    ms_event step = None /\ ms_trans step = None /\ ms_sent step = [] /\ ms_exited step = [].
  Proof.
    unfold stab_for_orthogonal. destruct (state_for sc n) as [st|]; [|discriminate].
    destruct (s_kind st); try discriminate.
    destruct (filter (fun ch => negb (mem ch cfg)) (children_for sc n)); [discriminate|].
    intros H; inversion H; subst; simpl. auto.
  Qed.

  (* Every step computed by _create_stabilization_step that exits exactly one state is the
     restoration step of an ACTIVE history state h: it enters memory[h] sorted by (depth, name),
     or the default memory when there is no entry. *)
  Theorem C06_restore (i : ist) step h :
    create_stabilization_step i = Some (inl step) ->
    ms_exited step = [h] ->
    In h (i_config i) /\ ms_event step = None /\ ms_trans step = None /\ ms_sent step = [] /\
    exists hs, state_for sc h = Some hs /\ is_history (s_kind hs) = true /\
      match lookup h (i_memory i) with
      | Some l => ms_entered step = sort (depth_name_leb sc) l
      | None => exists d, s_memory hs = Some d /\ ms_entered step = [d]
      end.
  Proof.
    unfold Interp.create_stabilization_step. intros H Hex.
    destruct (first_some (stab_for_leaf sc (i_memory i)) (sort (leaf_order_leb sc) (leaf_for sc (i_config i))))
      as [r|] eqn:E.
    - inversion H; subst r. apply first_some_inv in E. destruct E as (leaf & Hin & Hleaf).
      apply stab_for_leaf_spec in Hleaf.
      destruct Hleaf as (He & Ht & Hs & [Hx|[(r & fs & Hx & _)|(Hx & hs & Hst & Hk & Hm)]]); try congruence.
      assert (leaf = h) by congruence. subst leaf.
      apply sort_In in Hin. unfold leaf_for in Hin. apply filter_In in Hin.
      repeat split; try tauto. exists hs. auto.
    - apply first_some_inv in H. destruct H as (n & _ & Hn). apply stab_for_orthogonal_spec in Hn.
      destruct Hn as (_ & _ & _ & Hn). congruence.
  Qed.

  (* in terms of the checker of Spec.v: restore_ok holds for every computed stabilisation step *)
  Theorem C06_restore_ok (i : ist) step :
    create_stabilization_step i = Some (inl step) -> restore_ok sc (i_memory i) step = true.
  Proof.
    intros H. unfold restore_ok.
    destruct (ms_exited step) as [|h [|h2 l]] eqn:Eex; try reflexivity.
    destruct (C06_restore _ _ _ H Eex) as (_ & _ & Ht & _ & hs & Hst & Hk & Hm).
    rewrite Ht, Hst, Hk. destruct (lookup h (i_memory i)) as [l|].
    - rewrite Hm. apply strs_eqb_refl.
    - destruct Hm as (d & Hd & Hm). rewrite Hd, Hm. apply strs_eqb_refl.
  Qed.

  (* conversely: when the history state is the only leaf of the configuration the computed step
     is its restoration step *)
  Lemma C06_restore_sole_leaf (i : ist) h hs :
    leaf_for sc (i_config i) = [h] -> state_for sc h = Some hs -> is_history (s_kind hs) = true ->
    create_stabilization_step i =
      match lookup h (i_memory i) with
      | Some l => Some (inl (mkMicro None None (sort (depth_name_leb sc) l) [h] []))
      | None => match s_memory hs with
                | Some d => Some (inl (mkMicro None None [d] [h] []))
                | None => Some (inr EStatechart)
                end
      end.
  Proof.
    intros Hl Hst Hk. unfold Interp.create_stabilization_step. rewrite Hl. simpl.
    unfold stab_for_leaf. rewrite Hst.
    destruct (s_kind hs); try discriminate;
      (destruct (lookup h (i_memory i)); [reflexivity|destruct (s_memory hs); reflexivity]).
  Qed.

  (* ---- "sorted by (depth, name)" puts parents before children ---- *)
  Lemma depth_name_leb_total a b : depth_name_leb sc a b = true \/ depth_name_leb sc b a = true.
  Proof.
    unfold depth_name_leb, zn_leb; simpl.
    destruct (Z.lt_trichotomy (depth_for sc a) (depth_for sc b)) as [H|[H|H]].
    - left. apply orb_true_iff. left. apply Z.ltb_lt. exact H.
    - rewrite H, Z.eqb_refl. simpl. destruct (str_leb_total a b) as [L|L]; rewrite L; rewrite orb_true_r; auto.
    - right. apply orb_true_iff. left. apply Z.ltb_lt. exact H.
  Qed.

  Lemma depth_name_leb_le a b : depth_name_leb sc a b = true -> (depth_for sc a <= depth_for sc b)%Z.
  Proof.
    unfold depth_name_leb, zn_leb; simpl. intros H. apply orb_true_iff in H. destruct H as [H|H].
    - apply Z.ltb_lt in H. lia.
    - apply andb_true_iff in H. destruct H as [H _]. apply Z.eqb_eq in H. lia.
  Qed.

  Lemma depth_name_leb_trans a b c :
    depth_name_leb sc a b = true -> depth_name_leb sc b c = true -> depth_name_leb sc a c = true.
  Proof.
    unfold depth_name_leb, zn_leb; simpl. intros H1 H2.
    apply orb_true_iff in H1. apply orb_true_iff in H2. apply orb_true_iff.
    destruct H1 as [H1|H1]; destruct H2 as [H2|H2];
      try apply Z.ltb_lt in H1; try apply Z.ltb_lt in H2;
      try (apply andb_true_iff in H1; destruct H1 as [H1 L1]; apply Z.eqb_eq in H1);
      try (apply andb_true_iff in H2; destruct H2 as [H2 L2]; apply Z.eqb_eq in H2).
    - left. apply Z.ltb_lt. lia.
    - left. apply Z.ltb_lt. lia.
    - left. apply Z.ltb_lt. lia.
    - right. apply andb_true_iff. split; [apply Z.eqb_eq; lia|]. eapply str_leb_trans; eauto.
  Qed.

  Lemma restored_sorted l : StronglySorted (fun a b => depth_name_leb sc a b = true) (sort (depth_name_leb sc) l).
  Proof. apply sort_strongly_sorted; [apply depth_name_leb_total|apply depth_name_leb_trans]. Qed.

  Lemma StronglySorted_mid {A} (R : A -> A -> Prop) l1 a l2 :
    StronglySorted R (l1 ++ a :: l2) -> Forall (R a) l2.
  Proof.
    induction l1 as [|x l1 IH]; simpl; intros H; inversion H; subst; auto.
  Qed.

  (* every restored state comes after all of its ancestors that are restored too *)
  Theorem C06_restore_parents_first :
    (forall a b, In b (ancestors_for sc a) -> (depth_for sc b < depth_for sc a)%Z) ->
    forall l l1 a l2 b,
      sort (depth_name_leb sc) l = l1 ++ a :: l2 ->
      In b (ancestors_for sc a) -> In b l -> In b l1.
  Proof.
    intros Hdepth l l1 a l2 b Hsort Hanc Hin.
    pose proof (restored_sorted l) as Hs. rewrite Hsort in Hs.
    apply (sort_In (depth_name_leb sc)) in Hin. rewrite Hsort in Hin.
    apply in_app_or in Hin. destruct Hin as [Hin|[Hin|Hin]]; [exact Hin| |].
    - subst b. specialize (Hdepth _ _ Hanc). lia.
    - apply StronglySorted_mid in Hs. rewrite Forall_forall in Hs. specialize (Hs _ Hin).
      apply depth_name_leb_le in Hs. specialize (Hdepth _ _ Hanc). lia.
  Qed.

  (* ================================================================ C06_continue *)
  (* _stabilize stops only when no stabilisation step is left: after a (shallow) restoration the
     default entry continues below the restored state until the configuration is stable *)
  Theorem C06_continue : forall fuel s s' steps,
    stabilize fuel s = (s', inl steps) -> create_stabilization_step (m_i s') = None.
  Proof.
    induction fuel as [|f IH]; intros s s' steps H; simpl in H; [discriminate|].
    change (bind get ?g s) with (g (m_i s) s) in H. cbv beta in H.
    destruct (create_stabilization_step (m_i s)) as [[step|e]|] eqn:E.
    - apply bind_inl in H. destruct H as (a & s1 & H1 & H).
      apply bind_inl in H. destruct H as (r & s2 & H2 & H).
      inversion H; subst. eapply IH; eauto.
    - discriminate.
    - inversion H; subst. exact E.
  Qed.

  (* the first step executed by _stabilize is the computed one *)
  Lemma stabilize_first fuel s s' steps step :
    names_ok ->
    stabilize fuel s = (s', inl steps) -> create_stabilization_step (m_i s) = Some (inl step) ->
    exists a rest, steps = a :: rest /\ ms_entered a = ms_entered step /\ ms_exited a = ms_exited step /\
                   ms_trans a = ms_trans step.
  Proof.
    intros Hn H E. destruct fuel as [|f]; simpl in H; [discriminate|].
    change (bind get ?g s) with (g (m_i s) s) in H. cbv beta in H. rewrite E in H.
    apply bind_inl in H. destruct H as (a & s1 & H1 & H).
    apply bind_inl in H. destruct H as (r & s2 & H2 & H). inversion H; subst.
    apply (C06_record_step _ _ _ _ Hn) in H1. destruct H1 as [(_ & Ht & Hen & Hex) _].
    exists a, r. auto.
  Qed.

  (* ================================================================ C06_replay_sound *)
  Definition step_cfg (cfg : list name) (st : microstep) : list name :=
    fold_left (fun c n => set_add n c) (ms_entered st)
      (fold_left (fun c n => remove_first n c) (ms_exited st) cfg).
  Definition step_mem (cfg : list name) (m : list (name * list name)) (st : microstep)
    : list (name * list name) := fold_left (record_for sc cfg) (ms_exited st) m.

  Lemma hist_replay_cons st rest cfg m :
    hist_replay sc (st :: rest) cfg m =
      if restore_ok sc m st then hist_replay sc rest (step_cfg cfg st) (step_mem cfg m st) else None.
  Proof. reflexivity. Qed.

  Lemma hist_replay_app l1 : forall l2 cfg m,
    hist_replay sc (l1 ++ l2) cfg m =
      match hist_replay sc l1 cfg m with
      | Some (c, m') => hist_replay sc l2 c m'
      | None => None
      end.
  Proof.
    induction l1 as [|st l1 IH]; intros l2 cfg m; [reflexivity|].
    rewrite <- app_comm_cons, !hist_replay_cons. destruct (restore_ok sc m st); [apply IH|reflexivity].
  Qed.

  Lemma replay_config_fold cfg steps : replay_config cfg steps = fold_left step_cfg steps cfg.
  Proof. reflexivity. Qed.

  (* [replays s steps s']: replaying the returned micro steps from the memory and configuration
     of s accepts every step and yields the memory and configuration of s' *)
  Definition replays (s : mst) (steps : list microstep) (s' : mst) : Prop :=
    hist_replay sc steps (i_config (m_i s)) (i_memory (m_i s))
      = Some (i_config (m_i s'), i_memory (m_i s')).

  Lemma replays_nil s s' : same s s' -> replays s [] s'.
  Proof. intros [Hm Hc]. unfold replays. simpl. rewrite Hm, Hc. reflexivity. Qed.

  Lemma replays_app s l1 s1 l2 s2 : replays s l1 s1 -> replays s1 l2 s2 -> replays s (l1 ++ l2) s2.
  Proof. unfold replays. intros H1 H2. rewrite hist_replay_app, H1. exact H2. Qed.

  Lemma replays_same_l s0 s l s' : same s0 s -> replays s l s' -> replays s0 l s'.
  Proof. intros [Hm Hc]. unfold replays. rewrite Hm, Hc. auto. Qed.

  Lemma replays_same_r s l s1 s' : replays s l s1 -> same s1 s' -> replays s l s'.
  Proof. intros H [Hm Hc]. unfold replays. rewrite Hm, Hc. exact H. Qed.

  Lemma restore_ok_fields m a step :
    ms_trans a = ms_trans step -> ms_entered a = ms_entered step -> ms_exited a = ms_exited step ->
    restore_ok sc m a = restore_ok sc m step.
  Proof. intros Ht Hen Hex. unfold restore_ok. rewrite Ht, Hen, Hex. reflexivity. Qed.

  (* steps computed from transitions (and the two special first steps) are never restoration steps *)
  Definition trans_like (st : microstep) : Prop := ms_trans st <> None \/ ms_exited st = [].

  Lemma trans_like_ok m st : trans_like st -> restore_ok sc m st = true.
  Proof.
    intros [H|H]; unfold restore_ok.
    - destruct (ms_exited st) as [|h [|]]; try reflexivity. destruct (ms_trans st); [reflexivity|congruence].
    - rewrite H. reflexivity.
  Qed.

  Lemma apply_step_replays step s s' a :
    names_ok -> restore_ok sc (i_memory (m_i s)) step = true ->
    apply_step step s = (s', inl a) -> replays s [a] s'.
  Proof.
    intros Hn Hok H. apply (C06_record_step _ _ _ _ Hn) in H.
    destruct H as [(_ & Ht & Hen & Hex) [Hm Hc]].
    unfold replays. rewrite hist_replay_cons, (restore_ok_fields _ _ _ Ht Hen Hex), Hok.
    unfold step_cfg, step_mem. rewrite Hen, Hex, <- Hm, <- Hc. reflexivity.
  Qed.

  Lemma stabilize_replays (Hn : names_ok) : forall fuel s s' steps,
    stabilize fuel s = (s', inl steps) -> replays s steps s'.
  Proof.
    induction fuel as [|f IH]; intros s s' steps H; simpl in H; [discriminate|].
    change (bind get ?g s) with (g (m_i s) s) in H. cbv beta in H.
    destruct (create_stabilization_step (m_i s)) as [[step|e]|] eqn:E.
    - apply bind_inl in H. destruct H as (a & s1 & H1 & H).
      apply bind_inl in H. destruct H as (r & s2 & H2 & H).
      inversion H; subst. change (a :: r) with ([a] ++ r).
      eapply replays_app; [|eapply IH; eauto].
      eapply apply_step_replays; eauto. apply C06_restore_ok. exact E.
    - discriminate.
    - inversion H; subst. apply replays_nil, same_refl.
  Qed.

  Lemma run_steps_replays (Hn : names_ok) fuel : forall steps s s' ex,
    Forall trans_like steps ->
    run_steps fuel steps s = (s', inl ex) -> replays s ex s'.
  Proof.
    induction steps as [|st rest IH]; intros s s' ex HF H; simpl in H.
    - inversion H; subst. apply replays_nil, same_refl.
    - inversion HF as [|? ? Hst HF']; subst.
      apply bind_inl in H. destruct H as (a & s1 & H1 & H).
      apply bind_inl in H. destruct H as (ss & s2 & H2 & H).
      apply bind_inl in H. destruct H as (r & s3 & H3 & H).
      inversion H; subst. change (a :: ss ++ r) with ([a] ++ ss ++ r).
      eapply replays_app; [eapply apply_step_replays; eauto; apply trans_like_ok; exact Hst|].
      eapply replays_app; [eapply stabilize_replays; eauto|]. eapply IH; eauto.
  Qed.

  (* after a non-empty run_steps the configuration is stable *)
  Lemma run_steps_stable fuel : forall steps s s' ex,
    steps <> [] -> run_steps fuel steps s = (s', inl ex) -> create_stabilization_step (m_i s') = None.
  Proof.
    induction steps as [|st rest IH]; intros s s' ex Hne H; [congruence|]. simpl in H.
    apply bind_inl in H. destruct H as (a & s1 & H1 & H).
    apply bind_inl in H. destruct H as (ss & s2 & H2 & H).
    apply bind_inl in H. destruct H as (r & s3 & H3 & H).
    inversion H; subst. destruct rest as [|st2 rest].
    - simpl in H3. inversion H3; subst. eapply C06_continue; eauto.
    - eapply IH; eauto. discriminate.
  Qed.

  Lemma create_step_trans cfg event it : ms_trans (create_step sc cfg event it) <> None.
  Proof. unfold create_step. destruct (t_target (snd it)); simpl; discriminate. Qed.

  Lemma compute_steps_shape s s' steps :
    compute_steps s = (s', inl steps) -> Forall trans_like steps.
  Proof.
    unfold Interp.compute_steps. change (bind get ?g s) with (g (m_i s) s). cbv beta zeta.
    destruct (negb (i_initialized (m_i s))).
    - intros H. apply bind_inl in H. destruct H as ([] & s1 & _ & H).
      destruct (root sc); inversion H; subst. constructor; [right; reflexivity|constructor].
    - intros H. apply bind_inl in H. destruct H as (ts & s1 & _ & H).
      apply bind_inl in H. destruct H as ([] & s2 & _ & H).
      destruct ts as [|t ts].
      + destruct (select_event (m_i s)); inversion H; subst; [|constructor].
        constructor; [right; reflexivity|constructor].
      + apply bind_inl in H. destruct H as (ts' & s3 & _ & H).
        apply bind_inl in H. destruct H as (i3 & s4 & _ & H). inversion H; subst.
        unfold create_steps. apply Forall_forall. intros st Hin. apply in_map_iff in Hin.
        destruct Hin as (it & <- & _). left. apply create_step_trans.
  Qed.

  Lemma css_same s s' : same s s' -> create_stabilization_step (m_i s') = create_stabilization_step (m_i s).
  Proof. intros [Hm Hc]. unfold Interp.create_stabilization_step. rewrite Hm, Hc. reflexivity. Qed.

  (* anatomy of a normally returning execute_once, as far as memory and configuration go *)
  Lemma execute_once_inv fuel now s s' macro :
    execute_once fuel now s = (s', inl macro) ->
    match macro with
    | None => same s s'
    | Some (t, ex) =>
        exists s1 s2 steps,
          same s s1 /\ Forall trans_like steps /\ steps <> [] /\
          run_steps fuel steps s1 = (s2, inl ex) /\ same s2 s'
    end.
  Proof.
    intros H. unfold Interp.execute_once in H.
    apply bind_inl in H. destruct H as ([] & s1 & H1 & H).
    apply keeps_modify in H1; [|intros i; split; reflexivity].
    apply bind_inl in H. destruct H as ([] & s2 & H2 & H). apply keeps_raise_meta in H2.
    apply bind_inl in H. destruct H as (steps & s3 & H3 & H).
    pose proof (compute_steps_shape _ _ _ H3) as Hshape. apply keeps_compute_steps in H3.
    pose proof (same_trans _ _ _ H1 (same_trans _ _ _ H2 H3)) as H03.
    apply bind_inl in H. destruct H as (macro' & s4 & H4 & H).
    apply bind_inl in H. destruct H as ([] & s5 & H5 & H). apply keeps_check_invariants in H5.
    apply bind_inl in H. destruct H as ([] & s6 & H6 & H). apply keeps_raise_meta in H6.
    inversion H; subst s6 macro'. clear H.
    pose proof (same_trans _ _ _ H5 H6) as H46.
    destruct steps as [|first rest].
    - inversion H4; subst. eapply same_trans; eauto.
    - apply bind_inl in H4. destruct H4 as ([] & s7 & H7 & H4).
      assert (H37 : same s3 s7).
      { revert H7. generalize s3 s7 (@inl unit err tt). change (keeps (match ms_event first with
            | Some _ => bind consume_event (fun e => match e with
                                                     | Some ev => raise_meta (MConsumed ev)
                                                     | None => fail EStatechart end)
            | None => ret tt end)).
        destruct (ms_event first); [|apply keeps_ret].
        apply keeps_bind; [apply keeps_consume_event|]. intros [ev|]; [apply keeps_raise_meta|apply keeps_fail]. }
      apply bind_inl in H4. destruct H4 as (ex & s8 & H8 & H4).
      change (bind get ?g s8) with (g (m_i s8) s8) in H4. cbv beta in H4. inversion H4; subst.
      exists s7, s4, (first :: rest).
      split; [eapply same_trans; [exact H03|exact H37]|].
      split; [exact Hshape|]. split; [discriminate|]. split; [exact H8|exact H46].
  Qed.

  (* The harness checker hist_replay accepts every macro step of the model and computes exactly
     the model's memory and configuration. *)
  Theorem C06_replay_sound fuel now s s' t steps :
    names_ok ->
    execute_once fuel now s = (s', inl (Some (t, steps))) ->
    hist_replay sc steps (i_config (m_i s)) (i_memory (m_i s))
      = Some (i_config (m_i s'), i_memory (m_i s')).
  Proof.
    intros Hn H. apply execute_once_inv in H. destruct H as (s1 & s2 & st & H01 & HF & _ & Hrun & H2).
    change (replays s steps s'). eapply replays_same_l; [exact H01|].
    eapply replays_same_r; [|exact H2]. eapply run_steps_replays; eauto.
  Qed.

  Theorem C06_replay_none fuel now s s' :
    execute_once fuel now s = (s', inl None) ->
    i_memory (m_i s') = i_memory (m_i s) /\ i_config (m_i s') = i_config (m_i s).
  Proof. intros H. apply execute_once_inv in H. exact H. Qed.

  (* a macro step that did something ends in a stable configuration *)
  Theorem C06_macro_stable fuel now s s' t steps :
    execute_once fuel now s = (s', inl (Some (t, steps))) -> create_stabilization_step (m_i s') = None.
  Proof.
    intros H. apply execute_once_inv in H. destruct H as (s1 & s2 & st & _ & _ & Hne & Hrun & H2).
    rewrite (css_same _ _ H2). eapply run_steps_stable; eauto.
  Qed.

  (* ================================================================ C06_run *)
  (* ---- which memory entries a recording writes ---- *)
  (* value written into memory[h] when state n is exited with configuration cfg at the start of
     the micro step; None = memory[h] is not written *)
  Definition hist_val (cfg : list name) (n h : name) : option (list name) :=
    match kind_of sc n with
    | Some KCompound => if mem h (children_for sc n) then kval cfg n h else None
    | _ => None
    end.

  Lemma lookup_record_child cfg n m c h :
    lookup h (record_child cfg n m c) =
      if str_eqb h c then match kval cfg n c with Some v => Some v | None => lookup h m end
      else lookup h m.
  Proof.
    unfold record_child. destruct (kval cfg n c) as [v|].
    - apply lookup_dset.
    - destruct (str_eqb h c); reflexivity.
  Qed.

  Lemma lookup_record_children cfg n h : forall chs m,
    lookup h (record_children cfg n chs m) =
      if mem h chs then match kval cfg n h with Some v => Some v | None => lookup h m end
      else lookup h m.
  Proof.
    unfold record_children.
    induction chs as [|c chs IH]; intros m; [reflexivity|].
    change (fold_left (record_child cfg n) (c :: chs) m)
      with (fold_left (record_child cfg n) chs (record_child cfg n m c)).
    change (mem h (c :: chs)) with (str_eqb h c || mem h chs).
    rewrite IH, lookup_record_child.
    destruct (str_eqb h c) eqn:E.
    - apply str_eqb_spec in E. subst c. simpl.
      destruct (mem h chs); destruct (kval cfg n h); reflexivity.
    - simpl. reflexivity.
  Qed.

  (* "no other entry changes": the only entries written by record_for are those of the history
     children of an exited compound state *)
  Theorem C06_record_lookup cfg m n h :
    lookup h (record_for sc cfg m n) =
      match hist_val cfg n h with Some v => Some v | None => lookup h m end.
  Proof.
    rewrite record_for_unfold. unfold hist_val.
    destruct (kind_of sc n) as [[]|]; try reflexivity.
    rewrite lookup_record_children. destruct (mem h (children_for sc n)); reflexivity.
  Qed.

  (* ---- the ghost function ---- *)
  Definition upd_val (cfg : list name) (h : name) (cur : option (list name)) (n : name)
    : option (list name) :=
    match hist_val cfg n h with Some v => Some v | None => cur end.

  (* effect of one micro step on the remembered value of h (cfg = configuration before the step) *)
  Definition spec_step (h : name) (cfg : list name) (cur : option (list name)) (st : microstep)
    : option (list name) := fold_left (upd_val cfg h) (ms_exited st) cur.

  (* spec_memory h steps cfg cur: value remembered for h after the executed micro steps `steps`,
     started in configuration cfg with remembered value cur (None = no entry) *)
  Fixpoint spec_memory (h : name) (steps : list microstep) (cfg : list name) (cur : option (list name))
    : option (list name) :=
    match steps with
    | [] => cur
    | st :: rest => spec_memory h rest (step_cfg cfg st) (spec_step h cfg cur st)
    end.

  Lemma lookup_step_mem h cfg : forall l m,
    lookup h (fold_left (record_for sc cfg) l m) = fold_left (upd_val cfg h) l (lookup h m).
  Proof.
    induction l as [|n l IH]; intros m; simpl; [reflexivity|].
    rewrite IH, C06_record_lookup. reflexivity.
  Qed.

  Lemma hist_replay_spec : forall steps cfg m cfg' m',
    hist_replay sc steps cfg m = Some (cfg', m') ->
    cfg' = replay_config cfg steps /\
    forall h, lookup h m' = spec_memory h steps cfg (lookup h m).
  Proof.
    induction steps as [|st rest IH]; intros cfg m cfg' m' H.
    - simpl in H. inversion H; subst. split; reflexivity.
    - rewrite hist_replay_cons in H. destruct (restore_ok sc m st); [|discriminate].
      apply IH in H. destruct H as [Hc Hm]. split; [exact Hc|].
      intros h. rewrite Hm. simpl. unfold step_mem, spec_step. rewrite lookup_step_mem. reflexivity.
  Qed.

  Lemma hist_replay_mid pre st post cfg m r :
    hist_replay sc (pre ++ st :: post) cfg m = Some r ->
    exists c1 m1, hist_replay sc pre cfg m = Some (c1, m1) /\ restore_ok sc m1 st = true.
  Proof.
    rewrite hist_replay_app. destruct (hist_replay sc pre cfg m) as [[c1 m1]|]; [|discriminate].
    rewrite hist_replay_cons. destruct (restore_ok sc m1 st) eqn:E; [|discriminate].
    intros _. exists c1, m1. auto.
  Qed.

  (* ---- runs: execute_once calls that return normally, interleaved with queue calls ---- *)
  Definition micro_of (hist : list macrostep) : list microstep := flat_map snd hist.

  Inductive run : mst -> list macrostep -> mst -> Prop :=
  | run_nil : forall s, run s [] s
  | run_queue : forall s e s1 hist s2,
      queue e s = (s1, inl tt) -> run s1 hist s2 -> run s hist s2
  | run_idle : forall s fuel now s1 hist s2,
      execute_once fuel now s = (s1, inl None) -> run s1 hist s2 -> run s hist s2
  | run_macro : forall s fuel now s1 macro hist s2,
      execute_once fuel now s = (s1, inl (Some macro)) -> run s1 hist s2 -> run s (macro :: hist) s2.

  Lemma run_replays (Hn : names_ok) s hist s' : run s hist s' -> replays s (micro_of hist) s'.
  Proof.
    induction 1 as [s|s e s1 hist s2 Hq _ IH|s fuel now s1 hist s2 He _ IH|s fuel now s1 [t steps] hist s2 He _ IH].
    - apply replays_nil, same_refl.
    - eapply replays_same_l; [|exact IH]. eapply keeps_queue; eauto.
    - eapply replays_same_l; [|exact IH]. apply C06_replay_none in He. exact He.
    - unfold micro_of. simpl. eapply replays_app; [|exact IH].
      eapply C06_replay_sound; eauto.
  Qed.

  (* the memory (and the configuration) at every macro-step boundary of a run is the ghost one *)
  Theorem C06_run_memory s hist s' :
    names_ok -> run s hist s' ->
    i_config (m_i s') = replay_config (i_config (m_i s)) (micro_of hist) /\
    forall h, lookup h (i_memory (m_i s'))
              = spec_memory h (micro_of hist) (i_config (m_i s)) (lookup h (i_memory (m_i s))).
  Proof. intros Hn H. apply (run_replays Hn) in H. apply hist_replay_spec in H. exact H. Qed.

  (* every restoration step EXECUTED anywhere in a run (also in the middle of a macro step) enters
     exactly the ghost value computed from the micro steps executed before it *)
  Theorem C06_run s hist s' :
    names_ok -> run s hist s' ->
    forall pre st post h hs,
      micro_of hist = pre ++ st :: post ->
      ms_exited st = [h] -> ms_trans st = None ->
      state_for sc h = Some hs -> is_history (s_kind hs) = true ->
      match spec_memory h pre (i_config (m_i s)) (lookup h (i_memory (m_i s))) with
      | Some l => ms_entered st = sort (depth_name_leb sc) l
      | None => exists d, s_memory hs = Some d /\ ms_entered st = [d]
      end.
  Proof.
    intros Hn H pre st post h hs Hsplit Hex Ht Hst Hk.
    apply (run_replays Hn) in H. unfold replays in H. rewrite Hsplit in H.
    apply hist_replay_mid in H. destruct H as (c1 & m1 & Hpre & Hok).
    apply hist_replay_spec in Hpre. destruct Hpre as [_ Hm]. rewrite <- Hm.
    unfold restore_ok in Hok. rewrite Hex, Ht, Hst, Hk in Hok.
    destruct (lookup h m1) as [l|].
    - apply strs_eqb_eq. exact Hok.
    - destruct (s_memory hs) as [d|]; [|discriminate]. exists d. split; [reflexivity|].
      apply strs_eqb_eq. exact Hok.
  Qed.

  (* ---- declarative reading of spec_memory: the most recent exit of the parent ---- *)
  (* WF2: _parent and _children are mutually consistent *)
  Definition tree_ok : Prop := forall p h, In h (children_for sc p) <-> parent_for sc h = Some p.

  (* the part of the tree below p that history state hs (a child of p) remembers *)
  Definition hist_scope (p : name) (hs : state) : list name :=
    match s_kind hs with KDeep => descendants_for sc p | _ => children_for sc p end.
  (* the sub-configuration of p, in the name order used by the interpreter *)
  Definition active_scope (cfg : list name) (p : name) (hs : state) : list name :=
    sort_names (filter (fun x => mem x (hist_scope p hs)) cfg).

  Section Parent.
    Variables (h p : name) (hs : state).
    Hypothesis Htree : tree_ok.
    Hypothesis Hst : state_for sc h = Some hs.
    Hypothesis Hk : is_history (s_kind hs) = true.
    Hypothesis Hp : parent_for sc h = Some p.
    Hypothesis Hpk : kind_of sc p = Some KCompound.

    Lemma hist_val_parent cfg n :
      hist_val cfg n h = if str_eqb p n then Some (active_scope cfg p hs) else None.
    Proof.
      unfold hist_val. destruct (str_eqb p n) eqn:E.
      - apply str_eqb_spec in E. subst n. rewrite Hpk.
        assert (Hm : mem h (children_for sc p) = true) by (apply mem_In, Htree; exact Hp).
        rewrite Hm. unfold kval, kind_of, active_scope, hist_scope. rewrite Hst. simpl.
        destruct (s_kind hs); try discriminate; reflexivity.
      - destruct (kind_of sc n) as [[]|]; try reflexivity.
        destruct (mem h (children_for sc n)) eqn:M; [|reflexivity].
        apply mem_In, Htree in M. assert (p = n) by congruence. subst n.
        rewrite str_eqb_refl in E. discriminate.
    Qed.

    Lemma spec_step_parent cfg cur st :
      spec_step h cfg cur st = if mem p (ms_exited st) then Some (active_scope cfg p hs) else cur.
    Proof.
      unfold spec_step. generalize (ms_exited st) as l. intros l. revert cur.
      induction l as [|n l IH]; intros cur; [reflexivity|].
      change (fold_left (upd_val cfg h) (n :: l) cur) with (fold_left (upd_val cfg h) l (upd_val cfg h cur n)).
      change (mem p (n :: l)) with (str_eqb p n || mem p l).
      rewrite IH. unfold upd_val. rewrite hist_val_parent.
      destruct (str_eqb p n); destruct (mem p l); reflexivity.
    Qed.

    Definition not_exiting (st : microstep) : Prop := ~ In p (ms_exited st).

    (* spec_memory = the sub-configuration of p right before the LAST micro step that exited p *)
    Lemma spec_memory_last_exit : forall steps cfg cur,
      (Forall not_exiting steps /\ spec_memory h steps cfg cur = cur) \/
      (exists pre x post,
         steps = pre ++ x :: post /\ In p (ms_exited x) /\ Forall not_exiting post /\
         spec_memory h steps cfg cur = Some (active_scope (replay_config cfg pre) p hs)).
    Proof.
      induction steps as [|st rest IH]; intros cfg cur.
      - left. split; [constructor|reflexivity].
      - simpl. destruct (IH (step_cfg cfg st) (spec_step h cfg cur st)) as [[HF Hs]|(pre & x & post & -> & Hin & HF & Hs)].
        + rewrite Hs, spec_step_parent. destruct (mem p (ms_exited st)) eqn:M.
          * right. exists [], st, rest. repeat split; auto. apply mem_In. exact M.
          * left. split; [|reflexivity]. constructor; [|exact HF].
            unfold not_exiting. rewrite <- mem_In. congruence.
        + right. exists (st :: pre), x, post. repeat split; auto.
    Qed.

    (* The behavioural statement: in any run, a micro step that exits history state h alone
       (its restoration step) enters exactly the sub-configuration of the parent p that was
       active immediately before the most recent micro step that exited p -- sorted by
       (depth, name) -- whatever happened in between; if p has not been exited in this run it
       enters what the initial memory says, i.e. the default memory for a fresh interpreter. *)
    Theorem C06_run_last_exit s hist s' :
      names_ok -> run s hist s' ->
      forall pre st post,
        micro_of hist = pre ++ st :: post ->
        ms_exited st = [h] -> ms_trans st = None ->
        (Forall not_exiting pre /\
         match lookup h (i_memory (m_i s)) with
         | Some l => ms_entered st = sort (depth_name_leb sc) l
         | None => exists d, s_memory hs = Some d /\ ms_entered st = [d]
         end)
        \/
        (exists pre1 x pre2,
           pre = pre1 ++ x :: pre2 /\ In p (ms_exited x) /\ Forall not_exiting pre2 /\
           ms_entered st =
             sort (depth_name_leb sc)
               (active_scope (replay_config (i_config (m_i s)) pre1) p hs)).
    Proof.
      intros Hn Hrun pre st post Hsplit Hex Ht.
      pose proof (C06_run _ _ _ Hn Hrun pre st post h hs Hsplit Hex Ht Hst Hk) as H.
      destruct (spec_memory_last_exit pre (i_config (m_i s)) (lookup h (i_memory (m_i s))))
        as [[HF Hs]|(pre1 & x & pre2 & Hpre & Hin & HF & Hs)]; rewrite Hs in H.
      - left. split; assumption.
      - right. exists pre1, x, pre2. repeat split; auto.
    Qed.

    (* fresh interpreter: empty memory, empty configuration *)
    Corollary C06_run_fresh s hist s' :
      names_ok -> run s hist s' ->
      i_memory (m_i s) = [] -> i_config (m_i s) = [] ->
      forall pre st post,
        micro_of hist = pre ++ st :: post ->
        ms_exited st = [h] -> ms_trans st = None ->
        (Forall not_exiting pre /\ exists d, s_memory hs = Some d /\ ms_entered st = [d])
        \/
        (exists pre1 x pre2,
           pre = pre1 ++ x :: pre2 /\ In p (ms_exited x) /\ Forall not_exiting pre2 /\
           ms_entered st = sort (depth_name_leb sc) (active_scope (replay_config [] pre1) p hs)).
    Proof.
      intros Hn Hrun Hm Hc pre st post Hsplit Hex Ht.
      pose proof (C06_run_last_exit _ _ _ Hn Hrun pre st post Hsplit Hex Ht) as H.
      rewrite Hm, Hc in H. exact H.
    Qed.
  End Parent.

  (* ================================================================ an entered history state is restored *)
  (* what can be exited by a computed stabilisation step *)
  Lemma css_shape (i : ist) step :
    create_stabilization_step i = Some (inl step) ->
    ms_trans step = None /\
    (ms_exited step = [] \/
     (exists leaf r fs, ms_exited step = [leaf; r] /\ root sc = Some r /\
                        state_for sc leaf = Some fs /\ s_kind fs = KFinal) \/
     (exists h, ms_exited step = [h])).
  Proof.
    unfold Interp.create_stabilization_step. intros H.
    destruct (first_some (stab_for_leaf sc (i_memory i)) (sort (leaf_order_leb sc) (leaf_for sc (i_config i))))
      as [r|] eqn:E.
    - inversion H; subst r. apply first_some_inv in E. destruct E as (leaf & _ & Hleaf).
      apply stab_for_leaf_spec in Hleaf.
      destruct Hleaf as (_ & Ht & _ & [Hx|[(r & fs & Hx & Hr & Hfs & Hk)|(Hx & _)]]); split; auto.
      + right; left. exists leaf, r, fs. auto.
      + right; right. exists leaf. exact Hx.
    - apply first_some_inv in H. destruct H as (n & _ & Hn). apply stab_for_orthogonal_spec in Hn.
      destruct Hn as (_ & Ht & _ & Hn). auto.
  Qed.

  (* an active history state (history states have no children) always has a stabilisation step *)
  Definition hist_leaf (h : name) : Prop :=
    exists hs, state_for sc h = Some hs /\ is_history (s_kind hs) = true /\ children_for sc h = [].

  Lemma first_some_none {A B} (f : A -> option B) l :
    first_some f l = None -> forall x, In x l -> f x = None.
  Proof.
    induction l as [|y l IH]; simpl; intros H x Hin; [contradiction|].
    destruct (f y) eqn:E; [discriminate|]. destruct Hin as [<-|Hin]; auto.
  Qed.

  Lemma bfs_nil c fuel : bfs c fuel [] = [].
  Proof. destruct fuel; reflexivity. Qed.

  Lemma stable_no_history (i : ist) h :
    create_stabilization_step i = None -> hist_leaf h -> ~ In h (i_config i).
  Proof.
    intros H (hs & Hst & Hk & Hch) Hin. unfold Interp.create_stabilization_step in H.
    destruct (first_some (stab_for_leaf sc (i_memory i)) (sort (leaf_order_leb sc) (leaf_for sc (i_config i))))
      eqn:E; [discriminate|].
    assert (Hleaf : In h (sort (leaf_order_leb sc) (leaf_for sc (i_config i)))).
    { apply sort_In. unfold leaf_for. apply filter_In. split; [exact Hin|].
      unfold descendants_for. simpl. rewrite Hch. simpl. rewrite bfs_nil. reflexivity. }
    pose proof (first_some_none _ _ E _ Hleaf) as Hnone.
    unfold stab_for_leaf in Hnone. rewrite Hst in Hnone.
    destruct (s_kind hs); try discriminate;
      (destruct (lookup h (i_memory i)); [discriminate|destruct (s_memory hs); discriminate]).
  Qed.

  (* no normally returning macro step leaves a history state active *)
  Theorem C06_no_history_at_rest fuel now s s' t steps h :
    execute_once fuel now s = (s', inl (Some (t, steps))) -> hist_leaf h -> ~ In h (i_config (m_i s')).
  Proof. intros H. apply stable_no_history. eapply C06_macro_stable; eauto. Qed.

  (* ---- membership in the replayed configuration ---- *)
  Lemma In_remove_first h n c : h <> n -> In h c -> In h (remove_first n c).
  Proof.
    intros Hne. induction c as [|y c IH]; simpl; [auto|]. intros [->|Hin].
    - destruct (str_eqb n h) eqn:E; [apply str_eqb_spec in E; congruence|left; reflexivity].
    - destruct (str_eqb n y); [exact Hin|right; auto].
  Qed.

  Lemma In_remove_all h : forall l c,
    ~ In h l -> In h c -> In h (fold_left (fun c n => remove_first n c) l c).
  Proof.
    induction l as [|n l IH]; intros c Hni Hin; simpl; [exact Hin|].
    apply IH; [intros H; apply Hni; right; exact H|].
    apply In_remove_first; [intros ->; apply Hni; left; reflexivity|exact Hin].
  Qed.

  Lemma In_set_add_keep h n c : In h c -> In h (set_add n c).
  Proof. unfold set_add. destruct (mem n c); [auto|]. intros H. apply in_or_app. auto. Qed.

  Lemma In_set_add_new n c : In n (set_add n c).
  Proof.
    unfold set_add. destruct (mem n c) eqn:E; [apply mem_In; exact E|].
    apply in_or_app. right. left. reflexivity.
  Qed.

  Lemma In_add_all_keep h : forall l c, In h c -> In h (fold_left (fun c n => set_add n c) l c).
  Proof. induction l as [|n l IH]; intros c Hin; simpl; [exact Hin|]. apply IH, In_set_add_keep, Hin. Qed.

  Lemma In_add_all_new h : forall l c, In h l -> In h (fold_left (fun c n => set_add n c) l c).
  Proof.
    induction l as [|n l IH]; intros c Hin; simpl; [contradiction|]. destruct Hin as [->|Hin].
    - apply In_add_all_keep, In_set_add_new.
    - apply IH, Hin.
  Qed.

  Lemma step_cfg_entered h cfg st : In h (ms_entered st) -> In h (step_cfg cfg st).
  Proof. apply In_add_all_new. Qed.
  Lemma step_cfg_keep h cfg st : ~ In h (ms_exited st) -> In h cfg -> In h (step_cfg cfg st).
  Proof. intros H1 H2. apply In_add_all_keep, In_remove_all; assumption. Qed.

  (* [restored_later h l]: the steps l start with stabilisation steps (no transition) that do not
     exit h, followed by a stabilisation step that exits exactly [h] *)
  Fixpoint restored_later (h : name) (l : list microstep) : Prop :=
    match l with
    | [] => False
    | x :: r => ms_trans x = None /\ (ms_exited x = [h] \/ (~ In h (ms_exited x) /\ restored_later h r))
    end.

  Lemma restored_later_app h l1 l2 : restored_later h l1 -> restored_later h (l1 ++ l2).
  Proof.
    induction l1 as [|x l1 IH]; simpl; [contradiction|]. intros [Ht [H|[Hni H]]]; split; auto.
  Qed.

  Lemma restored_later_split h l :
    restored_later h l ->
    exists l1 x l2, l = l1 ++ x :: l2 /\ ms_exited x = [h] /\ ms_trans x = None /\
      Forall (fun y => ms_trans y = None /\ ~ In h (ms_exited y)) l1.
  Proof.
    induction l as [|y l IH]; simpl; [contradiction|]. intros [Ht [H|[Hni H]]].
    - exists [], y, l. repeat split; auto.
    - destruct (IH H) as (l1 & x & l2 & -> & Hx & Htx & HF).
      exists (y :: l1), x, l2. repeat split; auto.
  Qed.

  Section EnteredRestored.
    Variable h : name.
    Hypothesis Hn : names_ok.
    Hypothesis Hleaf : hist_leaf h.
    Hypothesis Hroot : root sc <> Some h.      (* a history state has a parent *)

    Lemma apply_step_cfg step s s' a :
      apply_step step s = (s', inl a) -> i_config (m_i s') = step_cfg (i_config (m_i s)) a.
    Proof.
      intros H. apply (C06_record_step _ _ _ _ Hn) in H. destruct H as [(_ & _ & Hen & Hex) [_ Hc]].
      unfold step_cfg. rewrite Hen, Hex. exact Hc.
    Qed.

    (* while h is active, _stabilize goes on until the restoration step of h *)
    Lemma stabilize_restores : forall fuel s s' steps,
      stabilize fuel s = (s', inl steps) -> In h (i_config (m_i s)) -> restored_later h steps.
    Proof.
      induction fuel as [|f IH]; intros s s' steps H Hin; simpl in H; [discriminate|].
      change (bind get ?g s) with (g (m_i s) s) in H. cbv beta in H.
      destruct (create_stabilization_step (m_i s)) as [[step|e]|] eqn:E.
      - apply bind_inl in H. destruct H as (a & s1 & H1 & H).
        apply bind_inl in H. destruct H as (r & s2 & H2 & H). inversion H; subst.
        pose proof (apply_step_cfg _ _ _ _ H1) as Hc1.
        apply (C06_record_step _ _ _ _ Hn) in H1. destruct H1 as [(_ & Ht & _ & Hex) _].
        apply css_shape in E. destruct E as [Htn Hsh]. simpl. split; [congruence|].
        assert (Hcont : ~ In h (ms_exited a) -> ~ In h (ms_exited a) /\ restored_later h r).
        { intros Hni. split; [exact Hni|]. eapply IH; [exact H2|]. rewrite Hc1.
          apply step_cfg_keep; assumption. }
        rewrite Hex in Hcont |- *.
        destruct Hsh as [Hx|[(leaf & rt & fs & Hx & Hr & Hfs & Hk)|(h' & Hx)]]; rewrite Hx in *.
        + right. apply Hcont. simpl. tauto.
        + right. apply Hcont. simpl. intros [->|[->|[]]].
          * destruct Hleaf as (hs & Hst & Hkh & _). rewrite Hfs in Hst. inversion Hst; subst.
            rewrite Hk in Hkh. discriminate.
          * congruence.
        + destruct (str_eqb h' h) eqn:Eh.
          * apply str_eqb_spec in Eh. subst h'. left. reflexivity.
          * right. apply Hcont. simpl. intros [->|[]]. rewrite str_eqb_refl in Eh. discriminate.
      - discriminate.
      - exfalso. eapply stable_no_history; eauto.
    Qed.

    (* [entered_ok l]: every step of l that enters h is followed, within l, by the restoration of h
       before any other transition is processed *)
    Fixpoint entered_ok (l : list microstep) : Prop :=
      match l with
      | [] => True
      | st :: r => (In h (ms_entered st) -> restored_later h r) /\ entered_ok r
      end.

    Lemma entered_ok_app l1 l2 : entered_ok l1 -> entered_ok l2 -> entered_ok (l1 ++ l2).
    Proof.
      induction l1 as [|x l1 IH]; simpl; [auto|]. intros [H1 H2] H3. split; [|auto].
      intros Hin. apply restored_later_app. auto.
    Qed.

    Lemma stabilize_entered_ok : forall fuel s s' steps,
      stabilize fuel s = (s', inl steps) -> entered_ok steps.
    Proof.
      induction fuel as [|f IH]; intros s s' steps H; simpl in H; [discriminate|].
      change (bind get ?g s) with (g (m_i s) s) in H. cbv beta in H.
      destruct (create_stabilization_step (m_i s)) as [[step|e]|] eqn:E.
      - apply bind_inl in H. destruct H as (a & s1 & H1 & H).
        apply bind_inl in H. destruct H as (r & s2 & H2 & H). inversion H; subst.
        simpl. split; [|eapply IH; eauto].
        intros Hin. eapply stabilize_restores; [exact H2|].
        rewrite (apply_step_cfg _ _ _ _ H1). apply step_cfg_entered. exact Hin.
      - discriminate.
      - inversion H; subst. exact I.
    Qed.

    Lemma run_steps_entered_ok fuel : forall steps s s' ex,
      run_steps fuel steps s = (s', inl ex) -> entered_ok ex.
    Proof.
      induction steps as [|st rest IH]; intros s s' ex H; simpl in H.
      - inversion H; subst. exact I.
      - apply bind_inl in H. destruct H as (a & s1 & H1 & H).
        apply bind_inl in H. destruct H as (ss & s2 & H2 & H).
        apply bind_inl in H. destruct H as (r & s3 & H3 & H).
        inversion H; subst. simpl. split.
        + intros Hin. apply restored_later_app. eapply stabilize_restores; [exact H2|].
          rewrite (apply_step_cfg _ _ _ _ H1). apply step_cfg_entered. exact Hin.
        + apply entered_ok_app; [eapply stabilize_entered_ok; eauto|eapply IH; eauto].
    Qed.

    Lemma entered_ok_at : forall pre st post,
      entered_ok (pre ++ st :: post) -> In h (ms_entered st) -> restored_later h post.
    Proof.
      induction pre as [|x pre IH]; simpl; intros st post [H1 H2] Hin; [auto|].
      eapply IH; eauto.
    Qed.

    (* Whenever history state h is entered by a micro step of a macro step, the same macro step
       continues with stabilisation steps only (no transition is processed in between), none of
       which exits h, up to a stabilisation step that exits exactly [h] -- the restoration step
       of h, to which C06_run / C06_run_last_exit apply. *)
    Theorem C06_entered_then_restored fuel now s s' t steps pre st post :
      execute_once fuel now s = (s', inl (Some (t, steps))) ->
      steps = pre ++ st :: post -> In h (ms_entered st) ->
      exists mid x post',
        post = mid ++ x :: post' /\ ms_exited x = [h] /\ ms_trans x = None /\
        Forall (fun y => ms_trans y = None /\ ~ In h (ms_exited y)) mid.
    Proof.
      intros H Hsplit Hin. apply execute_once_inv in H.
      destruct H as (s1 & s2 & cs & _ & _ & _ & Hrun & _).
      apply run_steps_entered_ok in Hrun. rewrite Hsplit in Hrun.
      apply restored_later_split. eapply entered_ok_at; eauto.
    Qed.
  End EnteredRestored.

End C06.
