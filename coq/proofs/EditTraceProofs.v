(* EditTraceProofs.v -- the removed-object model of remove_state (EditCorr.remove_state_trace / removed_objects: the
   state OBJECTS popped by Statechart.remove_state, in pop order, with the values they are left with) and the boolean
   side condition of the editing correspondence run (EditCorr.op_ok_b).

   SUMMARY (no Admitted, no axioms; every Print Assumptions at the end is closed)

   1. remove_state_trace_chart (any fuel, chart, name; no hypothesis)
        (fst (fst (remove_state_trace f c n)), snd (remove_state_trace f c n)) = remove_state_fuel f c n;
        remove_state_trace_remove_state: the instance at the fuel of remove_state.
   2. removed_objects_names (sound c, fields_ok c, has_state c n = true); names := map s_name (removed_objects c n)
        Permutation names (n :: descendants_for c n) /\ NoDup names /\ names = _ ++ [n] /\
        every state is popped after all its descendants (positions i < j);  removed_objects_length.
      removed_objects_sibling_order: the children of a popped state are popped in the order of its children list.
      (internal form: removed_objects_spec / removed_objects_po: removed_objects c n = vals c [] (po ++ [n]) with
       PO c [n] (po ++ [n]) = subtree, NoDup, ordered, sib_ok.)
   3. removed_objects_values (same hypotheses) -- exact value of the i-th popped object, x its name, s its record in c:
        reset_refs (fun y => mem y (firstn (S i) names)) s
        i.e. s with `initial` (resp. `memory`) reset to None iff it names a state popped NO LATER than x (x included:
        the model applies clear_refs x to the popped object itself), everything else unchanged.
      removed_objects_values_before (+ no_empty_name c): the same with firstn i = popped STRICTLY BEFORE x.
      removed_objects_values_before_refuted: without no_empty_name the "strictly before" form is FALSE of the model --
        witness: the (sound, fields_ok) chart whose only state is the compound state "" with initial "" (validate()
        ignores a falsy initial); when it is removed, clear_refs "" resets the initial of the popped object itself.
        Only charts with a state called "" (excluded by einv) are concerned; nothing about sismic is refuted.
      (a) removed_objects_fields: name, kind, on_entry, on_exit, pre, post, inv of every removed object are those of
          the registered object of that name; initial and memory are None or the original value.
      (b) removed_objects_initial: initial is None or original; None iff it names a state at a position <= i; None
          whenever it names a child of x (children are popped first).
          removed_objects_initial_None (einv c): every removed object is left with initial = None.
      (c) removed_objects_memory: memory is None or original; None iff it names a state at a position < i
          (a state never remembers itself: sd_vmem).
          removed_objects_memory_siblings: in terms of the chart, for a removed history state x <> n with memory m and
          parent p (p is removed too): memory reset <-> m precedes x in children_for c p; kept <-> m follows x.
          removed_objects_root: the object of n itself is the last one and keeps its memory (its siblings stay).
   4. op_ok_b_iff (no hypothesis): EditCorr.op_ok_b c op = true <-> EditProofs.op_ok c op, all seven shapes of op --
        the side condition applied by check_ecase (bit 4) is exactly the hypothesis of C16_preserve.  No adjustment
        was needed (EditCorr.op_ok_b writes `p <> Some ""` as a match; EditProofs.op_ok_b is a third, equivalent form).
   5. Non-vacuity: ex_a_first / ex_h_first (top > P{a,h}, P.initial = a, h shallow with memory a; children of P in the
        two orders), both einv.  ex_removed_a_first: [a; h(memory None); P(initial None)];
        ex_removed_h_first: [h(memory Some a); a; P(initial None)]; ex_removed_h_only: remove_state h leaves h.memory;
        ex_check_ecase: bit 32 of check_ecase is 0 on the right objects (any order) and 32 on a wrong memory.

   PARTIAL / MISSING: nothing planned is missing.  The only difference with the plan is the one stated in 3: "removed
   before x" is literally "no later than x"; the two coincide when no state is called "" (proved) and differ on a
   chart with such a state (the refutation witness). *)
From Coq Require Import String Ascii List Bool ZArith NArith Arith Lia Permutation Sorted.
From Sismic Require Import Base Chart Edit EditCorr.
From SismicProofs Require Import SortLib EditProofs.
Import ListNotations.
Open Scope string_scope.
Open Scope list_scope.

(* ================================================================== 1. the trace version computes the same chart *)

Section TraceLoop.
  Variable f : nat.
  Fixpoint trace_loop (c : chart) (acc : list state) (chs : list name) : chart * list state * eres :=
    match chs with
    | [] => (c, acc, EOk)
    | ch :: rest =>
        match remove_state_trace f c ch with
        | (c', l, EOk) => trace_loop c' (acc ++ l) rest
        | (c', l, e) => (c', acc ++ l, e)
        end
    end.
End TraceLoop.

Lemma remove_state_trace_S : forall f c n,
  remove_state_trace (S f) c n =
  if negb (has_state c n) then (c, [], EStatechartError) else
  match trace_loop f c [] (children_for c n) with
  | (c', l, EOk) =>
      (fst (remove_one c' n),
       l ++ match lookup n (c_states c') with Some st => [clear_refs n st] | None => [] end,
       snd (remove_one c' n))
  | (c', l, e) => (c', l, e)
  end.
Proof. reflexivity. Qed.

Definition forget (r : chart * list state * eres) : chart * eres := (fst (fst r), snd r).

Lemma trace_loop_chart : forall f,
  (forall c n, forget (remove_state_trace f c n) = remove_state_fuel f c n) ->
  forall chs c acc, forget (trace_loop f c acc chs) = remove_loop f c chs.
Proof.
  intros f IHf chs; induction chs as [|ch chs IH]; intros c acc; [reflexivity|].
  cbn [trace_loop remove_loop]. rewrite <- (IHf c ch).
  destruct (remove_state_trace f c ch) as [[c1 l1] e1]. unfold forget at 2. cbn [fst snd].
  destruct e1; try reflexivity. apply IH.
Qed.

Lemma remove_state_trace_forget : forall f c n,
  forget (remove_state_trace f c n) = remove_state_fuel f c n.
Proof.
  induction f as [|f IHf]; intros c n; [reflexivity|].
  rewrite remove_state_trace_S, remove_state_fuel_S.
  destruct (negb (has_state c n)); [reflexivity|].
  rewrite <- (trace_loop_chart f IHf (children_for c n) c []).
  destruct (trace_loop f c [] (children_for c n)) as [[c1 l1] e1]. unfold forget at 2. cbn [fst snd].
  destruct e1; try reflexivity.
  unfold forget. cbn [fst snd]. destruct (remove_one c1 n); reflexivity.
Qed.

(* Goal 1 *)
Theorem remove_state_trace_chart : forall f c n,
  (fst (fst (remove_state_trace f c n)), snd (remove_state_trace f c n)) = remove_state_fuel f c n.
Proof. exact remove_state_trace_forget. Qed.

Corollary remove_state_trace_remove_state : forall c n,
  (fst (fst (remove_state_trace (S (length (c_states c))) c n)),
   snd (remove_state_trace (S (length (c_states c))) c n)) = remove_state c n.
Proof. intros c n. apply remove_state_trace_chart. Qed.

(* ================================================================== 4. the boolean side condition *)

(* Goal 4: the side condition evaluated by the correspondence run is exactly the hypothesis op_ok of C16_preserve *)
Theorem op_ok_b_iff : forall c op, EditCorr.op_ok_b c op = true <-> EditProofs.op_ok c op.
Proof.
  intros c [st p|n|o n|n p|t|t|i s t]; cbn [EditCorr.op_ok_b EditProofs.op_ok]; try tauto.
  - rewrite !andb_true_iff, negb_true_iff, seqb_neq.
    assert (Hp : (match p with Some "" => false | _ => true end) = true <-> p <> Some "").
    { destruct p as [[|a q]|]; (split; [intros H; try discriminate; intros E; discriminate E || congruence|intros H; try reflexivity; exfalso; apply H; reflexivity]). }
    assert (Hi : (match s_initial st with None => true | Some _ => false end) = true <-> s_initial st = None).
    { destruct (s_initial st); split; congruence. }
    assert (Hm : (match s_memory st with
                  | None => true
                  | Some m => is_history (s_kind st) && negb (str_eqb m (s_name st)) &&
                              match p with Some q => mem m (children_for c q) | None => false end
                  end) = true <-> memory_ok c st p).
    { unfold memory_ok. destruct (s_memory st) as [m|].
      - rewrite !andb_true_iff, negb_true_iff, seqb_neq. split.
        + intros [[H1 H2] H3] m' E. inv E. split; [exact H1|]. split; [exact H2|].
          destruct p as [q|]; [|discriminate]. exists q. split; [reflexivity|apply mem_In; exact H3].
        + intros H. destruct (H m eq_refl) as [H1 [H2 [q [-> H3]]]].
          split; [split; assumption|apply mem_In; exact H3].
      - split; [intros _ m E; discriminate|reflexivity]. }
    rewrite Hp, Hi, Hm. tauto.
  - rewrite negb_true_iff, seqb_neq. tauto.
Qed.

(* ================================================================== 2. pop order and values: the invariant of the recursion *)

Definition memb (l : list name) : name -> bool := fun x => mem x l.

Lemma mem_app : forall x l1 l2, mem x (l1 ++ l2) = mem x l1 || mem x l2.
Proof.
  intros x l1 l2; induction l1 as [|y l1 IH]; simpl; [reflexivity|]. rewrite IH, orb_assoc. reflexivity.
Qed.

(* the objects popped when the names po are removed one after the other from c, `seen` having been removed before:
   each object has lost the references to everything removed so far, itself included *)
Fixpoint vals (c : chart) (seen po : list name) : list state :=
  match po with
  | [] => []
  | x :: r =>
      match lookup x (c_states c) with
      | Some s => [clr (memb (seen ++ [x])) s]
      | None => []
      end ++ vals c (seen ++ [x]) r
  end.

Lemma vals_app : forall c l1 l2 seen,
  vals c seen (l1 ++ l2) = vals c seen l1 ++ vals c (seen ++ l1) l2.
Proof.
  intros c l1; induction l1 as [|x l1 IH]; intros l2 seen; cbn [vals app].
  - rewrite app_nil_r. reflexivity.
  - rewrite IH, <- !app_assoc. reflexivity.
Qed.

Lemma vals_rm : forall c d po seen, (forall x, In x po -> mem x d = false) ->
  vals (rm (memb d) c) seen po = vals c (d ++ seen) po.
Proof.
  intros c d po; induction po as [|x r IH]; intros seen H; [reflexivity|].
  cbn [vals]. rewrite rm_states. change (memb d x) with (mem x d). rewrite (H x (or_introl eq_refl)).
  rewrite IH by (intros y Hy; apply H; right; exact Hy).
  rewrite <- !app_assoc. f_equal.
  destruct (lookup x (c_states c)) as [s|]; [|reflexivity]. cbn [option_map].
  f_equal. rewrite clr_clr. apply clr_ext. intros y. unfold memb. rewrite (mem_app y d). reflexivity.
Qed.

Lemma vals_names : forall c, sound c -> forall po seen,
  (forall x, In x po -> has_state c x = true) -> map s_name (vals c seen po) = po.
Proof.
  intros c HS po; induction po as [|x r IH]; intros seen H; [reflexivity|].
  cbn [vals]. destruct (proj1 (has_state_Some c x) (H x (or_introl eq_refl))) as [s Hs]. rewrite Hs.
  cbn [app map]. rewrite IH by (intros y Hy; apply H; right; exact Hy).
  destruct (clr_spec (memb (seen ++ [x])) s) as [-> _]. rewrite (sd_keyname c HS _ _ Hs). reflexivity.
Qed.

Lemma vals_nth : forall c po seen i x s,
  (forall y, In y po -> has_state c y = true) ->
  nth_error po i = Some x -> lookup x (c_states c) = Some s ->
  nth_error (vals c seen po) i = Some (clr (memb (seen ++ firstn (S i) po)) s).
Proof.
  intros c po; induction po as [|y r IH]; intros seen i x s H Hi Hs; [destruct i; discriminate|].
  destruct i as [|i].
  - cbn [nth_error] in Hi. inv Hi. cbn [vals]. rewrite Hs. reflexivity.
  - cbn [nth_error] in Hi. cbn [vals].
    destruct (proj1 (has_state_Some c y) (H y (or_introl eq_refl))) as [sy Hsy]. rewrite Hsy.
    cbn [app nth_error]. rewrite (IH (seen ++ [y]) i x s) by (try assumption; intros z Hz; apply H; right; exact Hz).
    rewrite <- app_assoc. reflexivity.
Qed.

(* descendants are never popped after an ancestor *)
Fixpoint ordered (c : chart) (po : list name) : Prop :=
  match po with
  | [] => True
  | y :: r => (forall x, In x r -> ~ anc c x y) /\ ordered c r
  end.

Lemma ordered_app : forall c l1 l2, ordered c (l1 ++ l2) <->
  ordered c l1 /\ ordered c l2 /\ (forall y x, In y l1 -> In x l2 -> ~ anc c x y).
Proof.
  intros c l1 l2; induction l1 as [|z l1 IH]; cbn [ordered app].
  - split; [intros H; split; [exact I|split; [exact H|intros y x []]]|intros [_ [H _]]; exact H].
  - rewrite IH. split.
    + intros [H1 [H2 [H3 H4]]]. split; [split; [|exact H2]|split; [exact H3|]].
      * intros x Hx. apply H1. apply in_or_app. left; exact Hx.
      * intros y x [<-|Hy] Hx; [apply H1; apply in_or_app; right; exact Hx|apply H4; assumption].
    + intros [[H1 H2] [H3 H4]]. split; [|split; [exact H2|split; [exact H3|]]].
      * intros x Hx. apply in_app_or in Hx. destruct Hx as [Hx|Hx]; [apply H1; exact Hx|apply (H4 z x); [left; reflexivity|exact Hx]].
      * intros y x Hy Hx. apply H4; [right; exact Hy|exact Hx].
Qed.

Lemma ordered_nth : forall c, sound c -> forall po i j x y,
  ordered c po -> nth_error po i = Some x -> nth_error po j = Some y -> anc c x y -> i < j.
Proof.
  intros c HS po; induction po as [|z r IH]; intros i j x y Ho Hi Hj Ha; [destruct i; discriminate|].
  destruct Ho as [Hz Ho]. destruct i as [|i], j as [|j]; cbn [nth_error] in Hi, Hj.
  - inv Hi. inv Hj. destruct (sound_anc_irrefl c HS _ Ha).
  - lia.
  - inv Hj. destruct (Hz x (nth_error_In _ _ Hi) Ha).
  - specialize (IH i j x y Ho Hi Hj Ha). lia.
Qed.

Lemma closed_anc : forall c D, closed c D -> forall x y, anc c x y -> D y = true -> D x = true.
Proof.
  intros c D HD x y H; induction H as [x a H|x q a H H' IH]; intros Dy.
  - apply (HD _ _ H Dy).
  - apply (HD _ _ H). apply IH; exact Dy.
Qed.

Lemma ordered_of_rm : forall D c po, closed c D -> (forall x, In x po -> D x = false) ->
  ordered (rm D c) po -> ordered c po.
Proof.
  intros D c po HD; induction po as [|y r IH]; intros Hout Ho; [exact I|].
  destruct Ho as [Hy Ho]. split.
  - intros x Hx Ha. apply (Hy x Hx). apply anc_rm; [exact HD|exact Ha|apply Hout; right; exact Hx].
  - apply IH; [intros x Hx; apply Hout; right; exact Hx|exact Ho].
Qed.

(* a occurs before b *)
Definition before (l : list name) (a b : name) : Prop := exists l1 l2 l3, l = l1 ++ a :: l2 ++ b :: l3.

Lemma before_app_l : forall l l' a b, before l a b -> before (l ++ l') a b.
Proof.
  intros l l' a b [l1 [l2 [l3 ->]]]. exists l1, l2, (l3 ++ l').
  repeat (rewrite <- app_assoc; cbn [app]). reflexivity.
Qed.

Lemma before_app_r : forall l l' a b, before l a b -> before (l' ++ l) a b.
Proof. intros l l' a b [l1 [l2 [l3 ->]]]. exists (l' ++ l1), l2, l3. rewrite <- app_assoc. reflexivity. Qed.

Lemma before_cross : forall l l' a b, In a l -> In b l' -> before (l ++ l') a b.
Proof.
  intros l l' a b Ha Hb. apply in_split in Ha. apply in_split in Hb.
  destruct Ha as [u [v ->]]. destruct Hb as [w [z ->]]. exists u, (v ++ w), z.
  repeat (rewrite <- app_assoc; cbn [app]). reflexivity.
Qed.

Lemma before_nil : forall a b, ~ before [] a b.
Proof. intros a b [l1 [l2 [l3 H]]]. destruct l1; discriminate. Qed.

Lemma before_cons_inv : forall z l a b, before (z :: l) a b -> (a = z /\ In b l) \/ before l a b.
Proof.
  intros z l a b [l1 [l2 [l3 H]]]. destruct l1 as [|y l1]; cbn [app] in H; inv H.
  - left. split; [reflexivity|]. apply in_or_app. right. left. reflexivity.
  - right. exists l1, l2, l3. reflexivity.
Qed.

Lemma before_nth : forall l a b, before l a b ->
  exists i j, i < j /\ nth_error l i = Some a /\ nth_error l j = Some b.
Proof.
  intros l a b [l1 [l2 [l3 ->]]]. exists (length l1), (length l1 + S (length l2)). split; [lia|]. split.
  - rewrite nth_error_app2, Nat.sub_diag by lia. reflexivity.
  - rewrite nth_error_app2 by lia. replace (length l1 + S (length l2) - length l1) with (S (length l2)) by lia.
    cbn [nth_error]. rewrite nth_error_app2, Nat.sub_diag by lia. reflexivity.
Qed.

Lemma before_total : forall l a b, In a l -> In b l -> a <> b -> before l a b \/ before l b a.
Proof.
  intros l a b Ha Hb Hne. apply in_split in Ha. destruct Ha as [u [v ->]].
  apply in_app_or in Hb. destruct Hb as [Hb|[Hb|Hb]]; [|congruence|].
  - right. apply in_split in Hb. destruct Hb as [u1 [u2 ->]]. exists u1, u2, v.
    repeat (rewrite <- app_assoc; cbn [app]). reflexivity.
  - left. apply in_split in Hb. destruct Hb as [v1 [v2 ->]]. exists u, v1, v2. reflexivity.
Qed.

(* the children of every popped state are popped in the order of its children list *)
Definition sib_ok (c : chart) (po : list name) : Prop :=
  forall p a b, In p po -> before (children_for c p) a b -> before po a b.

(* po lists exactly the subtrees of `roots`, once each, descendants first, siblings in the order of the children lists *)
Definition PO (c : chart) (roots po : list name) : Prop :=
  subtree_spec c roots (memb po) /\ NoDup po /\ ordered c po /\ sib_ok c po.

Definition trace_ok (f : nat) : Prop :=
  forall c n h, sound c -> fields_ok c -> has_state c n = true -> corank c h -> h n < f ->
    exists po, remove_state_trace f c n = (rm (memb (po ++ [n])) c, vals c [] (po ++ [n]), EOk)
               /\ PO c [n] (po ++ [n]).

Lemma trace_loop_spec : forall f, trace_ok f ->
  forall chs c h acc, sound c -> fields_ok c -> corank c h ->
    (forall ch, In ch chs -> has_state c ch = true /\ h ch < f) ->
    antichain c chs ->
    exists po, trace_loop f c acc chs = (rm (memb po) c, acc ++ vals c [] po, EOk) /\ PO c chs po /\
               (forall a b, before chs a b -> before po a b).
Proof.
  intros f IHf chs; induction chs as [|ch chs IH]; intros c h acc HS HF Hh Hst [Hnd Han].
  - exists []. split; [|split].
    + cbn [trace_loop vals]. rewrite rm_false by reflexivity. rewrite app_nil_r. reflexivity.
    + split; [|split; [constructor|split; [exact I|intros p a b []]]].
      intros x. split; [discriminate|intros [r [[] _]]].
    + intros a b H. destruct (before_nil _ _ H).
  - inv Hnd.
    destruct (Hst ch (or_introl eq_refl)) as [Hch Hlt].
    destruct (IHf c ch h HS HF Hch Hh Hlt) as [po1' [E1 [HD1 [Hnd1 [Ho1 Hsib1]]]]].
    remember (po1' ++ [ch]) as po1 eqn:Epo1.
    assert (Hcl : closed c (memb po1)) by (apply (subtree_closed c (memb po1) (fun r => In r [ch])); exact HD1).
    pose proof (rm_sound (memb po1) c HS HF Hcl) as HS2.
    assert (Hout : forall x, In x chs -> memb po1 x = false).
    { intros x Hx. destruct (memb po1 x) eqn:E; [|reflexivity]. exfalso.
      apply HD1 in E. destruct E as [r [[<-|[]] [->|Ha]]]; [auto|].
      apply (Han x ch); [right; exact Hx|left; reflexivity|exact Ha]. }
    destruct (IH (rm (memb po1) c) h (acc ++ vals c [] po1) HS2 (rm_fields_ok (memb po1) c HF)
                 (corank_rm (memb po1) c h Hh)) as [po2 [E2 [[HD2 [Hnd2 [Ho2 Hsib2]]] Hroots2]]].
    + intros x Hx. destruct (Hst x (or_intror Hx)) as [Hs1 Hs2].
      rewrite rm_has_state, (Hout x Hx), Hs1. split; [reflexivity|exact Hs2].
    + split; [assumption|]. intros x y Hx Hy Ha. apply rm_anc in Ha.
      apply (Han x y); [right; exact Hx|right; exact Hy|apply Ha].
    + assert (Hdisj : forall x, In x po2 -> mem x po1 = false).
      { intros x Hx. apply mem_In in Hx. change (memb po2 x = true) in Hx. apply HD2 in Hx.
        destruct Hx as [r [Hr [->|Ha]]]; [apply Hout; exact Hr|]. apply rm_anc in Ha. apply Ha. }
      assert (Hkids : forall p, In p po2 -> children_for (rm (memb po1) c) p = children_for c p).
      { intros p Hp. pose proof (Hdisj p Hp) as Dp. change (memb po1 p = false) in Dp.
        unfold children_for. rewrite rm_children. cbn [oin]. rewrite Dp.
        destruct (olookup (Some p) (c_children c)) as [l|] eqn:El; [|reflexivity]. cbn [option_map].
        apply filter_true. intros k Hk. apply negb_true_iff.
        destruct (memb po1 k) eqn:Dk; [exfalso|reflexivity].
        pose proof (sd_cp c HS _ _ _ El Hk) as Hkp.
        apply HD1 in Dk. destruct Dk as [r [[<-|[]] [->|Ha]]].
        - (* the child is ch itself: then ch is below a later root *)
          apply mem_In in Hp. change (memb po2 p = true) in Hp. apply HD2 in Hp.
          destruct Hp as [r [Hr [->|Ha]]].
          + apply (Han ch r); [left; reflexivity|right; exact Hr|apply anc_parent; exact Hkp].
          + apply rm_anc in Ha. destruct Ha as [Ha _].
            apply (Han ch r); [left; reflexivity|right; exact Hr|eapply anc_step; eauto].
        - (* the child is strictly below ch: then so is p, or p = ch *)
          destruct (anc_inv _ _ _ Ha) as [q [Hq Hor]]. rewrite Hkp in Hq. injection Hq as Hq. subst q.
          assert (memb po1 p = true); [|congruence].
          apply HD1. exists ch. split; [left; reflexivity|]. destruct Hor as [->|Hor]; auto. }
      exists (po1 ++ po2). split; [|split; [split; [|split; [|split]]|]].
      * cbn [trace_loop]. rewrite E1, E2. f_equal. f_equal.
        -- rewrite rm_rm. apply rm_ext. intros x. unfold memb. rewrite mem_app. reflexivity.
        -- rewrite vals_rm by exact Hdisj. rewrite vals_app, app_nil_r, <- app_assoc. reflexivity.
      * intros x. unfold memb. rewrite mem_app, orb_true_iff.
        change (mem x po1) with (memb po1 x). change (mem x po2) with (memb po2 x).
        rewrite (HD1 x), (HD2 x). split.
        -- intros [[r [[<-|[]] Hr]]|[r [Hr [->|Ha]]]].
           ++ exists ch. split; [left; reflexivity|exact Hr].
           ++ exists r. split; [right; exact Hr|left; reflexivity].
           ++ exists r. split; [right; exact Hr|right; apply (rm_anc _ _ _ _ Ha)].
        -- intros [r [[<-|Hr] Hx]].
           ++ left. exists ch. split; [left; reflexivity|exact Hx].
           ++ destruct (memb po1 x) eqn:Dx.
              ** left. apply HD1. exact Dx.
              ** right. exists r. split; [exact Hr|]. destruct Hx as [->|Ha]; [left; reflexivity|].
                 right. apply anc_rm; assumption.
      * apply NoDup_app_intro; [exact Hnd1|exact Hnd2|].
        intros x Hx1 Hx2. apply mem_In in Hx1. rewrite (Hdisj x Hx2) in Hx1. discriminate.
      * apply ordered_app. split; [exact Ho1|split].
        -- apply (ordered_of_rm (memb po1)); [exact Hcl|exact Hdisj|exact Ho2].
        -- intros y x Hy Hx Ha. apply mem_In in Hy.
           pose proof (closed_anc c (memb po1) Hcl x y Ha Hy) as Hx1.
           unfold memb in Hx1. rewrite (Hdisj x Hx) in Hx1. discriminate.
      * intros p a b Hp Hab. apply in_app_or in Hp. destruct Hp as [Hp|Hp].
        -- apply before_app_l. apply (Hsib1 p a b Hp Hab).
        -- apply before_app_r. apply (Hsib2 p a b Hp). rewrite (Hkids p Hp). exact Hab.
      * intros a b Hab. apply before_cons_inv in Hab. destruct Hab as [[-> Hb]|Hab].
        -- apply before_cross.
           ++ rewrite Epo1. apply in_or_app. right. left. reflexivity.
           ++ apply mem_In. change (memb po2 b = true). apply HD2. exists b. split; [exact Hb|left; reflexivity].
        -- apply before_app_r. apply Hroots2. exact Hab.
Qed.

Lemma remove_state_trace_ok : forall f, trace_ok f.
Proof.
  induction f as [|f IHf]; intros c n h HS HF Hn Hh Hlt; [lia|].
  rewrite remove_state_trace_S, Hn. cbn [negb].
  destruct (trace_loop_spec f IHf (children_for c n) c h [] HS HF Hh) as [po [E1 [[HD1 [Hnd1 [Ho1 Hsib1]]] Hroots1]]].
  - intros ch Hch. split.
    + unfold children_for in Hch. destruct (olookup (Some n) (c_children c)) as [l|] eqn:E; [|destruct Hch].
      apply (sound_child_state c HS _ _ _ E Hch).
    + specialize (Hh _ _ (sound_child_parent c HS _ _ Hch)). lia.
  - apply children_antichain; exact HS.
  - rewrite E1. cbn [app].
    assert (HD1' : forall x, memb po x = true <-> anc c x n).
    { intros x. rewrite (HD1 x), (anc_via_child c HS x n). reflexivity. }
    assert (Hcl : closed c (memb po))
      by (apply (subtree_closed c (memb po) (fun r => In r (children_for c n))); exact HD1).
    assert (Dn : memb po n = false).
    { destruct (memb po n) eqn:E; [|reflexivity]. apply HD1' in E. destruct (sound_anc_irrefl c HS n E). }
    rewrite remove_one_rm; [|apply rm_sound; assumption|rewrite rm_has_state, Dn, Hn; reflexivity].
    cbn [fst snd]. rewrite rm_states, Dn.
    destruct (proj1 (has_state_Some c n) Hn) as [s Hs]. rewrite Hs. cbn [option_map].
    exists po. split.
    + f_equal. f_equal.
      * rewrite rm_rm. apply rm_ext. intros x. unfold memb. rewrite mem_app. cbn [mem]. rewrite orb_false_r. reflexivity.
      * rewrite vals_app. cbn [vals app]. rewrite Hs, app_nil_r. f_equal. f_equal.
        rewrite clear_refs_clr, clr_clr. apply clr_ext. intros x. unfold memb. rewrite mem_app.
        cbn [mem]. rewrite orb_false_r. reflexivity.
    + split; [|split; [|split]].
      * intros x. unfold memb. rewrite mem_app, orb_true_iff. change (mem x po) with (memb po x).
        rewrite HD1'. cbn [mem]. rewrite orb_false_r, seqb_eq. split.
        -- intros [H|H]; exists n; (split; [left; reflexivity|auto]).
        -- intros [r [[<-|[]] [H|H]]]; auto.
      * apply NoDup_app_intro; [exact Hnd1|constructor; [intros []|constructor]|].
        intros x Hx [<-|[]]. apply mem_In in Hx. unfold memb in Dn. congruence.
      * apply ordered_app. split; [exact Ho1|split; [split; [intros x []|exact I]|]].
        intros y x Hy [<-|[]] Ha. apply mem_In in Hy. apply HD1' in Hy.
        apply (sound_anc_irrefl c HS n). eapply anc_trans; eauto.
      * intros p a b Hp Hab. apply before_app_l. apply in_app_or in Hp. destruct Hp as [Hp|[<-|[]]].
        -- apply (Hsib1 p a b Hp Hab).
        -- apply Hroots1. exact Hab.
Qed.

(* the removed objects of remove_state c n on a sound chart: values and pop order *)
Theorem removed_objects_spec : forall c n, sound c -> fields_ok c -> has_state c n = true ->
  exists po, removed_objects c n = vals c [] (po ++ [n]) /\ PO c [n] (po ++ [n]).
Proof.
  intros c n HS HF Hn. unfold removed_objects.
  destruct (remove_state_trace_ok (S (length (c_states c))) c n (fun x => length (descendants_for c x))
              HS HF Hn (descendants_corank c HS)) as [po [E HPO]].
  - pose proof (descendants_length c HS n). lia.
  - exists po. rewrite E. split; [reflexivity|exact HPO].
Qed.

(* ================================================================== 3. names, order and values of the removed objects *)

Lemma nth_error_firstn_In : forall {A} (l : list A) j m k, nth_error l j = Some k -> j < m -> In k (firstn m l).
Proof.
  intros A l; induction l as [|a l IH]; intros j m k Hj Hlt; [destruct j; discriminate|].
  destruct m as [|m]; [lia|]. destruct j as [|j]; cbn [nth_error firstn] in *.
  - inv Hj. left; reflexivity.
  - right. apply (IH j); [exact Hj|lia].
Qed.

Lemma In_firstn_nth : forall {A} (l : list A) m k, In k (firstn m l) -> exists j, j < m /\ nth_error l j = Some k.
Proof.
  intros A l; induction l as [|a l IH]; intros m k Hin; [rewrite firstn_nil in Hin; destruct Hin|].
  destruct m as [|m]; [destruct Hin|]. cbn [firstn] in Hin. destruct Hin as [<-|Hin].
  - exists 0. split; [lia|reflexivity].
  - destruct (IH m k Hin) as [j [Hj Hn]]. exists (S j). split; [lia|exact Hn].
Qed.

Lemma firstn_S_nth : forall {A} (l : list A) i x, nth_error l i = Some x -> firstn (S i) l = firstn i l ++ [x].
Proof.
  intros A l; induction l as [|a l IH]; intros i x Hi; [destruct i; discriminate|].
  destruct i as [|i]; cbn [nth_error] in Hi.
  - inv Hi. reflexivity.
  - change (firstn (S (S i)) (a :: l)) with (a :: firstn (S i) l). rewrite (IH i x Hi). reflexivity.
Qed.

(* the pop order, as a list of names *)
Lemma removed_objects_po : forall c n, sound c -> fields_ok c -> has_state c n = true ->
  exists po, removed_objects c n = vals c [] (po ++ [n]) /\
             map s_name (removed_objects c n) = po ++ [n] /\
             PO c [n] (po ++ [n]) /\
             (forall x, In x (po ++ [n]) <-> x = n \/ anc c x n) /\
             (forall x, In x (po ++ [n]) -> has_state c x = true).
Proof.
  intros c n HS HF Hn. destruct (removed_objects_spec c n HS HF Hn) as [po [E HPO]].
  assert (Hin : forall x, In x (po ++ [n]) <-> x = n \/ anc c x n).
  { intros x. destruct HPO as [HD _]. rewrite <- mem_In. change (mem x (po ++ [n])) with (memb (po ++ [n]) x).
    rewrite (HD x). split; [intros [r [[<-|[]] H]]; exact H|intros H; exists n; split; [left; reflexivity|exact H]]. }
  assert (Hst : forall x, In x (po ++ [n]) -> has_state c x = true).
  { intros x Hx. apply Hin in Hx. destruct Hx as [->|Ha]; [exact Hn|eapply anc_has_state; eauto]. }
  exists po. split; [exact E|]. split; [|split; [exact HPO|split; assumption]].
  rewrite E. apply vals_names; assumption.
Qed.

(* Goal 2: the removed objects are n and its descendants, once each, every state after all its descendants, n last *)
Theorem removed_objects_names : forall c n, sound c -> fields_ok c -> has_state c n = true ->
  let names := map s_name (removed_objects c n) in
  Permutation names (n :: descendants_for c n) /\
  NoDup names /\
  (exists l, names = l ++ [n]) /\
  (forall i j x y, nth_error names i = Some x -> nth_error names j = Some y ->
     In x (descendants_for c y) -> i < j).
Proof.
  intros c n HS HF Hn names. subst names.
  destruct (removed_objects_po c n HS HF Hn) as [po [_ [-> [[_ [Hnd [Ho _]]] [Hin _]]]]].
  split; [|split; [exact Hnd|split; [exists po; reflexivity|]]].
  - apply NoDup_Permutation; [exact Hnd| |].
    + constructor; [|apply descendants_NoDup; exact HS].
      rewrite (descendants_for_spec c HS). apply sound_anc_irrefl; exact HS.
    + intros x. rewrite Hin. cbn [In]. rewrite (descendants_for_spec c HS). split; intros [H|H]; auto.
  - intros i j x y Hi Hj Hd. apply (descendants_for_spec c HS) in Hd.
    apply (ordered_nth c HS (po ++ [n]) i j x y Ho Hi Hj Hd).
Qed.

Corollary removed_objects_length : forall c n, sound c -> fields_ok c -> has_state c n = true ->
  length (removed_objects c n) = S (length (descendants_for c n)).
Proof.
  intros c n HS HF Hn. destruct (removed_objects_names c n HS HF Hn) as [Hp _].
  apply Permutation_length in Hp. rewrite map_length in Hp. exact Hp.
Qed.

(* Goal 3: the value of each removed object: its original record, with initial / memory reset iff they name a state
   popped no later than itself (position in the pop order) *)
Theorem removed_objects_values : forall c n, sound c -> fields_ok c -> has_state c n = true ->
  let L := removed_objects c n in
  let names := map s_name L in
  forall i x, nth_error names i = Some x ->
    exists s, lookup x (c_states c) = Some s /\
      nth_error L i = Some (reset_refs (fun y => mem y (firstn (S i) names)) s).
Proof.
  intros c n HS HF Hn L names i x Hi. subst L names.
  destruct (removed_objects_po c n HS HF Hn) as [po [E [En [_ [_ Hst]]]]].
  rewrite En in *. assert (Hx : In x (po ++ [n])) by (eapply nth_error_In; eauto).
  destruct (proj1 (has_state_Some c x) (Hst x Hx)) as [s Hs]. exists s. split; [exact Hs|].
  rewrite E. rewrite (vals_nth c (po ++ [n]) [] i x s Hst Hi Hs). cbn [app]. f_equal.
  destruct (HF x s Hs) as [F1 F2]. apply clr_reset; assumption.
Qed.

(* a state's own name is never its initial (given no state is called "") nor its memory *)
Lemma sound_not_self_ref : forall c x s, sound c -> fields_ok c -> lookup x (c_states c) = Some s ->
  (x <> "" -> s_initial s <> Some x) /\ s_memory s <> Some x.
Proof.
  intros c x s HS HF Hs. destruct (HF x s Hs) as [F1 F2]. split.
  - intros Hne E. destruct (sd_vinit c HS x s x Hs (F1 x E)) as [_ Hch].
    + rewrite E. apply truthy_nonempty; exact Hne.
    + apply (sound_anc_irrefl c HS x). apply anc_parent. apply sound_child_parent; assumption.
  - intros E. destruct (sd_vmem c HS x s x Hs (F2 x E) E) as [H _]. apply H; reflexivity.
Qed.

Lemma reset_refs_self : forall pre x s, s_initial s <> Some x -> s_memory s <> Some x ->
  reset_refs (fun y => mem y (pre ++ [x])) s = reset_refs (fun y => mem y pre) s.
Proof.
  intros pre x s Hi Hm. unfold reset_refs. f_equal.
  - destruct (s_initial s) as [k|]; [|reflexivity]. cbn [oin]. rewrite mem_app. cbn [mem].
    destruct (seqbP k x) as [->|_]; [congruence|]. rewrite !orb_false_r. reflexivity.
  - destruct (s_memory s) as [k|]; [|reflexivity]. cbn [oin]. rewrite mem_app. cbn [mem].
    destruct (seqbP k x) as [->|_]; [congruence|]. rewrite !orb_false_r. reflexivity.
Qed.

(* the same with "popped strictly before": needs that no state is called "" (a compound state "" whose initial is
   "" passes validate(), and loses that initial when it is popped itself) *)
Theorem removed_objects_values_before : forall c n,
  sound c -> fields_ok c -> no_empty_name c -> has_state c n = true ->
  let L := removed_objects c n in
  let names := map s_name L in
  forall i x, nth_error names i = Some x ->
    exists s, lookup x (c_states c) = Some s /\
      nth_error L i = Some (reset_refs (fun y => mem y (firstn i names)) s).
Proof.
  intros c n HS HF Hne Hn L names i x Hi.
  destruct (removed_objects_values c n HS HF Hn i x Hi) as [s [Hs Hv]]. exists s. split; [exact Hs|].
  fold L in Hv. fold names in Hv. rewrite Hv. f_equal.
  rewrite (firstn_S_nth names i x Hi).
  destruct (sound_not_self_ref c x s HS HF Hs) as [H1 H2]. apply reset_refs_self; [|exact H2].
  apply H1. intros ->. unfold no_empty_name in Hne.
  assert (has_state c "" = true) by (apply has_state_Some; eauto). congruence.
Qed.

(* (a) every removed object is the registered object of its name, up to initial / memory, which are kept or reset *)
Theorem removed_objects_fields : forall c n, sound c -> fields_ok c -> has_state c n = true ->
  forall v, In v (removed_objects c n) ->
    exists s, lookup (s_name v) (c_states c) = Some s /\
      s_name v = s_name s /\ s_kind v = s_kind s /\
      s_on_entry v = s_on_entry s /\ s_on_exit v = s_on_exit s /\
      s_pre v = s_pre s /\ s_post v = s_post s /\ s_inv v = s_inv s /\
      (s_initial v = None \/ s_initial v = s_initial s) /\
      (s_memory v = None \/ s_memory v = s_memory s).
Proof.
  intros c n HS HF Hn v Hv. apply In_nth_error in Hv. destruct Hv as [i Hi].
  assert (Hni : nth_error (map s_name (removed_objects c n)) i = Some (s_name v))
    by (rewrite nth_error_map, Hi; reflexivity).
  destruct (removed_objects_values c n HS HF Hn i (s_name v) Hni) as [s [Hs Hv]].
  rewrite Hi in Hv. inv Hv. exists s. cbn [reset_refs s_name s_kind s_on_entry s_on_exit s_pre s_post s_inv s_initial s_memory] in *.
  split; [exact Hs|]. repeat (split; [reflexivity|]).
  split; match goal with |- context [if ?b then _ else _] => destruct b end; auto.
Qed.

(* (b) initial: kept or reset; reset exactly when it names a state popped no later; always reset when it names a
   child (the children are popped first) *)
Theorem removed_objects_initial : forall c n, sound c -> fields_ok c -> has_state c n = true ->
  let L := removed_objects c n in
  let names := map s_name L in
  forall i x s v, nth_error names i = Some x -> lookup x (c_states c) = Some s -> nth_error L i = Some v ->
    (s_initial v = None \/ s_initial v = s_initial s) /\
    (forall k, s_initial s = Some k ->
       (s_initial v = None <-> exists j, j <= i /\ nth_error names j = Some k) /\
       (In k (children_for c x) -> s_initial v = None)).
Proof.
  intros c n HS HF Hn L names i x s v Hi Hs Hv.
  destruct (removed_objects_values c n HS HF Hn i x Hi) as [s' [Hs' Hv']].
  rewrite Hs in Hs'. inv Hs'. fold L in Hv'. fold names in Hv'. rewrite Hv in Hv'.
  set (pre := firstn (S i) names) in Hv'.
  assert (Hpre : forall k, mem k pre = true <-> exists j, j <= i /\ nth_error names j = Some k).
  { intros k. unfold pre. rewrite mem_In. split.
    - intros H. destruct (In_firstn_nth _ _ _ H) as [j [Hj Hn']]. exists j. split; [lia|exact Hn'].
    - intros [j [Hj Hn']]. apply (nth_error_firstn_In names j); [exact Hn'|lia]. }
  clearbody pre. inv Hv'.
  cbn [reset_refs s_initial]. split.
  - destruct (oin _ (s_initial s')); auto.
  - intros k Hk. rewrite Hk. cbn [oin]. pose proof (Hpre k) as Hiff.
    split.
    + rewrite <- Hiff. destruct (mem k pre); split; congruence.
    + intros Hch. assert (Ha : anc c k x) by (apply anc_parent; apply sound_child_parent; assumption).
      destruct (removed_objects_po c n HS HF Hn) as [po [_ [En [[_ [_ [Ho _]]] [Hin _]]]]].
      assert (Hkin : In k names).
      { unfold names, L. rewrite En. apply Hin. right.
        assert (Hx : In x (po ++ [n])) by (rewrite <- En; eapply nth_error_In; eauto).
        apply Hin in Hx. destruct Hx as [->|Hx]; [exact Ha|eapply anc_trans; eauto]. }
      apply In_nth_error in Hkin. destruct Hkin as [j Hj].
      assert (Hlt : j < i).
      { unfold names, L in Hj, Hi. rewrite En in Hj, Hi. apply (ordered_nth c HS (po ++ [n]) j i k x Ho Hj Hi Ha). }
      assert (Hm : mem k pre = true) by (apply Hiff; exists j; split; [lia|exact Hj]).
      rewrite Hm. reflexivity.
Qed.

(* under the invariant of the API every removed object is left without initial *)
Corollary removed_objects_initial_None : forall c n, einv c -> has_state c n = true ->
  forall v, In v (removed_objects c n) -> s_initial v = None.
Proof.
  intros c n [HS [Hne HF]] Hn v Hv. apply In_nth_error in Hv. destruct Hv as [i Hi].
  assert (Hni : nth_error (map s_name (removed_objects c n)) i = Some (s_name v))
    by (rewrite nth_error_map, Hi; reflexivity).
  destruct (removed_objects_values c n HS HF Hn i (s_name v) Hni) as [s [Hs _]].
  destruct (removed_objects_initial c n HS HF Hn i (s_name v) s v Hni Hs Hi) as [Hor Hk].
  destruct (s_initial s) as [k|] eqn:Ek; [|destruct Hor; congruence].
  apply (Hk k eq_refl). destruct (HF _ _ Hs) as [F1 _].
  assert (k <> "").
  { intros ->. destruct (sd_refs c HS _ _ Hs) as [R _]. specialize (R _ Ek). unfold no_empty_name in Hne. congruence. }
  apply (sd_vinit c HS (s_name v) s k Hs (F1 k Ek)). rewrite Ek. apply truthy_nonempty; assumption.
Qed.

(* (c) memory: kept or reset; reset exactly when it names a state popped strictly before *)
Theorem removed_objects_memory : forall c n, sound c -> fields_ok c -> has_state c n = true ->
  let L := removed_objects c n in
  let names := map s_name L in
  forall i x s v, nth_error names i = Some x -> lookup x (c_states c) = Some s -> nth_error L i = Some v ->
    (s_memory v = None \/ s_memory v = s_memory s) /\
    (forall m, s_memory s = Some m ->
       (s_memory v = None <-> exists j, j < i /\ nth_error names j = Some m)).
Proof.
  intros c n HS HF Hn L names i x s v Hi Hs Hv.
  destruct (removed_objects_values c n HS HF Hn i x Hi) as [s' [Hs' Hv']].
  rewrite Hs in Hs'. inv Hs'. fold L in Hv'. fold names in Hv'. rewrite Hv in Hv'.
  set (pre := firstn (S i) names) in Hv'.
  assert (Hpre : forall m, m <> x -> mem m pre = true <-> exists j, j < i /\ nth_error names j = Some m).
  { intros m Hmx. unfold pre. rewrite mem_In. split.
    - intros H. destruct (In_firstn_nth _ _ _ H) as [j [Hj Hn']]. exists j. split; [|exact Hn'].
      assert (j <> i) by (intros ->; congruence). lia.
    - intros [j [Hj Hn']]. apply (nth_error_firstn_In names j); [exact Hn'|lia]. }
  clearbody pre. inv Hv'.
  cbn [reset_refs s_memory]. split.
  - destruct (oin _ (s_memory s')); auto.
  - intros m Hm. rewrite Hm. cbn [oin].
    assert (Hmx : m <> x).
    { intros ->. destruct (sound_not_self_ref c x s' HS HF Hs) as [_ H]. congruence. }
    rewrite <- (Hpre m Hmx). destruct (mem m pre); split; congruence.
Qed.

(* the state the call was made for is popped last and keeps its memory (its siblings stay) *)
Theorem removed_objects_root : forall c n s, sound c -> fields_ok c -> lookup n (c_states c) = Some s ->
  exists l v, removed_objects c n = l ++ [v] /\ s_name v = n /\ s_memory v = s_memory s.
Proof.
  intros c n s HS HF Hs. assert (Hn : has_state c n = true) by (apply has_state_Some; eauto).
  destruct (removed_objects_po c n HS HF Hn) as [po [E [En [[_ [Hnd _]] [Hin _]]]]].
  pose proof (f_equal (@length _) En) as Hlen. rewrite map_length, app_length in Hlen. cbn [length] in Hlen.
  assert (Hi : nth_error (map s_name (removed_objects c n)) (length po) = Some n).
  { rewrite En, nth_error_app2, Nat.sub_diag by lia. reflexivity. }
  destruct (removed_objects_values c n HS HF Hn (length po) n Hi) as [s' [Hs' Hv]].
  rewrite Hs in Hs'. inv Hs'.
  destruct (nth_error_split _ _ Hv) as [l1 [l2 [El Hl1]]].
  assert (l2 = []).
  { pose proof (f_equal (@length _) El) as H. rewrite app_length in H. cbn [length] in H.
    destruct l2; [reflexivity|cbn [length] in H; lia]. }
  subst l2. exists l1. eexists. split; [exact El|]. cbn [reset_refs s_name s_memory].
  split; [apply (sd_keyname c HS _ _ Hs)|].
  destruct (s_memory s') as [m|] eqn:Em; [|reflexivity]. cbn [oin].
  destruct (mem m (firstn (S (length po)) (map s_name (removed_objects c n)))) eqn:Hm; [exfalso|reflexivity].
  apply mem_In in Hm. apply In_firstn_nth in Hm. destruct Hm as [j [_ Hj]]. apply nth_error_In in Hj.
  rewrite En in Hj. apply Hin in Hj.
  destruct (HF _ _ Hs) as [_ F2].
  destruct (sd_vmem c HS n s' m Hs (F2 m Em) Em) as [Hmn [_ [p [Hp Hch]]]].
  destruct Hj as [->|Ha]; [congruence|].
  pose proof (sound_child_parent c HS _ _ Hch) as Hpm.
  assert (Hpn : lookup n (c_parent c) = Some (Some p)).
  { unfold parent_for in Hp. destruct (lookup n (c_parent c)) as [q|]; [congruence|discriminate]. }
  destruct (anc_inv _ _ _ Ha) as [q [Hq Hor]]. rewrite Hpm in Hq. inv Hq.
  apply (sound_anc_irrefl c HS n). destruct Hor as [->|Hor].
  - apply anc_parent; exact Hpn.
  - eapply anc_step; eauto.
Qed.

(* ------------------------------------------------------------------ siblings: the order of the children lists *)

Lemma NoDup_nth_error_inj : forall {A} (l : list A) i j x,
  NoDup l -> nth_error l i = Some x -> nth_error l j = Some x -> i = j.
Proof.
  intros A l i j x Hnd Hi Hj. apply (proj1 (NoDup_nth_error l) Hnd).
  - apply nth_error_Some. congruence.
  - congruence.
Qed.

(* the children of a popped state are popped in the order of its children list *)
Theorem removed_objects_sibling_order : forall c n, sound c -> fields_ok c -> has_state c n = true ->
  let names := map s_name (removed_objects c n) in
  forall p a b, In p names -> before (children_for c p) a b ->
    exists i j, i < j /\ nth_error names i = Some a /\ nth_error names j = Some b.
Proof.
  intros c n HS HF Hn names p a b Hp Hab. subst names.
  destruct (removed_objects_po c n HS HF Hn) as [po [_ [En [[_ [_ [_ Hsib]]] _]]]].
  rewrite En in *. apply before_nth. apply (Hsib p a b Hp Hab).
Qed.

(* (c), in terms of the chart: a removed history state other than n loses its memory iff the remembered sibling
   precedes it in the children list of their parent, and keeps it iff the sibling follows *)
Theorem removed_objects_memory_siblings : forall c n, sound c -> fields_ok c -> has_state c n = true ->
  let L := removed_objects c n in
  let names := map s_name L in
  forall i x s v m, nth_error names i = Some x -> x <> n -> lookup x (c_states c) = Some s ->
    nth_error L i = Some v -> s_memory s = Some m ->
    exists p, parent_for c x = Some p /\ In p names /\
      (s_memory v = None <-> before (children_for c p) m x) /\
      (s_memory v = Some m <-> before (children_for c p) x m).
Proof.
  intros c n HS HF Hn L names i x s v m Hi Hxn Hs Hv Hm.
  destruct (HF _ _ Hs) as [_ F2].
  destruct (sd_vmem c HS x s m Hs (F2 m Hm) Hm) as [Hmx [_ [p [Hp Hmch]]]].
  assert (Hpx : lookup x (c_parent c) = Some (Some p)).
  { unfold parent_for in Hp. destruct (lookup x (c_parent c)) as [q|]; [congruence|discriminate]. }
  pose proof (sound_parent_child c HS _ _ Hpx) as Hxch.
  destruct (removed_objects_po c n HS HF Hn) as [po [_ [En [[_ [Hnd _]] [Hin _]]]]].
  fold L in En. fold names in En.
  assert (Hpin : In p names).
  { rewrite En. apply Hin. assert (Hx : In x (po ++ [n])) by (rewrite <- En; eapply nth_error_In; eauto).
    apply Hin in Hx. destruct Hx as [->|Ha]; [congruence|].
    destruct (anc_inv _ _ _ Ha) as [q [Hq Hor]]. rewrite Hpx in Hq. injection Hq as <-. exact Hor. }
  assert (Hndn : NoDup names) by (rewrite En; exact Hnd).
  destruct (removed_objects_memory c n HS HF Hn i x s v Hi Hs Hv) as [Hor Hiff]. specialize (Hiff m Hm).
  fold L in Hiff. fold names in Hiff.
  assert (Hpos : forall a b, before (children_for c p) a b ->
            exists i' j', i' < j' /\ nth_error names i' = Some a /\ nth_error names j' = Some b)
    by (intros a b Hab; apply (removed_objects_sibling_order c n HS HF Hn p a b Hpin Hab)).
  assert (H1 : before (children_for c p) m x -> s_memory v = None).
  { intros Hb. apply Hiff. destruct (Hpos _ _ Hb) as [i' [j' [Hlt [Hi' Hj']]]].
    rewrite (NoDup_nth_error_inj names i j' x Hndn Hi Hj'). exists i'. split; assumption. }
  assert (H2 : before (children_for c p) x m -> s_memory v = Some m).
  { intros Hb. destruct Hor as [Hnone|Hkeep]; [exfalso|congruence].
    apply Hiff in Hnone. destruct Hnone as [j [Hlt Hj]].
    destruct (Hpos _ _ Hb) as [i' [j' [Hlt' [Hi' Hj']]]].
    rewrite (NoDup_nth_error_inj names i' i x Hndn Hi' Hi) in Hlt'.
    rewrite (NoDup_nth_error_inj names j' j m Hndn Hj' Hj) in Hlt'. lia. }
  exists p. split; [exact Hp|]. split; [exact Hpin|]. split; (split; [|auto]).
  - intros Hnone. destruct (before_total _ m x Hmch Hxch Hmx) as [Hb|Hb]; [exact Hb|].
    rewrite (H2 Hb) in Hnone. discriminate.
  - intros Hkeep. destruct (before_total _ m x Hmch Hxch Hmx) as [Hb|Hb]; [|exact Hb].
    rewrite (H1 Hb) in Hkeep. discriminate.
Qed.

(* ================================================================== 5. non-vacuity *)

(* top > P{a, h}, P.initial = a, h a shallow history state whose memory is the sibling a; the two charts differ only in
   the order of the children of P *)
Definition ex_kids (kids : list name) : chart :=
  mkChart "t" None None
    [("top", stx "top" KCompound (Some "P") None); ("P", stx "P" KCompound (Some "a") None);
     ("a", stx "a" KBasic None None); ("h", stx "h" KShallow None (Some "a"))]
    [("top", None); ("P", Some "top"); ("a", Some "P"); ("h", Some "P")]
    [(None, ["top"]); (Some "top", ["P"]); (Some "P", kids); (Some "a", []); (Some "h", [])]
    [trx "a" (Some "h") "back"].
Definition ex_a_first : chart := ex_kids ["a"; "h"].
Definition ex_h_first : chart := ex_kids ["h"; "a"].

Example ex_a_first_einv : einv ex_a_first.
Proof.
  split; [|split].
  - apply sound_b_sound; vm_compute; reflexivity.
  - vm_compute; reflexivity.
  - apply fields_ok_b_sound. vm_compute; reflexivity.
Qed.

Example ex_h_first_einv : einv ex_h_first.
Proof.
  split; [|split].
  - apply sound_b_sound; vm_compute; reflexivity.
  - vm_compute; reflexivity.
  - apply fields_ok_b_sound. vm_compute; reflexivity.
Qed.

(* a is popped before h: h has lost its memory; P has lost its initial *)
Example ex_removed_a_first :
  removed_objects ex_a_first "P" =
  [stx "a" KBasic None None; stx "h" KShallow None None; stx "P" KCompound None None].
Proof. vm_compute. reflexivity. Qed.

(* h is popped before a: h still remembers a; P has lost its initial *)
Example ex_removed_h_first :
  removed_objects ex_h_first "P" =
  [stx "h" KShallow None (Some "a"); stx "a" KBasic None None; stx "P" KCompound None None].
Proof. vm_compute. reflexivity. Qed.

(* the state the call is made for keeps its memory *)
Example ex_removed_h_only :
  removed_objects ex_a_first "h" = [stx "h" KShallow None (Some "a")]
  /\ removed_objects ex_a_first "a" = [stx "a" KBasic None None].
Proof. vm_compute. split; reflexivity. Qed.

(* the trace version and remove_state agree on these (Goal 1 instantiated) *)
Example ex_trace_chart :
  fst (fst (remove_state_trace 5 ex_a_first "P")) = fst (remove_state ex_a_first "P")
  /\ c_states (fst (remove_state ex_a_first "P")) = [("top", stx "top" KCompound None None)].
Proof. vm_compute. split; reflexivity. Qed.

(* the theorems instantiated on the example (hypotheses satisfiable) *)
Example ex_names_instance :
  Permutation (map s_name (removed_objects ex_a_first "P")) ("P" :: descendants_for ex_a_first "P").
Proof.
  destruct ex_a_first_einv as [HS [_ HF]].
  apply (removed_objects_names ex_a_first "P" HS HF eq_refl).
Qed.

(* bit 32 of the correspondence check: the removed objects are compared with removed_objects *)
Example ex_check_ecase :
  check_ecase (mkECase ex_a_first (ERemoveState "P") EOk (fst (remove_state ex_a_first "P"))
                 [stx "P" KCompound None None; stx "a" KBasic None None; stx "h" KShallow None None] []) = 0%N
  /\ check_ecase (mkECase ex_a_first (ERemoveState "P") EOk (fst (remove_state ex_a_first "P"))
                 [stx "P" KCompound None None; stx "a" KBasic None None; stx "h" KShallow None (Some "a")] []) = 32%N.
Proof. vm_compute. split; reflexivity. Qed.

(* the side condition on the example: op_ok_b accepts a history state whose memory is a child of the parent and rejects
   an initial *)
Example ex_op_ok_b :
  EditCorr.op_ok_b ex_a_first (EAddState (stx "h2" KDeep None (Some "a")) (Some "P")) = true
  /\ EditCorr.op_ok_b ex_a_first (EAddState (stx "Q" KCompound (Some "a") None) (Some "P")) = false
  /\ EditCorr.op_ok_b ex_a_first (ERenameState "a" "") = false.
Proof. vm_compute. repeat split; reflexivity. Qed.

(* ------------------------------------------------------------------ why `popped strictly before` needs no_empty_name *)
Definition ex_empty_name : chart :=
  mkChart "o" None None [("", stx "" KCompound (Some "") None)] [("", None)] [(None, [""]); (Some "", [])] [].

Lemma ex_empty_name_sound : sound ex_empty_name.
Proof.
  assert (Hl : forall V (v : V) k, lookup k [("", v)] = if str_eqb k "" then Some v else None) by reflexivity.
  assert (Hhs : forall k, has_state ex_empty_name k = str_eqb k "").
  { intros k. unfold has_state, ex_empty_name. cbn [c_states]. rewrite Hl. destruct (str_eqb k ""); reflexivity. }
  assert (Hch : forall k, olookup k (c_children ex_empty_name) =
                          match k with None => Some [""] | Some q => if str_eqb q "" then Some [] else None end).
  { intros [q|]; reflexivity. }
  constructor; unfold ex_empty_name at 1; cbn [c_states c_parent c_children c_transitions map fst].
  - repeat constructor; simpl; tauto.
  - repeat constructor; simpl; tauto.
  - repeat constructor; simpl; intuition discriminate.
  - intros k s. rewrite Hl. destruct (seqbP k "") as [->|]; intros H; inv H. reflexivity.
  - intros k. rewrite Hl, Hhs. destruct (str_eqb k ""); split; congruence.
  - intros k. rewrite Hch, Hhs. destruct (str_eqb k ""); split; congruence.
  - rewrite Hch. discriminate.
  - intros k p. rewrite Hl. destruct (seqbP k "") as [->|]; intros H; inv H.
    split; [discriminate|]. exists [""]. split; reflexivity.
  - intros k l ch. rewrite Hch. destruct k as [q|].
    + destruct (str_eqb q ""); intros H; inv H. intros [].
    + intros H; inv H. intros [<-|[]]. reflexivity.
  - intros l. rewrite Hch. intros H; inv H. simpl; lia.
  - exists (fun _ => 0). intros k q. unfold ex_empty_name. cbn [c_parent]. rewrite Hl.
    destruct (str_eqb k ""); discriminate.
  - intros t [].
  - intros k s. rewrite Hl. destruct (seqbP k "") as [->|]; intros H; inv H.
    split; [|discriminate]. intros i H. inv H. reflexivity.
  - intros k s i. rewrite Hl. destruct (seqbP k "") as [->|]; intros H; inv H. discriminate.
  - intros k s m. rewrite Hl. destruct (seqbP k "") as [->|]; intros H; inv H. discriminate.
Qed.

Theorem removed_objects_values_before_refuted :
  exists c n, sound c /\ fields_ok c /\ has_state c n = true /\
    ~ (forall i x, nth_error (map s_name (removed_objects c n)) i = Some x ->
         exists s, lookup x (c_states c) = Some s /\
           nth_error (removed_objects c n) i =
           Some (reset_refs (fun y => mem y (firstn i (map s_name (removed_objects c n)))) s)).
Proof.
  exists ex_empty_name, "". split; [exact ex_empty_name_sound|].
  split; [apply fields_ok_b_sound; vm_compute; reflexivity|]. split; [reflexivity|].
  intros H. destruct (H 0 "" eq_refl) as [s [Hs Hv]]. vm_compute in Hs. inv Hs. vm_compute in Hv. discriminate.
Qed.

Print Assumptions remove_state_trace_chart.
Print Assumptions op_ok_b_iff.
Print Assumptions removed_objects_spec.
Print Assumptions removed_objects_names.
Print Assumptions removed_objects_values.
Print Assumptions removed_objects_values_before.
Print Assumptions removed_objects_fields.
Print Assumptions removed_objects_initial.
Print Assumptions removed_objects_initial_None.
Print Assumptions removed_objects_memory.
Print Assumptions removed_objects_root.
Print Assumptions removed_objects_sibling_order.
Print Assumptions removed_objects_memory_siblings.
Print Assumptions removed_objects_values_before_refuted.
Print Assumptions ex_removed_a_first.
Print Assumptions ex_removed_h_first.
