(* ClockProofs.v -- lemmas about the SimulatedClock model (property C14). *)
From Coq Require Import QArith List Bool Lqa Sorted.
From Sismic Require Import Clock.
Import ListNotations.
Open Scope Q_scope.

(* What a read of the clock returns when the wall clock shows w. *)
Definition reading (c : clock) (w : Q) : Q :=
  c_time c + (if c_play c then (w - c_base c) * c_speed c else 0).

(* The wall-clock stream handed to the model is non-decreasing and starts at or after lw. *)
Inductive wall_ok : Q -> list Q -> Prop :=
| wall_nil : forall lw, wall_ok lw []
| wall_cons : forall lw w ws, lw <= w -> wall_ok w ws -> wall_ok lw (w :: ws).

Definition op_ok (op : cop) : Prop :=
  match op with OpSetSpeed v => 0 <= v | _ => True end.

(* Invariant: lw = last wall value seen, lv = largest reading produced so far. *)
Definition Inv (c : clock) (lw lv : Q) : Prop :=
  0 <= c_speed c /\ (c_play c = true -> c_base c <= lw) /\
  forall w, lw <= w -> lv <= reading c w.

Lemma wall_ok_weaken lw lw' ws : lw' <= lw -> wall_ok lw ws -> wall_ok lw' ws.
Proof.
  intros H W. inversion W; subst; constructor; auto. lra.
Qed.

Lemma elapsed_spec c ws e ws' :
  elapsed c ws = Some (e, ws') ->
  (c_play c = false /\ e = 0 /\ ws' = ws) \/
  (c_play c = true /\ exists w, ws = w :: ws' /\ e = (w - c_base c) * c_speed c).
Proof.
  unfold elapsed. destruct (c_play c).
  - destruct ws as [|w ws0]; [discriminate|]. intros H; inversion H; subst.
    right; split; auto. exists w; auto.
  - intros H; inversion H; subst. left; auto.
Qed.

Ltac fin := repeat split; auto; try lra; try discriminate; try congruence; try (intros; congruence); try (intros; discriminate); try (intros; lra).

Definition starved (r : cres) : bool := match r with RStarved => true | _ => false end.

(* One-step preservation: the heart of C14_monotonic. *)
Lemma step_inv c op ws c' r ws' lw lv :
  Inv c lw lv -> wall_ok lw ws -> op_ok op ->
  clock_step c op ws = (c', r, ws') -> starved r = false ->
  exists lw' lv', Inv c' lw' lv' /\ wall_ok lw' ws' /\ lw <= lw' /\ lv <= lv' /\
                  (forall v, r = RVal v -> lv <= v /\ lv' == v).
Proof.
  intros (Hs & Hb & Hr) W Hop Hstep Hns.
  destruct op; cbn [clock_step] in Hstep.
  - (* start *)
    destruct (c_play c) eqn:P.
    + inversion Hstep; subst. exists lw, lv. fin.
    + destruct ws as [|w ws0]; inversion Hstep; subst; [discriminate|].
      inversion W; subst.
      exists w, lv. split; [|fin].
      unfold Inv, reading; cbn. repeat split; auto; try lra.
      intros w1 Hw1. specialize (Hr w ltac:(assumption)). unfold reading in Hr. rewrite P in Hr.
      nra.
  - (* stop *)
    destruct (c_play c) eqn:P.
    + destruct (elapsed c ws) as [[e ws1]|] eqn:E; [|inversion Hstep; subst; discriminate].
      inversion Hstep; subst.
      apply elapsed_spec in E. destruct E as [(P' & _)|(_ & w & -> & ->)]; [congruence|].
      inversion W; subst.
      exists w, lv. split; [|fin].
      unfold Inv, reading; cbn. repeat split; auto; try (intros; discriminate).
      intros w1 Hw1. specialize (Hr w ltac:(assumption)). unfold reading in Hr. rewrite P in Hr. lra.
    + inversion Hstep; subst. exists lw, lv. fin.
  - (* speed setter *)
    destruct (elapsed c ws) as [[e ws1]|] eqn:E; [|inversion Hstep; subst; discriminate].
    destruct ws1 as [|w2 ws2]; [inversion Hstep; subst; discriminate|].
    inversion Hstep; subst. cbn in Hop.
    apply elapsed_spec in E. destruct E as [(P & -> & <-)|(P & w & -> & ->)].
    + inversion W; subst.
      exists w2, lv. split; [|fin].
      unfold Inv, reading; cbn. rewrite P. repeat split; auto; try (intros; discriminate).
      intros w1 Hw1. specialize (Hr w2 ltac:(assumption)). unfold reading in Hr. rewrite P in Hr.
      lra.
    + inversion W; subst. match goal with H : wall_ok w (w2 :: _) |- _ => inversion H; subst end.
      exists w2, lv. split; [|fin].
      unfold Inv, reading; cbn. rewrite P. repeat split; auto; try lra.
      intros w1 Hw1. specialize (Hr w ltac:(assumption)). unfold reading in Hr. rewrite P in Hr.
      nra.
  - (* time getter *)
    destruct (elapsed c ws) as [[e ws1]|] eqn:E; [|inversion Hstep; subst; discriminate].
    inversion Hstep; subst.
    apply elapsed_spec in E. destruct E as [(P & -> & ->)|(P & w & -> & ->)].
    + exists lw, (c_time c' + 0).
      assert (Hlv : lv <= c_time c' + 0).
      { specialize (Hr lw ltac:(lra)). unfold reading in Hr. rewrite P in Hr. exact Hr. }
      split; [|repeat split; auto; try lra; try (match goal with H : RVal _ = RVal _ |- _ => inversion H; subst; lra end)].
      unfold Inv, reading. rewrite P. fin.
    + inversion W; subst.
      assert (Hlv : lv <= c_time c' + (w - c_base c') * c_speed c').
      { specialize (Hr w ltac:(assumption)). unfold reading in Hr. rewrite P in Hr. exact Hr. }
      exists w, (c_time c' + (w - c_base c') * c_speed c').
      split; [|repeat split; auto; try lra; try (match goal with H : RVal _ = RVal _ |- _ => inversion H; subst; lra end)].
      unfold Inv, reading. rewrite P. repeat split; auto; try lra.
      * intros _. specialize (Hb P). lra.
      * intros w1 Hw1. nra.
  - (* time setter *)
    destruct (elapsed c ws) as [[e ws1]|] eqn:E; [|inversion Hstep; subst; discriminate].
    destruct (Qlt_le_dec v (c_time c + e)) as [Hlt|Hge].
    + (* ValueError: nothing changes *)
      inversion Hstep; subst.
      apply elapsed_spec in E. destruct E as [(P & -> & ->)|(P & w & -> & ->)].
      * exists lw, lv. fin.
      * inversion W; subst. exists w, lv.
        split; [|fin].
        unfold Inv. repeat split; auto.
        -- intros _. specialize (Hb P). lra.
        -- intros w1 Hw1. apply Hr. lra.
    + destruct ws1 as [|w2 ws2]; [inversion Hstep; subst; discriminate|].
      inversion Hstep; subst.
      apply elapsed_spec in E. destruct E as [(P & -> & <-)|(P & w & -> & ->)].
      * inversion W; subst.
        exists w2, lv. split; [|fin].
        unfold Inv, reading; cbn. rewrite P. repeat split; auto; try (intros; discriminate).
        intros w1 Hw1. specialize (Hr w2 ltac:(assumption)). unfold reading in Hr. rewrite P in Hr.
        lra.
      * inversion W; subst. match goal with H : wall_ok w (w2 :: _) |- _ => inversion H; subst end.
        exists w2, lv. split; [|fin].
        unfold Inv, reading; cbn. rewrite P. repeat split; auto; try lra.
        intros w1 Hw1. specialize (Hr w ltac:(assumption)). unfold reading in Hr. rewrite P in Hr.
        nra.
Qed.

(* The readings produced by a run. *)
Fixpoint readings (rs : list cres) : list Q :=
  match rs with
  | [] => []
  | RVal v :: rs' => v :: readings rs'
  | _ :: rs' => readings rs'
  end.

Inductive nondecr_from : Q -> list Q -> Prop :=
| nd_nil : forall lo, nondecr_from lo []
| nd_cons : forall lo v vs, lo <= v -> nondecr_from v vs -> nondecr_from lo (v :: vs).

Lemma nondecr_weaken lo lo' vs : lo' <= lo -> nondecr_from lo vs -> nondecr_from lo' vs.
Proof. intros H N; inversion N; subst; constructor; auto; lra. Qed.

Lemma nondecr_Qeq lo lo' vs : lo' == lo -> nondecr_from lo vs -> nondecr_from lo' vs.
Proof. intros H; apply nondecr_weaken; lra. Qed.

Lemma run_monotonic ops : forall c ws c' rs ws' lw lv,
  Inv c lw lv -> wall_ok lw ws -> Forall op_ok ops ->
  clock_run c ops ws = (c', rs, ws') -> forallb (fun r => negb (starved r)) rs = true ->
  nondecr_from lv (readings rs).
Proof.
  induction ops as [|op ops IH]; intros c ws c' rs ws' lw lv HI W Hops Hrun Hns.
  - inversion Hrun; subst; constructor.
  - cbn [clock_run] in Hrun.
    destruct (clock_step c op ws) as [[c1 r] ws1] eqn:S1.
    destruct (clock_run c1 ops ws1) as [[c2 rs2] ws2] eqn:R2.
    inversion Hrun; subst. cbn [forallb] in Hns. apply andb_true_iff in Hns as [Hr Hrs].
    inversion Hops as [|? ? Hop1 Hops1]; subst.
    destruct (step_inv _ _ _ _ _ _ _ _ HI W Hop1 S1) as (lw' & lv' & HI' & W' & Hlw & Hlv & Hval).
    { destruct r; cbn in *; auto; discriminate. }
    specialize (IH _ _ _ _ _ _ _ HI' W' Hops1 R2 Hrs).
    destruct r; cbn [readings]; try (eapply nondecr_weaken; [exact Hlv|exact IH]).
    destruct (Hval v eq_refl) as [H1 H2]. constructor; auto.
    eapply nondecr_Qeq; [|exact IH]. lra.
Qed.

Lemma init_inv w0 : Inv (clock_init w0) w0 0.
Proof.
  unfold Inv, clock_init, reading; cbn. repeat split; try lra. intros; discriminate.
Qed.

(* ---- C14_set ---- *)
Lemma set_time_rejected c v ws c' r ws' :
  clock_step c (OpSetTime v) ws = (c', r, ws') -> r = RValueError -> c' = c.
Proof.
  cbn [clock_step]. destruct (elapsed c ws) as [[e ws1]|]; [|intros H; inversion H; auto].
  destruct (Qlt_le_dec v (c_time c + e)).
  - intros H; inversion H; auto.
  - destruct ws1; intros H; inversion H; subst; auto; discriminate.
Qed.

Lemma set_time_decides c v w1 w2 ws :
  let '(c', r, ws') := clock_step c (OpSetTime v) (w1 :: w2 :: ws) in
  (v < reading c w1 -> r = RValueError /\ c' = c) /\
  (reading c w1 <= v -> r = RUnit /\ reading c' (c_base c') == v /\
                        c_play c' = c_play c /\ c_speed c' = c_speed c).
Proof.
  cbn [clock_step]. unfold elapsed, reading.
  destruct (c_play c) eqn:P.
  - destruct (Qlt_le_dec v (c_time c + (w1 - c_base c) * c_speed c)) as [Hlt|Hge].
    + split; intros H; [auto|lra].
    + split; intros H; [lra|]. cbn. repeat split; auto. lra.
  - destruct (Qlt_le_dec v (c_time c + 0)) as [Hlt|Hge].
    + split; intros H; [auto|lra].
    + split; intros H; [lra|]. cbn. repeat split; auto. lra.
Qed.

(* ---- C14_stopped ---- *)
Lemma stopped_reads_constant c ws :
  c_play c = false -> clock_step c OpTime ws = (c, RVal (c_time c + 0), ws).
Proof. intros P. cbn [clock_step]. unfold elapsed. rewrite P. reflexivity. Qed.

(* ---- C14_running ---- *)
Lemma running_advances c w1 w2 :
  c_play c = true ->
  reading c w2 - reading c w1 == c_speed c * (w2 - w1).
Proof. intros P. unfold reading. rewrite P. ring. Qed.

Lemma time_op_is_reading c w ws :
  c_play c = true -> clock_step c OpTime (w :: ws) = (c, RVal (reading c w), ws).
Proof. intros P. cbn [clock_step]. unfold elapsed, reading. rewrite P. reflexivity. Qed.

(* Speed change: exact up to the wall time that passes between the two reads of the setter. *)
Lemma speed_change_advances c v wa wb w0 w3 ws :
  c_play c = true ->
  let '(c', _, _) := clock_step c (OpSetSpeed v) (wa :: wb :: ws) in
  reading c' w3 - reading c w0 == c_speed c * (wa - w0) + v * (w3 - wb).
Proof.
  intros P. cbn [clock_step]. unfold elapsed. rewrite P. unfold reading. cbn. rewrite P. ring.
Qed.

(* start/stop keep the reading continuous. *)
Lemma stop_keeps_reading c w ws :
  c_play c = true ->
  let '(c', _, _) := clock_step c OpStop (w :: ws) in
  c_play c' = false /\ c_time c' == reading c w.
Proof.
  intros P. cbn [clock_step]. rewrite P. unfold elapsed. rewrite P. cbn. split; auto.
  unfold reading. rewrite P. ring.
Qed.

Lemma start_keeps_reading c w ws :
  c_play c = false ->
  let '(c', _, _) := clock_step c OpStart (w :: ws) in
  c_play c' = true /\ reading c' w == c_time c /\ c_speed c' = c_speed c.
Proof.
  intros P. cbn [clock_step]. rewrite P. cbn. unfold reading; cbn. repeat split; auto. ring.
Qed.
