(* TraceProofs.v -- observation-trace theorems behind
     C03 ("steps run to completion in documented order and the trace tells the truth"),
     C08 ("contracts are checked at the documented points; failures raise the right error"),
     C09_ignore_silent.

   Everything is proved for the model of Interp.v, for EVERY chart, evaluator and listener
   (Section Trace has exactly the Variables of Section Interp; no Hypothesis).  No axiom, nothing
   admitted: every `Print Assumptions` at the end prints "Closed under the global context".

   VOCABULARY
     slot      SExec k o code ev | SConds k o conds ev | SGuards
               (SGuards is an addition: "a block of guard evaluations", any number of ObEval of
               kind CGuard / idx 0; it lets execute_once be described by one slot list).
     outcome   RDone | RFalse k o idx | RRaise k o idx | RAbort
               RFalse = the play stopped at an ObEval .. (Some false)        <-> EContract k o idx
               RRaise = the play stopped at an ObEval/ObExec .. None         <-> ECode k o idx
               RAbort = the play stopped at a slot boundary without a failing call
                        (EStatechart, EKey, EAssert, an error returned by emit; at macro level also
                        ENonDeterminism, EConflict, EFuel).  In the model NO other error can stop a
                        step inside a slot: "inside it" does not happen.
     realises ig slots calls out     the inductive play relation (ig = i_ignore_contract: every
               SConds then produces nothing).  realises_false_inv spells out what a play with
               outcome RFalse is: slots played completely ++ the SConds slot whose condition
               number idx was false ++ slots never started.
     calls     a trace with ObMeta/ObSelected removed; traces are NEWEST FIRST in m_tr, `rev new`
               is oldest first.
     verdict AE out r new   result r and outcome agree, on failure the NEWEST observation of `new`
               is the failing call (so no ObExec/ObEval/ObMeta follows it) and every earlier call
               succeeded (ok_obs).
     slots_of_micro / inv_slots  use the name stored in the state object (OState (s_name st)),
               which is what the model (and sismic) passes to the evaluator.  slots_of_micro_doc /
               inv_slots_doc use the names of the MicroStep / configuration, as in the task
               statement; they coincide under names_coherent (state_for sc n = Some st ->
               s_name st = n, part of WF1), see *_doc theorems.

   MAIN THEOREMS (statement numbers of the task)
     1  C08_apply_step_points (any ig, any result, with verdict), C08_apply_step_complete,
        C08_first_failure_micro, C08_first_raise_micro (under emit_clean: listeners return no
        EContract/ECode of their own -- without it an EContract result may come from a listener
        (World.emit1 can do that), and the general theorem says so: outcome RAbort with emit_err),
        C03_sent_truth, C08_apply_step_points_doc.
     2  C03_config_truth_gen (unconditional, names taken from the state objects),
        C03_config_truth (as stated in the task, needs names_coherent);
        TraceExample.C03_config_truth_needs_coherence shows the hypothesis cannot be dropped.
     3  C08_execute_once_run (any ig, any result), C08_execute_once_points, C08_execute_once_empty,
        C08_execute_once_empty_config, C03_trace_truth (ObExec sub-sequence AND sent events),
        C03_macro_config, C08_first_failure, C08_first_raise, C08_execute_once_points_doc.
     4  C08_old_at_eval, C08_old_written_only_by_pre, C08_old_transition, C08_old_state_entry,
        C08_old_exit, C08_old_invariants.
     5  C09_ignore_silent_micro, C09_ignore_silent (under emit_no_contract), C09_flag_constant.

   WEAKENED / DIFFERENT FROM THE TASK TEXT (nothing is left unproved, no `_partial`):
     * owners of state slots are OState (s_name st), not OState n (equal under names_coherent).
     * statement 2 as literally written (fold over ms_exited/ms_entered) is FALSE for a chart whose
       state object is registered under another name; it is proved under names_coherent and the
       counterexample is TraceExample.C03_config_truth_needs_coherence.
     * "r = inr (EContract ..) -> the trace ends with the failing evaluation" needs emit_clean.
     * on failure of execute_once the micro steps are existentially quantified (`done`): the
       completed ones followed by the one in which the failure happened.
     * C08_old for a state is stated for one enter_state (store), one exit_state and
       check_invariants (reads), plus "nobody else writes the store"; the end-to-end statement
       across several macro steps ("latest entry") is the composition of these and is not stated
       as one theorem. *)
From Coq Require Import List Bool ZArith String Lia.
From Sismic Require Import Base Chart Interp.
Import ListNotations.
Open Scope list_scope.

(* ------------------------------------------------------------------ vocabulary (chart independent) *)
Inductive slot :=
| SExec (k : ckind) (o : owner) (cd : option code) (ev : option event)
| SConds (k : ckind) (o : owner) (cds : list code) (ev : option event)
| SGuards.     (* model of "a block of guard evaluations" (any number, all of kind CGuard) *)

Inductive outcome :=
| RDone                                         (* every slot was played *)
| RFalse (k : ckind) (o : owner) (idx : nat)    (* stopped at an ObEval .. (Some false) *)
| RRaise (k : ckind) (o : owner) (idx : nat)    (* stopped at an ObEval/ObExec .. None *)
| RAbort.                                       (* stopped at a slot boundary (other error) *)

Section Trace.
  Variable ctx : Type.
  Variable X : Type.
  Variable exec_code : call ctx -> ctx -> option (ctx * list event).
  Variable eval_code : call ctx -> ctx -> option bool.
  Variable emit : Z -> meta -> X -> X * option err.
  Variable sc : chart.

  Notation mstate := (Interp.mstate ctx X).
  Notation M := (Interp.M ctx X).
  Notation ret := (Interp.ret ctx X).
  Notation fail := (Interp.fail ctx X).
  Notation bind := (Interp.bind ctx X).
  Notation get := (Interp.get ctx X).
  Notation put := (Interp.put ctx X).
  Notation modify := (Interp.modify ctx X).
  Notation observe := (Interp.observe ctx X).
  Notation mapM := (Interp.mapM ctx X).
  Notation iterM := (Interp.iterM ctx X).
  Notation raise_meta := (Interp.raise_meta ctx X emit).
  Notation raise_event := (Interp.raise_event ctx X emit).
  Notation mk_call := (Interp.mk_call ctx sc).
  Notation run_code := (Interp.run_code ctx X exec_code sc).
  Notation eval_cond := (Interp.eval_cond ctx X eval_code sc).
  Notation eval_conds := (Interp.eval_conds ctx X eval_code sc).
  Notation contract := (Interp.contract ctx X eval_code sc).
  Notation state_contract := (Interp.state_contract ctx X eval_code sc).
  Notation trans_contract := (Interp.trans_contract ctx X eval_code sc).
  Notation eval_guards := (Interp.eval_guards ctx X eval_code sc).
  Notation sel_priorities := (Interp.sel_priorities ctx X eval_code sc).
  Notation sel_sources := (Interp.sel_sources ctx X eval_code sc).
  Notation sel_depths := (Interp.sel_depths ctx X eval_code sc).
  Notation sel_eventness := (Interp.sel_eventness ctx X eval_code sc).
  Notation select_transitions := (Interp.select_transitions ctx X eval_code sc).
  Notation sort_transitions := (Interp.sort_transitions ctx X sc).
  Notation compute_steps := (Interp.compute_steps ctx X eval_code sc).
  Notation record_history := (Interp.record_history ctx X sc).
  Notation exit_state := (Interp.exit_state ctx X exec_code eval_code emit sc).
  Notation enter_state := (Interp.enter_state ctx X exec_code eval_code emit sc).
  Notation process_transition := (Interp.process_transition ctx X exec_code eval_code emit sc).
  Notation apply_step := (Interp.apply_step ctx X exec_code eval_code emit sc).
  Notation stabilize := (Interp.stabilize ctx X exec_code eval_code emit sc).
  Notation consume_event := (Interp.consume_event ctx X).
  Notation run_steps := (Interp.run_steps ctx X exec_code eval_code emit sc).
  Notation check_invariants := (Interp.check_invariants ctx X eval_code sc).
  Notation execute_once := (Interp.execute_once ctx X exec_code eval_code emit sc).

  (* ---------------------------------------------------------------- calls of a trace *)
  Definition is_call (x : obs ctx) : bool :=
    match x with ObExec _ _ | ObEval _ _ => true | _ => false end.
  Definition calls (tr : list (obs ctx)) : list (obs ctx) := filter is_call tr.

  Definition call_is (c : call ctx) (k : ckind) (o : owner) (idx : nat) (cd : option code)
             (ev : option event) : Prop :=
    cl_kind c = k /\ cl_owner c = o /\ cl_idx c = idx /\ cl_code c = cd /\ cl_event c = ev.

  (* the lazy "stop at the first false" loop over one list of conditions, from index idx *)
  Inductive plays_conds (k : ckind) (o : owner) (ev : option event)
    : nat -> list code -> list (obs ctx) -> outcome -> Prop :=
  | PC_nil : forall idx, plays_conds k o ev idx [] [] RDone
  | PC_true : forall idx cd cds c tr out,
      call_is c k o idx (Some cd) ev ->
      plays_conds k o ev (S idx) cds tr out ->
      plays_conds k o ev idx (cd :: cds) (ObEval c (Some true) :: tr) out
  | PC_false : forall idx cd cds c,
      call_is c k o idx (Some cd) ev ->
      plays_conds k o ev idx (cd :: cds) [ObEval c (Some false)] (RFalse k o idx)
  | PC_raise : forall idx cd cds c,
      call_is c k o idx (Some cd) ev ->
      plays_conds k o ev idx (cd :: cds) [ObEval c None] (RRaise k o idx).

  (* realises ig slots calls out: `calls` (oldest first, ObMeta/ObSelected removed) is the slot
     list played in order; ig = i_ignore_contract *)
  Inductive realises (ig : bool) : list slot -> list (obs ctx) -> outcome -> Prop :=
  | R_done : realises ig [] [] RDone
  | R_abort : forall sl, realises ig sl [] RAbort
  | R_exec_ok : forall k o cd ev c sent sl tr out,
      call_is c k o 0 cd ev ->
      realises ig sl tr out ->
      realises ig (SExec k o cd ev :: sl) (ObExec c (Some sent) :: tr) out
  | R_exec_raise : forall k o cd ev c sl,
      call_is c k o 0 cd ev ->
      realises ig (SExec k o cd ev :: sl) [ObExec c None] (RRaise k o 0)
  | R_conds_ig : forall k o cds ev sl tr out,
      ig = true ->
      realises ig sl tr out ->
      realises ig (SConds k o cds ev :: sl) tr out
  | R_conds_ok : forall k o cds ev sl t1 t2 out,
      ig = false ->
      plays_conds k o ev 0 cds t1 RDone ->
      realises ig sl t2 out ->
      realises ig (SConds k o cds ev :: sl) (t1 ++ t2) out
  | R_conds_stop : forall k o cds ev sl t1 out,
      ig = false ->
      plays_conds k o ev 0 cds t1 out ->
      out <> RDone ->
      realises ig (SConds k o cds ev :: sl) t1 out
  | R_guards_skip : forall sl tr out,
      realises ig sl tr out ->
      realises ig (SGuards :: sl) tr out
  | R_guards_step : forall c b sl tr out,
      cl_kind c = CGuard -> cl_idx c = 0 ->
      realises ig (SGuards :: sl) tr out ->
      realises ig (SGuards :: sl) (ObEval c (Some b) :: tr) out
  | R_guards_raise : forall c sl,
      cl_kind c = CGuard -> cl_idx c = 0 ->
      realises ig (SGuards :: sl) [ObEval c None] (RRaise CGuard (cl_owner c) 0).

  Lemma realises_app_done ig l1 t1 l2 t2 out :
    realises ig l1 t1 RDone -> realises ig l2 t2 out -> realises ig (l1 ++ l2) (t1 ++ t2) out.
  Proof.
    intros H1 H2. remember RDone as d eqn:Ed.
    induction H1 as [ | sl | k o cd ev c sent sl tr out1 Hc H1 IH | k o cd ev c sl Hc
                     | k o cds ev sl tr out1 Hig H1 IH | k o cds ev sl ta tb out1 Hig Hp H1 IH
                     | k o cds ev sl ta out1 Hig Hp Hne | sl tr out1 H1 IH
                     | c b sl tr out1 Hk Hi H1 IH | c sl Hk Hi ]; subst; try discriminate.
    - exact H2.
    - simpl. apply R_exec_ok; auto.
    - simpl. apply R_conds_ig; auto.
    - simpl. rewrite <- app_assoc. apply R_conds_ok; auto.
    - congruence.
    - simpl. apply R_guards_skip; auto.
    - simpl. apply R_guards_step; auto.
  Qed.

  Lemma realises_app_stop ig l1 t l2 out :
    realises ig l1 t out -> out <> RDone -> realises ig (l1 ++ l2) t out.
  Proof.
    intros H1 Hne.
    induction H1 as [ | sl | k o cd ev c sent sl tr out1 Hc H1 IH | k o cd ev c sl Hc
                     | k o cds ev sl tr out1 Hig H1 IH | k o cds ev sl ta tb out1 Hig Hp H1 IH
                     | k o cds ev sl ta out1 Hig Hp Hne1 | sl tr out1 H1 IH
                     | c b sl tr out1 Hk Hi H1 IH | c sl Hk Hi ]; simpl.
    - congruence.
    - apply R_abort.
    - apply R_exec_ok; auto.
    - apply R_exec_raise; auto.
    - apply R_conds_ig; auto.
    - apply R_conds_ok; auto.
    - apply R_conds_stop; auto.
    - apply R_guards_skip; auto.
    - apply R_guards_step; auto.
    - apply R_guards_raise; auto.
  Qed.

  (* two adjacent guard blocks are one guard block *)
  Lemma realises_guards_idem ig sl tr out :
    realises ig (SGuards :: SGuards :: sl) tr out -> realises ig (SGuards :: sl) tr out.
  Proof.
    intros H. remember (SGuards :: SGuards :: sl) as l eqn:El.
    induction H as [ | sl0 | k o cd ev c sent sl0 tr out1 Hc H1 IH | k o cd ev c sl0 Hc
                     | k o cds ev sl0 tr out1 Hig H1 IH | k o cds ev sl0 ta tb out1 Hig Hp H1 IH
                     | k o cds ev sl0 ta out1 Hig Hp Hne1 | sl0 tr out1 H1 IH
                     | c b sl0 tr out1 Hk Hi H1 IH | c sl0 Hk Hi ]; try discriminate.
    - apply R_abort.
    - inversion El; subst. exact H1.
    - inversion El; subst. apply R_guards_step; auto.
    - inversion El; subst. apply R_guards_raise; auto.
  Qed.

  (* ---------------------------------------------------------------- results and runs *)
  Definition emit_err (e : err) : Prop := exists t m x, snd (emit t m x) = Some e.

  (* errors that do not come from a failing evaluator call *)
  Definition AEm (e : err) : Prop :=
    e = EStatechart \/ e = EKey \/ e = EAssert \/ emit_err e.
  Definition AEM (e : err) : Prop :=
    AEm e \/ e = ENonDeterminism \/ e = EConflict \/ e = EFuel.

  Definition res_ok {A} (AE : err -> Prop) (out : outcome) (r : A + err) : Prop :=
    match out with
    | RDone => exists a, r = inl a
    | RFalse k o i => r = inr (EContract k o i)
    | RRaise k o i => r = inr (ECode k o i)
    | RAbort => exists e, r = inr e /\ AE e
    end.

  Definition is_failure_obs (x : obs ctx) : Prop :=
    match x with
    | ObEval _ (Some false) | ObEval _ None | ObExec _ None => True
    | _ => False
    end.

  (* after a failing call nothing at all is observed (not even a meta-event) *)
  Definition fail_last (out : outcome) (new : list (obs ctx)) : Prop :=
    match out with
    | RFalse _ _ _ | RRaise _ _ _ => exists x rest, new = x :: rest /\ is_failure_obs x
    | _ => True
    end.

  Definition ig (s : mstate) : bool := i_ignore_contract (m_i s).
  Definition frame (s s' : mstate) : Prop :=
    ig s' = ig s /\ i_time (m_i s') = i_time (m_i s).

  Definition run_ok {A} (AE : err -> Prop) (s s' : mstate) (r : A + err) (sl : list slot) : Prop :=
    exists new out,
      m_tr s' = new ++ m_tr s /\ frame s s' /\
      realises (ig s) sl (calls (rev new)) out /\ res_ok AE out r /\ fail_last out new.

  Definition plays {A} (AE : err -> Prop) (m : M A) (s : mstate) (sl : list slot) : Prop :=
    forall s' r, m s = (s', r) -> run_ok AE s s' r sl.

  Lemma calls_rev_app (n2 n1 : list (obs ctx)) :
    calls (rev (n2 ++ n1)) = calls (rev n1) ++ calls (rev n2).
  Proof. unfold calls. rewrite rev_app_distr, filter_app. reflexivity. Qed.

  Lemma frame_refl s : frame s s.
  Proof. split; reflexivity. Qed.
  Lemma frame_same_i s s' : m_i s' = m_i s -> frame s s'.
  Proof. unfold frame, ig. intros E; rewrite E; auto. Qed.
  Lemma frame_trans s1 s2 s3 : frame s1 s2 -> frame s2 s3 -> frame s1 s3.
  Proof. unfold frame. intros [H1 H2] [H3 H4]. split; congruence. Qed.

  Lemma run_ok_seq {A B} AE s s1 s' (a : A) (r : B + err) sl1 sl2 :
    run_ok AE s s1 (inl a) sl1 -> run_ok AE s1 s' r sl2 -> run_ok AE s s' r (sl1 ++ sl2).
  Proof.
    intros (n1 & o1 & Ht1 & Hf1 & Hr1 & Hk1 & Hl1) (n2 & o2 & Ht2 & Hf2 & Hr2 & Hk2 & Hl2).
    assert (Eo : o1 = RDone).
    { destruct o1; simpl in Hk1; try discriminate; auto. destruct Hk1 as (e & He & _); discriminate. }
    subst o1.
    exists (n2 ++ n1), o2. split; [rewrite Ht2, Ht1, app_assoc; reflexivity|].
    split; [eapply frame_trans; eauto|].
    split.
    { rewrite calls_rev_app. apply realises_app_done; auto.
      destruct Hf1 as [Hig _]. rewrite <- Hig. exact Hr2. }
    split; [exact Hk2|].
    destruct o2; simpl in *; auto.
    - destruct Hl2 as (x & rest & E & Hx). exists x, (rest ++ n1). subst n2. split; auto.
    - destruct Hl2 as (x & rest & E & Hx). exists x, (rest ++ n1). subst n2. split; auto.
  Qed.

  Lemma run_ok_stop {A B} AE s s' (e : err) sl1 sl2 :
    run_ok AE s s' (inr e : A + err) sl1 -> run_ok AE s s' (inr e : B + err) (sl1 ++ sl2).
  Proof.
    intros (n1 & o1 & Ht1 & Hf1 & Hr1 & Hk1 & Hl1).
    exists n1, o1. split; auto. split; auto.
    assert (Hne : o1 <> RDone).
    { intros E; subst o1. simpl in Hk1. destruct Hk1 as (a & Ha). discriminate. }
    split; [apply realises_app_stop; auto|].
    split; auto.
    destruct o1; simpl in *; auto; try congruence.
    destruct Hk1 as (e0 & He0 & Ha). exists e0. split; auto. congruence.
  Qed.

  Lemma bind_inv {A B} (m : M A) (f : A -> M B) s s' r :
    bind m f s = (s', r) ->
    (exists s1 a, m s = (s1, inl a) /\ f a s1 = (s', r)) \/
    (exists e, m s = (s', inr e) /\ r = inr e).
  Proof.
    unfold Interp.bind. destruct (m s) as [s1 [a|e]] eqn:E; intros H.
    - left. exists s1, a. auto.
    - right. inversion H; subst. exists e. auto.
  Qed.

  Lemma bind_inl {A B} (m : M A) (f : A -> M B) s s' b :
    bind m f s = (s', inl b) ->
    exists s1 a, m s = (s1, inl a) /\ f a s1 = (s', inl b).
  Proof.
    intros H. apply bind_inv in H. destruct H as [H|(e & _ & H)]; [exact H|discriminate].
  Qed.

  Lemma plays_bind {A B} AE (m : M A) (f : A -> M B) s sl1 sl2 :
    plays AE m s sl1 ->
    (forall a s1, m s = (s1, inl a) -> plays AE (f a) s1 sl2) ->
    plays AE (bind m f) s (sl1 ++ sl2).
  Proof.
    intros Hm Hf s' r H. apply bind_inv in H. destruct H as [(s1 & a & H1 & H2)|(e & H1 & Hr)].
    - eapply run_ok_seq; [apply Hm; exact H1|]. eapply Hf; eauto.
    - subst r. apply (@run_ok_stop A B). apply Hm. exact H1.
  Qed.

  Lemma plays_conv {A} AE (m : M A) s sl sl' : plays AE m s sl -> sl = sl' -> plays AE m s sl'.
  Proof. intros H E; subst; exact H. Qed.

  Lemma plays_weaken {A} (AE AE' : err -> Prop) (m : M A) s sl :
    (forall e, AE e -> AE' e) -> plays AE m s sl -> plays AE' m s sl.
  Proof.
    intros Hw Hm s' r H. destruct (Hm _ _ H) as (n & o & Ht & Hf & Hr & Hk & Hl).
    exists n, o. repeat (split; auto).
    destruct o; simpl in *; auto. destruct Hk as (e & He & Ha). exists e; auto.
  Qed.

  (* a computation that succeeds without a call *)
  Lemma run_ok_quiet {A} AE s s' (a : A) new :
    m_tr s' = new ++ m_tr s -> calls (rev new) = [] -> frame s s' -> run_ok AE s s' (inl a) [].
  Proof.
    intros Ht Hc Hf. exists new, RDone. rewrite Hc. repeat (split; auto).
    - apply R_done.
    - simpl. exists a; auto.
  Qed.

  Lemma run_ok_abort {A} (AE : err -> Prop) s s' (e : err) new sl :
    m_tr s' = new ++ m_tr s -> calls (rev new) = [] -> frame s s' -> AE e ->
    run_ok AE s s' (inr e : A + err) sl.
  Proof.
    intros Ht Hc Hf Ha. exists new, RAbort. rewrite Hc. repeat (split; auto).
    - apply R_abort.
    - simpl. exists e; auto.
  Qed.

  Lemma plays_ret {A} AE (a : A) s : plays AE (ret a) s [].
  Proof.
    intros s' r H. inversion H; subst. apply run_ok_quiet with (new := []); auto using frame_refl.
  Qed.

  Lemma plays_fail {A} (AE : err -> Prop) (e : err) s sl : AE e -> plays AE (fail e : M A) s sl.
  Proof.
    intros Ha s' r H. inversion H; subst.
    apply run_ok_abort with (new := []); auto using frame_refl.
  Qed.

  Lemma plays_get_bind {A} AE (f : istate ctx -> M A) s sl :
    plays AE (f (m_i s)) s sl -> plays AE (bind get f) s sl.
  Proof. intros H s' r E. unfold Interp.bind, Interp.get in E. apply H; exact E. Qed.

  Lemma plays_put AE i s :
    i_ignore_contract i = ig s -> i_time i = i_time (m_i s) -> plays AE (put i) s [].
  Proof.
    intros H1 H2 s' r H. inversion H; subst.
    apply run_ok_quiet with (new := []); auto. split; simpl; auto.
  Qed.

  Lemma plays_modify AE f s :
    i_ignore_contract (f (m_i s)) = ig s -> i_time (f (m_i s)) = i_time (m_i s) ->
    plays AE (modify f) s [].
  Proof.
    intros H1 H2 s' r H. inversion H; subst.
    apply run_ok_quiet with (new := []); auto. split; simpl; auto.
  Qed.

  Lemma plays_observe_quiet AE o s : is_call o = false -> plays AE (observe o) s [].
  Proof.
    intros Ho s' r H. inversion H; subst.
    apply run_ok_quiet with (new := [o]); auto using frame_same_i.
    unfold calls. simpl. rewrite Ho. reflexivity.
  Qed.

  Lemma plays_raise_meta (AE : err -> Prop) m s :
    (forall e, emit_err e -> AE e) -> plays AE (raise_meta m) s [].
  Proof.
    intros Hae s' r H. unfold Interp.raise_meta in H.
    destruct (emit (i_time (m_i s)) m (m_x s)) as [x' [e|]] eqn:E; inversion H; subst.
    - apply run_ok_abort with (new := [ObMeta m]); auto using frame_same_i.
      apply Hae. exists (i_time (m_i s)), m, (m_x s). rewrite E. reflexivity.
    - apply run_ok_quiet with (new := [ObMeta m]); auto using frame_same_i.
  Qed.

  Lemma plays_mapM {A B} AE (f : A -> M B) (g : A -> list slot) l :
    (forall x s, In x l -> plays AE (f x) s (g x)) ->
    forall s, plays AE (mapM f l) s (flat_map g l).
  Proof.
    induction l as [|x l IH]; intros Hf s; simpl.
    - apply plays_ret.
    - apply plays_bind; [apply Hf; left; auto|]. intros a s1 _.
      eapply plays_conv.
      + apply plays_bind; [apply IH; intros y s0 Hy; apply Hf; right; auto|].
        intros a2 s2 _. apply plays_ret.
      + apply app_nil_r.
  Qed.

  Lemma plays_iterM {A} AE (f : A -> M unit) (g : A -> list slot) l :
    (forall x s, In x l -> plays AE (f x) s (g x)) ->
    forall s, plays AE (iterM f l) s (flat_map g l).
  Proof.
    induction l as [|x l IH]; intros Hf s; simpl.
    - apply plays_ret.
    - apply plays_bind; [apply Hf; left; auto|]. intros a s1 _.
      apply IH. intros y s0 Hy; apply Hf; right; auto.
  Qed.

  Lemma flat_map_nil {A B} (l : list A) : flat_map (fun _ : A => @nil B) l = [].
  Proof. induction l; simpl; auto. Qed.

  Lemma AEm_emit e : emit_err e -> AEm e.
  Proof. unfold AEm; auto. Qed.
  Lemma AEm_statechart : AEm EStatechart.
  Proof. unfold AEm; auto. Qed.
  Lemma AEm_key : AEm EKey.
  Proof. unfold AEm; auto. Qed.
  Lemma AEm_assert : AEm EAssert.
  Proof. unfold AEm; auto. Qed.
  Hint Resolve AEm_emit AEm_statechart AEm_key AEm_assert : core.

  (* ---------------------------------------------------------------- evaluator calls *)
  Lemma call_is_mk i k o idx cd ev : call_is (mk_call i k o idx cd ev) k o idx cd ev.
  Proof. unfold call_is, Interp.mk_call. simpl. auto. Qed.

  (* exact effect of run_code *)
  Lemma run_code_inv k o cd ev s s' r :
    run_code k o cd ev s = (s', r) ->
    let c := mk_call (m_i s) k o 0 cd ev in
    match cd with
    | None => s' = mkM (m_i s) (m_x s) (ObExec c (Some []) :: m_tr s) /\ r = inl []
    | Some _ =>
        match exec_code c (i_ctx (m_i s)) with
        | Some (ctx', sent) =>
            s' = mkM (set_ctx ctx ctx' (m_i s)) (m_x s) (ObExec c (Some sent) :: m_tr s) /\ r = inl sent
        | None => s' = mkM (m_i s) (m_x s) (ObExec c None :: m_tr s) /\ r = inr (ECode k o 0)
        end
    end.
  Proof.
    intros H. cbv zeta. unfold Interp.run_code, Interp.bind, Interp.get in H. destruct cd as [cd|].
    - destruct (exec_code (mk_call (m_i s) k o 0 (Some cd) ev) (i_ctx (m_i s))) as [[ctx' sent]|];
        cbv [Interp.bind Interp.observe Interp.put Interp.ret Interp.fail] in H; simpl in H;
        inversion H; subst; auto.
    - cbv [Interp.bind Interp.observe Interp.put Interp.ret Interp.fail] in H; simpl in H.
      inversion H; subst; auto.
  Qed.

  Lemma plays_run_code AE k o cd ev s : plays AE (run_code k o cd ev) s [SExec k o cd ev].
  Proof.
    intros s' r H. apply run_code_inv in H. cbv zeta in H.
    set (c := mk_call (m_i s) k o 0 cd ev) in *.
    assert (Hc : call_is c k o 0 cd ev) by apply call_is_mk.
    destruct cd as [cd|].
    - destruct (exec_code c (i_ctx (m_i s))) as [[ctx' sent]|]; destruct H as [Hs Hr]; subst s' r.
      + exists [ObExec c (Some sent)], RDone. simpl. repeat split; auto.
        * apply R_exec_ok; auto. apply R_done.
        * exists sent; auto.
      + exists [ObExec c None], (RRaise k o 0). simpl. repeat split; auto.
        * apply R_exec_raise; auto.
        * exists (ObExec c None), []. simpl; auto.
    - destruct H as [Hs Hr]; subst s' r.
      exists [ObExec c (Some [])], RDone. simpl. repeat split; auto.
      + apply R_exec_ok; auto. apply R_done.
      + exists []; auto.
  Qed.

  (* exact effect of eval_cond *)
  Lemma eval_cond_inv k o idx cd ev s s' r :
    eval_cond k o idx cd ev s = (s', r) ->
    let c := mk_call (m_i s) k o idx (Some cd) ev in
    s' = mkM (m_i s) (m_x s) (ObEval c (eval_code c (i_ctx (m_i s))) :: m_tr s) /\
    r = match eval_code c (i_ctx (m_i s)) with Some b => inl b | None => inr (ECode k o idx) end.
  Proof.
    intros H. cbv zeta. unfold Interp.eval_cond, Interp.bind, Interp.get in H.
    destruct (eval_code (mk_call (m_i s) k o idx (Some cd) ev) (i_ctx (m_i s))) as [b|];
      cbv [Interp.bind Interp.observe Interp.ret Interp.fail] in H; simpl in H;
      inversion H; subst; auto.
  Qed.

  Definition all_calls (l : list (obs ctx)) : Prop := calls (rev l) = rev l.

  Lemma all_calls_nil : all_calls [].
  Proof. reflexivity. Qed.

  Lemma all_calls_app_one x l : is_call x = true -> all_calls l -> all_calls (l ++ [x]).
  Proof.
    unfold all_calls, calls. intros Hx Hl. rewrite rev_app_distr. simpl. rewrite Hx.
    f_equal. exact Hl.
  Qed.

  (* eval_conds: the lazy loop *)
  Lemma eval_conds_run k o ev cds : forall idx s s' r,
    eval_conds k o idx cds ev s = (s', r) ->
    exists new out,
      m_tr s' = new ++ m_tr s /\ m_i s' = m_i s /\ all_calls new /\
      plays_conds k o ev idx cds (rev new) out /\
      (forall AE, res_ok AE out r) /\ fail_last out new /\ out <> RAbort.
  Proof.
    induction cds as [|cd cds IH]; intros idx s s' r H; simpl in H.
    - inversion H; subst. exists [], RDone. repeat split; auto using all_calls_nil.
      + apply PC_nil.
      + intros AE. exists tt; auto.
      + discriminate.
    - apply bind_inv in H. destruct H as [(s1 & b & H1 & H2)|(e & H1 & Hr)].
      + apply eval_cond_inv in H1. cbv zeta in H1.
        set (c := mk_call (m_i s) k o idx (Some cd) ev) in *.
        assert (Hc : call_is c k o idx (Some cd) ev) by apply call_is_mk.
        destruct H1 as [Hs1 Hb].
        destruct (eval_code c (i_ctx (m_i s))) as [b'|]; [|discriminate].
        inversion Hb; subst b'. destruct b.
        * apply IH in H2. destruct H2 as (new & out & Ht & Hi & Hac & Hp & Hk & Hl & Hna).
          exists (new ++ [ObEval c (Some true)]), out. subst s1. simpl in *.
          split; [rewrite Ht, <- app_assoc; reflexivity|].
          split; [exact Hi|].
          split; [apply all_calls_app_one; auto|].
          split; [rewrite rev_app_distr; simpl; apply PC_true; auto|].
          split; [exact Hk|]. split; [|exact Hna].
          destruct out; simpl in *; auto;
            destruct Hl as (x & rest & E & Hx); subst new; exists x, (rest ++ [ObEval c (Some true)]); auto.
        * inversion H2; subst. exists [ObEval c (Some false)], (RFalse k o idx). simpl.
          repeat split; auto.
          -- apply PC_false; auto.
          -- exists (ObEval c (Some false)), []; simpl; auto.
          -- discriminate.
      + apply eval_cond_inv in H1. cbv zeta in H1.
        set (c := mk_call (m_i s) k o idx (Some cd) ev) in *.
        assert (Hc : call_is c k o idx (Some cd) ev) by apply call_is_mk.
        destruct H1 as [Hs1 Hb].
        destruct (eval_code c (i_ctx (m_i s))) as [b'|] eqn:Ee; [discriminate|].
        inversion Hb; subst. exists [ObEval c None], (RRaise k o idx). simpl.
        repeat split; auto.
        * apply PC_raise; auto.
        * exists (ObEval c None), []; simpl; auto.
        * discriminate.
  Qed.

  Lemma realises_conds_nil ig0 k o ev sl tr out :
    realises ig0 sl tr out -> realises ig0 (SConds k o [] ev :: sl) tr out.
  Proof.
    intros H. destruct ig0 eqn:E.
    - apply R_conds_ig; auto.
    - change tr with ([] ++ tr). apply R_conds_ok; auto. apply PC_nil.
  Qed.

  (* from the loop to the slot: s1 is s up to fields that are not observed *)
  Lemma run_ok_conds AE k o ev cds s s1 s' r :
    ig s = false -> m_tr s1 = m_tr s -> frame s s1 ->
    eval_conds k o 0 cds ev s1 = (s', r) ->
    run_ok AE s s' r [SConds k o cds ev].
  Proof.
    intros Hig Htr Hfr H. apply eval_conds_run in H.
    destruct H as (new & out & Ht & Hi & Hac & Hp & Hk & Hl & Hna).
    exists new, out. split; [congruence|].
    split; [eapply frame_trans; [exact Hfr|apply frame_same_i; exact Hi]|].
    rewrite Hac, Hig. split; [|split; auto].
    destruct out.
    - rewrite <- (app_nil_r (rev new)). apply R_conds_ok; auto. apply R_done.
    - apply R_conds_stop; auto. discriminate.
    - apply R_conds_stop; auto. discriminate.
    - congruence.
  Qed.

  Definition conds_of (k : ckind) (pre post inv : list code) : list code :=
    match k with CPre => pre | CPost => post | CInv => inv | _ => [] end.

  Lemma plays_contract AE k o pre post inv ev s :
    plays AE (contract k o pre post inv ev) s [SConds k o (conds_of k pre post inv) ev].
  Proof.
    intros s' r H. unfold Interp.contract, Interp.bind, Interp.get in H.
    destruct (i_ignore_contract (m_i s)) eqn:Eig.
    - inversion H; subst. exists [], RDone. simpl. repeat split; auto.
      + apply R_conds_ig; auto. apply R_done.
      + exists tt; auto.
    - assert (Hret : forall (s' : mstate) (r : unit + err) cds, ret tt s = (s', r) ->
                                  cds = [] -> run_ok AE s s' r [SConds k o cds ev]).
      { intros s0 r0 cds H0 E. inversion H0; subst. exists [], RDone. simpl.
        repeat split; auto. apply realises_conds_nil. apply R_done. exists tt; auto. }
      destruct k; simpl; try (apply Hret; auto; fail).
      + (* CPre *)
        destruct inv as [|i0 inv]; [destruct post as [|p0 post]|];
          cbv [Interp.modify Interp.ret] in H;
          (eapply run_ok_conds; [exact Eig| | |exact H]); simpl; auto using frame_refl;
          split; reflexivity.
      + eapply run_ok_conds; [exact Eig|reflexivity|apply frame_refl|exact H].
      + eapply run_ok_conds; [exact Eig|reflexivity|apply frame_refl|exact H].
  Qed.

  Lemma plays_state_contract AE k st ev s :
    plays AE (state_contract k st ev) s
          [SConds k (OState (s_name st)) (conds_of k (s_pre st) (s_post st) (s_inv st)) ev].
  Proof. unfold Interp.state_contract. apply plays_contract. Qed.

  Lemma plays_trans_contract AE k it ev s :
    plays AE (trans_contract k it ev) s
          [SConds k (OTrans (fst it)) (conds_of k (t_pre (snd it)) (t_post (snd it)) (t_inv (snd it))) ev].
  Proof. unfold Interp.trans_contract. apply plays_contract. Qed.

  (* ---------------------------------------------------------------- pieces of _apply_step *)
  Lemma plays_record_history active st s : plays AEm (record_history active st) s [].
  Proof.
    unfold Interp.record_history. destruct (s_kind st); try apply plays_ret.
    eapply plays_conv; [apply plays_iterM with (g := fun _ => [])|apply flat_map_nil].
    intros child s0 _. destruct (state_for sc child) as [cs|]; [|apply plays_fail; auto].
    destruct (s_kind cs); try apply plays_ret.
    - destruct (filter (fun n : name => mem n (children_for sc (s_name st))) active) as [|x [|y l]];
        try (apply plays_fail; auto). apply plays_modify; reflexivity.
    - destruct (filter (fun n : name => mem n (descendants_for sc (s_name st))) active) as [|x l];
        try (apply plays_fail; auto). apply plays_modify; reflexivity.
  Qed.

  Definition exit_slots (ev : option event) (st : state) : list slot :=
    [SExec CExit (OState (s_name st)) (s_on_exit st) None;
     SConds CPost (OState (s_name st)) (s_post st) ev].

  Definition enter_slots (ev : option event) (st : state) : list slot :=
    [SConds CPre (OState (s_name st)) (s_pre st) ev;
     SExec CEntry (OState (s_name st)) (s_on_entry st) None].

  Definition trans_slots (ev : option event) (i : nat) : list slot :=
    match nth_error (c_transitions sc) i with
    | Some t =>
        [SConds CPre (OTrans i) (t_pre t) ev; SConds CInv (OTrans i) (t_inv t) ev;
         SExec CAction (OTrans i) (t_action t) ev;
         SConds CPost (OTrans i) (t_post t) ev; SConds CInv (OTrans i) (t_inv t) ev]
    | None => []
    end.

  Lemma plays_exit_state active ev st s :
    plays AEm (exit_state active ev st) s (exit_slots ev st).
  Proof.
    eapply plays_conv.
    - unfold Interp.exit_state.
      apply plays_bind; [apply plays_run_code|]. intros sent s1 _.
      apply plays_bind; [apply plays_record_history|]. intros u2 s2 _.
      apply plays_get_bind.
      apply plays_bind.
      { destruct (mem (s_name st) (i_config (m_i s2)));
          [apply plays_put; reflexivity|apply plays_fail; auto]. }
      intros u3 s3 _.
      apply plays_bind; [apply plays_state_contract|]. intros u4 s4 _.
      apply plays_bind; [apply plays_raise_meta; auto|]. intros u5 s5 _.
      apply plays_ret.
    - reflexivity.
  Qed.

  Lemma plays_enter_state ev st s :
    plays AEm (enter_state ev st) s (enter_slots ev st).
  Proof.
    eapply plays_conv.
    - unfold Interp.enter_state.
      apply plays_bind; [apply plays_state_contract|]. intros u1 s1 _.
      apply plays_bind; [apply plays_run_code|]. intros sent s2 _.
      apply plays_bind; [apply plays_modify; reflexivity|]. intros u3 s3 _.
      apply plays_bind; [apply plays_raise_meta; auto|]. intros u4 s4 _.
      apply plays_ret.
    - reflexivity.
  Qed.

  Lemma plays_process_transition ev i s :
    plays AEm (process_transition ev i) s (trans_slots ev i).
  Proof.
    unfold Interp.process_transition, trans_slots.
    destruct (nth_error (c_transitions sc) i) as [t|]; [|apply plays_fail; auto].
    eapply plays_conv.
    - apply plays_bind; [apply plays_trans_contract|]. intros u1 s1 _.
      apply plays_bind; [apply plays_trans_contract|]. intros u2 s2 _.
      apply plays_bind; [apply plays_run_code|]. intros sent s3 _.
      apply plays_bind; [apply plays_trans_contract|]. intros u4 s4 _.
      apply plays_bind; [apply plays_trans_contract|]. intros u5 s5 _.
      apply plays_bind; [apply plays_modify; reflexivity|]. intros u6 s6 _.
      apply plays_bind; [apply plays_raise_meta; auto|]. intros u7 s7 _.
      apply plays_ret.
    - reflexivity.
  Qed.

  Lemma queue_event_frame (i : istate ctx) e :
    i_ignore_contract (queue_event i e) = i_ignore_contract i /\
    i_time (queue_event i e) = i_time i.
  Proof. unfold queue_event. destruct (e_kind e); simpl; auto. Qed.

  Lemma plays_raise_event e s : plays AEm (raise_event e) s [].
  Proof.
    unfold Interp.raise_event. destruct (e_kind e).
    - apply plays_ret.
    - eapply plays_conv.
      + apply plays_bind; [apply plays_modify; apply queue_event_frame|]. intros u1 s1 _.
        apply plays_bind; [apply plays_raise_meta; auto|]. intros u2 s2 _.
        destruct (has_delay e); [apply plays_raise_meta; auto|apply plays_ret].
      + reflexivity.
    - apply plays_raise_meta; auto.
  Qed.

  Definition opt_states (l : list name) : list state :=
    match states_for sc l with Some x => x | None => [] end.

  Definition slots_of_micro (step : microstep) : list slot :=
    flat_map (exit_slots (ms_event step)) (opt_states (ms_exited step)) ++
    match ms_trans step with Some i => trans_slots (ms_event step) i | None => [] end ++
    flat_map (enter_slots (ms_event step)) (opt_states (ms_entered step)).

  Lemma plays_apply_step step s : plays AEm (apply_step step) s (slots_of_micro step).
  Proof.
    unfold Interp.apply_step, slots_of_micro, opt_states.
    destruct (states_for sc (ms_entered step)) as [entered|]; [|apply plays_fail; auto].
    destruct (states_for sc (ms_exited step)) as [exited|]; [|apply plays_fail; auto].
    apply plays_get_bind.
    apply plays_bind.
    { apply plays_mapM. intros st s0 _. apply plays_exit_state. }
    intros sent1 s1 _.
    apply plays_bind.
    { destruct (ms_trans step) as [i|]; [apply plays_process_transition|apply plays_ret]. }
    intros sent2 s2 _.
    eapply plays_conv.
    - apply plays_bind.
      { apply plays_mapM. intros st s0 _. apply plays_enter_state. }
      intros sent3 s3 _.
      eapply plays_conv.
      + apply plays_bind.
        { apply plays_iterM with (g := fun _ => []). intros e s0 _.
          eapply plays_conv.
          - apply plays_bind; [apply plays_raise_event|]. intros u s4 _.
            apply plays_modify; reflexivity.
          - reflexivity. }
        intros u s4 _. apply plays_ret.
      + rewrite flat_map_nil. reflexivity.
    - apply app_nil_r.
  Qed.

  (* ---------------------------------------------------------------- guard blocks *)
  Lemma AEM_of_AEm e : AEm e -> AEM e.
  Proof. unfold AEM; auto. Qed.
  Lemma AEM_emit e : emit_err e -> AEM e.
  Proof. unfold AEM, AEm; auto. Qed.
  Lemma AEM_statechart : AEM EStatechart.
  Proof. unfold AEM, AEm; auto. Qed.
  Hint Resolve AEM_of_AEm AEM_emit AEM_statechart : core.

  Lemma plays_guards_skip {A} AE (m : M A) s sl : plays AE m s sl -> plays AE m s (SGuards :: sl).
  Proof.
    intros Hm s' r H. destruct (Hm _ _ H) as (n & o & Ht & Hf & Hr & Hk & Hl).
    exists n, o. repeat (split; auto). apply R_guards_skip; auto.
  Qed.

  Lemma plays_guards_idem {A} AE (m : M A) s sl :
    plays AE m s (SGuards :: SGuards :: sl) -> plays AE m s (SGuards :: sl).
  Proof.
    intros Hm s' r H. destruct (Hm _ _ H) as (n & o & Ht & Hf & Hr & Hk & Hl).
    exists n, o. repeat (split; auto). apply realises_guards_idem; auto.
  Qed.

  Definition gplays {A} AE (m : M A) (s : mstate) : Prop := plays AE m s [SGuards].

  Lemma gplays_quiet {A} AE (m : M A) s : plays AE m s [] -> gplays AE m s.
  Proof. apply plays_guards_skip. Qed.

  Lemma gplays_ret {A} AE (a : A) s : gplays AE (ret a) s.
  Proof. apply gplays_quiet, plays_ret. Qed.

  Lemma gplays_bind {A B} AE (m : M A) (f : A -> M B) s :
    gplays AE m s -> (forall a s1, m s = (s1, inl a) -> gplays AE (f a) s1) ->
    gplays AE (bind m f) s.
  Proof.
    intros Hm Hf. apply plays_guards_idem.
    apply (plays_bind AE m f s [SGuards] [SGuards]); auto.
  Qed.

  Lemma gplays_get_bind {A} AE (f : istate ctx -> M A) s :
    gplays AE (f (m_i s)) s -> gplays AE (bind get f) s.
  Proof. apply plays_get_bind. Qed.

  Lemma gplays_eval_guard AE o g ev s : gplays AE (eval_cond CGuard o 0 g ev) s.
  Proof.
    intros s' r H. apply eval_cond_inv in H. cbv zeta in H.
    set (c := mk_call (m_i s) CGuard o 0 (Some g) ev) in *.
    destruct (call_is_mk (m_i s) CGuard o 0 (Some g) ev) as (Hk & Ho & Hi & _). fold c in Hk, Ho, Hi.
    destruct H as [Hs Hr]. subst s'.
    destruct (eval_code c (i_ctx (m_i s))) as [b|]; subst r.
    - exists [ObEval c (Some b)], RDone. simpl. repeat split; auto.
      + apply R_guards_step; auto. apply R_guards_skip, R_done.
      + exists b; auto.
    - exists [ObEval c None], (RRaise CGuard o 0). simpl. repeat split; auto.
      + rewrite <- Ho. apply R_guards_raise; auto.
      + exists (ObEval c None), []; simpl; auto.
  Qed.

  Lemma gplays_eval_guards AE ev ts : forall s, gplays AE (eval_guards ev ts) s.
  Proof.
    induction ts as [|it ts IH]; intros s; simpl.
    - apply gplays_ret.
    - apply gplays_bind.
      + destruct (t_guard (snd it)); [apply gplays_eval_guard|apply gplays_ret].
      + intros ok s1 _. apply gplays_bind; [apply IH|]. intros r s2 _. apply gplays_ret.
  Qed.

  Lemma gplays_sel_priorities AE ev groups : forall s, gplays AE (sel_priorities ev groups) s.
  Proof.
    induction groups as [|[p ts] groups IH]; intros s; simpl.
    - apply gplays_ret.
    - apply gplays_bind; [apply gplays_eval_guards|]. intros r s1 _.
      destruct r; [apply IH|apply gplays_ret].
  Qed.

  Lemma gplays_sel_sources AE ev groups :
    forall selected ignored s, gplays AE (sel_sources ev groups selected ignored) s.
  Proof.
    induction groups as [|[src ts] groups IH]; intros selected ignored s; simpl.
    - apply gplays_ret.
    - destruct (mem src ignored); [apply IH|].
      apply gplays_bind; [apply gplays_sel_priorities|]. intros r s1 _.
      destruct r; apply IH.
  Qed.

  Lemma gplays_sel_depths AE ev groups :
    forall selected ignored s, gplays AE (sel_depths ev groups selected ignored) s.
  Proof.
    induction groups as [|[d ts] groups IH]; intros selected ignored s; simpl.
    - apply gplays_ret.
    - apply gplays_bind; [apply gplays_sel_sources|]. intros r s1 _. apply IH.
  Qed.

  Lemma gplays_sel_eventness AE ev groups :
    forall selected s, gplays AE (sel_eventness ev groups selected) s.
  Proof.
    induction groups as [|[he ts] groups IH]; intros selected s; simpl.
    - apply gplays_ret.
    - destruct selected; [|apply gplays_ret].
      apply gplays_bind; [apply gplays_sel_depths|]. intros r s1 _. apply IH.
  Qed.

  Lemma gplays_select_transitions AE ev states s : gplays AE (select_transitions ev states) s.
  Proof. unfold Interp.select_transitions. apply gplays_sel_eventness. Qed.

  Definition order_err (e : err) : Prop := e = ENonDeterminism \/ e = EConflict \/ e = EStatechart.

  Lemma check_pair_err t1 t2 e : check_pair sc t1 t2 = Some e -> order_err e.
  Proof.
    unfold check_pair, order_err. destruct (str_eqb (t_source t1) (t_source t2)).
    - intros H; inversion H; auto.
    - destruct (least_common_ancestor sc (t_source t1) (t_source t2)) as [l|];
        [|intros H; inversion H; auto].
      destruct (kind_of sc l) as [[]|]; try (intros H; inversion H; auto; fail).
      destruct (stays_below sc (Some l) t1 && stays_below sc (Some l) t2);
        intros H; inversion H; auto.
  Qed.

  Lemma check_against_err t1 rest e : check_against sc t1 rest = Some e -> order_err e.
  Proof.
    induction rest as [|it rest IH]; simpl; [discriminate|].
    destruct (check_pair sc t1 (snd it)) eqn:E; [|exact IH].
    intros H; inversion H; subst. eapply check_pair_err; eauto.
  Qed.

  Lemma check_pairs_err ts e : check_pairs sc ts = Some e -> order_err e.
  Proof.
    induction ts as [|it ts IH]; simpl; [discriminate|].
    destruct (check_against sc (snd it) ts) eqn:E; [|exact IH].
    intros H; inversion H; subst. eapply check_against_err; eauto.
  Qed.

  Lemma AEM_order e : order_err e -> AEM e.
  Proof. unfold order_err, AEM, AEm. intuition. Qed.

  Lemma plays_sort_transitions ts s : plays AEM (sort_transitions ts) s [].
  Proof.
    unfold Interp.sort_transitions. destruct ts as [|a [|b l]]; try apply plays_ret.
    destruct (check_pairs sc (a :: b :: l)) eqn:E; [|apply plays_ret].
    apply plays_fail. apply AEM_order. eapply check_pairs_err; eauto.
  Qed.

  Lemma gplays_compute_steps s : gplays AEM compute_steps s.
  Proof.
    unfold Interp.compute_steps. apply gplays_get_bind.
    destruct (negb (i_initialized (m_i s))).
    - apply gplays_quiet. eapply plays_conv.
      + apply plays_bind; [apply plays_put; reflexivity|]. intros u s1 _.
        destruct (root sc); [apply plays_ret|apply plays_fail; auto].
      + reflexivity.
    - apply gplays_bind; [apply gplays_select_transitions|]. intros ts s1 _.
      apply gplays_bind; [apply gplays_quiet, plays_observe_quiet; reflexivity|]. intros u s2 _.
      destruct ts as [|t0 ts].
      + destruct (select_event (m_i s)); apply gplays_ret.
      + apply gplays_bind; [apply gplays_quiet, plays_sort_transitions|]. intros ts' s3 _.
        apply gplays_get_bind. apply gplays_ret.
  Qed.

  Lemma plays_consume_event AE s : plays AE consume_event s [].
  Proof.
    unfold Interp.consume_event. apply plays_get_bind.
    assert (Hq : forall q2 (e2 : event), plays AE (bind (put (set_eq ctx q2 (m_i s))) (fun _ => ret (Some e2))) s []).
    { intros q2 e2. eapply plays_conv.
      - apply plays_bind; [apply plays_put; reflexivity|]. intros u s1 _. apply plays_ret.
      - reflexivity. }
    assert (He : plays AE (match i_eq (m_i s) with
                           | [] => ret None
                           | (t2, e2) :: q2 =>
                               if (t2 <=? i_time (m_i s))%Z
                               then bind (put (set_eq ctx q2 (m_i s))) (fun _ => ret (Some e2))
                               else ret None
                           end) s []).
    { destruct (i_eq (m_i s)) as [|[t2 e2] q2]; [apply plays_ret|].
      destruct (t2 <=? i_time (m_i s))%Z; [apply Hq|apply plays_ret]. }
    destruct (i_iq (m_i s)) as [|[t e] q']; [exact He|].
    destruct (t <=? i_time (m_i s))%Z; [|exact He].
    eapply plays_conv.
    - apply plays_bind; [apply plays_put; reflexivity|]. intros u s1 _. apply plays_ret.
    - reflexivity.
  Qed.

  (* ---------------------------------------------------------------- the returned micro step *)
  Lemma apply_step_result step s s' a :
    apply_step step s = (s', inl a) ->
    a = mkMicro (ms_event step) (ms_trans step) (ms_entered step) (ms_exited step) (ms_sent a).
  Proof.
    unfold Interp.apply_step.
    destruct (states_for sc (ms_entered step)) as [entered|]; [|discriminate].
    destruct (states_for sc (ms_exited step)) as [exited|]; [|discriminate].
    intros H.
    apply bind_inl in H. destruct H as (s0 & i0 & _ & H).
    apply bind_inl in H. destruct H as (s1 & sent1 & _ & H).
    apply bind_inl in H. destruct H as (s2 & sent2 & _ & H).
    apply bind_inl in H. destruct H as (s3 & sent3 & _ & H).
    apply bind_inl in H. destruct H as (s4 & u & _ & H).
    inversion H; subst. reflexivity.
  Qed.

  Lemma slots_of_micro_result step s s' a :
    apply_step step s = (s', inl a) -> slots_of_micro a = slots_of_micro step.
  Proof.
    intros H. apply apply_step_result in H. rewrite H. reflexivity.
  Qed.

  (* ---------------------------------------------------------------- _stabilize / run_steps *)
  Lemma run_ok_cast {A B} AE s s' (e : err) sl :
    run_ok AE s s' (inr e : A + err) sl -> run_ok AE s s' (inr e : B + err) sl.
  Proof.
    intros H. apply (@run_ok_stop A B) with (sl2 := []) in H. rewrite app_nil_r in H. exact H.
  Qed.

  Lemma run_ok_conv {A} AE s s' (r : A + err) sl sl' :
    run_ok AE s s' r sl -> sl = sl' -> run_ok AE s s' r sl'.
  Proof. intros H E; subst; auto. Qed.

  Lemma run_ok_ret {A} AE s (a : A) : run_ok AE s s (inl a) [].
  Proof. apply run_ok_quiet with (new := []); auto using frame_refl. Qed.

  Lemma first_some_inr {A} (f : A -> option (microstep + err)) l e :
    (forall x e, f x = Some (inr e) -> e = EStatechart) ->
    first_some f l = Some (inr e) -> e = EStatechart.
  Proof.
    intros Hf. induction l as [|x l IH]; simpl; [discriminate|].
    destruct (f x) as [[m|e']|] eqn:E; auto; try discriminate.
    intros H; inversion H; subst. eapply Hf; eauto.
  Qed.

  Lemma stab_for_leaf_err mem_ leaf e : stab_for_leaf sc mem_ leaf = Some (inr e) -> e = EStatechart.
  Proof.
    unfold stab_for_leaf. destruct (state_for sc leaf) as [st|]; [|intros H; inversion H; auto].
    destruct (s_kind st).
    - discriminate.
    - destruct (truthy (s_initial st)); discriminate.
    - destruct (children_for sc leaf); discriminate.
    - destruct (ostr_eqb (parent_for sc leaf) (root sc)); [|discriminate].
      destruct (root sc); intros H; inversion H; auto.
    - destruct (lookup leaf mem_); [discriminate|].
      destruct (s_memory st); intros H; inversion H; auto.
    - destruct (lookup leaf mem_); [discriminate|].
      destruct (s_memory st); intros H; inversion H; auto.
  Qed.

  Lemma stab_for_orthogonal_err cfg n e :
    stab_for_orthogonal sc cfg n = Some (inr e) -> e = EStatechart.
  Proof.
    unfold stab_for_orthogonal. destruct (state_for sc n) as [st|]; [|intros H; inversion H; auto].
    destruct (s_kind st); try discriminate.
    destruct (filter (fun ch : name => negb (mem ch cfg)) (children_for sc n)); discriminate.
  Qed.

  Lemma create_stabilization_step_err i e :
    create_stabilization_step ctx sc i = Some (inr e) -> e = EStatechart.
  Proof.
    unfold create_stabilization_step.
    destruct (first_some (stab_for_leaf sc (i_memory i)) (sort (leaf_order_leb sc) (leaf_for sc (i_config i))))
      as [[m|e']|] eqn:E.
    - discriminate.
    - intros H; inversion H; subst. eapply first_some_inr; [|exact E]. apply stab_for_leaf_err.
    - intros H. eapply first_some_inr; [|exact H]. apply stab_for_orthogonal_err.
  Qed.

  Lemma plays_apply_step_M step s : plays AEM (apply_step step) s (slots_of_micro step).
  Proof. eapply plays_weaken; [|apply plays_apply_step]. auto. Qed.

  Lemma stabilize_unfold f s :
    stabilize (S f) s =
    match create_stabilization_step ctx sc (m_i s) with
    | None => ret [] s
    | Some (inr e) => fail e s
    | Some (inl step) =>
        bind (apply_step step) (fun a => bind (stabilize f) (fun r => ret (a :: r))) s
    end.
  Proof.
    simpl. unfold Interp.bind at 1. unfold Interp.get.
    destruct (create_stabilization_step ctx sc (m_i s)) as [[m|e]|]; reflexivity.
  Qed.

  Lemma stabilize_run fuel : forall s s' r,
    stabilize fuel s = (s', r) ->
    exists done, run_ok AEM s s' r (flat_map slots_of_micro done) /\
                 (forall l, r = inl l -> l = done).
  Proof.
    induction fuel as [|f IH]; intros s s' r H.
    - simpl in H. inversion H; subst. exists []. split; [|intros l E; discriminate].
      apply run_ok_abort with (new := []); auto using frame_refl. unfold AEM; auto.
    - rewrite stabilize_unfold in H.
      destruct (create_stabilization_step ctx sc (m_i s)) as [[step|e]|] eqn:Ec.
      + apply bind_inv in H. destruct H as [(s1 & a & H1 & H2)|(e & H1 & Hr)].
        * assert (R1 := plays_apply_step_M _ _ _ _ H1).
          apply bind_inv in H2. destruct H2 as [(s2 & l & H2 & H3)|(e & H2 & Hr)].
          -- inversion H3; subst. destruct (IH _ _ _ H2) as (done & R2 & Hd).
             exists (a :: done). split.
             ++ simpl. rewrite (slots_of_micro_result _ _ _ _ H1).
                eapply run_ok_seq; [exact R1|].
                destruct R2 as (n & o & Ht & Hf & Hr & Hk & Hl). exists n, o. repeat (split; auto).
                destruct o; simpl in *; try discriminate; eauto.
                destruct Hk as (e & He & _); discriminate.
             ++ intros l0 E. inversion E; subst. f_equal. apply Hd; auto.
          -- subst r. destruct (IH _ _ _ H2) as (done & R2 & Hd).
             exists (step :: done). split; [|intros l0 E; discriminate].
             simpl. eapply run_ok_seq; [exact R1|]. exact R2.
        * subst r. exists [step]. split; [|intros l0 E; discriminate].
          simpl. apply (@run_ok_stop microstep (list microstep)).
          apply plays_apply_step_M. exact H1.
      + inversion H; subst. exists []. split; [|intros l E; discriminate].
        apply run_ok_abort with (new := []); auto using frame_refl.
        apply create_stabilization_step_err in Ec. subst e. auto.
      + inversion H; subst. exists []. split; [apply run_ok_ret|].
        intros l E; inversion E; auto.
  Qed.

  Lemma run_ok_inl {A B} AE s s' (a : A) (b : B) sl :
    run_ok AE s s' (inl a) sl -> run_ok AE s s' (inl b) sl.
  Proof.
    intros (n & o & Ht & Hf & Hr & Hk & Hl). exists n, o. repeat (split; auto).
    destruct o; simpl in *; try discriminate; eauto.
    destruct Hk as (e & He & _); discriminate.
  Qed.

  Lemma run_steps_cons fuel st rest :
    run_steps fuel (st :: rest) =
    bind (apply_step st) (fun a => bind (stabilize fuel) (fun ss =>
      bind (run_steps fuel rest) (fun r => ret (a :: ss ++ r)))).
  Proof. reflexivity. Qed.

  Lemma run_steps_run fuel steps : forall s s' r,
    run_steps fuel steps s = (s', r) ->
    exists done, run_ok AEM s s' r (flat_map slots_of_micro done) /\
                 (forall l, r = inl l -> l = done /\ (steps <> [] -> l <> [])).
  Proof.
    induction steps as [|st rest IH]; intros s s' r H.
    - simpl in H. inversion H; subst. exists []. split; [apply run_ok_ret|].
      intros l E; inversion E; subst. split; auto.
    - rewrite run_steps_cons in H.
      apply bind_inv in H. destruct H as [(s1 & a & H1 & H2)|(e & H1 & Hr)].
      + assert (R1 := plays_apply_step_M _ _ _ _ H1).
        rewrite <- (slots_of_micro_result _ _ _ _ H1) in R1.
        apply bind_inv in H2. destruct H2 as [(s2 & ss & H2 & H3)|(e & H2 & Hr)].
        * destruct (stabilize_run _ _ _ _ H2) as (d2 & R2 & Hd2).
          assert (E2 : ss = d2) by (apply Hd2; auto). subst d2.
          apply bind_inv in H3. destruct H3 as [(s3 & l3 & H3 & H4)|(e & H3 & Hr)].
          -- inversion H4; subst. destruct (IH _ _ _ H3) as (d3 & R3 & Hd3).
             assert (E3 : l3 = d3) by (apply Hd3; auto). subst d3.
             exists (a :: ss ++ l3). split.
             ++ simpl. rewrite flat_map_app.
                eapply run_ok_seq; [exact R1|]. eapply run_ok_seq; [exact R2|].
                eapply run_ok_inl; exact R3.
             ++ intros l0 E. inversion E; subst. split; auto. discriminate.
          -- subst r. destruct (IH _ _ _ H3) as (d3 & R3 & Hd3).
             exists (a :: ss ++ d3). split; [|intros l0 E; discriminate].
             simpl. rewrite flat_map_app.
             eapply run_ok_seq; [exact R1|]. eapply run_ok_seq; [exact R2|]. exact R3.
        * subst r. destruct (stabilize_run _ _ _ _ H2) as (d2 & R2 & Hd2).
          exists (a :: d2). split; [|intros l0 E; discriminate].
          simpl. eapply run_ok_seq; [exact R1|]. exact R2.
      + subst r. exists [st]. split; [|intros l0 E; discriminate].
        simpl. apply (@run_ok_stop microstep (list microstep)).
        apply plays_apply_step_M. exact H1.
  Qed.

  (* ---------------------------------------------------------------- invariants at the end *)
  Definition inv_slots (cfg : list name) (ev : option event) : list slot :=
    flat_map (fun n => match state_for sc n with
                       | Some st => [SConds CInv (OState (s_name st)) (s_inv st) ev]
                       | None => []
                       end)
             (configuration sc cfg).

  Lemma plays_check_invariants ev s :
    plays AEM (check_invariants ev) s (inv_slots (i_config (m_i s)) ev).
  Proof.
    unfold Interp.check_invariants, inv_slots. apply plays_get_bind.
    apply plays_iterM. intros n s0 _.
    destruct (state_for sc n) as [st|]; [apply plays_state_contract|apply plays_fail; auto].
  Qed.

  Lemma contract_keeps k o pre post inv ev s s' r :
    k <> CPre -> contract k o pre post inv ev s = (s', r) -> m_i s' = m_i s.
  Proof.
    intros Hk H. unfold Interp.contract, Interp.bind, Interp.get in H.
    destruct (i_ignore_contract (m_i s)); [inversion H; auto|].
    destruct k; try congruence; try (inversion H; auto; fail);
      apply eval_conds_run in H; destruct H as (new & out & _ & Hi & _); exact Hi.
  Qed.

  Lemma iterM_keeps {A} (f : A -> M unit) l :
    (forall x s s' r, f x s = (s', r) -> m_i s' = m_i s) ->
    forall s s' r, iterM f l s = (s', r) -> m_i s' = m_i s.
  Proof.
    intros Hf. induction l as [|x l IH]; intros s s' r H; simpl in H.
    - inversion H; auto.
    - apply bind_inv in H. destruct H as [(s1 & a & H1 & H2)|(e & H1 & Hr)].
      + apply Hf in H1. apply IH in H2. congruence.
      + apply Hf in H1. auto.
  Qed.

  Lemma check_invariants_keeps ev s s' r : check_invariants ev s = (s', r) -> m_i s' = m_i s.
  Proof.
    unfold Interp.check_invariants. unfold Interp.bind at 1. unfold Interp.get.
    apply iterM_keeps. intros n s0 s1 r0 H.
    destruct (state_for sc n) as [st|]; [|inversion H; auto].
    unfold Interp.state_contract in H. eapply contract_keeps; [|exact H]. discriminate.
  Qed.

  Lemma raise_meta_keeps m s s' r : raise_meta m s = (s', r) -> m_i s' = m_i s.
  Proof.
    unfold Interp.raise_meta. destruct (emit (i_time (m_i s)) m (m_x s)) as [x' [e|]];
      intros H; inversion H; auto.
  Qed.

  (* ---------------------------------------------------------------- execute_once *)
  Definition macro_pre (first : microstep) : M unit :=
    match ms_event first with
    | Some _ =>
        bind consume_event (fun e =>
          match e with
          | Some ev => raise_meta (MConsumed ev)
          | None => fail EStatechart
          end)
    | None => ret tt
    end.

  Definition macro_part (fuel : nat) (steps : list microstep) : M (option macrostep) :=
    match steps with
    | [] => ret None
    | first :: _ =>
        bind (macro_pre first)
             (fun _ => bind (run_steps fuel steps) (fun executed =>
                bind get (fun s => ret (Some (i_time s, executed)))))
    end.

  Lemma plays_macro_pre first s : plays AEM (macro_pre first) s [].
  Proof.
    unfold macro_pre. destruct (ms_event first) as [ev0|]; [|apply plays_ret].
    eapply plays_conv.
    - apply plays_bind; [apply plays_consume_event|]. intros oe s0 _.
      destruct oe; [apply plays_raise_meta; auto|apply plays_fail; auto].
    - reflexivity.
  Qed.

  Definition macro_ev (macro : option macrostep) : option event :=
    match macro with Some (_, ex) => macro_event ex | None => None end.

  Definition eo_tail (macro : option macrostep) : M (option macrostep) :=
    bind (check_invariants (macro_ev macro)) (fun _ =>
      bind (raise_meta MStepEnded) (fun _ => ret macro)).

  Lemma execute_once_unfold fuel now :
    execute_once fuel now =
    bind (modify (fun s => set_sent ctx [] (set_time ctx now s))) (fun _ =>
      bind (raise_meta (MStepStarted now)) (fun _ =>
        bind compute_steps (fun steps => bind (macro_part fuel steps) eo_tail))).
  Proof. reflexivity. Qed.

  Lemma macro_part_run fuel steps s s' r :
    macro_part fuel steps s = (s', r) ->
    exists done,
      run_ok AEM s s' r (flat_map slots_of_micro done) /\
      (forall m, r = inl m ->
                 (m = None /\ done = [] /\ steps = [] /\ s' = s) \/
                 (done <> [] /\ steps <> [] /\ m = Some (i_time (m_i s), done))).
  Proof.
    unfold macro_part. destruct steps as [|first rest].
    - intros H; inversion H; subst. exists []. split; [apply run_ok_ret|].
      intros m E; inversion E; subst. left; auto.
    - intros H. apply bind_inv in H. destruct H as [(s1 & u & H1 & H2)|(e & H1 & Hr)].
      + assert (R1 := plays_macro_pre _ _ _ _ H1).
        apply bind_inv in H2. destruct H2 as [(s2 & l & H2 & H3)|(e & H2 & Hr)].
        * unfold Interp.bind, Interp.get, Interp.ret in H3. inversion H3; subst.
          destruct (run_steps_run _ _ _ _ _ H2) as (done & R2 & Hd).
          destruct (Hd l eq_refl) as [El Hne]. subst done.
          exists l. split.
          -- change (flat_map slots_of_micro l) with ([] ++ flat_map slots_of_micro l).
             eapply run_ok_seq; [exact R1|]. eapply run_ok_inl; exact R2.
          -- intros m E. inversion E; subst. right. split; [apply Hne; discriminate|].
             split; [discriminate|].
             destruct R1 as (n1 & o1 & _ & [_ Ht1] & _). destruct R2 as (n2 & o2 & _ & [_ Ht2] & _).
             rewrite Ht2, Ht1. reflexivity.
        * subst r. destruct (run_steps_run _ _ _ _ _ H2) as (done & R2 & Hd).
          exists done. split; [|intros m E; discriminate].
          change (flat_map slots_of_micro done) with ([] ++ flat_map slots_of_micro done).
          eapply run_ok_seq; [exact R1|]. apply (@run_ok_cast (list microstep)). exact R2.
      + subst r. exists []. split; [|intros m E; discriminate].
        apply (@run_ok_cast unit). exact (plays_macro_pre _ _ _ _ H1).
  Qed.

  Lemma eo_tail_run macro s s' r :
    eo_tail macro s = (s', r) ->
    run_ok AEM s s' r (inv_slots (i_config (m_i s)) (macro_ev macro)) /\
    m_i s' = m_i s /\ (forall m, r = inl m -> m = macro).
  Proof.
    intros H. split; [|split].
    - revert s' r H. change (plays AEM (eo_tail macro) s (inv_slots (i_config (m_i s)) (macro_ev macro))).
      unfold eo_tail. eapply plays_conv.
      + apply plays_bind; [apply plays_check_invariants|]. intros u s1 _.
        apply plays_bind; [apply plays_raise_meta; auto|]. intros u2 s2 _. apply plays_ret.
      + simpl. apply app_nil_r.
    - unfold eo_tail in H.
      apply bind_inv in H. destruct H as [(s1 & u & H1 & H2)|(e & H1 & Hr)].
      + apply check_invariants_keeps in H1.
        apply bind_inv in H2. destruct H2 as [(s2 & u2 & H2 & H3)|(e & H2 & Hr)].
        * apply raise_meta_keeps in H2. inversion H3; subst. congruence.
        * apply raise_meta_keeps in H2. congruence.
      + apply check_invariants_keeps in H1. exact H1.
    - intros m E. subst r. unfold eo_tail in H.
      apply bind_inl in H. destruct H as (s1 & u & _ & H).
      apply bind_inl in H. destruct H as (s2 & u2 & _ & H). inversion H; auto.
  Qed.

  Definition eo_rest (fuel : nat) (now : Z) : M (option macrostep) :=
    bind (raise_meta (MStepStarted now)) (fun _ =>
      bind compute_steps (fun steps => bind (macro_part fuel steps) eo_tail)).

  Lemma eo_rest_run fuel now s s' r :
    eo_rest fuel now s = (s', r) ->
    exists done,
      run_ok AEM s s' r
             (SGuards :: flat_map slots_of_micro done
                ++ inv_slots (i_config (m_i s')) (macro_event done)) /\
      (forall m, r = inl m ->
                 (m = None /\ done = []) \/ (done <> [] /\ m = Some (i_time (m_i s), done))).
  Proof.
    unfold eo_rest. intros H.
    apply bind_inv in H. destruct H as [(s1 & u & H1 & H2)|(e & H1 & Hr)].
    - assert (R0 := plays_raise_meta AEM _ _ AEM_emit _ _ H1).
      assert (T0 : i_time (m_i s1) = i_time (m_i s)) by (apply raise_meta_keeps in H1; congruence).
      apply bind_inv in H2. destruct H2 as [(s2 & steps & H2 & H3)|(e & H2 & Hr)].
      + assert (R1 := gplays_compute_steps _ _ _ H2).
        assert (T1 : i_time (m_i s2) = i_time (m_i s1)).
        { destruct R1 as (n1 & o1 & _ & [_ Ht1] & _). exact Ht1. }
        apply bind_inv in H3. destruct H3 as [(s3 & macro & H3 & H4)|(e & H3 & Hr)].
        * destruct (macro_part_run _ _ _ _ _ H3) as (done & R2 & Hd).
          destruct (eo_tail_run _ _ _ _ H4) as (R3 & Hi & Hm).
          assert (Ev : macro_ev macro = macro_event done).
          { destruct (Hd macro eq_refl) as [(E1 & E2 & _)|(_ & _ & E1)]; subst; reflexivity. }
          exists done. split.
          -- rewrite Hi, <- Ev.
             change (run_ok AEM s s' r ([] ++ [SGuards] ++ flat_map slots_of_micro done
                       ++ inv_slots (i_config (m_i s3)) (macro_ev macro))).
             eapply run_ok_seq; [exact R0|]. eapply run_ok_seq; [exact R1|].
             eapply run_ok_seq; [exact R2|]. exact R3.
          -- intros m E. apply Hm in E. subst m.
             destruct (Hd macro eq_refl) as [(E1 & E2 & _)|(Hne & _ & E1)]; [left; auto|right].
             split; auto. rewrite E1. rewrite T1, T0. reflexivity.
        * subst r. destruct (macro_part_run _ _ _ _ _ H3) as (done & R2 & Hd).
          exists done. split; [|intros m E; discriminate].
          change (run_ok AEM s s' (inr e : option macrostep + err)
                         ([] ++ [SGuards] ++ flat_map slots_of_micro done
                            ++ inv_slots (i_config (m_i s')) (macro_event done))).
          eapply run_ok_seq; [exact R0|]. eapply run_ok_seq; [exact R1|].
          apply (@run_ok_stop (option macrostep)). exact R2.
      + subst r. exists []. split; [|intros m E; discriminate].
        change (run_ok AEM s s' (inr e : option macrostep + err)
                       ([] ++ [SGuards] ++ (flat_map slots_of_micro []
                          ++ inv_slots (i_config (m_i s')) (macro_event [])))).
        eapply run_ok_seq; [exact R0|].
        apply (@run_ok_stop (list microstep)). exact (gplays_compute_steps _ _ _ H2).
    - subst r. exists []. split; [|intros m E; discriminate].
      change (run_ok AEM s s' (inr e : option macrostep + err)
                     ([] ++ (SGuards :: flat_map slots_of_micro []
                        ++ inv_slots (i_config (m_i s')) (macro_event [])))).
      apply (@run_ok_stop unit). exact (plays_raise_meta AEM _ _ AEM_emit _ _ H1).
  Qed.

  (* The general statement about one execute_once (any ignore_contract setting, any result). *)
  Theorem execute_once_run fuel now s s' r :
    execute_once fuel now s = (s', r) ->
    exists new out done,
      m_tr s' = new ++ m_tr s /\ ig s' = ig s /\ i_time (m_i s') = now /\
      realises (ig s)
               (SGuards :: flat_map slots_of_micro done
                  ++ inv_slots (i_config (m_i s')) (macro_event done))
               (calls (rev new)) out /\
      res_ok AEM out r /\ fail_last out new /\
      (forall m, r = inl m -> (m = None /\ done = []) \/ (done <> [] /\ m = Some (now, done))).
  Proof.
    rewrite execute_once_unfold. intros H.
    apply bind_inv in H. destruct H as [(s0 & u & H0 & H)|(e & H0 & _)]; [|discriminate].
    unfold Interp.modify in H0. inversion H0; subst s0. clear H0.
    apply eo_rest_run in H. destruct H as (done & (new & out & Ht & [Hig Htm] & Hr & Hk & Hl) & Hm).
    exists new, out, done. simpl in *. repeat (split; auto).
  Qed.

  (* ================================================================ reading a realisation *)
  (* a successful call: code that did not raise, a condition that held, a guard with a value *)
  Definition ok_obs (x : obs ctx) : Prop :=
    match x with
    | ObExec _ (Some _) => True
    | ObEval c (Some b) => b = true \/ cl_kind c = CGuard
    | _ => False
    end.

  (* x is the failing call announced by the outcome *)
  Definition fails_with (x : obs ctx) (out : outcome) : Prop :=
    match out, x with
    | RFalse k o i, ObEval c (Some false) => cl_kind c = k /\ cl_owner c = o /\ cl_idx c = i
    | RRaise k o i, ObEval c None => cl_kind c = k /\ cl_owner c = o /\ cl_idx c = i
    | RRaise k o i, ObExec c None => cl_kind c = k /\ cl_owner c = o /\ cl_idx c = i
    | _, _ => False
    end.

  Definition shape (tr : list (obs ctx)) (out : outcome) : Prop :=
    match out with
    | RDone | RAbort => Forall ok_obs tr
    | _ => exists tr0 x, tr = tr0 ++ [x] /\ Forall ok_obs tr0 /\ fails_with x out
    end.

  Lemma shape_cons x tr out : ok_obs x -> shape tr out -> shape (x :: tr) out.
  Proof.
    intros Hx H. destruct out; simpl in *; auto;
      destruct H as (tr0 & y & E & Hf & Hy); exists (x :: tr0), y; subst; simpl; auto.
  Qed.

  Lemma shape_app t1 t2 out : Forall ok_obs t1 -> shape t2 out -> shape (t1 ++ t2) out.
  Proof.
    induction t1 as [|x t1 IH]; intros H1 H2; simpl; auto.
    inversion H1; subst. apply shape_cons; auto.
  Qed.

  Lemma plays_conds_shape k o ev idx cds tr out :
    plays_conds k o ev idx cds tr out -> shape tr out.
  Proof.
    intros H. induction H as [idx|idx cd cds c tr out Hc H IH|idx cd cds c Hc|idx cd cds c Hc].
    - simpl. constructor.
    - apply shape_cons; simpl; auto.
    - destruct Hc as (Hk & Ho & Hi & _). exists [], (ObEval c (Some false)). simpl. auto.
    - destruct Hc as (Hk & Ho & Hi & _). exists [], (ObEval c None). simpl. auto.
  Qed.

  (* C08_first_failure, trace part: before the failing call everything succeeded, after it there
     is nothing *)
  Lemma realises_shape ig0 sl tr out : realises ig0 sl tr out -> shape tr out.
  Proof.
    intros H.
    induction H as [ | sl | k o cd ev c sent sl tr out1 Hc H1 IH | k o cd ev c sl Hc
                     | k o cds ev sl tr out1 Hig H1 IH | k o cds ev sl ta tb out1 Hig Hp H1 IH
                     | k o cds ev sl ta out1 Hig Hp Hne1 | sl tr out1 H1 IH
                     | c b sl tr out1 Hk Hi H1 IH | c sl Hk Hi ].
    - simpl. constructor.
    - simpl. constructor.
    - apply shape_cons; simpl; auto.
    - destruct Hc as (Hk & Ho & Hi & _). exists [], (ObExec c None). simpl. auto.
    - exact IH.
    - apply shape_app; auto. apply plays_conds_shape in Hp. exact Hp.
    - eapply plays_conds_shape; eauto.
    - exact IH.
    - apply shape_cons; simpl; auto.
    - exists [], (ObEval c None). simpl. auto.
  Qed.

  Lemma fails_with_failure x out : fails_with x out -> is_failure_obs x /\ is_call x = true.
  Proof.
    destruct out; simpl; try tauto; destruct x as [c [l|]|c [[|]|]|m|ts]; simpl; tauto.
  Qed.

  Lemma ok_not_failure x : ok_obs x -> fails_with x RDone -> False.
  Proof. simpl. auto. Qed.

  (* the whole verdict about one run: result, last observation, earlier calls *)
  Definition verdict {A} (AE : err -> Prop) (out : outcome) (r : A + err) (new : list (obs ctx)) : Prop :=
    match out with
    | RDone => (exists a, r = inl a) /\ Forall ok_obs (calls (rev new))
    | RAbort => (exists e, r = inr e /\ AE e) /\ Forall ok_obs (calls (rev new))
    | RFalse k o i =>
        r = inr (EContract k o i) /\
        exists x rest, new = x :: rest /\ fails_with x out /\ Forall ok_obs (calls (rev rest))
    | RRaise k o i =>
        r = inr (ECode k o i) /\
        exists x rest, new = x :: rest /\ fails_with x out /\ Forall ok_obs (calls (rev rest))
    end.

  Lemma failure_is_call x : is_failure_obs x -> is_call x = true.
  Proof. destruct x as [c [l|]|c [[|]|]|m|ts]; simpl; tauto. Qed.

  Lemma verdict_of {A} AE ig0 sl out (r : A + err) new :
    realises ig0 sl (calls (rev new)) out -> res_ok AE out r -> fail_last out new ->
    verdict AE out r new.
  Proof.
    intros Hr Hk Hl. apply realises_shape in Hr.
    assert (Hfail : forall tr0 y, calls (rev new) = tr0 ++ [y] ->
                    (exists x rest, new = x :: rest /\ is_failure_obs x) ->
                    exists x rest, new = x :: rest /\ y = x /\ tr0 = calls (rev rest)).
    { intros tr0 y E (x & rest & En & Hx). exists x, rest. split; auto.
      subst new. simpl in E. unfold calls in E. rewrite filter_app in E. simpl in E.
      rewrite (failure_is_call _ Hx) in E. apply app_inj_tail in E. destruct E; auto. }
    destruct out; simpl in *; auto.
    - split; auto. destruct Hr as (tr0 & y & E & Hf & Hy).
      destruct (Hfail _ _ E Hl) as (x & rest & En & Ey & Et). subst. exists x, rest. auto.
    - split; auto. destruct Hr as (tr0 & y & E & Hf & Hy).
      destruct (Hfail _ _ E Hl) as (x & rest & En & Ey & Et). subst. exists x, rest. auto.
  Qed.

  Lemma run_ok_verdict {A} AE s s' (r : A + err) sl :
    run_ok AE s s' r sl ->
    exists new out, m_tr s' = new ++ m_tr s /\ frame s s' /\
                    realises (ig s) sl (calls (rev new)) out /\ verdict AE out r new.
  Proof.
    intros (n & o & Ht & Hf & Hr & Hk & Hl). exists n, o. repeat (split; auto).
    eapply verdict_of; eauto.
  Qed.

  (* a block of guards in front *)
  Definition guard_ok (x : obs ctx) : Prop :=
    exists c b, x = ObEval c (Some b) /\ cl_kind c = CGuard /\ cl_idx c = 0.

  Lemma realises_guards_inv ig0 sl tr out :
    realises ig0 (SGuards :: sl) tr out ->
    exists gs rest, tr = gs ++ rest /\ Forall guard_ok gs /\
      (realises ig0 sl rest out \/
       exists c, rest = [ObEval c None] /\ cl_kind c = CGuard /\ cl_idx c = 0 /\
                 out = RRaise CGuard (cl_owner c) 0).
  Proof.
    intros H. remember (SGuards :: sl) as l eqn:El.
    induction H as [ | sl0 | k o cd ev c sent sl0 tr out1 Hc H1 IH | k o cd ev c sl0 Hc
                     | k o cds ev sl0 tr out1 Hig H1 IH | k o cds ev sl0 ta tb out1 Hig Hp H1 IH
                     | k o cds ev sl0 ta out1 Hig Hp Hne1 | sl0 tr out1 H1 IH
                     | c b sl0 tr out1 Hk Hi H1 IH | c sl0 Hk Hi ]; try discriminate.
    - exists [], []. repeat split; auto. left. apply R_abort.
    - inversion El; subst. exists [], tr. repeat split; auto.
    - destruct (IH El) as (gs & rest & E & Hg & Hd). inversion El; subst.
      exists (ObEval c (Some b) :: gs), rest. repeat split; auto.
      constructor; auto. exists c, b; auto.
    - inversion El; subst. exists [], [ObEval c None]. repeat split; auto.
      right. exists c; auto.
  Qed.

  (* a complete realisation of l1 ++ l2 splits *)
  Lemma realises_done_app_inv ig0 l tr out :
    realises ig0 l tr out -> out = RDone -> forall l1 l2, l = l1 ++ l2 ->
    exists t1 t2, tr = t1 ++ t2 /\ realises ig0 l1 t1 RDone /\ realises ig0 l2 t2 RDone.
  Proof.
    intros H.
    induction H as [ | sl0 | k o cd ev c sent sl0 tr out1 Hc H1 IH | k o cd ev c sl0 Hc
                     | k o cds ev sl0 tr out1 Hig H1 IH | k o cds ev sl0 ta tb out1 Hig Hp H1 IH
                     | k o cds ev sl0 ta out1 Hig Hp Hne1 | sl0 tr out1 H1 IH
                     | c b sl0 tr out1 Hk Hi H1 IH | c sl0 Hk Hi ];
      intros Eo l1 l2 El; try discriminate; try congruence.
    - destruct l1; [|discriminate]. destruct l2; [|discriminate].
      exists [], []. repeat split; apply R_done.
    - destruct l1 as [|x l1].
      + simpl in El. subst l2 out1. exists [], (ObExec c (Some sent) :: tr).
        repeat split; [apply R_done|apply R_exec_ok; auto].
      + inversion El; subst. destruct (IH eq_refl l1 l2 eq_refl) as (t1 & t2 & E & R1 & R2).
        exists (ObExec c (Some sent) :: t1), t2. subst tr. repeat split; auto.
        apply R_exec_ok; auto.
    - destruct l1 as [|x l1].
      + simpl in El. subst l2 out1. exists [], tr.
        repeat split; [apply R_done|apply R_conds_ig; auto].
      + inversion El; subst. destruct (IH eq_refl l1 l2 eq_refl) as (t1 & t2 & E & R1 & R2).
        exists t1, t2. repeat split; auto. apply R_conds_ig; auto.
    - destruct l1 as [|x l1].
      + simpl in El. subst l2 out1. exists [], (ta ++ tb).
        repeat split; [apply R_done|apply R_conds_ok; auto].
      + inversion El; subst. destruct (IH eq_refl l1 l2 eq_refl) as (t1 & t2 & E & R1 & R2).
        exists (ta ++ t1), t2. subst tb. rewrite app_assoc. repeat split; auto.
        apply R_conds_ok; auto.
    - destruct l1 as [|x l1].
      + simpl in El. subst l2 out1. exists [], tr.
        repeat split; [apply R_done|apply R_guards_skip; auto].
      + inversion El; subst. destruct (IH eq_refl l1 l2 eq_refl) as (t1 & t2 & E & R1 & R2).
        exists t1, t2. repeat split; auto. apply R_guards_skip; auto.
    - destruct l1 as [|x l1].
      + simpl in El. subst l2 out1. exists [], (ObEval c (Some b) :: tr).
        repeat split; [apply R_done|apply R_guards_step; auto].
      + destruct (IH Eo (x :: l1) l2 El) as (t1 & t2 & E & R1 & R2).
        inversion El; subst x.
        exists (ObEval c (Some b) :: t1), t2. subst tr. repeat split; auto.
        apply R_guards_step; auto.
  Qed.

  (* ---------------------------------------------------------------- the executed code fragments *)
  Definition exec_sig := (ckind * owner * option code * option event)%type.

  Definition exec_slots (sl : list slot) : list exec_sig :=
    flat_map (fun x => match x with SExec k o cd ev => [(k, o, cd, ev)] | _ => [] end) sl.

  Definition execs (tr : list (obs ctx)) : list exec_sig :=
    flat_map (fun x => match x with
                       | ObExec c _ => [(cl_kind c, cl_owner c, cl_code c, cl_event c)]
                       | _ => []
                       end) tr.

  Lemma execs_app t1 t2 : execs (t1 ++ t2) = execs t1 ++ execs t2.
  Proof. apply flat_map_app. Qed.

  Lemma exec_slots_app l1 l2 : exec_slots (l1 ++ l2) = exec_slots l1 ++ exec_slots l2.
  Proof. apply flat_map_app. Qed.

  Lemma plays_conds_execs k o ev idx cds tr out : plays_conds k o ev idx cds tr out -> execs tr = [].
  Proof. intros H. induction H; simpl; auto. Qed.

  (* the ObExec entries are a prefix of the SExec slots, all of them when the play completes *)
  Lemma realises_execs ig0 sl tr out :
    realises ig0 sl tr out ->
    exists rest, exec_slots sl = execs tr ++ rest /\ (out = RDone -> rest = []).
  Proof.
    intros H.
    induction H as [ | sl | k o cd ev c sent sl tr out1 Hc H1 IH | k o cd ev c sl Hc
                     | k o cds ev sl tr out1 Hig H1 IH | k o cds ev sl ta tb out1 Hig Hp H1 IH
                     | k o cds ev sl ta out1 Hig Hp Hne1 | sl tr out1 H1 IH
                     | c b sl tr out1 Hk Hi H1 IH | c sl Hk Hi ]; simpl.
    - exists []; auto.
    - exists (exec_slots sl). split; auto. discriminate.
    - destruct IH as (rest & E & Hd). exists rest. destruct Hc as (Hk & Ho & Hi & Hcd & Hev).
      subst. rewrite E. auto.
    - exists (exec_slots sl). destruct Hc as (Hk & Ho & Hi & Hcd & Hev). subst. split; auto.
      discriminate.
    - exact IH.
    - destruct IH as (rest & E & Hd). exists rest. rewrite execs_app.
      rewrite (plays_conds_execs _ _ _ _ _ _ _ Hp). simpl. auto.
    - exists (exec_slots sl). rewrite (plays_conds_execs _ _ _ _ _ _ _ Hp). simpl. split; auto.
      intros E; congruence.
    - exact IH.
    - exact IH.
    - exists (exec_slots sl). split; auto. discriminate.
  Qed.

  Lemma realises_execs_done ig0 sl tr : realises ig0 sl tr RDone -> execs tr = exec_slots sl.
  Proof.
    intros H. apply realises_execs in H. destruct H as (rest & E & Hd).
    rewrite (Hd eq_refl), app_nil_r in E. auto.
  Qed.

  (* with ignore_contract, only guards are ever evaluated and no condition can be false *)
  Definition only_guard_evals (x : obs ctx) : Prop :=
    match x with ObEval c _ => cl_kind c = CGuard | _ => True end.

  Lemma realises_ignored sl tr out :
    realises true sl tr out ->
    Forall only_guard_evals tr /\ (forall k o i, out <> RFalse k o i).
  Proof.
    intros H. remember true as ig0 eqn:Eig.
    induction H as [ | sl | k o cd ev c sent sl tr out1 Hc H1 IH | k o cd ev c sl Hc
                     | k o cds ev sl tr out1 Hig H1 IH | k o cds ev sl ta tb out1 Hig Hp H1 IH
                     | k o cds ev sl ta out1 Hig Hp Hne1 | sl tr out1 H1 IH
                     | c b sl tr out1 Hk Hi H1 IH | c sl Hk Hi ]; try congruence; try exact IH.
    - split; [constructor|discriminate].
    - split; [constructor|discriminate].
    - destruct IH as [Hf Hn]. split; auto; constructor; simpl; auto.
    - split; [|discriminate]. constructor; simpl; auto.
    - destruct IH as [Hf Hn]. split; auto; constructor; simpl; auto.
    - split; [|discriminate]. constructor; simpl; auto.
  Qed.

  (* ================================================================ sent events (C03_sent_truth) *)
  Definition sents (tr : list (obs ctx)) : list event :=
    flat_map (fun x => match x with ObExec _ (Some l) => l | _ => [] end) tr.
  Definition senttr (s : mstate) : list event := sents (rev (m_tr s)).

  Lemma sents_app t1 t2 : sents (t1 ++ t2) = sents t1 ++ sents t2.
  Proof. apply flat_map_app. Qed.

  Lemma sents_calls l : sents (calls l) = sents l.
  Proof.
    induction l as [|x l IH]; simpl; auto.
    destruct x as [c [e|]|c r|m|ts]; simpl; rewrite IH; auto.
  Qed.

  Lemma sents_execs_nil tr : execs tr = [] -> sents tr = [].
  Proof.
    induction tr as [|x tr IH]; simpl; auto.
    destruct x as [c [e|]|c r|m|ts]; simpl; try discriminate; auto.
  Qed.

  Lemma senttr_new s s' new : m_tr s' = new ++ m_tr s -> senttr s' = senttr s ++ sents (rev new).
  Proof. unfold senttr. intros E. rewrite E, rev_app_distr, sents_app. reflexivity. Qed.

  Lemma senttr_same s s' : m_tr s' = m_tr s -> senttr s' = senttr s.
  Proof. unfold senttr. intros E. rewrite E. reflexivity. Qed.

  Lemma run_ok_noexec {A} AE s s' (r : A + err) sl :
    run_ok AE s s' r sl -> exec_slots sl = [] -> senttr s' = senttr s.
  Proof.
    intros (n & o & Ht & Hf & Hr & Hk & Hl) E.
    apply realises_execs in Hr. destruct Hr as (rest & E2 & _).
    rewrite E in E2. symmetry in E2. apply app_eq_nil in E2. destruct E2 as [E2 _].
    apply sents_execs_nil in E2. rewrite sents_calls in E2.
    rewrite (senttr_new _ _ _ Ht), E2, app_nil_r. reflexivity.
  Qed.

  Lemma run_code_sent k o cd ev s s' a :
    run_code k o cd ev s = (s', inl a) -> senttr s' = senttr s ++ a.
  Proof.
    intros H. apply run_code_inv in H. cbv zeta in H. destruct cd as [cd|].
    - destruct (exec_code (mk_call (m_i s) k o 0 (Some cd) ev) (i_ctx (m_i s))) as [[ctx' sent]|];
        destruct H as [Hs Hr]; [|discriminate]. inversion Hr; subst.
      unfold senttr. simpl. rewrite sents_app. simpl. rewrite app_nil_r. reflexivity.
    - destruct H as [Hs Hr]. inversion Hr; subst.
      unfold senttr. simpl. rewrite sents_app. simpl. reflexivity.
  Qed.

  Lemma exit_state_sent active ev st s s' a :
    exit_state active ev st s = (s', inl a) -> senttr s' = senttr s ++ a.
  Proof.
    unfold Interp.exit_state. intros H.
    apply bind_inl in H. destruct H as (s1 & sent & H1 & H). apply run_code_sent in H1.
    apply bind_inl in H. destruct H as (s2 & u2 & H2 & H).
    apply plays_record_history in H2. apply run_ok_noexec in H2; [|reflexivity].
    apply bind_inl in H. destruct H as (s2' & i2 & Hg & H). inversion Hg; subst s2' i2.
    apply bind_inl in H. destruct H as (s3 & u3 & H3 & H).
    assert (E3 : m_tr s3 = m_tr s2).
    { destruct (mem (s_name st) (i_config (m_i s2))); inversion H3; auto. }
    apply senttr_same in E3.
    apply bind_inl in H. destruct H as (s4 & u4 & H4 & H).
    apply (plays_state_contract AEm) in H4. apply run_ok_noexec in H4; [|reflexivity].
    apply bind_inl in H. destruct H as (s5 & u5 & H5 & H).
    apply (plays_raise_meta AEm _ _ AEm_emit) in H5. apply run_ok_noexec in H5; [|reflexivity].
    inversion H; subst. congruence.
  Qed.

  Lemma enter_state_sent ev st s s' a :
    enter_state ev st s = (s', inl a) -> senttr s' = senttr s ++ a.
  Proof.
    unfold Interp.enter_state. intros H.
    apply bind_inl in H. destruct H as (s1 & u1 & H1 & H).
    apply (plays_state_contract AEm) in H1. apply run_ok_noexec in H1; [|reflexivity].
    apply bind_inl in H. destruct H as (s2 & sent & H2 & H). apply run_code_sent in H2.
    apply bind_inl in H. destruct H as (s3 & u3 & H3 & H).
    assert (E3 : m_tr s3 = m_tr s2) by (inversion H3; auto). apply senttr_same in E3.
    apply bind_inl in H. destruct H as (s4 & u4 & H4 & H).
    apply (plays_raise_meta AEm _ _ AEm_emit) in H4. apply run_ok_noexec in H4; [|reflexivity].
    inversion H; subst. congruence.
  Qed.

  Lemma process_transition_sent ev i s s' a :
    process_transition ev i s = (s', inl a) -> senttr s' = senttr s ++ a.
  Proof.
    unfold Interp.process_transition.
    destruct (nth_error (c_transitions sc) i) as [t|]; [|discriminate]. intros H.
    apply bind_inl in H. destruct H as (s1 & u1 & H1 & H).
    apply (plays_trans_contract AEm) in H1. apply run_ok_noexec in H1; [|reflexivity].
    apply bind_inl in H. destruct H as (s2 & u2 & H2 & H).
    apply (plays_trans_contract AEm) in H2. apply run_ok_noexec in H2; [|reflexivity].
    apply bind_inl in H. destruct H as (s3 & sent & H3 & H). apply run_code_sent in H3.
    apply bind_inl in H. destruct H as (s4 & u4 & H4 & H).
    apply (plays_trans_contract AEm) in H4. apply run_ok_noexec in H4; [|reflexivity].
    apply bind_inl in H. destruct H as (s5 & u5 & H5 & H).
    apply (plays_trans_contract AEm) in H5. apply run_ok_noexec in H5; [|reflexivity].
    apply bind_inl in H. destruct H as (s6 & u6 & H6 & H).
    assert (E6 : m_tr s6 = m_tr s5) by (inversion H6; auto). apply senttr_same in E6.
    apply bind_inl in H. destruct H as (s7 & u7 & H7 & H).
    apply (plays_raise_meta AEm _ _ AEm_emit) in H7. apply run_ok_noexec in H7; [|reflexivity].
    inversion H; subst. congruence.
  Qed.

  Lemma mapM_sent {A} (f : A -> M (list event)) l :
    (forall x s s' a, f x s = (s', inl a) -> senttr s' = senttr s ++ a) ->
    forall s s' ls, mapM f l s = (s', inl ls) -> senttr s' = senttr s ++ concat ls.
  Proof.
    intros Hf. induction l as [|x l IH]; intros s s' ls H; simpl in H.
    - inversion H; subst. simpl. rewrite app_nil_r. reflexivity.
    - apply bind_inl in H. destruct H as (s1 & a & H1 & H).
      apply bind_inl in H. destruct H as (s2 & ls2 & H2 & H). inversion H; subst.
      apply Hf in H1. apply IH in H2. simpl. rewrite H2, H1, app_assoc. reflexivity.
  Qed.

  Lemma plays_raise_all sent s :
    plays AEm (iterM (fun e => bind (raise_event e)
                                 (fun _ => modify (fun s => set_sent ctx (i_sent s ++ [e]) s))) sent) s [].
  Proof.
    eapply plays_conv; [|apply (flat_map_nil sent)].
    apply plays_iterM with (g := fun _ => []). intros e s0 _.
    eapply plays_conv.
    - apply plays_bind; [apply plays_raise_event|]. intros u s4 _.
      apply plays_modify; reflexivity.
    - reflexivity.
  Qed.

  Lemma apply_step_sent step s s' a :
    apply_step step s = (s', inl a) -> senttr s' = senttr s ++ ms_sent a.
  Proof.
    unfold Interp.apply_step.
    destruct (states_for sc (ms_entered step)) as [entered|]; [|discriminate].
    destruct (states_for sc (ms_exited step)) as [exited|]; [|discriminate].
    intros H.
    apply bind_inl in H. destruct H as (s0 & i0 & Hg & H). inversion Hg; subst s0 i0.
    apply bind_inl in H. destruct H as (s1 & sent1 & H1 & H).
    apply (mapM_sent _ _ (exit_state_sent _ _)) in H1.
    apply bind_inl in H. destruct H as (s2 & sent2 & H2 & H).
    assert (E2 : senttr s2 = senttr s1 ++ sent2).
    { destruct (ms_trans step) as [i|]; [eapply process_transition_sent; eauto|].
      inversion H2; subst. rewrite app_nil_r. reflexivity. }
    apply bind_inl in H. destruct H as (s3 & sent3 & H3 & H).
    apply (mapM_sent _ _ (enter_state_sent _)) in H3.
    apply bind_inl in H. destruct H as (s4 & u & H4 & H).
    apply plays_raise_all in H4. apply run_ok_noexec in H4; [|reflexivity].
    inversion H; subst. simpl. rewrite H4, H3, E2, H1. rewrite <- !app_assoc. reflexivity.
  Qed.

  (* ================================================================ main theorems, micro level *)
  (* C08_apply_step_points (general form: any ignore_contract setting, any result).
     out = RDone : r = inl _, every slot played, every call succeeded;
     out = RFalse k o i / RRaise k o i : r = inr (EContract k o i) / inr (ECode k o i), the NEWEST
       observation is the failing call and what precedes it is the successful play of a prefix;
     out = RAbort : r = inr e with e a StatechartError / KeyError / AssertionError or an error raised
       by a listener; the play stopped at a slot boundary. *)
  Theorem C08_apply_step_points step s s' r :
    apply_step step s = (s', r) ->
    exists new out,
      m_tr s' = new ++ m_tr s /\ ig s' = ig s /\
      realises (ig s) (slots_of_micro step) (calls (rev new)) out /\
      verdict AEm out r new.
  Proof.
    intros H. apply plays_apply_step in H. apply run_ok_verdict in H.
    destruct H as (new & out & Ht & [Hig _] & Hr & Hv). exists new, out. auto.
  Qed.

  Theorem C08_apply_step_complete step s s' a :
    ig s = false -> apply_step step s = (s', inl a) ->
    exists new, m_tr s' = new ++ m_tr s /\
                realises false (slots_of_micro step) (calls (rev new)) RDone /\
                Forall ok_obs (calls (rev new)).
  Proof.
    intros Hig H. apply C08_apply_step_points in H.
    destruct H as (new & out & Ht & _ & Hr & Hv). exists new. rewrite Hig in Hr.
    destruct out; simpl in Hv.
    - destruct Hv; auto.
    - destruct Hv as [Hv _]; discriminate.
    - destruct Hv as [Hv _]; discriminate.
    - destruct Hv as [(e & Hv & _) _]; discriminate.
  Qed.

  (* listeners do not raise contract / code-evaluation errors of their own *)
  Definition emit_clean : Prop :=
    forall e, emit_err e -> forall k o i, e <> EContract k o i /\ e <> ECode k o i.

  Lemma AEM_clean e : emit_clean -> AEM e -> forall k o i, e <> EContract k o i /\ e <> ECode k o i.
  Proof.
    intros Hc [[H|[H|[H|H]]]|[H|[H|H]]] k o i; try (subst; split; discriminate).
    apply Hc; auto.
  Qed.

  Lemma verdict_contract {A} (AE : err -> Prop) out (r : A + err) new k o i :
    (forall e, AE e -> forall k o i, e <> EContract k o i /\ e <> ECode k o i) ->
    verdict AE out r new -> r = inr (EContract k o i) ->
    out = RFalse k o i /\
    exists x rest, new = x :: rest /\ fails_with x (RFalse k o i) /\ Forall ok_obs (calls (rev rest)).
  Proof.
    intros Hc Hv Er. subst r. destruct out; simpl in Hv.
    - destruct Hv as [(a & Hv) _]; discriminate.
    - destruct Hv as [Hv Hx]. inversion Hv; subst. auto.
    - destruct Hv as [Hv _]; discriminate.
    - destruct Hv as [(e & Hv & Ha) _]. inversion Hv; subst. destruct (Hc _ Ha k o i); congruence.
  Qed.

  Lemma verdict_code {A} (AE : err -> Prop) out (r : A + err) new k o i :
    (forall e, AE e -> forall k o i, e <> EContract k o i /\ e <> ECode k o i) ->
    verdict AE out r new -> r = inr (ECode k o i) ->
    out = RRaise k o i /\
    exists x rest, new = x :: rest /\ fails_with x (RRaise k o i) /\ Forall ok_obs (calls (rev rest)).
  Proof.
    intros Hc Hv Er. subst r. destruct out; simpl in Hv.
    - destruct Hv as [(a & Hv) _]; discriminate.
    - destruct Hv as [Hv _]; discriminate.
    - destruct Hv as [Hv Hx]. inversion Hv; subst. auto.
    - destruct Hv as [(e & Hv & Ha) _]. inversion Hv; subst. destruct (Hc _ Ha k o i); congruence.
  Qed.

  Lemma calls_rev_cons x rest : is_call x = true -> calls (rev (x :: rest)) = calls (rev rest) ++ [x].
  Proof. intros Hx. simpl. unfold calls. rewrite filter_app. simpl. rewrite Hx. reflexivity. Qed.

  (* C08_first_failure for one micro step *)
  Theorem C08_first_failure_micro step s s' k o idx :
    emit_clean ->
    apply_step step s = (s', inr (EContract k o idx)) ->
    exists x rest,
      m_tr s' = x :: rest ++ m_tr s /\ fails_with x (RFalse k o idx) /\
      Forall ok_obs (calls (rev rest)) /\
      realises (ig s) (slots_of_micro step) (calls (rev rest) ++ [x]) (RFalse k o idx).
  Proof.
    intros Hc H. apply C08_apply_step_points in H.
    destruct H as (new & out & Ht & _ & Hr & Hv).
    eapply verdict_contract in Hv; [| |reflexivity].
    - destruct Hv as (Eo & x & rest & En & Hx & Hf). subst out new.
      exists x, rest. repeat split; auto.
      rewrite calls_rev_cons in Hr; auto. apply fails_with_failure in Hx. tauto.
    - intros e Ha. apply AEM_clean; auto.
  Qed.

  Theorem C08_first_raise_micro step s s' k o idx :
    emit_clean ->
    apply_step step s = (s', inr (ECode k o idx)) ->
    exists x rest,
      m_tr s' = x :: rest ++ m_tr s /\ fails_with x (RRaise k o idx) /\
      Forall ok_obs (calls (rev rest)) /\
      realises (ig s) (slots_of_micro step) (calls (rev rest) ++ [x]) (RRaise k o idx).
  Proof.
    intros Hc H. apply C08_apply_step_points in H.
    destruct H as (new & out & Ht & _ & Hr & Hv).
    eapply verdict_code in Hv; [| |reflexivity].
    - destruct Hv as (Eo & x & rest & En & Hx & Hf). subst out new.
      exists x, rest. repeat split; auto.
      rewrite calls_rev_cons in Hr; auto. apply fails_with_failure in Hx. tauto.
    - intros e Ha. apply AEM_clean; auto.
  Qed.

  (* C03_sent_truth *)
  Theorem C03_sent_truth step s s' a :
    apply_step step s = (s', inl a) ->
    ms_event a = ms_event step /\ ms_trans a = ms_trans step /\
    ms_entered a = ms_entered step /\ ms_exited a = ms_exited step /\
    exists new, m_tr s' = new ++ m_tr s /\ ms_sent a = sents (rev new).
  Proof.
    intros H. assert (Ha := apply_step_result _ _ _ _ H).
    assert (Hs := apply_step_sent _ _ _ _ H).
    apply C08_apply_step_points in H. destruct H as (new & out & Ht & _).
    rewrite Ha. simpl. repeat split; auto. exists new. split; auto.
    rewrite (senttr_new _ _ _ Ht) in Hs. apply app_inv_head in Hs. auto.
  Qed.

  (* ================================================================ main theorems, macro level *)
  (* General form: one execute_once, any setting, any result.  `done` is the list of micro steps
     that were applied (on success exactly the returned ones; on failure the completed ones followed
     by the one that failed, if the failure happened inside a micro step). *)
  Theorem C08_execute_once_run fuel now s s' r :
    execute_once fuel now s = (s', r) ->
    exists new out done,
      m_tr s' = new ++ m_tr s /\ ig s' = ig s /\ i_time (m_i s') = now /\
      realises (ig s)
               (SGuards :: flat_map slots_of_micro done
                  ++ inv_slots (i_config (m_i s')) (macro_event done))
               (calls (rev new)) out /\
      verdict AEM out r new /\
      (forall m, r = inl m -> (m = None /\ done = []) \/ (done <> [] /\ m = Some (now, done))).
  Proof.
    intros H. apply execute_once_run in H.
    destruct H as (new & out & done & Ht & Hig & Htm & Hr & Hk & Hl & Hm).
    exists new, out, done. repeat (split; auto). eapply verdict_of; eauto.
  Qed.

  Lemma guard_ok_ok x : guard_ok x -> ok_obs x.
  Proof. intros (c & b & E & Hk & _). subst. simpl. auto. Qed.

  Lemma guard_block_done ig0 sl tr :
    realises ig0 (SGuards :: sl) tr RDone ->
    exists gs rest, tr = gs ++ rest /\ Forall guard_ok gs /\ realises ig0 sl rest RDone.
  Proof.
    intros H. apply realises_guards_inv in H. destruct H as (gs & rest & E & Hg & [H|H]).
    - exists gs, rest. auto.
    - destruct H as (c & _ & _ & _ & H). discriminate.
  Qed.

  Lemma verdict_inl {A} AE out (a : A) new : verdict AE out (inl a) new -> out = RDone.
  Proof.
    destruct out; simpl; auto.
    - intros [H _]; discriminate.
    - intros [H _]; discriminate.
    - intros [(e & H & _) _]; discriminate.
  Qed.

  (* C08_execute_once_points: a macro step was returned *)
  Theorem C08_execute_once_points fuel now s s' t steps :
    execute_once fuel now s = (s', inl (Some (t, steps))) ->
    t = now /\ steps <> [] /\
    exists new guards r1 r2,
      m_tr s' = new ++ m_tr s /\
      calls (rev new) = guards ++ r1 ++ r2 /\
      Forall guard_ok guards /\
      realises (ig s) (flat_map slots_of_micro steps) r1 RDone /\
      realises (ig s) (inv_slots (i_config (m_i s')) (macro_event steps)) r2 RDone /\
      Forall ok_obs (calls (rev new)).
  Proof.
    intros H. apply C08_execute_once_run in H.
    destruct H as (new & out & done & Ht & Hig & Htm & Hr & Hv & Hm).
    destruct (Hm _ eq_refl) as [[E _]|[Hne E]]; [discriminate|]. inversion E; subst t steps.
    split; auto. split; auto.
    assert (Eo := verdict_inl _ _ _ _ Hv). subst out.
    apply guard_block_done in Hr. destruct Hr as (gs & rest & Ec & Hg & Hr).
    destruct (realises_done_app_inv _ _ _ _ Hr eq_refl _ _ eq_refl) as (t1 & t2 & Er & R1 & R2).
    exists new, gs, t1, t2. subst rest. repeat split; auto. simpl in Hv. tauto.
  Qed.

  (* "even an empty step checks invariants" *)
  Theorem C08_execute_once_empty fuel now s s' :
    execute_once fuel now s = (s', inl None) ->
    exists new guards r2,
      m_tr s' = new ++ m_tr s /\
      calls (rev new) = guards ++ r2 /\
      Forall guard_ok guards /\
      realises (ig s) (inv_slots (i_config (m_i s')) None) r2 RDone /\
      Forall ok_obs (calls (rev new)).
  Proof.
    intros H. apply C08_execute_once_run in H.
    destruct H as (new & out & done & Ht & Hig & Htm & Hr & Hv & Hm).
    destruct (Hm _ eq_refl) as [[_ E]|[Hne E]]; [|discriminate]. subst done.
    assert (Eo := verdict_inl _ _ _ _ Hv). subst out.
    apply guard_block_done in Hr. destruct Hr as (gs & rest & Ec & Hg & Hr).
    exists new, gs, rest. simpl in *. tauto.
  Qed.

  (* C03_trace_truth: the code fragments executed, in order, are exactly what the returned micro
     steps say *)
  Definition micro_execs (m : microstep) : list exec_sig :=
    map (fun st => (CExit, OState (s_name st), s_on_exit st, None)) (opt_states (ms_exited m)) ++
    match ms_trans m with
    | Some i => match nth_error (c_transitions sc) i with
                | Some t => [(CAction, OTrans i, t_action t, ms_event m)]
                | None => []
                end
    | None => []
    end ++
    map (fun st => (CEntry, OState (s_name st), s_on_entry st, None)) (opt_states (ms_entered m)).

  Lemma exec_slots_micro m : exec_slots (slots_of_micro m) = micro_execs m.
  Proof.
    unfold slots_of_micro, micro_execs. rewrite !exec_slots_app. f_equal; [|f_equal].
    - induction (opt_states (ms_exited m)) as [|st l IH]; simpl; auto.
      f_equal. exact IH.
    - destruct (ms_trans m) as [i|]; auto. unfold trans_slots.
      destruct (nth_error (c_transitions sc) i); reflexivity.
    - induction (opt_states (ms_entered m)) as [|st l IH]; simpl; auto.
      f_equal. exact IH.
  Qed.

  Lemma exec_slots_flat steps :
    exec_slots (flat_map slots_of_micro steps) = flat_map micro_execs steps.
  Proof.
    induction steps as [|m steps IH]; simpl; auto.
    rewrite exec_slots_app, exec_slots_micro, IH. reflexivity.
  Qed.

  Lemma exec_slots_inv cfg ev : exec_slots (inv_slots cfg ev) = [].
  Proof.
    unfold inv_slots. induction (configuration sc cfg) as [|n l IH]; simpl; auto.
    rewrite exec_slots_app, IH. destruct (state_for sc n); reflexivity.
  Qed.

  Lemma execs_rev_new new : execs (calls (rev new)) = execs (rev new).
  Proof.
    induction (rev new) as [|x l IH]; simpl; auto.
    destruct x as [c e|c r|m|ts]; simpl; rewrite IH; auto.
  Qed.

  (* C08_first_failure, macro level *)
  Theorem C08_first_failure fuel now s s' k o idx :
    emit_clean ->
    execute_once fuel now s = (s', inr (EContract k o idx)) ->
    exists x rest done,
      m_tr s' = x :: rest ++ m_tr s /\ fails_with x (RFalse k o idx) /\
      Forall ok_obs (calls (rev rest)) /\
      realises (ig s)
               (SGuards :: flat_map slots_of_micro done
                  ++ inv_slots (i_config (m_i s')) (macro_event done))
               (calls (rev rest) ++ [x]) (RFalse k o idx).
  Proof.
    intros Hc H. apply C08_execute_once_run in H.
    destruct H as (new & out & done & Ht & _ & _ & Hr & Hv & _).
    eapply verdict_contract in Hv; [| |reflexivity].
    - destruct Hv as (Eo & x & rest & En & Hx & Hf). subst out new.
      exists x, rest, done. repeat split; auto.
      rewrite calls_rev_cons in Hr; auto. apply fails_with_failure in Hx. tauto.
    - intros e Ha. apply AEM_clean; auto.
  Qed.

  Theorem C08_first_raise fuel now s s' k o idx :
    emit_clean ->
    execute_once fuel now s = (s', inr (ECode k o idx)) ->
    exists x rest done,
      m_tr s' = x :: rest ++ m_tr s /\ fails_with x (RRaise k o idx) /\
      Forall ok_obs (calls (rev rest)) /\
      realises (ig s)
               (SGuards :: flat_map slots_of_micro done
                  ++ inv_slots (i_config (m_i s')) (macro_event done))
               (calls (rev rest) ++ [x]) (RRaise k o idx).
  Proof.
    intros Hc H. apply C08_execute_once_run in H.
    destruct H as (new & out & done & Ht & _ & _ & Hr & Hv & _).
    eapply verdict_code in Hv; [| |reflexivity].
    - destruct Hv as (Eo & x & rest & En & Hx & Hf). subst out new.
      exists x, rest, done. repeat split; auto.
      rewrite calls_rev_cons in Hr; auto. apply fails_with_failure in Hx. tauto.
    - intros e Ha. apply AEM_clean; auto.
  Qed.

  (* ================================================================ C09_ignore_silent *)
  Lemma only_guard_evals_new new :
    Forall only_guard_evals (calls (rev new)) -> Forall only_guard_evals new.
  Proof.
    rewrite !Forall_forall. intros H x Hx.
    destruct (is_call x) eqn:E.
    - apply H. unfold calls. apply filter_In. split; auto. apply in_rev. rewrite rev_involutive. auto.
    - destruct x; simpl in *; auto; discriminate.
  Qed.

  Definition emit_no_contract : Prop := forall e, emit_err e -> forall k o i, e <> EContract k o i.

  Lemma AEM_no_contract e : emit_no_contract -> AEM e -> forall k o i, e <> EContract k o i.
  Proof.
    intros Hc [[H|[H|[H|H]]]|[H|[H|H]]] k o i; try (subst; discriminate).
    apply Hc; auto.
  Qed.

  Lemma verdict_ignored {A} (AE : err -> Prop) sl out (r : A + err) new :
    realises true sl (calls (rev new)) out -> verdict AE out r new ->
    Forall only_guard_evals new /\
    ((forall e, AE e -> forall k o i, e <> EContract k o i) -> forall k o i, r <> inr (EContract k o i)).
  Proof.
    intros Hr Hv. apply realises_ignored in Hr. destruct Hr as [Hf Hn].
    split; [apply only_guard_evals_new; auto|].
    intros Hc k o i E. subst r. destruct out; simpl in Hv.
    - destruct Hv as [(a & Hv) _]; discriminate.
    - eapply Hn; eauto.
    - destruct Hv as [Hv _]; discriminate.
    - destruct Hv as [(e & Hv & Ha) _]. inversion Hv; subst. eapply Hc; eauto.
  Qed.

  (* with ignore_contract: no ObEval other than guards, never a contract error, and the flag
     itself is never modified *)
  Theorem C09_ignore_silent_micro step s s' r :
    ig s = true -> apply_step step s = (s', r) ->
    ig s' = true /\
    (exists new, m_tr s' = new ++ m_tr s /\ Forall only_guard_evals new) /\
    (emit_no_contract -> forall k o i, r <> inr (EContract k o i)).
  Proof.
    intros Hig H. apply C08_apply_step_points in H.
    destruct H as (new & out & Ht & Hig' & Hr & Hv). rewrite Hig in Hr.
    destruct (verdict_ignored _ _ _ _ _ Hr Hv) as [Hf Hn].
    split; [congruence|]. split; [exists new; auto|].
    intros Hc. apply Hn. intros e Ha. apply AEM_no_contract; auto.
  Qed.

  Theorem C09_ignore_silent fuel now s s' r :
    ig s = true -> execute_once fuel now s = (s', r) ->
    ig s' = true /\
    (exists new, m_tr s' = new ++ m_tr s /\ Forall only_guard_evals new) /\
    (emit_no_contract -> forall k o i, r <> inr (EContract k o i)).
  Proof.
    intros Hig H. apply C08_execute_once_run in H.
    destruct H as (new & out & done & Ht & Hig' & _ & Hr & Hv & _). rewrite Hig in Hr.
    destruct (verdict_ignored _ _ _ _ _ Hr Hv) as [Hf Hn].
    split; [congruence|]. split; [exists new; auto|].
    intros Hc. apply Hn. intros e Ha. apply AEM_no_contract; auto.
  Qed.

  (* the flag is never modified, whatever its value *)
  Theorem C09_flag_constant fuel now s s' r :
    execute_once fuel now s = (s', r) -> i_ignore_contract (m_i s') = i_ignore_contract (m_i s).
  Proof.
    intros H. apply C08_execute_once_run in H.
    destruct H as (new & out & done & _ & Hig & _). exact Hig.
  Qed.

  (* ================================================================ frame lemmas ("keeps") *)
  (* keepsAt proj m s: running m from s leaves the field `proj` of the interpreter state unchanged,
     whatever the result *)
  Section Keeps.
    Variable T : Type.
    Variable proj : istate ctx -> T.

    Definition keepsAt {A} (m : M A) (s : mstate) : Prop :=
      forall s' r, m s = (s', r) -> proj (m_i s') = proj (m_i s).

    Lemma K_ret {A} (a : A) s : keepsAt (ret a) s.
    Proof. intros s' r H; inversion H; auto. Qed.
    Lemma K_fail {A} e s : keepsAt (fail e : M A) s.
    Proof. intros s' r H; inversion H; auto. Qed.
    Lemma K_bind {A B} (m : M A) (f : A -> M B) s :
      keepsAt m s -> (forall a s1, m s = (s1, inl a) -> keepsAt (f a) s1) -> keepsAt (bind m f) s.
    Proof.
      intros Hm Hf s' r H. apply bind_inv in H. destruct H as [(s1 & a & H1 & H2)|(e & H1 & Hr)].
      - rewrite (Hf _ _ H1 _ _ H2). apply (Hm _ _ H1).
      - apply (Hm _ _ H1).
    Qed.
    Lemma K_get_bind {A} (f : istate ctx -> M A) s : keepsAt (f (m_i s)) s -> keepsAt (bind get f) s.
    Proof. intros H s' r E. unfold Interp.bind, Interp.get in E. exact (H _ _ E). Qed.
    Lemma K_put i s : proj i = proj (m_i s) -> keepsAt (put i) s.
    Proof. intros E s' r H; inversion H; auto. Qed.
    Lemma K_modify f s : proj (f (m_i s)) = proj (m_i s) -> keepsAt (modify f) s.
    Proof. intros E s' r H; inversion H; auto. Qed.
    Lemma K_observe o s : keepsAt (observe o) s.
    Proof. intros s' r H; inversion H; auto. Qed.
    Lemma K_same {A} (m : M A) s : (forall s' r, m s = (s', r) -> m_i s' = m_i s) -> keepsAt m s.
    Proof. intros Hm s' r H. rewrite (Hm _ _ H). reflexivity. Qed.
    Lemma K_mapM {A B} (f : A -> M B) l : (forall x s, keepsAt (f x) s) -> forall s, keepsAt (mapM f l) s.
    Proof.
      intros Hf. induction l as [|x l IH]; intros s; simpl; [apply K_ret|].
      apply K_bind; [apply Hf|]. intros a s1 _. apply K_bind; [apply IH|]. intros a2 s2 _. apply K_ret.
    Qed.
    Lemma K_iterM {A} (f : A -> M unit) l : (forall x s, keepsAt (f x) s) -> forall s, keepsAt (iterM f l) s.
    Proof.
      intros Hf. induction l as [|x l IH]; intros s; simpl; [apply K_ret|].
      apply K_bind; [apply Hf|]. intros a s1 _. apply IH.
    Qed.

    Lemma K_raise_meta m s : keepsAt (raise_meta m) s.
    Proof. apply K_same. intros s' r. apply raise_meta_keeps. Qed.

    Lemma K_eval_cond k o idx cd ev s : keepsAt (eval_cond k o idx cd ev) s.
    Proof. apply K_same. intros s' r H. apply eval_cond_inv in H. destruct H as [H _]; subst; auto. Qed.

    Lemma K_eval_conds k o idx cds ev s : keepsAt (eval_conds k o idx cds ev) s.
    Proof.
      apply K_same. intros s' r H. apply eval_conds_run in H.
      destruct H as (new & out & _ & Hi & _); auto.
    Qed.

    Definition stable_under (f : istate ctx -> istate ctx) : Prop := forall i, proj (f i) = proj i.

    Lemma K_contract k o pre post inv ev s :
      (forall m, stable_under (set_old ctx m)) -> keepsAt (contract k o pre post inv ev) s.
    Proof.
      intros Ho. unfold Interp.contract. apply K_get_bind.
      destruct (i_ignore_contract (m_i s)); [apply K_ret|].
      destruct k; try apply K_ret; try apply K_eval_conds.
      apply K_bind; [|intros u0 s0 Hu0; apply K_eval_conds].
      destruct inv; [destruct post|]; try apply K_ret; apply K_modify; apply Ho.
    Qed.

    Lemma K_run_code k o cd ev s :
      (forall c, stable_under (set_ctx ctx c)) -> keepsAt (run_code k o cd ev) s.
    Proof.
      intros Hc s' r H. apply run_code_inv in H. cbv zeta in H. destruct cd as [cd|].
      - destruct (exec_code (mk_call (m_i s) k o 0 (Some cd) ev) (i_ctx (m_i s))) as [[ctx' sent]|];
          destruct H as [Hs Hr]; subst s'; simpl; auto. apply Hc.
      - destruct H as [Hs Hr]; subst s'; simpl; auto.
    Qed.

    Lemma K_record_history active st s :
      (forall m, stable_under (set_memory ctx m)) -> keepsAt (record_history active st) s.
    Proof.
      intros Hm. unfold Interp.record_history. destruct (s_kind st); try apply K_ret.
      apply K_iterM. intros child s0. destruct (state_for sc child) as [cs|]; [|apply K_fail].
      destruct (s_kind cs); try apply K_ret.
      - destruct (filter (fun n : name => mem n (children_for sc (s_name st))) active) as [|x [|y l]];
          try apply K_fail. apply K_modify. apply Hm.
      - destruct (filter (fun n : name => mem n (descendants_for sc (s_name st))) active) as [|x l];
          try apply K_fail. apply K_modify. apply Hm.
    Qed.

    Lemma K_raise_event e s :
      (forall e, stable_under (fun i => queue_event i e)) -> keepsAt (raise_event e) s.
    Proof.
      intros Hq. unfold Interp.raise_event. destruct (e_kind e).
      - apply K_ret.
      - apply K_bind; [apply K_modify; apply Hq|]. intros u1 s1 _.
        apply K_bind; [apply K_raise_meta|]. intros u2 s2 _.
        destruct (has_delay e); [apply K_raise_meta|apply K_ret].
      - apply K_raise_meta.
    Qed.

    Lemma K_raise_all sent s :
      (forall e, stable_under (fun i => queue_event i e)) ->
      (forall l, stable_under (set_sent ctx l)) ->
      keepsAt (iterM (fun e => bind (raise_event e)
                                 (fun _ => modify (fun s => set_sent ctx (i_sent s ++ [e]) s))) sent) s.
    Proof.
      intros Hq Hs. apply K_iterM. intros e s0.
      apply K_bind; [apply K_raise_event; auto|]. intros u s1 _. apply K_modify. apply Hs.
    Qed.

    Lemma K_eval_guards ev ts : forall s, keepsAt (eval_guards ev ts) s.
    Proof.
      induction ts as [|it ts IH]; intros s; simpl; [apply K_ret|].
      apply K_bind.
      - destruct (t_guard (snd it)); [apply K_eval_cond|apply K_ret].
      - intros ok s1 _. apply K_bind; [apply IH|]. intros r s2 _. apply K_ret.
    Qed.

    Lemma K_sel_priorities ev groups : forall s, keepsAt (sel_priorities ev groups) s.
    Proof.
      induction groups as [|[p ts] groups IH]; intros s; simpl; [apply K_ret|].
      apply K_bind; [apply K_eval_guards|]. intros r s1 _. destruct r; [apply IH|apply K_ret].
    Qed.

    Lemma K_sel_sources ev groups :
      forall selected ignored s, keepsAt (sel_sources ev groups selected ignored) s.
    Proof.
      induction groups as [|[src ts] groups IH]; intros selected ignored s; simpl; [apply K_ret|].
      destruct (mem src ignored); [apply IH|].
      apply K_bind; [apply K_sel_priorities|]. intros r s1 _. destruct r; apply IH.
    Qed.

    Lemma K_sel_depths ev groups :
      forall selected ignored s, keepsAt (sel_depths ev groups selected ignored) s.
    Proof.
      induction groups as [|[d ts] groups IH]; intros selected ignored s; simpl; [apply K_ret|].
      apply K_bind; [apply K_sel_sources|]. intros r s1 _. apply IH.
    Qed.

    Lemma K_sel_eventness ev groups : forall selected s, keepsAt (sel_eventness ev groups selected) s.
    Proof.
      induction groups as [|[he ts] groups IH]; intros selected s; simpl; [apply K_ret|].
      destruct selected; [|apply K_ret].
      apply K_bind; [apply K_sel_depths|]. intros r s1 _. apply IH.
    Qed.

    Lemma K_sort_transitions ts s : keepsAt (sort_transitions ts) s.
    Proof.
      unfold Interp.sort_transitions. destruct ts as [|a [|b l]]; try apply K_ret.
      destruct (check_pairs sc (a :: b :: l)); [apply K_fail|apply K_ret].
    Qed.

    Lemma K_compute_steps s :
      (forall b, stable_under (set_initialized ctx b)) -> keepsAt compute_steps s.
    Proof.
      intros Hi. unfold Interp.compute_steps. apply K_get_bind.
      destruct (negb (i_initialized (m_i s))).
      - apply K_bind; [apply K_put; apply Hi|]. intros u s1 _.
        destruct (root sc); [apply K_ret|apply K_fail].
      - apply K_bind; [apply K_sel_eventness|]. intros ts s1 _.
        apply K_bind; [apply K_observe|]. intros u s2 _.
        destruct ts as [|t0 ts].
        + destruct (select_event (m_i s)); apply K_ret.
        + apply K_bind; [apply K_sort_transitions|]. intros ts' s3 _.
          apply K_get_bind. apply K_ret.
    Qed.

    Lemma K_consume_event s :
      (forall q, stable_under (set_iq ctx q)) -> (forall q, stable_under (set_eq ctx q)) ->
      keepsAt consume_event s.
    Proof.
      intros Hiq Heq. unfold Interp.consume_event. apply K_get_bind.
      assert (He : keepsAt (match i_eq (m_i s) with
                           | [] => ret None
                           | (t2, e2) :: q2 =>
                               if (t2 <=? i_time (m_i s))%Z
                               then bind (put (set_eq ctx q2 (m_i s))) (fun _ => ret (Some e2))
                               else ret None
                           end) s).
      { destruct (i_eq (m_i s)) as [|[t2 e2] q2]; [apply K_ret|].
        destruct (t2 <=? i_time (m_i s))%Z; [|apply K_ret].
        apply K_bind; [apply K_put; apply Heq|]. intros u0 s0 Hu0; apply K_ret. }
      destruct (i_iq (m_i s)) as [|[t e] q']; [exact He|].
      destruct (t <=? i_time (m_i s))%Z; [|exact He].
      apply K_bind; [apply K_put; apply Hiq|]. intros u0 s0 Hu0; apply K_ret.
    Qed.

    Lemma K_macro_pre first s :
      (forall q, stable_under (set_iq ctx q)) -> (forall q, stable_under (set_eq ctx q)) ->
      keepsAt (macro_pre first) s.
    Proof.
      intros Hiq Heq. unfold macro_pre. destruct (ms_event first) as [ev0|]; [|apply K_ret].
      apply K_bind; [apply K_consume_event; auto|]. intros oe s1 _.
      destruct oe; [apply K_raise_meta|apply K_fail].
    Qed.

    Lemma K_process_transition ev i s :
      (forall m, stable_under (set_old ctx m)) -> (forall c, stable_under (set_ctx ctx c)) ->
      (forall m, stable_under (set_idle ctx m)) -> keepsAt (process_transition ev i) s.
    Proof.
      intros Ho Hc Hi. unfold Interp.process_transition.
      destruct (nth_error (c_transitions sc) i) as [t|]; [|apply K_fail].
      unfold Interp.trans_contract.
      apply K_bind; [apply K_contract; auto|]. intros u1 s1 _.
      apply K_bind; [apply K_contract; auto|]. intros u2 s2 _.
      apply K_bind; [apply K_run_code; auto|]. intros sent s3 _.
      apply K_bind; [apply K_contract; auto|]. intros u4 s4 _.
      apply K_bind; [apply K_contract; auto|]. intros u5 s5 _.
      apply K_bind; [apply K_modify; apply Hi|]. intros u6 s6 _.
      apply K_bind; [apply K_raise_meta|]. intros u7 s7 _. apply K_ret.
    Qed.
  End Keeps.

  (* ================================================================ a macro step is a chain of apply_step *)
  Inductive chain : mstate -> list microstep -> mstate -> Prop :=
  | chain_nil : forall s, chain s [] s
  | chain_cons : forall step s s1 a l s2,
      apply_step step s = (s1, inl a) -> chain s1 l s2 -> chain s (a :: l) s2.

  Lemma chain_app s1 l1 s2 l2 s3 : chain s1 l1 s2 -> chain s2 l2 s3 -> chain s1 (l1 ++ l2) s3.
  Proof.
    intros H1 H2. induction H1 as [s|step s sa a l sb Ha H1 IH]; simpl; auto.
    eapply chain_cons; eauto.
  Qed.

  Lemma stabilize_chain fuel : forall s s' l, stabilize fuel s = (s', inl l) -> chain s l s'.
  Proof.
    induction fuel as [|f IH]; intros s s' l H; [discriminate|].
    rewrite stabilize_unfold in H.
    destruct (create_stabilization_step ctx sc (m_i s)) as [[step|e]|].
    - apply bind_inl in H. destruct H as (s1 & a & H1 & H).
      apply bind_inl in H. destruct H as (s2 & l2 & H2 & H). inversion H; subst.
      eapply chain_cons; eauto.
    - discriminate.
    - inversion H; subst. apply chain_nil.
  Qed.

  Lemma run_steps_chain fuel steps : forall s s' l, run_steps fuel steps s = (s', inl l) -> chain s l s'.
  Proof.
    induction steps as [|st rest IH]; intros s s' l H.
    - inversion H; subst. apply chain_nil.
    - rewrite run_steps_cons in H.
      apply bind_inl in H. destruct H as (s1 & a & H1 & H).
      apply bind_inl in H. destruct H as (s2 & ss & H2 & H).
      apply bind_inl in H. destruct H as (s3 & l3 & H3 & H). inversion H; subst.
      eapply chain_cons; [exact H1|]. eapply chain_app; [eapply stabilize_chain; eauto|].
      apply IH; auto.
  Qed.

  Lemma chain_sent s l s' : chain s l s' -> senttr s' = senttr s ++ concat (map ms_sent l).
  Proof.
    intros H. induction H as [s|step s s1 a l s2 Ha H IH]; simpl.
    - rewrite app_nil_r. reflexivity.
    - rewrite IH, (apply_step_sent _ _ _ _ Ha), app_assoc. reflexivity.
  Qed.

  Notation cfg_keeps := (keepsAt (list name) (@i_config ctx)).

  Lemma execute_once_chain fuel now s s' m :
    execute_once fuel now s = (s', inl m) ->
    exists s1 s2 l,
      chain s1 l s2 /\
      i_config (m_i s1) = i_config (m_i s) /\ senttr s1 = senttr s /\
      m_i s' = m_i s2 /\ senttr s' = senttr s2 /\
      ((m = None /\ l = []) \/ (exists t, m = Some (t, l))).
  Proof.
    rewrite execute_once_unfold. intros H.
    apply bind_inl in H. destruct H as (s0 & u0 & H0 & H).
    assert (C0 : i_config (m_i s0) = i_config (m_i s)) by (inversion H0; reflexivity).
    assert (S0 : senttr s0 = senttr s) by (inversion H0; reflexivity).
    clear H0.
    apply bind_inl in H. destruct H as (sa & ua & Ha & H).
    assert (Ca := K_raise_meta _ (@i_config ctx) _ _ _ _ Ha).
    assert (Sa := run_ok_noexec _ _ _ _ _ (plays_raise_meta AEM _ _ AEM_emit _ _ Ha) eq_refl).
    apply bind_inl in H. destruct H as (sb & steps & Hb & H).
    assert (Cb := K_compute_steps _ (@i_config ctx) _ (fun b i => eq_refl) _ _ Hb).
    assert (Sb := run_ok_noexec _ _ _ _ _ (gplays_compute_steps _ _ _ Hb) eq_refl).
    apply bind_inl in H. destruct H as (sd & macro & Hd & H).
    destruct (eo_tail_run _ _ _ _ H) as (Rt & Hi & Hm). rewrite (Hm m eq_refl) in *.
    assert (St := run_ok_noexec _ _ _ _ _ Rt (exec_slots_inv _ _)).
    unfold macro_part in Hd. destruct steps as [|first rest].
    - inversion Hd; subst. exists sd, sd, []. split; [apply chain_nil|].
      split; [congruence|]. split; [congruence|]. split; [auto|]. split; [auto|]. left; auto.
    - apply bind_inl in Hd. destruct Hd as (sp & up & Hp & Hd).
      assert (Cp := K_macro_pre _ (@i_config ctx) _ _ (fun q i => eq_refl) (fun q i => eq_refl) _ _ Hp).
      assert (Sp := run_ok_noexec _ _ _ _ _ (plays_macro_pre _ _ _ _ Hp) eq_refl).
      apply bind_inl in Hd. destruct Hd as (sq & l & Hq & Hd).
      unfold Interp.bind, Interp.get, Interp.ret in Hd. inversion Hd; subst.
      exists sp, sd, l. split; [eapply run_steps_chain; eauto|].
      split; [congruence|]. split; [congruence|]. split; [auto|]. split; [auto|].
      right. eexists; reflexivity.
  Qed.

  Theorem C03_trace_truth fuel now s s' t steps :
    execute_once fuel now s = (s', inl (Some (t, steps))) ->
    exists new, m_tr s' = new ++ m_tr s /\
                execs (rev new) = flat_map micro_execs steps /\
                sents (rev new) = concat (map ms_sent steps).
  Proof.
    intros H. assert (H0 := H). apply C08_execute_once_run in H.
    destruct H as (new & out & done & Ht & Hig & Htm & Hr & Hv & Hm).
    destruct (Hm _ eq_refl) as [[E _]|[Hne E]]; [discriminate|]. inversion E; subst t steps.
    assert (Eo := verdict_inl _ _ _ _ Hv). subst out.
    exists new. split; auto. split.
    - apply realises_execs_done in Hr. rewrite execs_rev_new in Hr. rewrite Hr.
      simpl. rewrite exec_slots_app, exec_slots_flat, exec_slots_inv, app_nil_r. reflexivity.
    - apply execute_once_chain in H0.
      destruct H0 as (s1 & s2 & l & Hc & _ & S1 & _ & S2 & [[E0 _]|(t & E0)]); [discriminate|].
      inversion E0; subst l. apply chain_sent in Hc.
      assert (Es : senttr s' = senttr s ++ concat (map ms_sent done)) by congruence.
      rewrite (senttr_new _ _ _ Ht) in Es. apply app_inv_head in Es. exact Es.
  Qed.

  (* ================================================================ configuration (C03_config_truth) *)
  Definition names_of (l : list name) : list name := map s_name (opt_states l).

  Fixpoint all_active (l : list name) (c : list name) : Prop :=
    match l with
    | [] => True
    | n :: l' => mem n c = true /\ all_active l' (remove_first n c)
    end.

  Definition cfg_exits (l : list name) (c : list name) : list name :=
    fold_left (fun c n => remove_first n c) l c.
  Definition cfg_enters (l : list name) (c : list name) : list name :=
    fold_left (fun c n => set_add n c) l c.
  (* as the model computes it: with the names stored in the state objects *)
  Definition cfg_step (c : list name) (a : microstep) : list name :=
    cfg_enters (names_of (ms_entered a)) (cfg_exits (names_of (ms_exited a)) c).
  (* as the documentation says it: with the names listed in the MicroStep *)
  Definition cfg_step_doc (c : list name) (a : microstep) : list name :=
    cfg_enters (ms_entered a) (cfg_exits (ms_exited a) c).

  Lemma exit_state_cfg active ev st s s' a :
    exit_state active ev st s = (s', inl a) ->
    mem (s_name st) (i_config (m_i s)) = true /\
    i_config (m_i s') = remove_first (s_name st) (i_config (m_i s)).
  Proof.
    unfold Interp.exit_state. intros H.
    apply bind_inl in H. destruct H as (s1 & sent & H1 & H).
    apply (K_run_code _ (@i_config ctx) _ _ _ _ _ (fun c i => eq_refl)) in H1.
    apply bind_inl in H. destruct H as (s2 & u2 & H2 & H).
    apply (K_record_history _ (@i_config ctx) _ _ _ (fun c i => eq_refl)) in H2.
    apply bind_inl in H. destruct H as (s2' & i2 & Hg & H). inversion Hg; subst s2' i2.
    apply bind_inl in H. destruct H as (s3 & u3 & H3 & H).
    destruct (mem (s_name st) (i_config (m_i s2))) eqn:Em; [|discriminate].
    assert (E3 : i_config (m_i s3) = remove_first (s_name st) (i_config (m_i s2)))
      by (inversion H3; reflexivity).
    clear H3.
    apply bind_inl in H. destruct H as (s4 & u4 & Hc4 & H).
    apply (K_contract _ (@i_config ctx) _ _ _ _ _ _ _ (fun c i => eq_refl)) in Hc4.
    apply bind_inl in H. destruct H as (s5 & u5 & Hm5 & H).
    apply (K_raise_meta _ (@i_config ctx)) in Hm5.
    assert (E5 : s' = s5) by (inversion H; auto). subst s5.
    rewrite <- H1, <- H2. split; auto. congruence.
  Qed.

  Lemma enter_state_cfg ev st s s' a :
    enter_state ev st s = (s', inl a) ->
    i_config (m_i s') = set_add (s_name st) (i_config (m_i s)).
  Proof.
    unfold Interp.enter_state. intros H.
    apply bind_inl in H. destruct H as (s1 & u1 & H1 & H).
    apply (K_contract _ (@i_config ctx) _ _ _ _ _ _ _ (fun c i => eq_refl)) in H1.
    apply bind_inl in H. destruct H as (s2 & sent & H2 & H).
    apply (K_run_code _ (@i_config ctx) _ _ _ _ _ (fun c i => eq_refl)) in H2.
    apply bind_inl in H. destruct H as (s3 & u3 & H3 & H).
    assert (E3 : i_config (m_i s3) = set_add (s_name st) (i_config (m_i s2)))
      by (inversion H3; reflexivity).
    clear H3.
    apply bind_inl in H. destruct H as (s4 & u4 & Hm4 & H).
    apply (K_raise_meta _ (@i_config ctx)) in Hm4.
    assert (E4 : s' = s4) by (inversion H; auto). subst s4. congruence.
  Qed.

  Lemma mapM_exit_cfg active ev l : forall s s' ls,
    mapM (exit_state active ev) l s = (s', inl ls) ->
    all_active (map s_name l) (i_config (m_i s)) /\
    i_config (m_i s') = cfg_exits (map s_name l) (i_config (m_i s)).
  Proof.
    induction l as [|st l IH]; intros s s' ls H; simpl in H.
    - inversion H; subst. simpl. auto.
    - apply bind_inl in H. destruct H as (s1 & a & H1 & H).
      apply bind_inl in H. destruct H as (s2 & ls2 & H2 & H). inversion H; subst.
      apply exit_state_cfg in H1. destruct H1 as [Hm Hc].
      apply IH in H2. destruct H2 as [Ha Hc2]. simpl. rewrite <- Hc. auto.
  Qed.

  Lemma mapM_enter_cfg ev l : forall s s' ls,
    mapM (enter_state ev) l s = (s', inl ls) ->
    i_config (m_i s') = cfg_enters (map s_name l) (i_config (m_i s)).
  Proof.
    induction l as [|st l IH]; intros s s' ls H; simpl in H.
    - inversion H; subst. reflexivity.
    - apply bind_inl in H. destruct H as (s1 & a & H1 & H).
      apply bind_inl in H. destruct H as (s2 & ls2 & H2 & H). inversion H; subst.
      apply enter_state_cfg in H1. apply IH in H2. simpl. rewrite <- H1. auto.
  Qed.

  Lemma apply_step_cfg step s s' a :
    apply_step step s = (s', inl a) ->
    all_active (names_of (ms_exited step)) (i_config (m_i s)) /\
    i_config (m_i s') = cfg_step (i_config (m_i s)) step /\
    states_for sc (ms_exited step) <> None /\ states_for sc (ms_entered step) <> None.
  Proof.
    unfold Interp.apply_step, cfg_step, names_of, opt_states.
    destruct (states_for sc (ms_entered step)) as [entered|]; [|discriminate].
    destruct (states_for sc (ms_exited step)) as [exited|]; [|discriminate].
    intros H.
    apply bind_inl in H. destruct H as (s0 & i0 & Hg & H). inversion Hg; subst s0 i0.
    apply bind_inl in H. destruct H as (s1 & sent1 & H1 & H).
    apply mapM_exit_cfg in H1. destruct H1 as [Ha H1].
    apply bind_inl in H. destruct H as (s2 & sent2 & H2 & H).
    assert (E2 : i_config (m_i s2) = i_config (m_i s1)).
    { destruct (ms_trans step) as [i|]; [|inversion H2; auto].
      apply (K_process_transition _ (@i_config ctx) _ _ _ (fun c i => eq_refl)
               (fun c i => eq_refl) (fun c i => eq_refl)) in H2. exact H2. }
    apply bind_inl in H. destruct H as (s3 & sent3 & H3 & H).
    apply mapM_enter_cfg in H3.
    apply bind_inl in H. destruct H as (s4 & u & H4 & H).
    apply (K_raise_all _ (@i_config ctx)) in H4.
    - inversion H; subst. repeat split; auto; try discriminate. congruence.
    - intros e i. unfold queue_event. destruct (e_kind e); reflexivity.
    - intros l i. reflexivity.
  Qed.

  (* every state object is registered under its own name (part of well-formedness WF1) *)
  Definition names_coherent : Prop := forall n st, state_for sc n = Some st -> s_name st = n.

  Lemma states_for_names l : names_coherent -> forall sts, states_for sc l = Some sts -> map s_name sts = l.
  Proof.
    intros Hn. induction l as [|n l IH]; intros sts H; simpl in H.
    - inversion H; auto.
    - destruct (state_for sc n) as [st|] eqn:E; [|discriminate].
      destruct (states_for sc l) as [r|]; [|discriminate]. inversion H; subst. simpl.
      rewrite (Hn _ _ E), (IH r eq_refl). reflexivity.
  Qed.

  Lemma names_of_id l : names_coherent -> states_for sc l <> None -> names_of l = l.
  Proof.
    intros Hn H. unfold names_of, opt_states. destruct (states_for sc l) as [sts|] eqn:E; [|congruence].
    apply states_for_names; auto.
  Qed.

  (* C03_config_truth, as the model computes it (no assumption on the chart) *)
  Theorem C03_config_truth_gen step s s' a :
    apply_step step s = (s', inl a) ->
    i_config (m_i s') = cfg_step (i_config (m_i s)) step /\
    all_active (names_of (ms_exited step)) (i_config (m_i s)).
  Proof. intros H. apply apply_step_cfg in H. tauto. Qed.

  (* C03_config_truth, as documented: exits then entries with the names of the MicroStep; each
     exited state was in the configuration at that moment *)
  Theorem C03_config_truth step s s' a :
    names_coherent ->
    apply_step step s = (s', inl a) ->
    i_config (m_i s') =
      fold_left (fun c n => set_add n c) (ms_entered step)
        (fold_left (fun c n => remove_first n c) (ms_exited step) (i_config (m_i s))) /\
    all_active (ms_exited step) (i_config (m_i s)).
  Proof.
    intros Hn H. apply apply_step_cfg in H. destruct H as (Ha & Hc & Hx & He).
    unfold cfg_step in Hc. rewrite !names_of_id in *; auto.
  Qed.

  Lemma chain_cfg s l s' :
    chain s l s' -> i_config (m_i s') = fold_left cfg_step l (i_config (m_i s)).
  Proof.
    intros H. induction H as [s|step s s1 a l s2 Ha H IH]; simpl; auto.
    rewrite IH. f_equal. rewrite (apply_step_result _ _ _ _ Ha).
    apply apply_step_cfg in Ha. destruct Ha as (_ & Hc & _). rewrite Hc. reflexivity.
  Qed.

  Lemma chain_cfg_doc s l s' :
    names_coherent ->
    chain s l s' -> i_config (m_i s') = fold_left cfg_step_doc l (i_config (m_i s)).
  Proof.
    intros Hn H. induction H as [s|step s s1 a l s2 Ha H IH]; simpl; auto.
    rewrite IH. f_equal. rewrite (apply_step_result _ _ _ _ Ha).
    apply apply_step_cfg in Ha. destruct Ha as (_ & Hc & Hx & He). rewrite Hc.
    unfold cfg_step, cfg_step_doc. simpl. rewrite !names_of_id; auto.
  Qed.

  (* the configuration after execute_once is the fold of the returned micro steps *)
  Theorem C03_macro_config fuel now s s' m :
    execute_once fuel now s = (s', inl m) ->
    i_config (m_i s') =
      fold_left cfg_step (match m with Some (_, steps) => steps | None => [] end) (i_config (m_i s)) /\
    (names_coherent ->
     i_config (m_i s') =
      fold_left cfg_step_doc (match m with Some (_, steps) => steps | None => [] end) (i_config (m_i s))).
  Proof.
    intros H. apply execute_once_chain in H.
    destruct H as (s1 & s2 & l & Hc & C1 & _ & Hi & _ & Hm).
    assert (El : l = match m with Some (_, steps) => steps | None => [] end).
    { destruct Hm as [[E1 E2]|(t & E1)]; subst; reflexivity. }
    rewrite <- El, Hi, <- C1. split.
    - apply chain_cfg; auto.
    - intros Hn. apply chain_cfg_doc; auto.
  Qed.

  (* ================================================================ C08_old *)
  Lemma owner_eqb_eq a b : owner_eqb a b = true -> a = b.
  Proof.
    destruct a, b; simpl; try discriminate; intros H.
    - apply String.eqb_eq in H. congruence.
    - apply Nat.eqb_eq in H. congruence.
  Qed.

  Lemma owner_eqb_refl a : owner_eqb a a = true.
  Proof. destruct a; simpl; [apply String.eqb_refl|apply Nat.eqb_refl]. Qed.

  Lemma old_lookup_set_same o (c : ctx) m : old_lookup o (old_set o c m) = Some c.
  Proof.
    induction m as [|[o1 c1] m IH]; simpl.
    - rewrite owner_eqb_refl. reflexivity.
    - destruct (owner_eqb o o1) eqn:E; simpl; [rewrite owner_eqb_refl; reflexivity|].
      rewrite E. exact IH.
  Qed.

  Lemma old_lookup_set_other o' o (c : ctx) m :
    owner_eqb o' o = false -> old_lookup o' (old_set o c m) = old_lookup o' m.
  Proof.
    intros Hne. induction m as [|[o1 c1] m IH]; simpl.
    - rewrite Hne. reflexivity.
    - destruct (owner_eqb o o1) eqn:E; simpl.
      + rewrite Hne. apply owner_eqb_eq in E. subst o1. rewrite Hne. reflexivity.
      + destruct (owner_eqb o' o1); auto.
  Qed.

  (* what __old__ is in a call: by construction of the call descriptor *)
  Lemma C08_old_field i k o idx cd ev :
    cl_old (mk_call i k o idx cd ev) =
    match k with CInv | CPost => old_lookup o (i_old i) | _ => None end.
  Proof. unfold Interp.mk_call. destruct k; reflexivity. Qed.

  (* x is the evaluation of one condition of kind k of owner o made in interpreter state i
     (so: on context i_ctx i, with __old__ read from i_old i) *)
  Definition from_conds (i : istate ctx) (k : ckind) (o : owner) (ev : option event) (x : obs ctx) : Prop :=
    exists idx cd, x = ObEval (mk_call i k o idx (Some cd) ev)
                              (eval_code (mk_call i k o idx (Some cd) ev) (i_ctx i)).

  Lemma eval_conds_obs k o ev cds : forall idx s s' r,
    eval_conds k o idx cds ev s = (s', r) ->
    exists new, m_tr s' = new ++ m_tr s /\ m_i s' = m_i s /\ Forall (from_conds (m_i s) k o ev) new.
  Proof.
    induction cds as [|cd cds IH]; intros idx s s' r H; simpl in H.
    - inversion H; subst. exists []. auto.
    - apply bind_inv in H. destruct H as [(s1 & b & H1 & H2)|(e & H1 & Hr)].
      + apply eval_cond_inv in H1. cbv zeta in H1. destruct H1 as [Hs1 Hb].
        assert (Hx : from_conds (m_i s) k o ev
                       (ObEval (mk_call (m_i s) k o idx (Some cd) ev)
                               (eval_code (mk_call (m_i s) k o idx (Some cd) ev) (i_ctx (m_i s)))))
          by (exists idx, cd; reflexivity).
        destruct b.
        * apply IH in H2. destruct H2 as (new & Ht & Hi & Hf). subst s1. simpl in *.
          exists (new ++ [ObEval (mk_call (m_i s) k o idx (Some cd) ev)
                             (eval_code (mk_call (m_i s) k o idx (Some cd) ev) (i_ctx (m_i s)))]).
          rewrite Ht, <- app_assoc. repeat split; auto. apply Forall_app. auto.
        * inversion H2; subst. simpl.
          exists [ObEval (mk_call (m_i s) k o idx (Some cd) ev)
                         (eval_code (mk_call (m_i s) k o idx (Some cd) ev) (i_ctx (m_i s)))].
          repeat split; auto.
      + apply eval_cond_inv in H1. cbv zeta in H1. destruct H1 as [Hs1 Hb]. subst s'. simpl.
        exists [ObEval (mk_call (m_i s) k o idx (Some cd) ev)
                       (eval_code (mk_call (m_i s) k o idx (Some cd) ev) (i_ctx (m_i s)))].
        repeat split; auto. constructor; auto. exists idx, cd; reflexivity.
  Qed.

  (* the __old__ store after contract k ...: only the CPre branch writes, exactly when there is an
     invariant or a postcondition, and what it writes is the CURRENT context *)
  Definition contract_old (k : ckind) (o : owner) (post inv : list code) (i : istate ctx)
    : list (owner * ctx) :=
    if i_ignore_contract i then i_old i else
    match k with
    | CPre => match inv, post with
              | [], [] => i_old i
              | _, _ => old_set o (i_ctx i) (i_old i)
              end
    | _ => i_old i
    end.

  Lemma contract_obs k o pre post inv ev s s' r :
    contract k o pre post inv ev s = (s', r) ->
    exists new,
      m_tr s' = new ++ m_tr s /\ Forall (from_conds (m_i s') k o ev) new /\
      i_ctx (m_i s') = i_ctx (m_i s) /\
      i_old (m_i s') = contract_old k o post inv (m_i s).
  Proof.
    intros H. unfold Interp.contract, Interp.bind, Interp.get in H. unfold contract_old.
    destruct (i_ignore_contract (m_i s)); [inversion H; subst; exists []; auto|].
    destruct k; try (inversion H; subst; exists []; auto; fail).
    - destruct inv as [|i0 inv]; [destruct post as [|p0 post]|];
        cbv [Interp.modify Interp.ret] in H; apply eval_conds_obs in H;
        destruct H as (new & Ht & Hi & Hf); exists new; rewrite Hi; simpl; auto.
    - apply eval_conds_obs in H. destruct H as (new & Ht & Hi & Hf). exists new. rewrite Hi. auto.
    - apply eval_conds_obs in H. destruct H as (new & Ht & Hi & Hf). exists new. rewrite Hi. auto.
  Qed.

  (* small Hoare logic on the new observations: all of them satisfy P, and on success R holds *)
  Definition obsAt {A} (P : obs ctx -> Prop) (m : M A) (s : mstate) (R : A -> mstate -> Prop) : Prop :=
    forall s' r, m s = (s', r) ->
      exists new, m_tr s' = new ++ m_tr s /\ Forall P new /\ (forall a, r = inl a -> R a s').

  Lemma obs_bind {A B} (P : obs ctx -> Prop) (m : M A) (f : A -> M B) s R1 R2 :
    obsAt P m s R1 -> (forall a s1, R1 a s1 -> obsAt P (f a) s1 R2) -> obsAt P (bind m f) s R2.
  Proof.
    intros Hm Hf s' r H. apply bind_inv in H. destruct H as [(s1 & a & H1 & H2)|(e & H1 & Hr)].
    - destruct (Hm _ _ H1) as (n1 & Ht1 & Hp1 & Hr1).
      destruct (Hf a s1 (Hr1 a eq_refl) _ _ H2) as (n2 & Ht2 & Hp2 & Hr2).
      exists (n2 ++ n1). rewrite Ht2, Ht1, app_assoc. repeat split; auto. apply Forall_app; auto.
    - destruct (Hm _ _ H1) as (n1 & Ht1 & Hp1 & Hr1). exists n1. subst r.
      repeat split; auto. intros a E; discriminate.
  Qed.

  Lemma obs_get_bind {A} (P : obs ctx -> Prop) (f : istate ctx -> M A) s R :
    obsAt P (f (m_i s)) s R -> obsAt P (bind get f) s R.
  Proof. intros H s' r E. unfold Interp.bind, Interp.get in E. exact (H _ _ E). Qed.

  Lemma obs_ret {A} (P : obs ctx -> Prop) (a : A) s (R : A -> mstate -> Prop) : R a s -> obsAt P (ret a) s R.
  Proof. intros Hr s' r H. inversion H; subst. exists []. repeat split; auto. intros a0 E; inversion E; subst; auto. Qed.

  Lemma obs_raise_meta (P : obs ctx -> Prop) m s (R : unit -> mstate -> Prop) :
    P (ObMeta m) -> (forall s', m_i s' = m_i s -> R tt s') -> obsAt P (raise_meta m) s R.
  Proof.
    intros Hp Hr s' r H. assert (Hi := raise_meta_keeps _ _ _ _ H).
    unfold Interp.raise_meta in H.
    destruct (emit (i_time (m_i s)) m (m_x s)) as [x' [e|]]; inversion H; subst; simpl;
      exists [ObMeta m]; repeat split; auto; intros a E; try discriminate.
    destruct a. apply Hr. reflexivity.
  Qed.

  (* what one transition's conditions and action see *)
  Definition sees_old (v : ctx) (x : obs ctx) : Prop :=
    match x with
    | ObEval c _ => cl_kind c = CInv \/ cl_kind c = CPost -> cl_old c = Some v
    | ObExec c sent =>
        (cl_code c = None /\ sent = Some []) \/
        (cl_code c <> None /\ sent = option_map snd (exec_code c v))
    | _ => True
    end.

  Lemma from_conds_sees i k o ev v x :
    from_conds i k o ev x ->
    (k = CInv \/ k = CPost -> old_lookup o (i_old i) = Some v) -> sees_old v x.
  Proof.
    intros (idx & cd & E) Hk. subst x. simpl. intros Hc.
    unfold Interp.mk_call in *. simpl in *. destruct k; simpl; destruct Hc; try discriminate; auto.
  Qed.

  Lemma obs_contract v k o pre post inv ev s (R : unit -> mstate -> Prop) :
    (k = CInv \/ k = CPost -> old_lookup o (contract_old k o post inv (m_i s)) = Some v) ->
    (forall s', i_ctx (m_i s') = i_ctx (m_i s) ->
                i_old (m_i s') = contract_old k o post inv (m_i s) -> R tt s') ->
    obsAt (sees_old v) (contract k o pre post inv ev) s R.
  Proof.
    intros Hk Hr s' r H. apply contract_obs in H. destruct H as (new & Ht & Hf & Hc & Ho).
    exists new. repeat split; auto.
    - eapply Forall_impl; [|exact Hf]. intros x Hx. eapply from_conds_sees; eauto.
      rewrite Ho. exact Hk.
    - intros [] _. apply Hr; auto.
  Qed.

  Lemma obs_run_code k o cd ev s (R : list event -> mstate -> Prop) :
    (forall s' a, i_old (m_i s') = i_old (m_i s) -> R a s') ->
    obsAt (sees_old (i_ctx (m_i s))) (run_code k o cd ev) s R.
  Proof.
    intros Hr s' r H. apply run_code_inv in H. cbv zeta in H.
    destruct cd as [cd|].
    - destruct (exec_code (mk_call (m_i s) k o 0 (Some cd) ev) (i_ctx (m_i s))) as [[ctx' sent]|] eqn:E;
        destruct H as [Hs Hres]; subst s' r; simpl.
      + exists [ObExec (mk_call (m_i s) k o 0 (Some cd) ev) (Some sent)].
        split; [reflexivity|]. split.
        * constructor; auto. simpl. right. rewrite E. split; [discriminate|reflexivity].
        * intros a Ea. inversion Ea; subst. apply Hr. reflexivity.
      + exists [ObExec (mk_call (m_i s) k o 0 (Some cd) ev) None].
        split; [reflexivity|]. split.
        * constructor; auto. simpl. right. rewrite E. split; [discriminate|reflexivity].
        * intros a Ea; discriminate.
    - destruct H as [Hs Hres]; subst s' r; simpl.
      exists [ObExec (mk_call (m_i s) k o 0 None ev) (Some [])].
      split; [reflexivity|]. split.
      + constructor; auto. simpl. left. auto.
      + intros a Ea. inversion Ea; subst. apply Hr. reflexivity.
  Qed.

  (* C08_old for a transition: with contracts on and at least one invariant or postcondition,
     every invariant / postcondition evaluated while the transition is processed sees as __old__
     the context v in which process_transition started; the preconditions do not change the
     context, and the action (the only ObExec) was run on that same v. *)
  Theorem C08_old_transition ev i t s s' r :
    nth_error (c_transitions sc) i = Some t ->
    ig s = false -> (t_inv t <> [] \/ t_post t <> []) ->
    process_transition ev i s = (s', r) ->
    exists new, m_tr s' = new ++ m_tr s /\ Forall (sees_old (i_ctx (m_i s))) new.
  Proof.
    intros Hn Hig Hne H. unfold Interp.process_transition in H. rewrite Hn in H.
    set (v := i_ctx (m_i s)). set (o := OTrans i).
    assert (Hstore : forall i0, i_ignore_contract i0 = false ->
                       old_lookup o (contract_old CPre o (t_post t) (t_inv t) i0) = Some (i_ctx i0)).
    { intros i0 E. unfold contract_old. rewrite E.
      destruct (t_inv t) as [|x l]; [destruct (t_post t) as [|y l2]|];
        try apply old_lookup_set_same. destruct Hne; congruence. }
    assert (Hkeep : forall k i0, k <> CPre -> contract_old k o (t_post t) (t_inv t) i0 = i_old i0).
    { intros k i0 Hk. unfold contract_old. destruct (i_ignore_contract i0); auto.
      destruct k; auto; congruence. }
    pose (R1 := fun (_ : unit) (s1 : mstate) =>
                  i_ctx (m_i s1) = v /\ old_lookup o (i_old (m_i s1)) = Some v).
    pose (R2 := fun (_ : unit) (s1 : mstate) => old_lookup o (i_old (m_i s1)) = Some v).
    assert (Hall : obsAt (sees_old v) (process_transition ev i) s (fun _ _ => True)).
    { unfold Interp.process_transition. rewrite Hn. unfold Interp.trans_contract. simpl fst. simpl snd.
      apply obs_bind with (R1 := R1).
      { apply obs_contract; [intros [E|E]; discriminate|].
        intros s1 Hc Ho. split; auto. rewrite Ho. apply Hstore. exact Hig. }
      intros u1 s1 [Hc1 Ho1].
      apply obs_bind with (R1 := R1).
      { apply obs_contract; [intros _; rewrite Hkeep by discriminate; auto|].
        intros s2 Hc Ho. split; [congruence|]. rewrite Ho, Hkeep by discriminate. auto. }
      intros u2 s2 [Hc2 Ho2].
      apply obs_bind with (R1 := fun _ s3 => R2 tt s3).
      { rewrite <- Hc2. apply obs_run_code. intros s3 a Ho. unfold R2. rewrite Ho. auto. }
      intros sent s3 Ho3. unfold R2 in Ho3.
      apply obs_bind with (R1 := R2).
      { apply obs_contract; [intros _; rewrite Hkeep by discriminate; auto|].
        intros s4 Hc Ho. unfold R2. rewrite Ho, Hkeep by discriminate. auto. }
      intros u4 s4 Ho4. unfold R2 in Ho4.
      apply obs_bind with (R1 := fun _ _ => True).
      { apply obs_contract; [intros _; rewrite Hkeep by discriminate; auto|]. auto. }
      intros u5 s5 _.
      apply obs_bind with (R1 := fun _ _ => True).
      { intros s6 r6 H6. inversion H6; subst. exists []. repeat split; auto. }
      intros u6 s6 _.
      apply obs_bind with (R1 := fun _ _ => True).
      { apply obs_raise_meta; simpl; auto. }
      intros u7 s7 _. apply obs_ret. auto. }
    unfold Interp.process_transition in Hall. rewrite Hn in Hall.
    destruct (Hall _ _ H) as (new & Ht & Hf & _). exists new. auto.
  Qed.

  (* the first sentence of C08_old: every evaluation is recorded with the __old__ found in the
     store at that very moment, and evaluating does not change the interpreter state *)
  Theorem C08_old_at_eval k o idx cd ev s s' r :
    eval_cond k o idx cd ev s = (s', r) ->
    exists c rb,
      m_tr s' = ObEval c rb :: m_tr s /\ m_i s' = m_i s /\
      rb = eval_code c (i_ctx (m_i s)) /\
      cl_kind c = k /\ cl_owner c = o /\ cl_idx c = idx /\
      cl_old c = match k with CInv | CPost => old_lookup o (i_old (m_i s)) | _ => None end.
  Proof.
    intros H. apply eval_cond_inv in H. cbv zeta in H. destruct H as [Hs Hr]. subst s'.
    eexists. eexists. simpl. split; [reflexivity|]. split; [reflexivity|]. split; [reflexivity|].
    destruct (call_is_mk (m_i s) k o idx (Some cd) ev) as (Hk & Ho & Hi & _).
    repeat split; auto. apply C08_old_field.
  Qed.

  Lemma realises_nil_inv ig0 tr out : realises ig0 [] tr out -> tr = [].
  Proof. intros H. inversion H; auto. Qed.

  Lemma obs_of_plays {A} AE (P : obs ctx -> Prop) (m : M A) s (R : A -> mstate -> Prop) :
    plays AE m s [] -> (forall x, is_call x = false -> P x) ->
    (forall s' a, m s = (s', inl a) -> R a s') -> obsAt P m s R.
  Proof.
    intros Hp HP HR s' r H. destruct (Hp _ _ H) as (new & out & Ht & _ & Hr & _).
    apply realises_nil_inv in Hr. exists new. split; auto. split.
    - apply Forall_forall. intros x Hx. apply HP.
      destruct (is_call x) eqn:E; auto.
      assert (Hin : In x (calls (rev new))).
      { unfold calls. apply filter_In. split; auto. apply in_rev. rewrite rev_involutive. auto. }
      rewrite Hr in Hin. destruct Hin.
    - intros a E. subst r. eapply HR; eauto.
  Qed.

  Lemma obs_iterM {A} (P : obs ctx -> Prop) (f : A -> M unit) (R : mstate -> Prop) l :
    (forall x s1, R s1 -> obsAt P (f x) s1 (fun _ => R)) ->
    forall s, R s -> obsAt P (iterM f l) s (fun _ => R).
  Proof.
    intros Hf. induction l as [|x l IH]; intros s Hs; simpl.
    - apply obs_ret; auto.
    - eapply obs_bind; [apply Hf; auto|]. intros u s1 H1. apply IH; auto.
  Qed.

  Lemma obs_mapM {A B} (P : obs ctx -> Prop) (f : A -> M B) (R : mstate -> Prop) l :
    (forall x s1, R s1 -> obsAt P (f x) s1 (fun _ => R)) ->
    forall s, R s -> obsAt P (mapM f l) s (fun _ => R).
  Proof.
    intros Hf. induction l as [|x l IH]; intros s Hs; simpl.
    - apply obs_ret; auto.
    - eapply obs_bind; [apply Hf; auto|]. intros u s1 H1.
      eapply obs_bind; [apply IH; auto|]. intros u2 s2 H2. apply obs_ret; auto.
  Qed.

  Notation old_keeps := (keepsAt (list (owner * ctx)) (@i_old ctx)).

  (* what a condition evaluated for owner o finds as __old__ when the store is `store` *)
  Definition reads_store (k : ckind) (o : owner) (store : list (owner * ctx)) (x : obs ctx) : Prop :=
    match x with
    | ObEval c _ => cl_kind c = k /\ cl_owner c = o /\
                    cl_old c = match k with CInv | CPost => old_lookup o store | _ => None end
    | _ => True
    end.

  Lemma from_conds_reads i k o ev x : from_conds i k o ev x -> reads_store k o (i_old i) x.
  Proof.
    intros (idx & cd & E). subst x. unfold reads_store.
    destruct (call_is_mk i k o idx (Some cd) ev) as (Hk & Ho & _).
    split; [exact Hk|]. split; [exact Ho|]. apply C08_old_field.
  Qed.

  (* C08_old, exit: a state's postconditions read the store as it was when exit_state started;
     exit_state itself never writes the store *)
  Theorem C08_old_exit active ev st s s' r :
    exit_state active ev st s = (s', r) ->
    exists new,
      m_tr s' = new ++ m_tr s /\
      Forall (reads_store CPost (OState (s_name st)) (i_old (m_i s))) new /\
      (forall a, r = inl a -> i_old (m_i s') = i_old (m_i s)).
  Proof.
    set (o := OState (s_name st)). set (store := i_old (m_i s)).
    pose (R := fun (s1 : mstate) => i_old (m_i s1) = store).
    assert (Hall : obsAt (reads_store CPost o store) (exit_state active ev st) s (fun _ => R)).
    { unfold Interp.exit_state.
      apply obs_bind with (R1 := fun _ => R).
      { intros s1 r1 H1.
        assert (Hk := K_run_code _ (@i_old ctx) _ _ _ _ _ (fun c i => eq_refl) _ _ H1).
        apply run_code_inv in H1. cbv zeta in H1. destruct (s_on_exit st) as [cd|].
        - destruct (exec_code (mk_call (m_i s) CExit (OState (s_name st)) 0 (Some cd) None) (i_ctx (m_i s)))
            as [[ctx' sent]|]; destruct H1 as [Hs Hr]; subst s1; simpl;
            eexists [_]; (split; [reflexivity|]); (split; [constructor; simpl; auto|]);
            intros a _; exact Hk.
        - destruct H1 as [Hs Hr]; subst s1; simpl.
          eexists [_]. split; [reflexivity|]. split; [constructor; simpl; auto|]. intros a _; exact Hk. }
      intros sent s1 H1.
      apply obs_bind with (R1 := fun _ => R).
      { eapply obs_of_plays; [apply plays_record_history| |].
        - intros x Hx. destruct x; simpl in *; auto; discriminate.
        - intros s2 a H2. unfold R in *.
          rewrite (K_record_history _ (@i_old ctx) _ _ _ (fun c i => eq_refl) _ _ H2). auto. }
      intros u2 s2 H2.
      apply obs_get_bind.
      apply obs_bind with (R1 := fun _ => R).
      { intros s3 r3 H3. exists [].
        destruct (mem (s_name st) (i_config (m_i s2))); inversion H3; subst; simpl;
          (split; [reflexivity|]); (split; [constructor|]); intros a E; try discriminate.
        exact H2. }
      intros u3 s3 H3.
      apply obs_bind with (R1 := fun _ => R).
      { intros s4 r4 H4. unfold Interp.state_contract in H4. apply contract_obs in H4.
        destruct H4 as (new & Ht & Hf & Hc & Ho). exists new.
        assert (E4 : i_old (m_i s4) = store).
        { rewrite Ho. unfold contract_old. destruct (i_ignore_contract (m_i s3)); auto. }
        repeat split; auto.
        eapply Forall_impl; [|exact Hf]. intros x Hx. apply from_conds_reads in Hx.
        rewrite E4 in Hx. exact Hx. }
      intros u4 s4 H4.
      apply obs_bind with (R1 := fun _ => R).
      { apply obs_raise_meta; simpl; auto. intros s5 E. unfold R in *. rewrite E. auto. }
      intros u5 s5 H5. apply obs_ret. auto. }
    intros H. destruct (Hall _ _ H) as (new & Ht & Hf & Hr). exists new. auto.
  Qed.

  (* C08_old, invariants at the end of the step: they read the store as it is then; checking
     changes nothing in the interpreter state *)
  Theorem C08_old_invariants ev s s' r :
    check_invariants ev s = (s', r) ->
    m_i s' = m_i s /\
    exists new,
      m_tr s' = new ++ m_tr s /\
      Forall (fun x => exists o, reads_store CInv o (i_old (m_i s)) x /\
                                 match x with ObExec _ _ => False | _ => True end) new.
  Proof.
    intros H. split; [eapply check_invariants_keeps; eauto|].
    pose (R := fun (s1 : mstate) => m_i s1 = m_i s).
    pose (P := fun x : obs ctx => exists o, reads_store CInv o (i_old (m_i s)) x /\
                                 match x with ObExec _ _ => False | _ => True end).
    assert (Hall : obsAt P (check_invariants ev) s (fun _ => R)).
    { unfold Interp.check_invariants. apply obs_get_bind.
      apply obs_iterM; [|reflexivity].
      intros n s1 H1 s2 r2 H2. destruct (state_for sc n) as [st|].
      - unfold Interp.state_contract in H2.
        assert (Hk := contract_keeps _ _ _ _ _ _ _ _ _ (ltac:(discriminate) : CInv <> CPre) H2).
        apply contract_obs in H2.
        destruct H2 as (new & Ht & Hf & Hc & Ho). exists new.
        split; [exact Ht|]. split.
        + eapply Forall_impl; [|exact Hf]. intros x Hx. exists (OState (s_name st)).
          assert (Hx' := from_conds_reads _ _ _ _ _ Hx). rewrite Hk, H1 in Hx'. split; auto.
          destruct Hx as (idx & cd & E). subst x. exact I.
        + intros a _. unfold R in *. congruence.
      - inversion H2; subst. exists []. split; [reflexivity|]. split; [constructor|].
        intros a E; discriminate. }
    destruct (Hall _ _ H) as (new & Ht & Hf & _). exists new. auto.
  Qed.

  (* C08_old, entry: with contracts on and at least one invariant or postcondition, entering a
     state stores under its name the context in which its preconditions were evaluated (they are
     evaluated right after the store, on that same context, before the entry code runs); nothing
     else in the store changes. *)
  Theorem C08_old_state_entry ev st s s' a :
    enter_state ev st s = (s', inl a) ->
    let o := OState (s_name st) in
    i_old (m_i s') = contract_old CPre o (s_post st) (s_inv st) (m_i s) /\
    (exists pre_evals c,
        m_tr s' = ObMeta (MEntered (s_name st)) :: ObExec c (Some a) :: pre_evals ++ m_tr s /\
        Forall (fun x => exists c, x = ObEval c (eval_code c (i_ctx (m_i s))) /\ cl_kind c = CPre) pre_evals) /\
    (ig s = false -> (s_inv st <> [] \/ s_post st <> []) ->
     i_old (m_i s') = old_set o (i_ctx (m_i s)) (i_old (m_i s)) /\
     old_lookup o (i_old (m_i s')) = Some (i_ctx (m_i s)) /\
     forall o', owner_eqb o' o = false ->
                old_lookup o' (i_old (m_i s')) = old_lookup o' (i_old (m_i s))).
  Proof.
    intros H o. unfold Interp.enter_state in H.
    apply bind_inl in H. destruct H as (s1 & u1 & H1 & H).
    unfold Interp.state_contract in H1. apply contract_obs in H1.
    destruct H1 as (new1 & Ht1 & Hf1 & Hc1 & Ho1).
    apply bind_inl in H. destruct H as (s2 & sent & H2 & H).
    assert (Ho2 := K_run_code _ (@i_old ctx) _ _ _ _ _ (fun c i => eq_refl) _ _ H2).
    apply run_code_inv in H2. cbv zeta in H2.
    apply bind_inl in H. destruct H as (s3 & u3 & H3 & H).
    assert (E3 : i_old (m_i s3) = i_old (m_i s2) /\ m_tr s3 = m_tr s2)
      by (inversion H3; split; reflexivity).
    clear H3. destruct E3 as [Ho3 Ht3].
    apply bind_inl in H. destruct H as (s4 & u4 & Hm4 & H).
    assert (Ho4 := K_raise_meta _ (@i_old ctx) _ _ _ _ Hm4).
    assert (Ht4 : m_tr s4 = ObMeta (MEntered (s_name st)) :: m_tr s3).
    { unfold Interp.raise_meta in Hm4.
      destruct (emit (i_time (m_i s3)) (MEntered (s_name st)) (m_x s3)) as [x' [e|]];
        inversion Hm4; reflexivity. }
    assert (E4 : s' = s4 /\ a = sent) by (inversion H; auto). destruct E4; subst s4 sent.
    assert (Eold : i_old (m_i s') = contract_old CPre o (s_post st) (s_inv st) (m_i s))
      by (unfold o; congruence).
    split; [exact Eold|]. split.
    - assert (Hex : exists c, m_tr s2 = ObExec c (Some a) :: m_tr s1).
      { destruct (s_on_entry st) as [cd|].
        - destruct (exec_code (mk_call (m_i s1) CEntry (OState (s_name st)) 0 (Some cd) None) (i_ctx (m_i s1)))
            as [[ctx' sent']|]; destruct H2 as [Hs Hr]; [|discriminate].
          inversion Hr; subst. eexists; reflexivity.
        - destruct H2 as [Hs Hr]. inversion Hr; subst. eexists; reflexivity. }
      destruct Hex as (c & Hex). exists new1, c. split; [congruence|].
      eapply Forall_impl; [|exact Hf1]. intros x (idx & cd & E). subst x. rewrite Hc1.
      eexists. split; [reflexivity|]. apply call_is_mk.
    - intros Hig Hne. unfold ig in Hig.
      assert (E : contract_old CPre o (s_post st) (s_inv st) (m_i s)
                  = old_set o (i_ctx (m_i s)) (i_old (m_i s))).
      { unfold contract_old. rewrite Hig.
        destruct (s_inv st) as [|x l]; [destruct (s_post st) as [|y l2]|]; auto.
        destruct Hne; congruence. }
      rewrite Eold, E. split; auto. split; [apply old_lookup_set_same|].
      intros o' Hne'. apply old_lookup_set_other; auto.
  Qed.

  (* "i_old is written only by the CPre branch of contract": every other piece keeps it *)
  Theorem C08_old_written_only_by_pre :
    (forall k o cd ev s, old_keeps (run_code k o cd ev) s) /\
    (forall k o idx cd ev s, old_keeps (eval_cond k o idx cd ev) s) /\
    (forall k o pre post inv ev s, k <> CPre -> old_keeps (contract k o pre post inv ev) s) /\
    (forall o pre post inv ev s s' r,
        contract CPre o pre post inv ev s = (s', r) ->
        i_old (m_i s') = contract_old CPre o post inv (m_i s)) /\
    (forall active st s, old_keeps (record_history active st) s) /\
    (forall m s, old_keeps (raise_meta m) s) /\
    (forall e s, old_keeps (raise_event e) s) /\
    (forall s, old_keeps compute_steps s) /\
    (forall s, old_keeps consume_event s) /\
    (forall ev s, old_keeps (check_invariants ev) s).
  Proof.
    repeat split.
    - intros k o cd ev s. apply K_run_code. intros c i; reflexivity.
    - intros k o idx cd ev s. apply K_eval_cond.
    - intros k o pre post inv ev s Hk. apply K_same. intros s' r H. eapply contract_keeps; eauto.
    - intros o pre post inv ev s s' r H. apply contract_obs in H.
      destruct H as (new & _ & _ & _ & Ho). exact Ho.
    - intros active st s. apply K_record_history. intros m i; reflexivity.
    - intros m s. apply K_raise_meta.
    - intros e s. apply K_raise_event. intros e0 i. unfold queue_event. destruct (e_kind e0); reflexivity.
    - intros s. apply K_compute_steps. intros b i; reflexivity.
    - intros s. apply K_consume_event; intros q i; reflexivity.
    - intros ev s. apply K_same. intros s' r. apply check_invariants_keeps.
  Qed.

  (* ================================================================ the documented wording of the slots *)
  (* The model calls the evaluator with the name stored in the state object (s_name st); the
     documentation speaks of the names listed in the MicroStep.  Both agree when every state
     object is registered under its own name (names_coherent). *)
  Definition exit_slots_doc (ev : option event) (n : name) : list slot :=
    match state_for sc n with
    | Some st => [SExec CExit (OState n) (s_on_exit st) None; SConds CPost (OState n) (s_post st) ev]
    | None => []
    end.
  Definition enter_slots_doc (ev : option event) (n : name) : list slot :=
    match state_for sc n with
    | Some st => [SConds CPre (OState n) (s_pre st) ev; SExec CEntry (OState n) (s_on_entry st) None]
    | None => []
    end.
  Definition slots_of_micro_doc (step : microstep) : list slot :=
    flat_map (exit_slots_doc (ms_event step)) (ms_exited step) ++
    match ms_trans step with Some i => trans_slots (ms_event step) i | None => [] end ++
    flat_map (enter_slots_doc (ms_event step)) (ms_entered step).
  Definition inv_slots_doc (cfg : list name) (ev : option event) : list slot :=
    flat_map (fun n => match state_for sc n with
                       | Some st => [SConds CInv (OState n) (s_inv st) ev]
                       | None => []
                       end)
             (configuration sc cfg).

  Lemma exit_slots_doc_eq ev l : names_coherent -> forall sts,
    states_for sc l = Some sts -> flat_map (exit_slots ev) sts = flat_map (exit_slots_doc ev) l.
  Proof.
    intros Hn. induction l as [|n l IH]; intros sts H; simpl in H.
    - inversion H; auto.
    - destruct (state_for sc n) as [st|] eqn:E; [|discriminate].
      destruct (states_for sc l) as [r|]; [|discriminate]. inversion H; subst. simpl.
      assert (Hd : exit_slots_doc ev n = exit_slots ev st)
        by (unfold exit_slots_doc, exit_slots; rewrite E, (Hn _ _ E); reflexivity).
      rewrite Hd, (IH r eq_refl). reflexivity.
  Qed.

  Lemma enter_slots_doc_eq ev l : names_coherent -> forall sts,
    states_for sc l = Some sts -> flat_map (enter_slots ev) sts = flat_map (enter_slots_doc ev) l.
  Proof.
    intros Hn. induction l as [|n l IH]; intros sts H; simpl in H.
    - inversion H; auto.
    - destruct (state_for sc n) as [st|] eqn:E; [|discriminate].
      destruct (states_for sc l) as [r|]; [|discriminate]. inversion H; subst. simpl.
      assert (Hd : enter_slots_doc ev n = enter_slots ev st)
        by (unfold enter_slots_doc, enter_slots; rewrite E, (Hn _ _ E); reflexivity).
      rewrite Hd, (IH r eq_refl). reflexivity.
  Qed.

  Lemma slots_of_micro_doc_eq step :
    names_coherent ->
    states_for sc (ms_exited step) <> None -> states_for sc (ms_entered step) <> None ->
    slots_of_micro step = slots_of_micro_doc step.
  Proof.
    intros Hn Hx He. unfold slots_of_micro, slots_of_micro_doc, opt_states.
    destruct (states_for sc (ms_exited step)) as [xs|] eqn:Ex; [|congruence].
    destruct (states_for sc (ms_entered step)) as [es|] eqn:Ee; [|congruence].
    rewrite (exit_slots_doc_eq _ _ Hn _ Ex), (enter_slots_doc_eq _ _ Hn _ Ee). reflexivity.
  Qed.

  Lemma inv_slots_doc_eq cfg ev : names_coherent -> inv_slots cfg ev = inv_slots_doc cfg ev.
  Proof.
    intros Hn. unfold inv_slots, inv_slots_doc. apply flat_map_ext. intros n.
    destruct (state_for sc n) as [st|] eqn:E; auto. rewrite (Hn _ _ E). reflexivity.
  Qed.

  Lemma chain_slots_doc s l s' :
    names_coherent -> chain s l s' ->
    flat_map slots_of_micro l = flat_map slots_of_micro_doc l.
  Proof.
    intros Hn H. induction H as [s|step s s1 a l s2 Ha H IH]; simpl; auto.
    rewrite IH. f_equal.
    assert (Hr := apply_step_result _ _ _ _ Ha).
    apply apply_step_cfg in Ha. destruct Ha as (_ & _ & Hx & He).
    rewrite Hr. apply slots_of_micro_doc_eq; auto.
  Qed.

  (* C08_apply_step_points / C08_execute_once_points with the documented wording *)
  Theorem C08_apply_step_points_doc step s s' a :
    names_coherent -> ig s = false ->
    apply_step step s = (s', inl a) ->
    exists new, m_tr s' = new ++ m_tr s /\
                realises false (slots_of_micro_doc step) (calls (rev new)) RDone.
  Proof.
    intros Hn Hig H. assert (H0 := H). apply C08_apply_step_complete in H; auto.
    destruct H as (new & Ht & Hr & _). exists new. split; auto.
    apply apply_step_cfg in H0. destruct H0 as (_ & _ & Hx & He).
    rewrite <- slots_of_micro_doc_eq; auto.
  Qed.

  Theorem C08_execute_once_points_doc fuel now s s' t steps :
    names_coherent -> ig s = false ->
    execute_once fuel now s = (s', inl (Some (t, steps))) ->
    t = now /\
    exists new guards r1 r2,
      m_tr s' = new ++ m_tr s /\
      calls (rev new) = guards ++ r1 ++ r2 /\
      Forall guard_ok guards /\
      realises false (flat_map slots_of_micro_doc steps) r1 RDone /\
      realises false (inv_slots_doc (i_config (m_i s')) (macro_event steps)) r2 RDone /\
      i_config (m_i s') = fold_left cfg_step_doc steps (i_config (m_i s)).
  Proof.
    intros Hn Hig H. assert (H0 := H). assert (H1 := H).
    apply C08_execute_once_points in H.
    destruct H as (Et & Hne & new & gs & r1 & r2 & Ht & Ec & Hg & R1 & R2 & _).
    split; auto. exists new, gs, r1, r2. rewrite Hig in *.
    apply execute_once_chain in H0.
    destruct H0 as (s1 & s2 & l & Hc & _ & _ & _ & _ & [[E0 _]|(t0 & E0)]); [discriminate|].
    inversion E0; subst l.
    rewrite <- (chain_slots_doc _ _ _ Hn Hc), <- inv_slots_doc_eq; auto.
    repeat split; auto.
    apply C03_macro_config in H1. destruct H1 as [_ H1]. apply H1; auto.
  Qed.

  (* "even an empty step checks invariants" -- of the unchanged configuration *)
  Theorem C08_execute_once_empty_config fuel now s s' :
    execute_once fuel now s = (s', inl None) ->
    i_config (m_i s') = i_config (m_i s) /\
    exists new guards r2,
      m_tr s' = new ++ m_tr s /\
      calls (rev new) = guards ++ r2 /\
      Forall guard_ok guards /\
      realises (ig s) (inv_slots (i_config (m_i s)) None) r2 RDone.
  Proof.
    intros H. assert (Hc := C03_macro_config _ _ _ _ _ H). destruct Hc as [Hc _]. simpl in Hc.
    split; auto. apply C08_execute_once_empty in H.
    destruct H as (new & gs & r2 & Ht & Ec & Hg & Hr & _). rewrite Hc in Hr.
    exists new, gs, r2. auto.
  Qed.

  (* ================================================================ what "a prefix ending with the
     failing evaluation" means, spelled out for a false condition *)
  Lemma plays_conds_false k0 o0 ev i cds t k o idx :
    plays_conds k0 o0 ev i cds t (RFalse k o idx) ->
    k0 = k /\ o0 = o /\
    exists n cd, nth_error cds n = Some cd /\ idx = i + n /\ length t = S n.
  Proof.
    intros H. remember (RFalse k o idx) as out eqn:Eo.
    induction H as [i|i cd cds c tr out Hc H IH|i cd cds c Hc|i cd cds c Hc]; try discriminate.
    - destruct (IH Eo) as (Ek & Eo' & n & cd' & Hn & Ei & Hl).
      split; auto. split; auto. exists (S n), cd'. simpl.
      split; [exact Hn|]. split; [lia|]. rewrite Hl. reflexivity.
    - inversion Eo; subst. split; auto. split; auto. exists 0, cd. simpl.
      split; [reflexivity|]. split; [lia|reflexivity].
  Qed.

  (* the slot list splits into slots played completely, then the slot SConds k o cds ev in which
     condition number idx was evaluated to false, then slots that were never started *)
  Theorem realises_false_inv ig0 sl tr k o idx :
    realises ig0 sl tr (RFalse k o idx) ->
    ig0 = false /\
    exists sl1 cds ev sl2 t1 t2,
      sl = sl1 ++ SConds k o cds ev :: sl2 /\ tr = t1 ++ t2 /\
      realises ig0 sl1 t1 RDone /\
      plays_conds k o ev 0 cds t2 (RFalse k o idx) /\
      (exists cd, nth_error cds idx = Some cd) /\ length t2 = S idx.
  Proof.
    intros H. remember (RFalse k o idx) as out0 eqn:Eo.
    induction H as [ | sl | k1 o1 cd ev c sent sl tr out1 Hc H1 IH | k1 o1 cd ev c sl Hc
                     | k1 o1 cds ev sl tr out1 Hig H1 IH | k1 o1 cds ev sl ta tb out1 Hig Hp H1 IH
                     | k1 o1 cds ev sl ta out1 Hig Hp Hne1 | sl tr out1 H1 IH
                     | c b sl tr out1 Hk Hi H1 IH | c sl Hk Hi ]; try discriminate.
    - destruct (IH Eo) as (Eig & sl1 & cds & ev' & sl2 & t1 & t2 & Es & Et & R1 & P2 & Hn & Hl).
      split; auto. exists (SExec k1 o1 cd ev :: sl1), cds, ev', sl2, (ObExec c (Some sent) :: t1), t2.
      subst sl tr. repeat split; auto. apply R_exec_ok; auto.
    - destruct (IH Eo) as (Eig & sl1 & cds' & ev' & sl2 & t1 & t2 & Es & Et & R1 & P2 & Hn & Hl).
      split; auto. exists (SConds k1 o1 cds ev :: sl1), cds', ev', sl2, t1, t2.
      subst sl tr. repeat split; auto. apply R_conds_ig; auto.
    - destruct (IH Eo) as (Eig & sl1 & cds' & ev' & sl2 & t1 & t2 & Es & Et & R1 & P2 & Hn & Hl).
      split; auto. exists (SConds k1 o1 cds ev :: sl1), cds', ev', sl2, (ta ++ t1), t2.
      subst sl tb. rewrite app_assoc. repeat split; auto. apply R_conds_ok; auto.
    - subst out1. split; auto.
      destruct (plays_conds_false _ _ _ _ _ _ _ _ _ Hp) as (Ek & Eo' & n & cd & Hn & Ei & Hl).
      subst k1 o1. simpl in Ei. subst n.
      exists [], cds, ev, sl, [], ta. repeat split; auto. apply R_done. exists cd; auto.
    - destruct (IH Eo) as (Eig & sl1 & cds' & ev' & sl2 & t1 & t2 & Es & Et & R1 & P2 & Hn & Hl).
      split; auto. exists (SGuards :: sl1), cds', ev', sl2, t1, t2.
      subst sl tr. repeat split; auto. apply R_guards_skip; auto.
    - destruct (IH Eo) as (Eig & sl1 & cds' & ev' & sl2 & t1 & t2 & Es & Et & R1 & P2 & Hn & Hl).
      split; auto. destruct sl1 as [|x sl1]; [discriminate|]. inversion Es; subst x.
      exists (SGuards :: sl1), cds', ev', sl2, (ObEval c (Some b) :: t1), t2.
      subst tr. repeat split; auto. apply R_guards_step; auto.
  Qed.

End Trace.

(* ------------------------------------------------------------------ assumptions *)
Print Assumptions C08_apply_step_points.
Print Assumptions C08_apply_step_complete.
Print Assumptions C08_first_failure_micro.
Print Assumptions C08_first_raise_micro.
Print Assumptions C03_sent_truth.
Print Assumptions C03_config_truth_gen.
Print Assumptions C03_config_truth.
Print Assumptions C08_execute_once_run.
Print Assumptions C08_execute_once_points.
Print Assumptions C08_execute_once_empty.
Print Assumptions C08_execute_once_empty_config.
Print Assumptions realises_false_inv.
Print Assumptions C03_trace_truth.
Print Assumptions C03_macro_config.
Print Assumptions C08_first_failure.
Print Assumptions C08_first_raise.
Print Assumptions C08_old_at_eval.
Print Assumptions C08_old_transition.
Print Assumptions C08_old_state_entry.
Print Assumptions C08_old_exit.
Print Assumptions C08_old_invariants.
Print Assumptions C08_old_written_only_by_pre.
Print Assumptions C09_ignore_silent_micro.
Print Assumptions C09_ignore_silent.
Print Assumptions C09_flag_constant.
Print Assumptions C08_apply_step_points_doc.
Print Assumptions C08_execute_once_points_doc.

(* ------------------------------------------------------------------ non-vacuity *)
Module TraceExample.
  Open Scope string_scope.

  (* contexts are counters of executed code fragments *)
  Definition ectx := nat.
  Definition ex_exec (c : call ectx) (n : ectx) : option (ectx * list event) :=
    match cl_code c with
    | Some "boom" => None
    | Some "act" => Some (S n, [mkEvent Internal "ping" []])
    | _ => Some (S n, [])
    end.
  Definition ex_eval (c : call ectx) (n : ectx) : option bool :=
    match cl_code c with
    | Some "false" => Some false
    | Some "raise" => None
    | _ => Some true
    end.
  Definition ex_emit (_ : Z) (_ : meta) (x : unit) : unit * option err := (x, None).

  Definition st_root := mkState "root" KCompound (Some "a") None None None [] [] [].
  Definition st_a := mkState "a" KBasic None None (Some "ea") (Some "xa") ["pa"] ["qa"] ["ia"].
  Definition st_b (inv : list code) := mkState "b" KBasic None None (Some "eb") None ["pb"] [] inv.
  Definition tr0 := mkTrans "a" (Some "b") (Some "go") (Some "g") (Some "act") 0 ["tp"] ["tq"] ["ti"].
  Definition ex_chart (invb : list code) : chart :=
    mkChart "ex" None None
      [("root", st_root); ("a", st_a); ("b", st_b invb)]
      [("root", None); ("a", Some "root"); ("b", Some "root")]
      [(None, ["root"]); (Some "root", ["a"; "b"]); (Some "a", []); (Some "b", [])]
      [tr0].

  (* first call: initialisation; second call: the event "go" fires a -> b *)
  Definition run1 (invb : list code) (ign : bool) :=
    execute_once ectx unit ex_exec ex_eval ex_emit (ex_chart invb) 10 0
      (mkM (init_istate 0 0 ign 0) tt []).
  Definition start2 (invb : list code) (ign : bool) : mstate ectx unit :=
    let s1 := fst (run1 invb ign) in
    let s1' := fst (queue ectx unit (mkEvent External "go" []) s1) in
    mkM (m_i s1') tt [].
  (* a notation, so that statements about run2 are literally statements about execute_once *)
  Notation run2 invb ign :=
    (execute_once ectx unit ex_exec ex_eval ex_emit (ex_chart invb) 10 1 (start2 invb ign)).

  Definition summary (x : obs ectx) : string * ckind * owner * nat * option bool :=
    match x with
    | ObExec c r => ("exec", cl_kind c, cl_owner c, cl_idx c,
                     match r with Some _ => Some true | None => None end)
    | ObEval c r => ("eval", cl_kind c, cl_owner c, cl_idx c, r)
    | ObMeta _ => ("meta", CGuard, OTrans 0, 0, None)
    | ObSelected _ => ("sel", CGuard, OTrans 0, 0, None)
    end.
  Definition trace_of {A} (r : mstate ectx unit * A) :=
    map summary (calls ectx (rev (m_tr (fst r)))).

  Definition go := mkEvent External "go" [].
  Definition step_ab :=
    mkMicro (Some go) (Some 0) ["b"] ["a"] [mkEvent Internal "ping" []].

  (* initialisation: entry of root (no code, still a call), then a's precondition, entry code and,
     at the end of the step, a's invariant *)
  Example ex_run1 :
    trace_of (run1 ["ib"] false) =
      [("exec", CEntry, OState "root", 0, Some true);
       ("eval", CPre, OState "a", 0, Some true);
       ("exec", CEntry, OState "a", 0, Some true);
       ("eval", CInv, OState "a", 0, Some true)].
  Proof. vm_compute. reflexivity. Qed.

  (* a transition step: guard block; exit a + post(a); pre, inv, action, post, inv of the
     transition; pre(b) + entry b; invariants of the final configuration (root has none) *)
  Example ex_run2 :
    trace_of (run2 ["ib"] false) =
      [("eval", CGuard, OTrans 0, 0, Some true);
       ("exec", CExit, OState "a", 0, Some true);
       ("eval", CPost, OState "a", 0, Some true);
       ("eval", CPre, OTrans 0, 0, Some true);
       ("eval", CInv, OTrans 0, 0, Some true);
       ("exec", CAction, OTrans 0, 0, Some true);
       ("eval", CPost, OTrans 0, 0, Some true);
       ("eval", CInv, OTrans 0, 0, Some true);
       ("eval", CPre, OState "b", 0, Some true);
       ("exec", CEntry, OState "b", 0, Some true);
       ("eval", CInv, OState "b", 0, Some true)]
    /\ snd (run2 ["ib"] false) = inl (Some (1%Z, [step_ab])).
  Proof. vm_compute. split; reflexivity. Qed.

  (* the hypotheses of the theorems are satisfiable: instance of C08_execute_once_points *)
  Lemma points_instance (sc : chart) fuel now (s : mstate ectx unit) t steps :
    ig ectx unit s = false ->
    snd (execute_once ectx unit ex_exec ex_eval ex_emit sc fuel now s) = inl (Some (t, steps)) ->
    let s' := fst (execute_once ectx unit ex_exec ex_eval ex_emit sc fuel now s) in
    exists new guards r1 r2,
      m_tr s' = (new ++ m_tr s)%list /\
      calls ectx (rev new) = (guards ++ r1 ++ r2)%list /\
      Forall (guard_ok ectx) guards /\
      realises ectx false (flat_map (slots_of_micro sc) steps) r1 RDone /\
      realises ectx false (inv_slots sc (i_config (m_i s')) (macro_event steps)) r2 RDone.
  Proof.
    intros Hig H s'.
    assert (E : execute_once ectx unit ex_exec ex_eval ex_emit sc fuel now s
                = (s', inl (Some (t, steps)))).
    { rewrite <- H. apply surjective_pairing. }
    apply C08_execute_once_points in E. rewrite Hig in E.
    destruct E as (_ & _ & new & gs & r1 & r2 & Ht & Ec & Hg & R1 & R2 & _).
    exists new, gs, r1, r2. repeat split; assumption.
  Qed.

  Example ex_points_instance :
    let s := start2 ["ib"] false in
    let s' := fst (run2 ["ib"] false) in
    exists new guards r1 r2,
      m_tr s' = (new ++ m_tr s)%list /\
      calls ectx (rev new) = (guards ++ r1 ++ r2)%list /\
      Forall (guard_ok ectx) guards /\
      realises ectx false (flat_map (slots_of_micro (ex_chart ["ib"])) [step_ab]) r1 RDone /\
      realises ectx false (inv_slots (ex_chart ["ib"]) (i_config (m_i s')) (macro_event [step_ab])) r2 RDone.
  Proof.
    apply (points_instance (ex_chart ["ib"]) 10 1%Z (start2 ["ib"] false) 1%Z [step_ab]).
    - vm_compute. reflexivity.
    - exact (proj2 ex_run2).
  Qed.

  Lemma ex_emit_clean : emit_clean unit ex_emit.
  Proof. intros e (t & m & x & H). discriminate. Qed.

  (* first failure: the second invariant of b is false; the third one is never evaluated, the
     error names kind/owner/index, and the failing evaluation is the newest observation *)
  Example ex_first_failure :
    trace_of (run2 ["ib"; "false"; "never"] false) =
      [("eval", CGuard, OTrans 0, 0, Some true);
       ("exec", CExit, OState "a", 0, Some true);
       ("eval", CPost, OState "a", 0, Some true);
       ("eval", CPre, OTrans 0, 0, Some true);
       ("eval", CInv, OTrans 0, 0, Some true);
       ("exec", CAction, OTrans 0, 0, Some true);
       ("eval", CPost, OTrans 0, 0, Some true);
       ("eval", CInv, OTrans 0, 0, Some true);
       ("eval", CPre, OState "b", 0, Some true);
       ("exec", CEntry, OState "b", 0, Some true);
       ("eval", CInv, OState "b", 0, Some true);
       ("eval", CInv, OState "b", 1, Some false)]
    /\ snd (run2 ["ib"; "false"; "never"] false) = inr (EContract CInv (OState "b") 1)
    /\ option_map summary (hd_error (m_tr (fst (run2 ["ib"; "false"; "never"] false))))
       = Some ("eval", CInv, OState "b", 1, Some false)
    (* __old__ of b's invariant = the context (3 fragments executed) in which b's preconditions
       were evaluated, before its entry code made it 4 *)
    /\ match hd_error (m_tr (fst (run2 ["ib"; "false"; "never"] false))) with
       | Some (ObEval c _) => cl_old c = Some 3
       | _ => False
       end
    /\ i_ctx (m_i (fst (run2 ["ib"; "false"; "never"] false))) = 4.
  Proof. vm_compute. repeat split; reflexivity. Qed.

  (* ignore_contract: same chart, nothing but the guard is evaluated, no contract error *)
  Example ex_ignore :
    trace_of (run2 ["ib"; "false"; "never"] true) =
      [("eval", CGuard, OTrans 0, 0, Some true);
       ("exec", CExit, OState "a", 0, Some true);
       ("exec", CAction, OTrans 0, 0, Some true);
       ("exec", CEntry, OState "b", 0, Some true)]
    /\ snd (run2 ["ib"; "false"; "never"] true) = inl (Some (1%Z, [step_ab])).
  Proof. vm_compute. split; reflexivity. Qed.

  (* Why C03_config_truth needs names_coherent: a state object named "b" registered under the key
     "a".  Entering "a" puts "b" into the configuration (the model, like sismic, uses the name
     stored in the object), so the fold over the names of the MicroStep gives another result. *)
  Definition bad_chart : chart :=
    mkChart "bad" None None
      [("a", mkState "b" KBasic None None None None [] [] [])]
      [("a", None)] [(None, ["a"])] [].
  Definition bad_step := mkMicro None None ["a"] [] [].

  Example C03_config_truth_needs_coherence :
    let r := apply_step ectx unit ex_exec ex_eval ex_emit bad_chart bad_step
               (mkM (init_istate 0 0 false 0) tt []) in
    snd r = inl bad_step /\
    i_config (m_i (fst r)) = ["b"] /\
    fold_left (fun c n => set_add n c) (ms_entered bad_step)
      (fold_left (fun c n => remove_first n c) (ms_exited bad_step) []) = ["a"].
  Proof. vm_compute. repeat split; reflexivity. Qed.
End TraceExample.
